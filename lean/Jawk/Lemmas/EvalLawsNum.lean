/-
  Property C04, part C: arithmetic (`+ * - / % abs floor ceil round`) and strings
  (`concat`, `split`, `join ∘ split`, the library-backed functions) — the laws `EvalLaws.lean` does not cover.

  As there: every law is stated for arbitrary argument EXPRESSIONS whose evaluation is a hypothesis;
  `eval … = .ok none` is the evaluator's "nothing".  Numbers go through `F64` (binary64), so the
  exact-integer laws carry the bound `< 2^53` below which every integer is a double.
-/
import Jawk.Lemmas.EvalLaws
import Jawk.Lemmas.RoundTrip
namespace Jawk.EvalLaws
open Jawk

/-! ## Dispatch for the names of this file -/
section DispatchNum
variable (ev : Ev) (args : List Expr) (ctx : Ctx)

theorem nskB_mul : callBasic ev "*" args ctx = none := rfl
theorem nskB_sub : callBasic ev "-" args ctx = none := rfl
theorem nskB_div : callBasic ev "/" args ctx = none := rfl
theorem nskB_rem : callBasic ev "%" args ctx = none := rfl
theorem nskB_abs : callBasic ev "abs" args ctx = none := rfl
theorem nskB_floor : callBasic ev "floor" args ctx = none := rfl
theorem nskB_ceil : callBasic ev "ceil" args ctx = none := rfl
theorem nskB_round : callBasic ev "round" args ctx = none := rfl
theorem nskB_concat : callBasic ev "concat" args ctx = none := rfl
theorem nskB_split : callBasic ev "split" args ctx = none := rfl
theorem nskB_stringify : callBasic ev "stringify" args ctx = none := rfl
theorem nskB_parse : callBasic ev "parse" args ctx = none := rfl
theorem nskB_env : callBasic ev "env" args ctx = none := rfl
theorem nskB_match : callBasic ev "match" args ctx = none := rfl
theorem nskB_erg : callBasic ev "extract_regex_group" args ctx = none := rfl
theorem nskB_b63 : callBasic ev "base63_decode" args ctx = none := rfl
theorem nskB_ft : callBasic ev "format_time" args ctx = none := rfl
theorem nskB_pt : callBasic ev "parse_time" args ctx = none := rfl
theorem nskB_ptz : callBasic ev "parse_time_with_zone" args ctx = none := rfl
theorem nskL_mul : callList ev "*" args ctx = none := rfl
theorem nskL_sub : callList ev "-" args ctx = none := rfl
theorem nskL_div : callList ev "/" args ctx = none := rfl
theorem nskL_rem : callList ev "%" args ctx = none := rfl
theorem nskL_abs : callList ev "abs" args ctx = none := rfl
theorem nskL_floor : callList ev "floor" args ctx = none := rfl
theorem nskL_ceil : callList ev "ceil" args ctx = none := rfl
theorem nskL_round : callList ev "round" args ctx = none := rfl
theorem nskL_concat : callList ev "concat" args ctx = none := rfl
theorem nskL_split : callList ev "split" args ctx = none := rfl
theorem nskL_stringify : callList ev "stringify" args ctx = none := rfl
theorem nskL_parse : callList ev "parse" args ctx = none := rfl
theorem nskL_env : callList ev "env" args ctx = none := rfl
theorem nskL_match : callList ev "match" args ctx = none := rfl
theorem nskL_erg : callList ev "extract_regex_group" args ctx = none := rfl
theorem nskL_b63 : callList ev "base63_decode" args ctx = none := rfl
theorem nskL_ft : callList ev "format_time" args ctx = none := rfl
theorem nskL_pt : callList ev "parse_time" args ctx = none := rfl
theorem nskL_ptz : callList ev "parse_time_with_zone" args ctx = none := rfl
theorem nskO_mul : callObject ev "*" args ctx = none := rfl
theorem nskO_sub : callObject ev "-" args ctx = none := rfl
theorem nskO_div : callObject ev "/" args ctx = none := rfl
theorem nskO_rem : callObject ev "%" args ctx = none := rfl
theorem nskO_abs : callObject ev "abs" args ctx = none := rfl
theorem nskO_floor : callObject ev "floor" args ctx = none := rfl
theorem nskO_ceil : callObject ev "ceil" args ctx = none := rfl
theorem nskO_round : callObject ev "round" args ctx = none := rfl
theorem nskO_concat : callObject ev "concat" args ctx = none := rfl
theorem nskO_split : callObject ev "split" args ctx = none := rfl
theorem nskO_stringify : callObject ev "stringify" args ctx = none := rfl
theorem nskO_parse : callObject ev "parse" args ctx = none := rfl
theorem nskO_env : callObject ev "env" args ctx = none := rfl
theorem nskO_match : callObject ev "match" args ctx = none := rfl
theorem nskO_erg : callObject ev "extract_regex_group" args ctx = none := rfl
theorem nskO_b63 : callObject ev "base63_decode" args ctx = none := rfl
theorem nskO_ft : callObject ev "format_time" args ctx = none := rfl
theorem nskO_pt : callObject ev "parse_time" args ctx = none := rfl
theorem nskO_ptz : callObject ev "parse_time_with_zone" args ctx = none := rfl
theorem nskO_join : callObject ev "join" args ctx = none := rfl
theorem nskN_concat : callNumber ev "concat" args ctx = none := rfl
theorem nskN_split : callNumber ev "split" args ctx = none := rfl
theorem nskN_stringify : callNumber ev "stringify" args ctx = none := rfl
theorem nskN_parse : callNumber ev "parse" args ctx = none := rfl
theorem nskN_env : callNumber ev "env" args ctx = none := rfl
theorem nskN_match : callNumber ev "match" args ctx = none := rfl
theorem nskN_erg : callNumber ev "extract_regex_group" args ctx = none := rfl
theorem nskN_b63 : callNumber ev "base63_decode" args ctx = none := rfl
theorem nskN_ft : callNumber ev "format_time" args ctx = none := rfl
theorem nskN_pt : callNumber ev "parse_time" args ctx = none := rfl
theorem nskN_ptz : callNumber ev "parse_time_with_zone" args ctx = none := rfl

end DispatchNum

/-- `call_simp` of `EvalLaws.lean` for the function names of this file -/
macro "ncall_simp" "[" ts:Lean.Parser.Tactic.simpLemma,* "]" : tactic =>
  `(tactic| (
    simp only [eval, callFn, nskB_mul, nskB_sub, nskB_div, nskB_rem, nskB_abs, nskB_floor, nskB_ceil, nskB_round,
      nskB_concat, nskB_split, nskB_stringify, nskB_parse, nskB_env, nskB_match, nskB_erg, nskB_b63, nskB_ft, nskB_pt,
      nskB_ptz, nskL_mul, nskL_sub, nskL_div, nskL_rem, nskL_abs, nskL_floor, nskL_ceil, nskL_round,
      nskL_concat, nskL_split, nskL_stringify, nskL_parse, nskL_env, nskL_match, nskL_erg, nskL_b63, nskL_ft, nskL_pt,
      nskL_ptz, nskO_mul, nskO_sub, nskO_div, nskO_rem, nskO_abs, nskO_floor, nskO_ceil, nskO_round,
      nskO_concat, nskO_split, nskO_stringify, nskO_parse, nskO_env, nskO_match, nskO_erg, nskO_b63, nskO_ft, nskO_pt,
      nskO_ptz, nskN_concat, nskN_split, nskN_stringify, nskN_parse, nskN_env, nskN_match, nskN_erg, nskN_b63,
      nskN_ft, nskN_pt, nskN_ptz]
    simp only [callNumber, callString,
      applyArg, List.getElem?_cons_zero, List.getElem?_cons_succ, List.getElem?_nil, List.length_cons, List.length_nil,
      bind, Except.bind, pure, Except.pure, usizeArg, strArg, numArg, Num.toUsize?, jusize, jbool, $ts,*]))

/-! ## Exact integer arithmetic in `F64` below `2^53` (helpers; not about `eval`) -/


/-- an integer below `2^53` over a power of two rounds like the integer itself -/
theorem roundRat_scale (s : Bool) (k j : Nat) (hk : k < 2 ^ 53) :
    F64.roundRat s (k * 2 ^ j) (2 ^ j) = F64.roundRat s k 1 := by
  by_cases h0 : k = 0
  · subst h0; simp [F64.roundRat]
  · have h1 := roundRat_exact s k j h0 hk
    have h2 := roundRat_exact s k 0 h0 hk
    simp only [Nat.pow_zero, Nat.mul_one] at h2
    rw [h1, h2]

set_option exponentiation.threshold 2000 in
/-- the double of an integer below `2^53`: mantissa `k * 2^t`, exponent `-t` -/
theorem roundRat_int_form (s : Bool) (k : Nat) (hk : k < 2 ^ 53) :
    ∃ t : Nat, F64.roundRat s k 1 = .fin s (k * 2 ^ t) (-(t : Int)) := by
  by_cases h0 : k = 0
  · subst h0; exact ⟨1074, by simp [F64.roundRat]⟩
  · have h2 := roundRat_exact s k 0 h0 hk
    simp only [Nat.pow_zero, Nat.mul_one] at h2
    exact ⟨_, h2⟩

theorem ofNat_form (n : Nat) (hn : n < 2 ^ 53) : ∃ t : Nat, F64.ofNat n = .fin false (n * 2 ^ t) (-(t : Int)) :=
  roundRat_int_form false n hn

/-- `F64.ofInt` of a negative integer above `-2^53` -/
theorem ofInt_neg_eq (k : Nat) (hk0 : 0 < k) : F64.ofInt (-(k : Int)) = F64.roundRat true k 1 := by
  have h : (-(k : Int)) < 0 := by omega
  simp only [F64.ofInt, h, if_true]
  congr 1
  omega

theorem ofInt_nonneg_eq (k : Nat) : F64.ofInt (k : Int) = F64.ofNat k := by
  have h : ¬ ((k : Int)) < 0 := by omega
  simp only [F64.ofInt, h, if_false, F64.ofNat]
  congr 1

/-- the product of two doubles holding naturals is exact when below `2^53` -/
theorem mul_ofNat (m n : Nat) (hm : m < 2 ^ 53) (hn : n < 2 ^ 53) (h : m * n < 2 ^ 53) :
    F64.mul (F64.ofNat m) (F64.ofNat n) = F64.ofNat (m * n) := by
  obtain ⟨p, hp⟩ := ofNat_form m hm
  obtain ⟨q, hq⟩ := ofNat_form n hn
  rw [hp, hq]
  simp only [F64.mul, toRat_scaled]
  have : m * 2 ^ p * (n * 2 ^ q) = (m * n) * 2 ^ (p + q) := by
    rw [Nat.pow_add]; ac_rfl
  rw [this, ← Nat.pow_add]
  simp only [bne_self_eq_false]
  exact roundRat_scale false (m * n) (p + q) h

/-- the difference of two doubles holding naturals `m ≥ n` is exact -/
theorem sub_ofNat_ge (m n : Nat) (hm : m < 2 ^ 53) (hnm : n ≤ m) :
    F64.sub (F64.ofNat m) (F64.ofNat n) = F64.ofNat (m - n) := by
  obtain ⟨p, hp⟩ := ofNat_form m hm
  obtain ⟨q, hq⟩ := ofNat_form n (by omega)
  rw [hp, hq]
  simp only [F64.sub, F64.neg, F64.add, toRat_scaled, F64.addRat, Bool.not_false]
  have hab : m * 2 ^ p * 2 ^ q ≥ n * 2 ^ q * 2 ^ p := by
    have : n * 2 ^ q * 2 ^ p = n * (2 ^ p * 2 ^ q) := by ac_rfl
    rw [this, Nat.mul_assoc]
    exact Nat.mul_le_mul_right _ hnm
  have hd : m * 2 ^ p * 2 ^ q - n * 2 ^ q * 2 ^ p = (m - n) * 2 ^ (p + q) := by
    rw [Nat.sub_mul, Nat.pow_add]
    congr 1 <;> ac_rfl
  simp only [show (false == true) = false from rfl, Bool.false_eq_true, if_false, hab, if_true, hd, ← Nat.pow_add,
    Bool.false_and]
  by_cases h0 : m - n = 0
  · simp [h0, F64.ofNat, F64.roundRat]
  · have hne : (m - n) * 2 ^ (p + q) ≠ 0 := Nat.mul_ne_zero h0 (Nat.pos_iff_ne_zero.1 (Nat.two_pow_pos _))
    rw [if_neg hne]
    exact roundRat_scale false (m - n) (p + q) (by omega)

/-- … and for `m < n` it is the (negative) exact difference -/
theorem sub_ofNat_lt (m n : Nat) (hn : n < 2 ^ 53) (hmn : m < n) :
    F64.sub (F64.ofNat m) (F64.ofNat n) = F64.ofInt (-((n - m : Nat) : Int)) := by
  obtain ⟨p, hp⟩ := ofNat_form m (by omega)
  obtain ⟨q, hq⟩ := ofNat_form n hn
  rw [hp, hq, ofInt_neg_eq _ (by omega)]
  simp only [F64.sub, F64.neg, F64.add, toRat_scaled, F64.addRat, Bool.not_false]
  have hab : ¬ (m * 2 ^ p * 2 ^ q ≥ n * 2 ^ q * 2 ^ p) := by
    have : n * 2 ^ q * 2 ^ p = n * (2 ^ p * 2 ^ q) := by ac_rfl
    rw [this, Nat.mul_assoc]
    have := Nat.mul_lt_mul_of_pos_right hmn (Nat.mul_pos (Nat.two_pow_pos p) (Nat.two_pow_pos q))
    omega
  have hd : n * 2 ^ q * 2 ^ p - m * 2 ^ p * 2 ^ q = (n - m) * 2 ^ (p + q) := by
    rw [Nat.sub_mul, Nat.pow_add]
    congr 1 <;> ac_rfl
  simp only [show (false == true) = false from rfl, Bool.false_eq_true, if_false, hab, hd, ← Nat.pow_add]
  have h0 : n - m ≠ 0 := by omega
  have hne : (n - m) * 2 ^ (p + q) ≠ 0 := Nat.mul_ne_zero h0 (Nat.pos_iff_ne_zero.1 (Nat.two_pow_pos _))
  rw [if_neg hne]
  exact roundRat_scale true (n - m) (p + q) (by omega)

/-- `fmod` of two doubles holding naturals is the exact remainder -/
theorem rem_ofNat (m n : Nat) (hm : m < 2 ^ 53) (hn : n < 2 ^ 53) (hn0 : 0 < n) :
    F64.rem (F64.ofNat m) (F64.ofNat n) = F64.ofNat (m % n) := by
  obtain ⟨p, hp⟩ := ofNat_form m hm
  obtain ⟨q, hq⟩ := ofNat_form n hn
  rw [hp, hq]
  have hm2 : n * 2 ^ q ≠ 0 := Nat.mul_ne_zero (by omega) (Nat.pos_iff_ne_zero.1 (Nat.two_pow_pos _))
  simp only [F64.rem, toRat_scaled, hm2, if_false]
  have hr : m * 2 ^ p * 2 ^ q % (n * 2 ^ q * 2 ^ p) = (m % n) * 2 ^ (p + q) := by
    rw [Nat.mul_assoc, Nat.mul_assoc, Nat.mul_comm (2 ^ q) (2 ^ p), ← Nat.pow_add, Nat.mul_mod_mul_right]
  rw [hr, ← Nat.pow_add]
  have hlt : m % n < 2 ^ 53 := Nat.lt_of_lt_of_le (Nat.mod_lt _ hn0) (by omega)
  by_cases h0 : m % n = 0
  · simp [h0, F64.ofNat, F64.roundRat]
  · have hne : (m % n) * 2 ^ (p + q) ≠ 0 := Nat.mul_ne_zero h0 (Nat.pos_iff_ne_zero.1 (Nat.two_pow_pos _))
    rw [if_neg hne]
    exact roundRat_scale false (m % n) (p + q) hlt


theorem ofInt_min : F64.ofInt (-(2 ^ 63)) = .fin true (2 ^ 52) 11 := by decide +kernel

/-- a negative integer above `-2^53` survives the trip through `f64` -/
theorem ofF64_negInt (k : Nat) (hk0 : 0 < k) (hk : k < 2 ^ 53) :
    Num.ofF64 (F64.roundRat true k 1) = .neg (-(k : Int)) := by
  have h0 : k ≠ 0 := by omega
  have hex := roundRat_exact true k 0 h0 hk
  simp only [Nat.pow_zero, Nat.mul_one] at hex
  generalize ht : 52 - Nat.log2 k = t at hex
  rw [hex]
  have hM : k * 2 ^ t ≠ 0 := Nat.mul_ne_zero h0 (Nat.pos_iff_ne_zero.1 (Nat.two_pow_pos _))
  have hfr : (F64.fin true (k * 2 ^ t) (-(t : Int))).fractIsZero = true := by
    unfold F64.fractIsZero
    simp [hM]
  have hlt : F64.lt (F64.fin true (k * 2 ^ t) (-(t : Int))) F64.zero = true := by
    simp [F64.lt, F64.zero, hM]
  have hle : F64.le (F64.ofInt (-(2 ^ 63))) (F64.fin true (k * 2 ^ t) (-(t : Int))) = true := by
    rw [ofInt_min]
    have h11 : (F64.fin true (2 ^ 52) 11).toRat = (2 ^ 63, 1) := by decide +kernel
    have : k * 2 ^ t * 1 < 2 ^ 63 * 2 ^ t := by
      rw [Nat.mul_one]; exact Nat.mul_lt_mul_of_pos_right (by omega) (Nat.two_pow_pos t)
    simp only [F64.le, F64.lt, hM, show (2 : Nat) ^ 52 ≠ 0 by decide, and_false, if_false, F64.cmpMag,
      toRat_scaled, h11, Nat.compare_eq_gt.2 this]
    rfl
  have hi : (F64.fin true (k * 2 ^ t) (-(t : Int))).toI64 = -(k : Int) := by
    simp only [F64.toI64, toRat_scaled, if_true]
    have hq : ((k * 2 ^ t : Nat) : Int) / ((2 ^ t : Nat) : Int) = (k : Int) := by
      rw [← Int.natCast_ediv, Nat.mul_div_cancel _ (Nat.two_pow_pos t)]
    rw [hq, if_neg (by omega)]
  rw [ofF64_neg _ hfr hlt hle, hi]

theorem ofF64_ofInt_neg (k : Nat) (hk0 : 0 < k) (hk : k < 2 ^ 53) :
    Num.ofF64 (F64.ofInt (-(k : Int))) = .neg (-(k : Int)) := by
  have h : (-(k : Int)) < 0 := by omega
  have h2 : (-(k : Int)).natAbs = k := by omega
  simp only [F64.ofInt, h, if_true, h2]
  exact ofF64_negInt k hk0 hk


theorem ofNat_isFinite_lt53 (k : Nat) (hk : k < 2 ^ 53) : (F64.ofNat k).isFinite = true := by
  obtain ⟨t, ht⟩ := ofNat_form k hk
  rw [ht]; rfl

theorem jnumFinite_ofNat_exact (k : Nat) (hk : k < 2 ^ 53) : jnumFinite (F64.ofNat k) = some (.num (.pos k)) := by
  simp only [jnumFinite, ofNat_isFinite_lt53 k hk, if_true, jnum, ofF64_ofNat k hk]

theorem jnumFinite_negInt (k : Nat) (hk0 : 0 < k) (hk : k < 2 ^ 53) :
    jnumFinite (F64.ofInt (-(k : Int))) = some (.num (.neg (-(k : Int)))) := by
  have hf : (F64.ofInt (-(k : Int))).isFinite = true := by
    rw [ofInt_neg_eq k hk0]
    obtain ⟨t, ht⟩ := roundRat_int_form true k hk
    rw [ht]; rfl
  simp only [jnumFinite, hf, if_true, jnum, ofF64_ofInt_neg k hk0 hk]

theorem fract_scaled (s : Bool) (k t : Nat) : (F64.fin s (k * 2 ^ t) (-(t : Int))).fractIsZero = true := by
  unfold F64.fractIsZero
  by_cases hM : k * 2 ^ t = 0
  · simp [hM]
  · simp [hM]

/-- a double holding an integer is its own `floor`, `ceil`, `round` -/
theorem floor_of_fract (f : F64) (h : f.fractIsZero = true) : f.floor = f := by
  cases f <;> simp_all [F64.floor]
theorem ceil_of_fract (f : F64) (h : f.fractIsZero = true) : f.ceil = f := by
  cases f <;> simp_all [F64.ceil]
theorem round_of_fract (f : F64) (h : f.fractIsZero = true) : f.round = f := by
  cases f <;> simp_all [F64.round]

theorem ofNat_fract (k : Nat) (hk : k < 2 ^ 53) : (F64.ofNat k).fractIsZero = true := by
  obtain ⟨t, ht⟩ := ofNat_form k hk
  rw [ht]; exact fract_scaled _ _ _

theorem ofInt_neg_fract (k : Nat) (hk0 : 0 < k) (hk : k < 2 ^ 53) : (F64.ofInt (-(k : Int))).fractIsZero = true := by
  rw [ofInt_neg_eq k hk0]
  obtain ⟨t, ht⟩ := roundRat_int_form true k hk
  rw [ht]; exact fract_scaled _ _ _

theorem abs_ofNat (k : Nat) (hk : k < 2 ^ 53) : (F64.ofNat k).abs = F64.ofNat k := by
  obtain ⟨t, ht⟩ := ofNat_form k hk
  rw [ht]; rfl

theorem neg_roundRat_int (s : Bool) (k : Nat) (hk0 : 0 < k) (hk : k < 2 ^ 53) :
    (F64.roundRat s k 1).neg = F64.roundRat (!s) k 1 := by
  have h1 := roundRat_exact s k 0 (by omega) hk
  have h2 := roundRat_exact (!s) k 0 (by omega) hk
  simp only [Nat.pow_zero, Nat.mul_one] at h1 h2
  rw [h1, h2]; rfl

theorem abs_ofInt_neg (k : Nat) (hk0 : 0 < k) (hk : k < 2 ^ 53) : (F64.ofInt (-(k : Int))).abs = F64.ofNat k := by
  rw [ofInt_neg_eq k hk0]
  have h1 := roundRat_exact true k 0 (by omega) hk
  have h2 := roundRat_exact false k 0 (by omega) hk
  simp only [Nat.pow_zero, Nat.mul_one] at h1 h2
  rw [F64.ofNat, h1, h2]; rfl

/-- `0 - (-k) = k` -/
theorem sub_zero_ofInt_neg (k : Nat) (hk0 : 0 < k) (hk : k < 2 ^ 53) :
    F64.sub F64.zero (F64.ofInt (-(k : Int))) = F64.ofNat k := by
  rw [F64.sub, ofInt_neg_eq k hk0, neg_roundRat_int true k hk0 hk]
  exact zero_add_ofNat k hk


/-- what `From<f64>` makes of a double is that double, when it stays a float -/
theorem ofF64_flt_eq (f g : F64) (h : Num.ofF64 f = .flt g) : g = f := by
  unfold Num.ofF64 at h
  split at h
  · split at h
    · exact Num.noConfusion h
    · split at h
      · exact Num.noConfusion h
      · injection h with h; exact h.symm
  · injection h with h; exact h.symm

/-- a result of `from_finite` is a number, and never an infinity or a NaN -/
theorem jnumFinite_finite (f : F64) (v : JV) (h : jnumFinite f = some v) :
    ∃ n, v = .num n ∧ ∀ g, n = .flt g → g.isFinite = true := by
  unfold jnumFinite at h
  split at h
  · rename_i hf
    simp only [jnum, Option.some.injEq] at h
    refine ⟨_, h.symm, ?_⟩
    intro g hg
    rw [ofF64_flt_eq f g hg]; exact hf
  · cases h

/-- an overflow (or an invalid operation) is nothing -/
theorem jnumFinite_eq_none (f : F64) : jnumFinite f = none ↔ f.isFinite = false := by
  unfold jnumFinite
  cases h : f.isFinite <;> simp [jnum]


/-- the loop of the n-ary functions: arguments that are numbers are folded in, the first one that is not ends it with nothing -/
theorem foldArgs_num_stop (ev : Ev) (ctx : Ctx) (op : F64 → F64 → F64) (fin : F64 → Option JV)
    (pre post : List Expr) (e : Expr) (w : Option JV) (s : F64)
    (hpre : ∀ e' ∈ pre, ∃ x : Num, ev e' ctx = .ok (some (.num x)))
    (he : ev e ctx = .ok w) (hw : numArg w = none) :
    foldArgs ev ctx (fun (s : F64) v => .ok (match numArg v with
      | some x => .inr (op s x)
      | none => .inl none)) fin (pre ++ e :: post) s = .ok none := by
  induction pre generalizing s with
  | nil => simp only [List.nil_append, foldArgs, he, hw, bind, Except.bind]
  | cons p ps ih =>
    obtain ⟨x, hx⟩ := hpre p List.mem_cons_self
    simp only [List.cons_append, foldArgs, hx, numArg, bind, Except.bind]
    exact ih _ (fun e' he' => hpre e' (List.mem_cons_of_mem _ he'))

/-- the loop on arguments that all are numbers: the left fold of the operation -/
theorem foldArgs_num_all (ev : Ev) (ctx : Ctx) (op : F64 → F64 → F64) (fin : F64 → Option JV)
    (args : List Expr) (xs : List Num) (s : F64)
    (h : args.map (fun e => ev e ctx) = xs.map (fun x => .ok (some (.num x)))) :
    foldArgs ev ctx (fun (s : F64) v => .ok (match numArg v with
      | some x => .inr (op s x)
      | none => .inl none)) fin args s = .ok (fin (xs.foldl (fun s x => op s x.toF64) s)) := by
  induction args generalizing s xs with
  | nil => cases xs with
    | nil => rfl
    | cons => simp at h
  | cons p ps ih =>
    cases xs with
    | nil => simp at h
    | cons x xs =>
      simp only [List.map_cons, List.cons.injEq] at h
      simp only [foldArgs, h.1, numArg, bind, Except.bind, List.foldl_cons]
      exact ih xs _ h.2

theorem numFoldl_add_ofNat (ns : List Nat) (k : Nat) (h : k + ns.sum < 2 ^ 53) :
    (ns.map Num.pos).foldl (fun s x => F64.add s x.toF64) (F64.ofNat k) = F64.ofNat (k + ns.sum) := by
  induction ns generalizing k with
  | nil => simp
  | cons n ns ih =>
    simp only [List.sum_cons] at h
    simp only [List.map_cons, List.foldl_cons, List.sum_cons]
    rw [show (Num.pos n).toF64 = F64.ofNat n from rfl, add_ofNat k n (by omega), ih (k + n) (by omega), Nat.add_assoc]

theorem natList_prod_pos (ns : List Nat) (hpos : ∀ n ∈ ns, 0 < n) : 0 < ns.prod := by
  induction ns with
  | nil => simp
  | cons n ns ih =>
    simp only [List.prod_cons]
    exact Nat.mul_pos (hpos n List.mem_cons_self) (ih (fun n' hn' => hpos n' (List.mem_cons_of_mem _ hn')))

theorem numFoldl_mul_ofNat (ns : List Nat) (k : Nat) (hk : 0 < k) (hpos : ∀ n ∈ ns, 0 < n) (h : k * ns.prod < 2 ^ 53) :
    (ns.map Num.pos).foldl (fun s x => F64.mul s x.toF64) (F64.ofNat k) = F64.ofNat (k * ns.prod) := by
  induction ns generalizing k with
  | nil => simp
  | cons n ns ih =>
    simp only [List.prod_cons] at h
    have hn : 0 < n := hpos n List.mem_cons_self
    have hp : 0 < ns.prod := natList_prod_pos ns (fun n' hn' => hpos n' (List.mem_cons_of_mem _ hn'))
    have h1 : k * n ≤ k * (n * ns.prod) := Nat.mul_le_mul_left k (Nat.le_mul_of_pos_right n hp)
    have h2 : k ≤ k * n := Nat.le_mul_of_pos_right k hn
    have h3 : n ≤ k * n := Nat.le_mul_of_pos_left n hk
    simp only [List.map_cons, List.foldl_cons, List.prod_cons]
    rw [show (Num.pos n).toF64 = F64.ofNat n from rfl, mul_ofNat k n (by omega) (by omega) (by omega),
      ih (k * n) (Nat.mul_pos hk hn) (fun n' hn' => hpos n' (List.mem_cons_of_mem _ hn')) (by rw [Nat.mul_assoc]; exact h),
      Nat.mul_assoc]


theorem foldArgs_str_all (ev : Ev) (ctx : Ctx) (args : List Expr) (ss : List Str) (acc : Str)
    (h : args.map (fun e => ev e ctx) = ss.map (fun s => .ok (some (.str s)))) :
    foldArgs ev ctx (fun (s : Str) v => .ok (match strArg v with
      | some x => .inr (s ++ x)
      | none => .inl none)) (fun s => some (.str s)) args acc = .ok (some (.str (acc ++ ss.flatten))) := by
  induction args generalizing acc ss with
  | nil => cases ss with
    | nil => simp [foldArgs]
    | cons => simp at h
  | cons p ps ih =>
    cases ss with
    | nil => simp at h
    | cons x xs =>
      simp only [List.map_cons, List.cons.injEq] at h
      simp only [foldArgs, h.1, strArg, bind, Except.bind, List.flatten_cons]
      exact (ih xs _ h.2).trans (by rw [List.append_assoc])

theorem foldArgs_str_stop (ev : Ev) (ctx : Ctx) (pre post : List Expr) (e : Expr) (w : Option JV) (acc : Str)
    (hpre : ∀ e' ∈ pre, ∃ s : Str, ev e' ctx = .ok (some (.str s)))
    (he : ev e ctx = .ok w) (hw : strArg w = none) :
    foldArgs ev ctx (fun (s : Str) v => .ok (match strArg v with
      | some x => .inr (s ++ x)
      | none => .inl none)) (fun s => some (.str s)) (pre ++ e :: post) acc = .ok none := by
  induction pre generalizing acc with
  | nil => simp only [List.nil_append, foldArgs, he, hw, bind, Except.bind]
  | cons p ps ih =>
    obtain ⟨x, hx⟩ := hpre p List.mem_cons_self
    simp only [List.cons_append, foldArgs, hx, strArg, bind, Except.bind]
    exact ih _ (fun e' he' => hpre e' (List.mem_cons_of_mem _ he'))

/-! ### `str::split`: joining the parts with the separator gives the string back -/

theorem intercalate_cons_cons' (sep x y : Str) (l : List Str) :
    sep.intercalate (x :: y :: l) = x ++ sep ++ sep.intercalate (y :: l) := by
  simp [List.intercalate, List.intersperse]

theorem intercalate_nil_sep (L : List Str) : ([] : Str).intercalate L = L.flatten := by
  induction L with
  | nil => rfl
  | cons x l ih =>
    cases l with
    | nil => simp [List.intercalate]
    | cons y l => rw [intercalate_cons_cons', ih]; simp

theorem flatten_singletons (s : Str) : (s.map (fun c => [c])).flatten = s := by
  induction s with
  | nil => rfl
  | cons c cs ih => simp [ih]

theorem splitGo_ne_nil (sep : Str) (fuel : Nat) (cur rest : Str) : splitStr.go sep fuel cur rest ≠ [] := by
  induction fuel generalizing cur rest with
  | zero => simp [splitStr.go]
  | succ f ih =>
    cases rest with
    | nil => simp [splitStr.go]
    | cons c cs =>
      simp only [splitStr.go]
      split
      · simp
      · exact ih _ _

theorem splitGo_intercalate (sep : Str) (fuel : Nat) (cur rest : Str) :
    sep.intercalate (splitStr.go sep fuel cur rest) = cur.reverse ++ rest := by
  induction fuel generalizing cur rest with
  | zero => simp [splitStr.go]
  | succ f ih =>
    cases rest with
    | nil => simp [splitStr.go]
    | cons c cs =>
      simp only [splitStr.go]
      split
      · rename_i hp
        have hne := splitGo_ne_nil sep f [] ((c :: cs).drop sep.length)
        have hih := ih [] ((c :: cs).drop sep.length)
        cases hg : splitStr.go sep f [] ((c :: cs).drop sep.length) with
        | nil => exact absurd hg hne
        | cons y l =>
          rw [hg] at hih
          rw [intercalate_cons_cons', hih, List.reverse_nil, List.nil_append, List.append_assoc,
            List.prefix_iff_eq_append.1 (List.isPrefixOf_iff_prefix.1 hp)]
      · rw [ih]; simp

/-- `intercalate sep (split s sep) = s`, for every separator (the empty one included) -/
theorem splitStr_intercalate (s sep : Str) : sep.intercalate (splitStr s sep) = s := by
  unfold splitStr
  split
  · rename_i h
    have : sep = [] := by cases sep <;> simp_all
    subst this
    rw [intercalate_nil_sep]
    simp [flatten_singletons]
  · simpa using splitGo_intercalate sep (s.length + 1) [] s

theorem splitStr_ne_nil (s sep : Str) : splitStr s sep ≠ [] := by
  unfold splitStr
  split
  · simp
  · exact splitGo_ne_nil sep _ _ _

/-- a string in which the (non-empty) separator does not occur is not split -/
theorem splitGo_no_sep (sep : Str) (fuel : Nat) (cur rest : Str)
    (h : ∀ t, t <:+ rest → t ≠ [] → sep.isPrefixOf t = false) :
    splitStr.go sep fuel cur rest = [cur.reverse ++ rest] := by
  induction fuel generalizing cur rest with
  | zero => simp [splitStr.go]
  | succ f ih =>
    cases rest with
    | nil => simp [splitStr.go]
    | cons c cs =>
      simp only [splitStr.go, h (c :: cs) (List.suffix_refl _) (by simp), Bool.false_eq_true, if_false]
      rw [ih _ _ (fun t ht hne => h t (ht.trans (List.suffix_cons c cs)) hne)]
      simp

/-- `join` on a list of strings is `intercalate` (the empty list included) -/
theorem joinGo_strs_all (sep : Str) (L : List Str) :
    callList.joinGo sep true [] (L.map JV.str) = some (sep.intercalate L) := by
  cases L with
  | nil => simp [callList.joinGo, List.intercalate]
  | cons s ss => exact joinGo_strs sep s ss



theorem roundRat_int_fract (s : Bool) (k : Nat) (hk : k < 2 ^ 53) : (F64.roundRat s k 1).fractIsZero = true := by
  obtain ⟨t, ht⟩ := roundRat_int_form s k hk
  rw [ht]; exact fract_scaled _ _ _

/-- the integer part of a double with a fractional part is below `2^52` -/
theorem toRat_quot_lt (s : Bool) (m : Nat) (e : Int) (hm : m < 2 ^ 53)
    (hfr : (F64.fin s m e).fractIsZero = false) :
    (F64.fin s m e).toRat.1 / (F64.fin s m e).toRat.2 < 2 ^ 52 ∧
    (F64.fin s m e).toRat.2 = 2 ^ (-e).toNat ∧ (F64.fin s m e).toRat.1 = m ∧ 0 < (-e).toNat := by
  unfold F64.fractIsZero at hfr
  by_cases hm0 : m = 0
  · simp [hm0] at hfr
  · by_cases he : 0 ≤ e
    · simp [hm0, he] at hfr
    · simp only [F64.toRat, he, if_false]
      have hk : 0 < (-e).toNat := by omega
      refine ⟨?_, trivial, trivial, hk⟩
      have h2 : 2 ≤ 2 ^ (-e).toNat := by
        calc 2 = 2 ^ 1 := rfl
          _ ≤ 2 ^ (-e).toNat := Nat.pow_le_pow_right (by decide) hk
      have : m / 2 ^ (-e).toNat ≤ m / 2 := Nat.div_le_div_left h2 (by decide)
      omega

/-- `floor`, `ceil`, `round` of a finite double (mantissa below `2^53`, as every `f64` has) are integral -/
theorem floor_integral (s : Bool) (m : Nat) (e : Int) (hm : m < 2 ^ 53) :
    (F64.fin s m e).floor.fractIsZero = true := by
  cases hfr : (F64.fin s m e).fractIsZero with
  | true => rw [floor_of_fract _ hfr, hfr]
  | false =>
    obtain ⟨hq, -, -, -⟩ := toRat_quot_lt s m e hm hfr
    simp only [F64.floor, hfr, Bool.false_eq_true, if_false]
    split
    · exact roundRat_int_fract _ _ (by omega)
    · split
      · rfl
      · exact roundRat_int_fract _ _ (by omega)

theorem ceil_integral (s : Bool) (m : Nat) (e : Int) (hm : m < 2 ^ 53) :
    (F64.fin s m e).ceil.fractIsZero = true := by
  cases hfr : (F64.fin s m e).fractIsZero with
  | true => rw [ceil_of_fract _ hfr, hfr]
  | false =>
    obtain ⟨hq, -, -, -⟩ := toRat_quot_lt s m e hm hfr
    simp only [F64.ceil, hfr, Bool.false_eq_true, if_false]
    split
    · split
      · rfl
      · exact roundRat_int_fract _ _ (by omega)
    · exact roundRat_int_fract _ _ (by omega)

theorem round_integral (s : Bool) (m : Nat) (e : Int) (hm : m < 2 ^ 53) :
    (F64.fin s m e).round.fractIsZero = true := by
  cases hfr : (F64.fin s m e).fractIsZero with
  | true => rw [round_of_fract _ hfr, hfr]
  | false =>
    obtain ⟨hq, hd, hn, hk⟩ := toRat_quot_lt s m e hm hfr
    simp only [F64.round, hfr, Bool.false_eq_true, if_false]
    split
    · rfl
    · apply roundRat_int_fract
      generalize (F64.fin s m e).toRat.1 = n at *
      generalize (F64.fin s m e).toRat.2 = d at *
      have hd0 : 0 < d := by rw [hd]; exact Nat.two_pow_pos _
      have : (2 * n + d) / (2 * d) ≤ n / d + 1 := by
        rw [Nat.div_le_iff_le_mul_add_pred (by omega)]
        have := Nat.div_add_mod n d
        have := Nat.mod_lt n hd0
        have h3 : 2 * d * (n / d + 1) = 2 * (d * (n / d)) + 2 * d := by
          rw [Nat.mul_add, Nat.mul_one, Nat.mul_assoc]
        omega
      omega

/-- a string in which the (non-empty) separator does not occur is not split -/
theorem splitStr_no_sep (s sep : Str) (hne : sep ≠ [])
    (h : ∀ i, i < s.length → sep.isPrefixOf (s.drop i) = false) : splitStr s sep = [s] := by
  unfold splitStr
  rw [if_neg (by cases sep <;> simp_all)]
  rw [splitGo_no_sep sep _ [] s]
  · rfl
  · intro t ht htne
    rw [List.suffix_iff_eq_drop.1 ht]
    apply h
    have := ht.length_le
    have : t.length ≠ 0 := by cases t <;> simp_all
    omega

variable (orc : Oracles) (fuel : Nat) (ctx : Ctx)


/-! ## 1. The shape of the arithmetic functions: the `f64` operation, converted back by `From<f64>`;
a result that is not finite is nothing (`JsonValue::from_finite`) -/

/-- `*`: "If all the arguments are number, multiply them." — the `f64` product, starting from `1.0` -/
theorem mul_nums (a b : Expr) (x y : Num)
    (ha : eval orc fuel a ctx = .ok (some (.num x))) (hb : eval orc fuel b ctx = .ok (some (.num y))) :
    eval orc (fuel + 1) (.call "*" [a, b]) ctx =
      .ok (jnumFinite (F64.mul (F64.mul (F64.ofNat 1) x.toF64) y.toF64)) := by
  ncall_simp [ha, hb, foldArgs]

/-- `-` with two arguments: "substract the second argument from the first one if both are number" -/
theorem sub_nums (a b : Expr) (x y : Num)
    (ha : eval orc fuel a ctx = .ok (some (.num x))) (hb : eval orc fuel b ctx = .ok (some (.num y))) :
    eval orc (fuel + 1) (.call "-" [a, b]) ctx = .ok (jnumFinite (F64.sub x.toF64 y.toF64)) := by
  ncall_simp [ha, hb]
  simp

/-- `-` with one argument: "return the negative of that number" (computed as `0 - x`) -/
theorem neg_num (a : Expr) (x : Num) (ha : eval orc fuel a ctx = .ok (some (.num x))) :
    eval orc (fuel + 1) (.call "-" [a]) ctx = .ok (jnumFinite (F64.sub F64.zero x.toF64)) := by
  ncall_simp [ha]
  simp

/-- `/`: "Divide the firs argument by the second argument." (second argument not zero) -/
theorem div_nums (a b : Expr) (x y : Num) (hy : y.toF64.isZero = false)
    (ha : eval orc fuel a ctx = .ok (some (.num x))) (hb : eval orc fuel b ctx = .ok (some (.num y))) :
    eval orc (fuel + 1) (.call "/" [a, b]) ctx = .ok (jnumFinite (F64.div x.toF64 y.toF64)) := by
  ncall_simp [ha, hb, hy]
  simp

/-- `/`: "If the second argument is 0 will return nothing" (`0`, `0.0` and `-0.0` alike) -/
theorem div_by_zero (a b : Expr) (x y : Num) (hy : y.toF64.isZero = true)
    (ha : eval orc fuel a ctx = .ok (some (.num x))) (hb : eval orc fuel b ctx = .ok (some (.num y))) :
    eval orc (fuel + 1) (.call "/" [a, b]) ctx = .ok none := by
  ncall_simp [ha, hb, hy]
  simp

/-- `%`: "Find the reminder of the division of the firs argument by the second argument." (`fmod`; second argument not zero) -/
theorem rem_nums (a b : Expr) (x y : Num) (hy : y.toF64.isZero = false)
    (ha : eval orc fuel a ctx = .ok (some (.num x))) (hb : eval orc fuel b ctx = .ok (some (.num y))) :
    eval orc (fuel + 1) (.call "%" [a, b]) ctx = .ok (jnum (F64.rem x.toF64 y.toF64)) := by
  ncall_simp [ha, hb, hy]
  simp

/-- `%`: "If the second argument is 0 will return nothing" -/
theorem rem_by_zero (a b : Expr) (x y : Num) (hy : y.toF64.isZero = true)
    (ha : eval orc fuel a ctx = .ok (some (.num x))) (hb : eval orc fuel b ctx = .ok (some (.num y))) :
    eval orc (fuel + 1) (.call "%" [a, b]) ctx = .ok none := by
  ncall_simp [ha, hb, hy]
  simp



/-! ## 2. Exact integer results below `2^53` -/

/-- `(* a b)` on two non-negative integers whose product is below `2^53` is the exact integer product -/
theorem mul_pos_pos (a b : Expr) (m n : Nat) (hm : m < 2 ^ 53) (hn : n < 2 ^ 53) (h : m * n < 2 ^ 53)
    (ha : eval orc fuel a ctx = .ok (some (.num (.pos m)))) (hb : eval orc fuel b ctx = .ok (some (.num (.pos n)))) :
    eval orc (fuel + 1) (.call "*" [a, b]) ctx = .ok (some (.num (.pos (m * n)))) := by
  rw [mul_nums orc fuel ctx a b _ _ ha hb]
  simp only [Num.toF64]
  rw [mul_ofNat 1 m (by decide) hm (by omega), Nat.one_mul, mul_ofNat m n hm hn h, jnumFinite_ofNat_exact _ h]

/-- `(- a b)` on two non-negative integers `m ≥ n` below `2^53` is the exact difference -/
theorem sub_pos_pos_ge (a b : Expr) (m n : Nat) (hm : m < 2 ^ 53) (hnm : n ≤ m)
    (ha : eval orc fuel a ctx = .ok (some (.num (.pos m)))) (hb : eval orc fuel b ctx = .ok (some (.num (.pos n)))) :
    eval orc (fuel + 1) (.call "-" [a, b]) ctx = .ok (some (.num (.pos (m - n)))) := by
  rw [sub_nums orc fuel ctx a b _ _ ha hb]
  simp only [Num.toF64]
  rw [sub_ofNat_ge m n hm hnm, jnumFinite_ofNat_exact _ (by omega)]

/-- … and for `m < n` it is the exact negative difference, a negative INTEGER value -/
theorem sub_pos_pos_lt (a b : Expr) (m n : Nat) (hn : n < 2 ^ 53) (hmn : m < n)
    (ha : eval orc fuel a ctx = .ok (some (.num (.pos m)))) (hb : eval orc fuel b ctx = .ok (some (.num (.pos n)))) :
    eval orc (fuel + 1) (.call "-" [a, b]) ctx = .ok (some (.num (.neg ((m : Int) - (n : Int))))) := by
  rw [sub_nums orc fuel ctx a b _ _ ha hb]
  simp only [Num.toF64]
  rw [sub_ofNat_lt m n hn hmn, jnumFinite_negInt _ (by omega) (by omega)]
  congr 4
  omega

/-- unary `-`: "return the negative of that number": a positive integer below `2^53` -/
theorem neg_pos (a : Expr) (n : Nat) (hn0 : 0 < n) (hn : n < 2 ^ 53)
    (ha : eval orc fuel a ctx = .ok (some (.num (.pos n)))) :
    eval orc (fuel + 1) (.call "-" [a]) ctx = .ok (some (.num (.neg (-(n : Int))))) := by
  rw [neg_num orc fuel ctx a _ ha]
  simp only [Num.toF64]
  rw [← ofNat_zero, sub_ofNat_lt 0 n hn hn0, Nat.sub_zero, jnumFinite_negInt _ hn0 hn]

/-- the negative of zero is (the integer) zero -/
theorem neg_zero (a : Expr) (ha : eval orc fuel a ctx = .ok (some (.num (.pos 0)))) :
    eval orc (fuel + 1) (.call "-" [a]) ctx = .ok (some (.num (.pos 0))) := by
  rw [neg_num orc fuel ctx a _ ha]
  simp only [Num.toF64]
  rw [← ofNat_zero, sub_ofNat_ge 0 0 (by decide) (Nat.le_refl 0), jnumFinite_ofNat_exact _ (by decide)]

/-- the negative of a negative integer above `-2^53` -/
theorem neg_neg_int (a : Expr) (k : Nat) (hk0 : 0 < k) (hk : k < 2 ^ 53)
    (ha : eval orc fuel a ctx = .ok (some (.num (.neg (-(k : Int)))))) :
    eval orc (fuel + 1) (.call "-" [a]) ctx = .ok (some (.num (.pos k))) := by
  rw [neg_num orc fuel ctx a _ ha]
  simp only [Num.toF64]
  rw [sub_zero_ofInt_neg k hk0 hk, jnumFinite_ofNat_exact _ hk]

/-- negation is an involution: `(- (- a)) = a` -/
theorem neg_neg (a : Expr) (n : Nat) (hn : n < 2 ^ 53)
    (ha : eval orc fuel a ctx = .ok (some (.num (.pos n)))) :
    eval orc (fuel + 2) (.call "-" [.call "-" [a]]) ctx = .ok (some (.num (.pos n))) := by
  by_cases h0 : n = 0
  · subst h0
    exact neg_zero orc (fuel + 1) ctx _ (neg_zero orc fuel ctx a ha)
  · exact neg_neg_int orc (fuel + 1) ctx _ n (by omega) hn (neg_pos orc fuel ctx a n (by omega) hn ha)

/-- `(% a b)` on non-negative integers below `2^53`, `b > 0`, is `a % b` -/
theorem rem_pos_pos (a b : Expr) (m n : Nat) (hm : m < 2 ^ 53) (hn : n < 2 ^ 53) (hn0 : 0 < n)
    (ha : eval orc fuel a ctx = .ok (some (.num (.pos m)))) (hb : eval orc fuel b ctx = .ok (some (.num (.pos n)))) :
    eval orc (fuel + 1) (.call "%" [a, b]) ctx = .ok (some (.num (.pos (m % n)))) := by
  have hz : (Num.pos n).toF64.isZero = false := by
    obtain ⟨t, ht⟩ := ofNat_form n hn
    have hM : n * 2 ^ t ≠ 0 := Nat.mul_ne_zero (by omega) (Nat.pos_iff_ne_zero.1 (Nat.two_pow_pos _))
    simp only [Num.toF64, ht]
    unfold F64.isZero
    split
    · rename_i h; injection h with _ h2 _; exact absurd h2 hM
    · rfl
  rw [rem_nums orc fuel ctx a b _ _ hz ha hb]
  simp only [Num.toF64]
  have hlt : m % n < 2 ^ 53 := Nat.lt_of_lt_of_le (Nat.mod_lt _ hn0) (by omega)
  rw [rem_ofNat m n hm hn hn0, jnum, ofF64_ofNat _ hlt]


/-! ## 3. `abs`, `floor`, `ceil`, `round` -/

/-- `abs`: "If the argument is numeric, return it's absolute value." -/
theorem abs_num (a : Expr) (x : Num) (ha : eval orc fuel a ctx = .ok (some (.num x))) :
    eval orc (fuel + 1) (.call "abs" [a]) ctx = .ok (jnum x.toF64.abs) := by
  ncall_simp [ha]

/-- `floor`: "If the argument is numeric, return it's floor." -/
theorem floor_num (a : Expr) (x : Num) (ha : eval orc fuel a ctx = .ok (some (.num x))) :
    eval orc (fuel + 1) (.call "floor" [a]) ctx = .ok (jnum x.toF64.floor) := by
  ncall_simp [ha]

/-- `ceil`: "If the argument is numeric, return it's ceiling." -/
theorem ceil_num (a : Expr) (x : Num) (ha : eval orc fuel a ctx = .ok (some (.num x))) :
    eval orc (fuel + 1) (.call "ceil" [a]) ctx = .ok (jnum x.toF64.ceil) := by
  ncall_simp [ha]

/-- `round`: "If the argument is numeric, return it's rounded." (half away from zero) -/
theorem round_num (a : Expr) (x : Num) (ha : eval orc fuel a ctx = .ok (some (.num x))) :
    eval orc (fuel + 1) (.call "round" [a]) ctx = .ok (jnum x.toF64.round) := by
  ncall_simp [ha]

/-- on a non-negative integer below `2^53` all four are that integer -/
theorem abs_pos (a : Expr) (n : Nat) (hn : n < 2 ^ 53) (ha : eval orc fuel a ctx = .ok (some (.num (.pos n)))) :
    eval orc (fuel + 1) (.call "abs" [a]) ctx = .ok (some (.num (.pos n))) := by
  rw [abs_num orc fuel ctx a _ ha]
  simp only [Num.toF64, abs_ofNat n hn, jnum, ofF64_ofNat n hn]

theorem floor_pos (a : Expr) (n : Nat) (hn : n < 2 ^ 53) (ha : eval orc fuel a ctx = .ok (some (.num (.pos n)))) :
    eval orc (fuel + 1) (.call "floor" [a]) ctx = .ok (some (.num (.pos n))) := by
  rw [floor_num orc fuel ctx a _ ha]
  simp only [Num.toF64, floor_of_fract _ (ofNat_fract n hn), jnum, ofF64_ofNat n hn]

theorem ceil_pos (a : Expr) (n : Nat) (hn : n < 2 ^ 53) (ha : eval orc fuel a ctx = .ok (some (.num (.pos n)))) :
    eval orc (fuel + 1) (.call "ceil" [a]) ctx = .ok (some (.num (.pos n))) := by
  rw [ceil_num orc fuel ctx a _ ha]
  simp only [Num.toF64, ceil_of_fract _ (ofNat_fract n hn), jnum, ofF64_ofNat n hn]

theorem round_pos (a : Expr) (n : Nat) (hn : n < 2 ^ 53) (ha : eval orc fuel a ctx = .ok (some (.num (.pos n)))) :
    eval orc (fuel + 1) (.call "round" [a]) ctx = .ok (some (.num (.pos n))) := by
  rw [round_num orc fuel ctx a _ ha]
  simp only [Num.toF64, round_of_fract _ (ofNat_fract n hn), jnum, ofF64_ofNat n hn]

/-- on a negative integer `-k` above `-2^53`: `abs` is `k`, the other three are `-k` -/
theorem abs_neg (a : Expr) (k : Nat) (hk0 : 0 < k) (hk : k < 2 ^ 53)
    (ha : eval orc fuel a ctx = .ok (some (.num (.neg (-(k : Int)))))) :
    eval orc (fuel + 1) (.call "abs" [a]) ctx = .ok (some (.num (.pos k))) := by
  rw [abs_num orc fuel ctx a _ ha]
  simp only [Num.toF64, abs_ofInt_neg k hk0 hk, jnum, ofF64_ofNat k hk]

theorem floor_neg (a : Expr) (k : Nat) (hk0 : 0 < k) (hk : k < 2 ^ 53)
    (ha : eval orc fuel a ctx = .ok (some (.num (.neg (-(k : Int)))))) :
    eval orc (fuel + 1) (.call "floor" [a]) ctx = .ok (some (.num (.neg (-(k : Int))))) := by
  rw [floor_num orc fuel ctx a _ ha]
  simp only [Num.toF64, floor_of_fract _ (ofInt_neg_fract k hk0 hk), jnum, ofF64_ofInt_neg k hk0 hk]

theorem ceil_neg (a : Expr) (k : Nat) (hk0 : 0 < k) (hk : k < 2 ^ 53)
    (ha : eval orc fuel a ctx = .ok (some (.num (.neg (-(k : Int)))))) :
    eval orc (fuel + 1) (.call "ceil" [a]) ctx = .ok (some (.num (.neg (-(k : Int))))) := by
  rw [ceil_num orc fuel ctx a _ ha]
  simp only [Num.toF64, ceil_of_fract _ (ofInt_neg_fract k hk0 hk), jnum, ofF64_ofInt_neg k hk0 hk]

theorem round_neg (a : Expr) (k : Nat) (hk0 : 0 < k) (hk : k < 2 ^ 53)
    (ha : eval orc fuel a ctx = .ok (some (.num (.neg (-(k : Int)))))) :
    eval orc (fuel + 1) (.call "round" [a]) ctx = .ok (some (.num (.neg (-(k : Int))))) := by
  rw [round_num orc fuel ctx a _ ha]
  simp only [Num.toF64, round_of_fract _ (ofInt_neg_fract k hk0 hk), jnum, ofF64_ofInt_neg k hk0 hk]

/-- on ANY number whose double is integral, `floor`, `ceil` and `round` agree (they all return the argument's double) -/
theorem floor_ceil_round_integral (a : Expr) (x : Num) (hx : x.toF64.fractIsZero = true)
    (ha : eval orc fuel a ctx = .ok (some (.num x))) :
    eval orc (fuel + 1) (.call "floor" [a]) ctx = .ok (jnum x.toF64) ∧
    eval orc (fuel + 1) (.call "ceil" [a]) ctx = .ok (jnum x.toF64) ∧
    eval orc (fuel + 1) (.call "round" [a]) ctx = .ok (jnum x.toF64) := by
  rw [floor_num orc fuel ctx a _ ha, ceil_num orc fuel ctx a _ ha, round_num orc fuel ctx a _ ha,
    floor_of_fract _ hx, ceil_of_fract _ hx, round_of_fract _ hx]
  exact ⟨rfl, rfl, rfl⟩

/-! ## 4. A non-number argument ⇒ nothing -/

theorem abs_non_number (a : Expr) (v : Option JV) (hv : numArg v = none) (ha : eval orc fuel a ctx = .ok v) :
    eval orc (fuel + 1) (.call "abs" [a]) ctx = .ok none := by
  ncall_simp [ha]
  simp only [numArg] at hv
  simp only [hv]

theorem floor_non_number (a : Expr) (v : Option JV) (hv : numArg v = none) (ha : eval orc fuel a ctx = .ok v) :
    eval orc (fuel + 1) (.call "floor" [a]) ctx = .ok none := by
  ncall_simp [ha]
  simp only [numArg] at hv
  simp only [hv]

theorem ceil_non_number (a : Expr) (v : Option JV) (hv : numArg v = none) (ha : eval orc fuel a ctx = .ok v) :
    eval orc (fuel + 1) (.call "ceil" [a]) ctx = .ok none := by
  ncall_simp [ha]
  simp only [numArg] at hv
  simp only [hv]

theorem round_non_number (a : Expr) (v : Option JV) (hv : numArg v = none) (ha : eval orc fuel a ctx = .ok v) :
    eval orc (fuel + 1) (.call "round" [a]) ctx = .ok none := by
  ncall_simp [ha]
  simp only [numArg] at hv
  simp only [hv]

theorem neg_non_number (a : Expr) (v : Option JV) (hv : numArg v = none) (ha : eval orc fuel a ctx = .ok v) :
    eval orc (fuel + 1) (.call "-" [a]) ctx = .ok none := by
  ncall_simp [ha]
  simp only [numArg] at hv
  simp [hv]

theorem sub_non_number (a b : Expr) (v w : Option JV) (h : numArg v = none ∨ numArg w = none)
    (ha : eval orc fuel a ctx = .ok v) (hb : eval orc fuel b ctx = .ok w) :
    eval orc (fuel + 1) (.call "-" [a, b]) ctx = .ok none := by
  ncall_simp [ha, hb]
  simp only [numArg] at h
  rcases h with h | h
  · simp [h]
  · simp only [h]; split <;> simp_all

theorem div_non_number (a b : Expr) (v w : Option JV) (h : numArg v = none ∨ numArg w = none)
    (ha : eval orc fuel a ctx = .ok v) (hb : eval orc fuel b ctx = .ok w) :
    eval orc (fuel + 1) (.call "/" [a, b]) ctx = .ok none := by
  ncall_simp [ha, hb]
  simp only [numArg] at h
  rcases h with h | h
  · simp [h]
  · simp only [h]; split <;> simp_all

theorem rem_non_number (a b : Expr) (v w : Option JV) (h : numArg v = none ∨ numArg w = none)
    (ha : eval orc fuel a ctx = .ok v) (hb : eval orc fuel b ctx = .ok w) :
    eval orc (fuel + 1) (.call "%" [a, b]) ctx = .ok none := by
  ncall_simp [ha, hb]
  simp only [numArg] at h
  rcases h with h | h
  · simp [h]
  · simp only [h]; split <;> simp_all


/-! ## 5. `+` and `*` with any number of arguments -/

/-- `+`: "If all the arguments are number, add them." — any number of arguments: the left-to-right `f64` sum from `0.0` -/
theorem add_many (args : List Expr) (xs : List Num)
    (h : args.map (fun e => eval orc fuel e ctx) = xs.map (fun x => .ok (some (.num x)))) :
    eval orc (fuel + 1) (.call "+" args) ctx =
      .ok (jnumFinite (xs.foldl (fun s x => F64.add s x.toF64) F64.zero)) := by
  simp only [eval, callFn, skipB_add, skipL_add, skipO_add, callNumber]
  exact foldArgs_num_all _ ctx F64.add jnumFinite args xs _ h

/-- `*`: "If all the arguments are number, multiply them." — the left-to-right `f64` product from `1.0` -/
theorem mul_many (args : List Expr) (xs : List Num)
    (h : args.map (fun e => eval orc fuel e ctx) = xs.map (fun x => .ok (some (.num x)))) :
    eval orc (fuel + 1) (.call "*" args) ctx =
      .ok (jnumFinite (xs.foldl (fun s x => F64.mul s x.toF64) (F64.ofNat 1))) := by
  simp only [eval, callFn, nskB_mul, nskL_mul, nskO_mul, callNumber]
  exact foldArgs_num_all _ ctx F64.mul jnumFinite args xs _ h

/-- non-negative integers whose sum is below `2^53`: the exact sum, for any number of arguments -/
theorem add_pos_many (args : List Expr) (ns : List Nat) (hs : ns.sum < 2 ^ 53)
    (h : args.map (fun e => eval orc fuel e ctx) = ns.map (fun n => .ok (some (.num (.pos n))))) :
    eval orc (fuel + 1) (.call "+" args) ctx = .ok (some (.num (.pos ns.sum))) := by
  rw [add_many orc fuel ctx args (ns.map Num.pos) (by rw [h, List.map_map]; rfl), ← ofNat_zero,
    numFoldl_add_ofNat ns 0 (by omega), Nat.zero_add, jnumFinite_ofNat_exact _ hs]

/-- positive integers whose product is below `2^53`: the exact product, for any number of arguments -/
theorem mul_pos_many (args : List Expr) (ns : List Nat) (hpos : ∀ n ∈ ns, 0 < n) (hp : ns.prod < 2 ^ 53)
    (h : args.map (fun e => eval orc fuel e ctx) = ns.map (fun n => .ok (some (.num (.pos n))))) :
    eval orc (fuel + 1) (.call "*" args) ctx = .ok (some (.num (.pos ns.prod))) := by
  rw [mul_many orc fuel ctx args (ns.map Num.pos) (by rw [h, List.map_map]; rfl),
    numFoldl_mul_ofNat ns 1 (by decide) hpos (by omega), Nat.one_mul, jnumFinite_ofNat_exact _ hp]

/-- n-ary `+`: numbers, then an argument that is not a number (the rest is not evaluated) ⇒ nothing -/
theorem add_non_number_any (pre post : List Expr) (e : Expr) (w : Option JV) (hw : numArg w = none)
    (hpre : ∀ e' ∈ pre, ∃ x : Num, eval orc fuel e' ctx = .ok (some (.num x)))
    (he : eval orc fuel e ctx = .ok w) :
    eval orc (fuel + 1) (.call "+" (pre ++ e :: post)) ctx = .ok none := by
  simp only [eval, callFn, skipB_add, skipL_add, skipO_add, callNumber]
  exact foldArgs_num_stop _ ctx F64.add jnumFinite pre post e w _ hpre he hw

/-- n-ary `*`: numbers, then an argument that is not a number ⇒ nothing -/
theorem mul_non_number_any (pre post : List Expr) (e : Expr) (w : Option JV) (hw : numArg w = none)
    (hpre : ∀ e' ∈ pre, ∃ x : Num, eval orc fuel e' ctx = .ok (some (.num x)))
    (he : eval orc fuel e ctx = .ok w) :
    eval orc (fuel + 1) (.call "*" (pre ++ e :: post)) ctx = .ok none := by
  simp only [eval, callFn, nskB_mul, nskL_mul, nskO_mul, callNumber]
  exact foldArgs_num_stop _ ctx F64.mul jnumFinite pre post e w _ hpre he hw

theorem mul_non_number_left (a b : Expr) (v : Option JV) (hv : numArg v = none)
    (ha : eval orc fuel a ctx = .ok v) :
    eval orc (fuel + 1) (.call "*" [a, b]) ctx = .ok none :=
  mul_non_number_any orc fuel ctx [] [b] a v hv (fun _ h => absurd h List.not_mem_nil) ha

theorem mul_non_number_right (a b : Expr) (x : Num) (w : Option JV) (hw : numArg w = none)
    (ha : eval orc fuel a ctx = .ok (some (.num x))) (hb : eval orc fuel b ctx = .ok w) :
    eval orc (fuel + 1) (.call "*" [a, b]) ctx = .ok none :=
  mul_non_number_any orc fuel ctx [a] [] b w hw (fun e' h => by simp at h; subst h; exact ⟨x, ha⟩) hb

/-! ## 6. An arithmetic result never is an infinity or a NaN -/

/-- whatever numbers `+ * - /` are applied to: the result is nothing or a number, and a float result is finite -/
theorem arith_result_finite (op : String) (hop : op ∈ ["+", "*", "-", "/"]) (a b : Expr) (x y : Num)
    (ha : eval orc fuel a ctx = .ok (some (.num x))) (hb : eval orc fuel b ctx = .ok (some (.num y))) :
    eval orc (fuel + 1) (.call op [a, b]) ctx = .ok none ∨
    ∃ n, eval orc (fuel + 1) (.call op [a, b]) ctx = .ok (some (.num n)) ∧ ∀ g, n = .flt g → g.isFinite = true := by
  have key : ∀ f : F64, jnumFinite f = none ∨ ∃ n, jnumFinite f = some (.num n) ∧ ∀ g, n = .flt g → g.isFinite = true := by
    intro f
    cases h : jnumFinite f with
    | none => exact .inl rfl
    | some v =>
      obtain ⟨n, rfl, hn⟩ := jnumFinite_finite f v h
      exact .inr ⟨n, rfl, hn⟩
  simp only [List.mem_cons, List.not_mem_nil, or_false] at hop
  rcases hop with rfl | rfl | rfl | rfl
  · rw [add_nums orc fuel ctx a b x y ha hb]
    rcases key (F64.add (F64.add F64.zero x.toF64) y.toF64) with h | ⟨n, h, hn⟩
    · exact .inl (by rw [h])
    · exact .inr ⟨n, by rw [h], hn⟩
  · rw [mul_nums orc fuel ctx a b x y ha hb]
    rcases key (F64.mul (F64.mul (F64.ofNat 1) x.toF64) y.toF64) with h | ⟨n, h, hn⟩
    · exact .inl (by rw [h])
    · exact .inr ⟨n, by rw [h], hn⟩
  · rw [sub_nums orc fuel ctx a b x y ha hb]
    rcases key (F64.sub x.toF64 y.toF64) with h | ⟨n, h, hn⟩
    · exact .inl (by rw [h])
    · exact .inr ⟨n, by rw [h], hn⟩
  · cases hy : y.toF64.isZero with
    | true => exact .inl (div_by_zero orc fuel ctx a b x y hy ha hb)
    | false =>
      rw [div_nums orc fuel ctx a b x y hy ha hb]
      rcases key (F64.div x.toF64 y.toF64) with h | ⟨n, h, hn⟩
      · exact .inl (by rw [h])
      · exact .inr ⟨n, by rw [h], hn⟩

/-- the same for the unary `-` -/
theorem neg_result_finite (a : Expr) (x : Num) (ha : eval orc fuel a ctx = .ok (some (.num x))) :
    eval orc (fuel + 1) (.call "-" [a]) ctx = .ok none ∨
    ∃ n, eval orc (fuel + 1) (.call "-" [a]) ctx = .ok (some (.num n)) ∧ ∀ g, n = .flt g → g.isFinite = true := by
  rw [neg_num orc fuel ctx a x ha]
  cases h : jnumFinite (F64.sub F64.zero x.toF64) with
  | none => exact .inl rfl
  | some v =>
    obtain ⟨n, rfl, hn⟩ := jnumFinite_finite _ v h
    exact .inr ⟨n, rfl, hn⟩

/-- an `f64` result that is not finite (overflow) is nothing -/
theorem mul_overflow (a b : Expr) (x y : Num)
    (hinf : (F64.mul (F64.mul (F64.ofNat 1) x.toF64) y.toF64).isFinite = false)
    (ha : eval orc fuel a ctx = .ok (some (.num x))) (hb : eval orc fuel b ctx = .ok (some (.num y))) :
    eval orc (fuel + 1) (.call "*" [a, b]) ctx = .ok none := by
  rw [mul_nums orc fuel ctx a b x y ha hb, (jnumFinite_eq_none _).2 hinf]

theorem add_overflow (a b : Expr) (x y : Num)
    (hinf : (F64.add (F64.add F64.zero x.toF64) y.toF64).isFinite = false)
    (ha : eval orc fuel a ctx = .ok (some (.num x))) (hb : eval orc fuel b ctx = .ok (some (.num y))) :
    eval orc (fuel + 1) (.call "+" [a, b]) ctx = .ok none := by
  rw [add_nums orc fuel ctx a b x y ha hb, (jnumFinite_eq_none _).2 hinf]

theorem sub_overflow (a b : Expr) (x y : Num) (hinf : (F64.sub x.toF64 y.toF64).isFinite = false)
    (ha : eval orc fuel a ctx = .ok (some (.num x))) (hb : eval orc fuel b ctx = .ok (some (.num y))) :
    eval orc (fuel + 1) (.call "-" [a, b]) ctx = .ok none := by
  rw [sub_nums orc fuel ctx a b x y ha hb, (jnumFinite_eq_none _).2 hinf]

theorem div_overflow (a b : Expr) (x y : Num) (hy : y.toF64.isZero = false)
    (hinf : (F64.div x.toF64 y.toF64).isFinite = false)
    (ha : eval orc fuel a ctx = .ok (some (.num x))) (hb : eval orc fuel b ctx = .ok (some (.num y))) :
    eval orc (fuel + 1) (.call "/" [a, b]) ctx = .ok none := by
  rw [div_nums orc fuel ctx a b x y hy ha hb, (jnumFinite_eq_none _).2 hinf]


/-! ## 7. Strings: `concat`, `split`, `join ∘ split` -/

/-- `concat`: "Concat all string arguments.": all arguments strings ⇒ their concatenation, in order -/
theorem concat_strs (args : List Expr) (ss : List Str)
    (h : args.map (fun e => eval orc fuel e ctx) = ss.map (fun s => .ok (some (.str s)))) :
    eval orc (fuel + 1) (.call "concat" args) ctx = .ok (some (.str ss.flatten)) := by
  simp only [eval, callFn, nskB_concat, nskL_concat, nskO_concat, nskN_concat, callString]
  exact foldArgs_str_all _ ctx args ss [] h

theorem concat_two (a b : Expr) (s t : Str)
    (ha : eval orc fuel a ctx = .ok (some (.str s))) (hb : eval orc fuel b ctx = .ok (some (.str t))) :
    eval orc (fuel + 1) (.call "concat" [a, b]) ctx = .ok (some (.str (s ++ t))) := by
  rw [concat_strs orc fuel ctx [a, b] [s, t] (by simp [ha, hb])]
  simp

/-- strings, then an argument that is not a string (the rest is not evaluated) ⇒ nothing -/
theorem concat_non_string (pre post : List Expr) (e : Expr) (w : Option JV) (hw : strArg w = none)
    (hpre : ∀ e' ∈ pre, ∃ s : Str, eval orc fuel e' ctx = .ok (some (.str s)))
    (he : eval orc fuel e ctx = .ok w) :
    eval orc (fuel + 1) (.call "concat" (pre ++ e :: post)) ctx = .ok none := by
  simp only [eval, callFn, nskB_concat, nskL_concat, nskO_concat, nskN_concat, callString]
  exact foldArgs_str_stop _ ctx pre post e w [] hpre he hw

/-- the length of a concatenation is the sum of the lengths -/
theorem size_concat (a b : Expr) (s t : Str)
    (ha : eval orc fuel a ctx = .ok (some (.str s))) (hb : eval orc fuel b ctx = .ok (some (.str t))) :
    eval orc (fuel + 2) (.call "size" [.call "concat" [a, b]]) ctx = .ok (some (.num (.pos (s.length + t.length)))) := by
  rw [size_str orc (fuel + 1) ctx _ _ (concat_two orc fuel ctx a b s t ha hb), List.length_append]

/-- `split`: "Split the string into array of strings." (`str::split`) -/
theorem split_str (a b : Expr) (s sep : Str)
    (ha : eval orc fuel a ctx = .ok (some (.str s))) (hb : eval orc fuel b ctx = .ok (some (.str sep))) :
    eval orc (fuel + 1) (.call "split" [a, b]) ctx = .ok (some (.arr ((splitStr s sep).map JV.str))) := by
  ncall_simp [ha, hb]

/-- the result of `split` is a non-empty array of strings which, joined by the separator, give the string back -/
theorem split_str_spec (a b : Expr) (s sep : Str)
    (ha : eval orc fuel a ctx = .ok (some (.str s))) (hb : eval orc fuel b ctx = .ok (some (.str sep))) :
    ∃ parts : List Str, eval orc (fuel + 1) (.call "split" [a, b]) ctx = .ok (some (.arr (parts.map JV.str))) ∧
      parts ≠ [] ∧ sep.intercalate parts = s :=
  ⟨_, split_str orc fuel ctx a b s sep ha hb, splitStr_ne_nil s sep, splitStr_intercalate s sep⟩

/-- a string or separator that is not a string ⇒ nothing -/
theorem split_wrong_type (a b : Expr) (v w : Option JV) (h : strArg v = none ∨ strArg w = none)
    (ha : eval orc fuel a ctx = .ok v) (hb : eval orc fuel b ctx = .ok w) :
    eval orc (fuel + 1) (.call "split" [a, b]) ctx = .ok none := by
  ncall_simp [ha, hb]
  simp only [strArg] at h
  rcases h with h | h
  · simp only [h]
  · simp only [h]; split <;> simp_all

/-- `(join (split s sep) sep) = s` -/
theorem join_split (a b c : Expr) (s sep : Str)
    (ha : eval orc fuel a ctx = .ok (some (.str s))) (hb : eval orc fuel b ctx = .ok (some (.str sep)))
    (hc : eval orc (fuel + 1) c ctx = .ok (some (.str sep))) :
    eval orc (fuel + 2) (.call "join" [.call "split" [a, b], c]) ctx = .ok (some (.str s)) := by
  rw [join_arr orc (fuel + 1) ctx _ c _ sep (split_str orc fuel ctx a b s sep ha hb) hc,
    joinGo_strs_all, splitStr_intercalate]
  rfl


/-! ## 8. `stringify` and `parse` -/

/-- `stringify`: the compact JSON text of the value -/
theorem stringify_val (a : Expr) (v : JV) (ha : eval orc fuel a ctx = .ok (some v)) :
    eval orc (fuel + 1) (.call "stringify" [a]) ctx = .ok (some (.str v.display)) := by
  ncall_simp [ha]

theorem stringify_nothing (a : Expr) (ha : eval orc fuel a ctx = .ok none) :
    eval orc (fuel + 1) (.call "stringify" [a]) ctx = .ok none := by
  ncall_simp [ha]

/-- `parse` of something that is not a string ⇒ nothing -/
theorem parse_wrong_type (a : Expr) (v : Option JV) (hv : strArg v = none) (ha : eval orc fuel a ctx = .ok v) :
    eval orc (fuel + 1) (.call "parse" [a]) ctx = .ok none := by
  ncall_simp [ha]
  simp only [strArg] at hv
  simp only [hv]

/-- `parse` of the printed text of a printable value is that value (in the parser's normal form: a `Negative`
holding a non-negative integer is read as a `Positive`) -/
theorem parse_display (a : Expr) (v : JV) (hv : RT.Printable {} v)
    (ha : eval orc fuel a ctx = .ok (some (.str v.display))) :
    eval orc (fuel + 1) (.call "parse" [a]) ctx = .ok (some (RT.norm v)) := by
  have hd : RT.Delim v [] := RT.Delim.of_numDelim (fun b hb => by simp at hb)
  obtain ⟨r1, h1, hr1⟩ := RT.nextJson_print {} v hv [] (fun _ h => absurd h List.not_mem_nil) [] hd
    (Reader.ofString v.display) (by simpa [Reader.ofString, JV.display] using RT.ready_ofBytes _ _)
  obtain ⟨r2, h2, -⟩ := RT.nextJson_end [] (fun _ h => absurd h List.not_mem_nil) r1 hr1
  ncall_simp [ha]
  simp only [h1, h2]

/-- `(parse (stringify x)) = x` -/
theorem parse_stringify (a : Expr) (v : JV) (hv : RT.Printable {} v) (ha : eval orc fuel a ctx = .ok (some v)) :
    eval orc (fuel + 2) (.call "parse" [.call "stringify" [a]]) ctx = .ok (some (RT.norm v)) :=
  parse_display orc (fuel + 1) ctx _ v hv (stringify_val orc fuel ctx a v ha)

/-! ## 9. Library-backed functions (`env`, `match`, `extract_regex_group`, `base63_decode`, the time functions):
their values come from the library; an argument of the wrong type ⇒ nothing, without asking the library -/

theorem env_wrong_type (a : Expr) (v : Option JV) (hv : strArg v = none) (ha : eval orc fuel a ctx = .ok v) :
    eval orc (fuel + 1) (.call "env" [a]) ctx = .ok none := by
  ncall_simp [ha]
  rcases v with _ | (_ | _ | _ | _ | _ | _) <;> simp_all [strArg]

theorem base63_decode_wrong_type (a : Expr) (v : Option JV) (hv : strArg v = none) (ha : eval orc fuel a ctx = .ok v) :
    eval orc (fuel + 1) (.call "base63_decode" [a]) ctx = .ok none := by
  ncall_simp [ha]
  rcases v with _ | (_ | _ | _ | _ | _ | _) <;> simp_all [strArg]

theorem match_wrong_type (a b : Expr) (v w : Option JV) (h : strArg v = none ∨ strArg w = none)
    (ha : eval orc fuel a ctx = .ok v) (hb : eval orc fuel b ctx = .ok w) :
    eval orc (fuel + 1) (.call "match" [a, b]) ctx = .ok none := by
  ncall_simp [ha, hb]
  rcases v with _ | (_ | _ | _ | _ | _ | _) <;> rcases w with _ | (_ | _ | _ | _ | _ | _) <;> simp_all [strArg]

theorem parse_time_wrong_type (a b : Expr) (v w : Option JV) (h : strArg v = none ∨ strArg w = none)
    (ha : eval orc fuel a ctx = .ok v) (hb : eval orc fuel b ctx = .ok w) :
    eval orc (fuel + 1) (.call "parse_time" [a, b]) ctx = .ok none := by
  ncall_simp [ha, hb]
  rcases v with _ | (_ | _ | _ | _ | _ | _) <;> rcases w with _ | (_ | _ | _ | _ | _ | _) <;> simp_all [strArg]

theorem parse_time_with_zone_wrong_type (a b : Expr) (v w : Option JV) (h : strArg v = none ∨ strArg w = none)
    (ha : eval orc fuel a ctx = .ok v) (hb : eval orc fuel b ctx = .ok w) :
    eval orc (fuel + 1) (.call "parse_time_with_zone" [a, b]) ctx = .ok none := by
  ncall_simp [ha, hb]
  rcases v with _ | (_ | _ | _ | _ | _ | _) <;> rcases w with _ | (_ | _ | _ | _ | _ | _) <;> simp_all [strArg]

/-- `format_time`: the time must be a number, the format a string -/
theorem format_time_wrong_type (a b : Expr) (v w : Option JV) (h : numArg v = none ∨ strArg w = none)
    (ha : eval orc fuel a ctx = .ok v) (hb : eval orc fuel b ctx = .ok w) :
    eval orc (fuel + 1) (.call "format_time" [a, b]) ctx = .ok none := by
  ncall_simp [ha, hb]
  rcases v with _ | (_ | _ | _ | _ | _ | _) <;> rcases w with _ | (_ | _ | _ | _ | _ | _) <;> simp_all [strArg, numArg]

/-- `extract_regex_group`: string, string, non-negative integer -/
theorem extract_regex_group_wrong_type (a b c : Expr) (v w u : Option JV)
    (h : strArg v = none ∨ strArg w = none ∨ usizeArg u = none)
    (ha : eval orc fuel a ctx = .ok v) (hb : eval orc fuel b ctx = .ok w) (hc : eval orc fuel c ctx = .ok u) :
    eval orc (fuel + 1) (.call "extract_regex_group" [a, b, c]) ctx = .ok none := by
  ncall_simp [ha, hb, hc]
  rcases v with _ | (_ | _ | _ | _ | _ | _) <;> rcases w with _ | (_ | _ | _ | _ | _ | _) <;>
    rcases u with _ | (_ | _ | _ | (_ | _ | _) | _ | _) <;> simp_all [strArg, usizeArg, Num.toUsize?]

/-- with arguments of the right types the answer is the library's (the oracle's) -/
theorem env_str (a : Expr) (s : Str) (ha : eval orc fuel a ctx = .ok (some (.str s))) :
    eval orc (fuel + 1) (.call "env" [a]) ctx = orc.ask "env" [.str s] := by
  ncall_simp [ha]

theorem match_strs (a b : Expr) (s re : Str)
    (ha : eval orc fuel a ctx = .ok (some (.str s))) (hb : eval orc fuel b ctx = .ok (some (.str re))) :
    eval orc (fuel + 1) (.call "match" [a, b]) ctx = orc.ask "match" [.str s, .str re] := by
  ncall_simp [ha, hb]


/-- on every finite float the result of `floor` / `ceil` / `round` is (the `From<f64>` of) an integral double -/
theorem floor_ceil_round_integral_result (a : Expr) (s : Bool) (m : Nat) (e : Int) (hm : m < 2 ^ 53)
    (ha : eval orc fuel a ctx = .ok (some (.num (.flt (.fin s m e))))) :
    (∃ g, eval orc (fuel + 1) (.call "floor" [a]) ctx = .ok (jnum g) ∧ g.fractIsZero = true) ∧
    (∃ g, eval orc (fuel + 1) (.call "ceil" [a]) ctx = .ok (jnum g) ∧ g.fractIsZero = true) ∧
    (∃ g, eval orc (fuel + 1) (.call "round" [a]) ctx = .ok (jnum g) ∧ g.fractIsZero = true) :=
  ⟨⟨_, floor_num orc fuel ctx a _ ha, floor_integral s m e hm⟩,
   ⟨_, ceil_num orc fuel ctx a _ ha, ceil_integral s m e hm⟩,
   ⟨_, round_num orc fuel ctx a _ ha, round_integral s m e hm⟩⟩

/-- a string in which the (non-empty) separator does not occur is not split: `[s]` -/
theorem split_no_sep (a b : Expr) (s sep : Str) (hne : sep ≠ [])
    (h : ∀ i, i < s.length → sep.isPrefixOf (s.drop i) = false)
    (ha : eval orc fuel a ctx = .ok (some (.str s))) (hb : eval orc fuel b ctx = .ok (some (.str sep))) :
    eval orc (fuel + 1) (.call "split" [a, b]) ctx = .ok (some (.arr [.str s])) := by
  rw [split_str orc fuel ctx a b s sep ha hb, splitStr_no_sep s sep hne h]; rfl


section Examples
private def n (k : Nat) : Expr := .const (.num (.pos k))
private def s (t : String) : Expr := .const (.str t.toList)
/-- the double nearest to a decimal literal -/
private def dec (t : String) : F64 := (F64.parseDecimal t.toList).getD .nan
private def d (t : String) : Expr := .const (.num (.flt (dec t)))

/-! the documentation's examples -/
example : eval {} 5 (.call "*" [n 2, n 3]) {} = .ok (some (.num (.pos 6))) :=
  mul_pos_pos {} 4 {} _ _ 2 3 (by decide) (by decide) (by decide) rfl rfl
example : eval {} 5 (.call "*" [n 2, n 3, n 7]) {} = .ok (some (.num (.pos 42))) :=
  mul_pos_many {} 4 {} _ [2, 3, 7] (by decide) (by decide) rfl
example : eval {} 5 (.call "+" [n 1, n 3, n 3]) {} = .ok (some (.num (.pos 7))) :=
  add_pos_many {} 4 {} _ [1, 3, 3] (by decide) rfl
example : eval {} 5 (.call "*" [n 2, .const (.bool true)]) {} = .ok none :=
  mul_non_number_right {} 4 {} _ _ (.pos 2) (some (.bool true)) rfl rfl rfl
example : eval {} 5 (.call "-" [n 100, n 3]) {} = .ok (some (.num (.pos 97))) :=
  sub_pos_pos_ge {} 4 {} _ _ 100 3 (by decide) (by decide) rfl rfl
example : eval {} 5 (.call "-" [n 3, n 5]) {} = .ok (some (.num (.neg (-2)))) :=
  sub_pos_pos_lt {} 4 {} _ _ 3 5 (by decide) (by decide) rfl rfl
example : eval {} 5 (.call "-" [n 10]) {} = .ok (some (.num (.neg (-10)))) :=
  neg_pos {} 4 {} _ 10 (by decide) (by decide) rfl
example : eval {} 5 (.call "-" [.call "-" [n 10]]) {} = .ok (some (.num (.pos 10))) :=
  neg_neg {} 3 {} _ 10 (by decide) rfl
example : eval {} 5 (.call "-" [n 10, s "text"]) {} = .ok none :=
  sub_non_number {} 4 {} _ _ _ (some (.str "text".toList)) (.inr rfl) rfl rfl
example : eval {} 5 (.call "-" [.const .null, n 6]) {} = .ok none :=
  sub_non_number {} 4 {} _ _ (some .null) _ (.inl rfl) rfl rfl
example : eval {} 5 (.call "-" [.const (.obj [])]) {} = .ok none :=
  neg_non_number {} 4 {} _ (some (.obj [])) rfl rfl
/-- `(- 10 3.2)` is `6.8` -/
example : eval {} 5 (.call "-" [n 10, d "3.2"]) {} = .ok (some (.num (.flt (dec "6.8")))) := by
  rw [sub_nums {} 4 {} _ _ (.pos 10) (.flt (dec "3.2")) rfl rfl]
  have h : F64.sub (Num.pos 10).toF64 (Num.flt (dec "3.2")).toF64 = dec "6.8" := by decide +kernel
  have h2 : (dec "6.8").isFinite = true := by decide +kernel
  have h3 : Num.ofF64 (dec "6.8") = .flt (dec "6.8") := by decide +kernel
  simp only [h, jnumFinite, h2, if_true, jnum, h3]
example : eval {} 5 (.call "/" [n 100, n 25]) {} = .ok (some (.num (.pos 4))) := by
  rw [div_nums {} 4 {} _ _ (.pos 100) (.pos 25) (by decide +kernel) rfl rfl]
  have h : F64.div (Num.pos 100).toF64 (Num.pos 25).toF64 = F64.ofNat 4 := by decide +kernel
  rw [h, jnumFinite_ofNat_exact 4 (by decide)]
/-- `(/ 7 2)` is `3.5` -/
example : eval {} 5 (.call "/" [n 7, n 2]) {} = .ok (some (.num (.flt (dec "3.5")))) := by
  rw [div_nums {} 4 {} _ _ (.pos 7) (.pos 2) (by decide +kernel) rfl rfl]
  have h : F64.div (Num.pos 7).toF64 (Num.pos 2).toF64 = dec "3.5" := by decide +kernel
  have h2 : (dec "3.5").isFinite = true := by decide +kernel
  have h3 : Num.ofF64 (dec "3.5") = .flt (dec "3.5") := by decide +kernel
  simp only [h, jnumFinite, h2, if_true, jnum, h3]
example : eval {} 5 (.call "/" [n 7, n 0]) {} = .ok none :=
  div_by_zero {} 4 {} _ _ (.pos 7) (.pos 0) (by decide +kernel) rfl rfl
/-- a negative zero divisor is a zero divisor -/
example : eval {} 5 (.call "/" [n 7, .const (.num (.flt F64.negZero))]) {} = .ok none :=
  div_by_zero {} 4 {} _ _ (.pos 7) (.flt F64.negZero) rfl rfl rfl
example : eval {} 5 (.call "/" [n 7, .const (.arr [])]) {} = .ok none :=
  div_non_number {} 4 {} _ _ _ (some (.arr [])) (.inr rfl) rfl rfl
example : eval {} 5 (.call "%" [n 5, n 3]) {} = .ok (some (.num (.pos 2))) :=
  rem_pos_pos {} 4 {} _ _ 5 3 (by decide) (by decide) (by decide) rfl rfl
example : eval {} 5 (.call "%" [n 7, n 2]) {} = .ok (some (.num (.pos 1))) :=
  rem_pos_pos {} 4 {} _ _ 7 2 (by decide) (by decide) (by decide) rfl rfl
example : eval {} 5 (.call "%" [n 7, n 0]) {} = .ok none :=
  rem_by_zero {} 4 {} _ _ (.pos 7) (.pos 0) (by decide +kernel) rfl rfl
example : eval {} 5 (.call "%" [n 7, .const (.bool false)]) {} = .ok none :=
  rem_non_number {} 4 {} _ _ _ (some (.bool false)) (.inr rfl) rfl rfl
/-- `(% 10 7.5)` is `2.5`; `(% -10 7)` is `-3` (the sign of the dividend) -/
example : eval {} 5 (.call "%" [n 10, d "7.5"]) {} = .ok (some (.num (.flt (dec "2.5")))) := by
  rw [rem_nums {} 4 {} _ _ (.pos 10) (.flt (dec "7.5")) (by decide +kernel) rfl rfl]
  have h : Num.ofF64 (F64.rem (Num.pos 10).toF64 (Num.flt (dec "7.5")).toF64) = .flt (dec "2.5") := by decide +kernel
  simp only [jnum, h]
example : eval {} 5 (.call "%" [.const (.num (.neg (-10))), n 7]) {} = .ok (some (.num (.neg (-3)))) := by
  rw [rem_nums {} 4 {} _ _ (.neg (-10)) (.pos 7) (by decide +kernel) rfl rfl]
  have h : Num.ofF64 (F64.rem (Num.neg (-10)).toF64 (Num.pos 7).toF64) = .neg (-3) := by decide +kernel
  simp only [jnum, h]
example : eval {} 5 (.call "abs" [n 100]) {} = .ok (some (.num (.pos 100))) := abs_pos {} 4 {} _ 100 (by decide) rfl
example : eval {} 5 (.call "abs" [.const (.num (.neg (-100)))]) {} = .ok (some (.num (.pos 100))) :=
  abs_neg {} 4 {} _ 100 (by decide) (by decide) rfl
example : eval {} 5 (.call "abs" [.const (.arr [.num (.pos 0)])]) {} = .ok none :=
  abs_non_number {} 4 {} _ (some (.arr [.num (.pos 0)])) rfl rfl
example : eval {} 5 (.call "floor" [.const (.num (.neg (-10)))]) {} = .ok (some (.num (.neg (-10)))) :=
  floor_neg {} 4 {} _ 10 (by decide) (by decide) rfl
example : eval {} 5 (.call "ceil" [.const (.num (.neg (-10)))]) {} = .ok (some (.num (.neg (-10)))) :=
  ceil_neg {} 4 {} _ 10 (by decide) (by decide) rfl
example : eval {} 5 (.call "round" [.const (.num (.neg (-10)))]) {} = .ok (some (.num (.neg (-10)))) :=
  round_neg {} 4 {} _ 10 (by decide) (by decide) rfl
/-- `floor 10.3 = 10`, `floor -10.3 = -11`, `ceil 10.3 = 11`, `ceil -10.5 = -10`, `round 10.5 = 11`, `round -10.5 = -11` -/
example : eval {} 5 (.call "floor" [d "10.3"]) {} = .ok (some (.num (.pos 10))) := by
  rw [floor_num {} 4 {} _ (.flt (dec "10.3")) rfl]
  have h : Num.ofF64 (Num.flt (dec "10.3")).toF64.floor = .pos 10 := by decide +kernel
  simp only [jnum, h]
example : eval {} 5 (.call "floor" [d "-10.3"]) {} = .ok (some (.num (.neg (-11)))) := by
  rw [floor_num {} 4 {} _ (.flt (dec "-10.3")) rfl]
  have h : Num.ofF64 (Num.flt (dec "-10.3")).toF64.floor = .neg (-11) := by decide +kernel
  simp only [jnum, h]
example : eval {} 5 (.call "ceil" [d "10.3"]) {} = .ok (some (.num (.pos 11))) := by
  rw [ceil_num {} 4 {} _ (.flt (dec "10.3")) rfl]
  have h : Num.ofF64 (Num.flt (dec "10.3")).toF64.ceil = .pos 11 := by decide +kernel
  simp only [jnum, h]
example : eval {} 5 (.call "ceil" [d "-10.5"]) {} = .ok (some (.num (.neg (-10)))) := by
  rw [ceil_num {} 4 {} _ (.flt (dec "-10.5")) rfl]
  have h : Num.ofF64 (Num.flt (dec "-10.5")).toF64.ceil = .neg (-10) := by decide +kernel
  simp only [jnum, h]
example : eval {} 5 (.call "round" [d "10.5"]) {} = .ok (some (.num (.pos 11))) := by
  rw [round_num {} 4 {} _ (.flt (dec "10.5")) rfl]
  have h : Num.ofF64 (Num.flt (dec "10.5")).toF64.round = .pos 11 := by decide +kernel
  simp only [jnum, h]
example : eval {} 5 (.call "round" [d "-10.5"]) {} = .ok (some (.num (.neg (-11)))) := by
  rw [round_num {} 4 {} _ (.flt (dec "-10.5")) rfl]
  have h : Num.ofF64 (Num.flt (dec "-10.5")).toF64.round = .neg (-11) := by decide +kernel
  simp only [jnum, h]
example : eval {} 5 (.call "round" [.const (.arr [.num (.pos 0)])]) {} = .ok none :=
  round_non_number {} 4 {} _ (some (.arr [.num (.pos 0)])) rfl rfl

/-! the bound `2^53` of the exact laws is needed: an integer above it is not "that integer" after `abs`
(the real program prints `9007199254740992` for `(abs 9007199254740993)` as well) -/
example : eval {} 5 (.call "abs" [n 9007199254740993]) {} = .ok (some (.num (.pos 9007199254740992))) := by
  rw [abs_num {} 4 {} _ (.pos 9007199254740993) rfl]
  have h : Num.ofF64 (Num.pos 9007199254740993).toF64.abs = .pos 9007199254740992 := by decide +kernel
  simp only [jnum, h]

/-! overflow is nothing: `(* 2^1023 2)`; a non-number after numbers, the rest not evaluated -/
example : eval {} 5 (.call "*" [.const (.num (.flt (.fin false (2 ^ 52) 971))), n 2]) {} = .ok none :=
  mul_overflow {} 4 {} _ _ (.flt (.fin false (2 ^ 52) 971)) (.pos 2) (by decide +kernel) rfl rfl
example : eval {} 5 (.call "+" [n 1, n 2, s "x", .call "no-such-function" []]) {} = .ok none :=
  add_non_number_any {} 4 {} [n 1, n 2] [.call "no-such-function" []] (s "x") (some (.str "x".toList)) rfl
    (by intro e he; simp at he; rcases he with rfl | rfl <;> exact ⟨_, rfl⟩) rfl
example : eval {} 5 (.call "+" [n 1, .var "unset".toList]) {} = .ok none :=
  add_non_number_right {} 4 {} _ _ (.pos 1) none rfl rfl rfl

/-! strings -/
example : eval {} 5 (.call "concat" [s "one", s " ", s "two"]) {} = .ok (some (.str "one two".toList)) :=
  concat_strs {} 4 {} _ ["one".toList, " ".toList, "two".toList] rfl
example : eval {} 5 (.call "concat" [s "one", s " ", n 2]) {} = .ok none :=
  concat_non_string {} 4 {} [s "one", s " "] [] (n 2) (some (.num (.pos 2))) rfl
    (by intro e he; simp at he; rcases he with rfl | rfl <;> exact ⟨_, rfl⟩) rfl
example : eval {} 5 (.call "split" [s "one, two, three", s ", "]) {}
    = .ok (some (.arr [.str "one".toList, .str "two".toList, .str "three".toList])) := by
  rw [split_str {} 4 {} _ _ "one, two, three".toList ", ".toList rfl rfl]; rfl
example : eval {} 5 (.call "split" [s "a|b|c", s "|"]) {}
    = .ok (some (.arr [.str "a".toList, .str "b".toList, .str "c".toList])) := by
  rw [split_str {} 4 {} _ _ "a|b|c".toList "|".toList rfl rfl]; rfl
/-- the empty separator (as `str::split("")`, and as the real program): every character, with an empty string at both ends -/
example : eval {} 5 (.call "split" [s "abc", s ""]) {}
    = .ok (some (.arr [.str [], .str "a".toList, .str "b".toList, .str "c".toList, .str []])) := by
  rw [split_str {} 4 {} _ _ "abc".toList "".toList rfl rfl]; rfl
example : eval {} 5 (.call "split" [n 1, s "|"]) {} = .ok none :=
  split_wrong_type {} 4 {} _ _ (some (.num (.pos 1))) _ (.inl rfl) rfl rfl
example : eval {} 5 (.call "join" [.call "split" [s "a,b,,c", s ","], s ","]) {} = .ok (some (.str "a,b,,c".toList)) :=
  join_split {} 3 {} _ _ _ "a,b,,c".toList ",".toList rfl rfl rfl
example : eval {} 5 (.call "split" [s "abc", s "-"]) {} = .ok (some (.arr [.str "abc".toList])) :=
  split_no_sep {} 4 {} _ _ "abc".toList "-".toList (by decide) (by decide) rfl rfl
example : eval {} 5 (.call "parse" [.call "stringify" [.const RT.sample]]) {} = .ok (some RT.sample) := by
  rw [parse_stringify {} 3 {} _ RT.sample (RT.sample_printable {}) rfl, RT.sample_norm]
example : eval {} 5 (.call "parse" [n 1]) {} = .ok none :=
  parse_wrong_type {} 4 {} _ (some (.num (.pos 1))) rfl rfl
example : eval {} 5 (.call "env" [n 1]) {} = .ok none := env_wrong_type {} 4 {} _ (some (.num (.pos 1))) rfl rfl
example : eval {} 5 (.call "match" [s "a", n 1]) {} = .ok none :=
  match_wrong_type {} 4 {} _ _ _ (some (.num (.pos 1))) (.inr rfl) rfl rfl
example : eval {} 5 (.call "extract_regex_group" [s "a", s "b", .const (.num (.neg (-1)))]) {} = .ok none :=
  extract_regex_group_wrong_type {} 4 {} _ _ _ _ _ (some (.num (.neg (-1)))) (.inr (.inr rfl)) rfl rfl rfl
example : eval {} 5 (.call "format_time" [s "a", s "%Y"]) {} = .ok none :=
  format_time_wrong_type {} 4 {} _ _ (some (.str "a".toList)) _ (.inl rfl) rfl rfl
example : eval {} 5 (.call "parse_time" [s "a", .var "unset".toList]) {} = .ok none :=
  parse_time_wrong_type {} 4 {} _ _ _ none (.inr rfl) rfl rfl
/-- with the right types the answer is the library's: an oracle table with one entry -/
example : eval { table := [("env", ["\"HOME\"".toList], some (.str "/root".toList))] } 5 (.call "env" [s "HOME"]) {}
    = .ok (some (.str "/root".toList)) := by
  rw [env_str _ 4 {} _ "HOME".toList rfl]; rfl
/-- every finite double: the result of `floor` is integral -/
example : ∃ g, eval {} 5 (.call "floor" [.const (.num (.flt (.fin false (3 * 2 ^ 51) (-52))))]) {} = .ok (jnum g) ∧
    g.fractIsZero = true :=
  (floor_ceil_round_integral_result {} 4 {} _ false (3 * 2 ^ 51) (-52) (by decide) rfl).1
end Examples

/-
  Axiom audit (`#print axioms` on the theorems of this file, 2026-09-29): all ⊆ {propext, Classical.choice, Quot.sound}.
  e.g.  #print axioms mul_pos_pos / sub_pos_pos_lt / rem_pos_pos / arith_result_finite / join_split / parse_stringify
-/

end Jawk.EvalLaws
