/-
  Property C04, part B: the object functions (`/repo/src/functions/object/**`) and the type conversions
  (`/repo/src/functions/type_group/cast/*`) evaluate to what their documentation prescribes.

  Same conventions as `EvalLaws.lean`: every law is stated for arbitrary argument EXPRESSIONS whose evaluation
  is a hypothesis; `eval … = .ok none` is the evaluator's "nothing".  An object is its list of members
  `List (Str × JV)` in member order.
-/
import Jawk.Lemmas.EvalLaws
import Jawk.Lemmas.SortFns
namespace Jawk.EvalLaws
open Jawk

/-! ## Dispatch: the object functions and casts are skipped by the earlier groups -/
section DispatchObj
variable (ev : Ev) (args : List Expr) (ctx : Ctx)

theorem skipB_filter_keys : callBasic ev "filter_keys" args ctx = none := rfl
theorem skipL_filter_keys : callList ev "filter_keys" args ctx = none := rfl
theorem skipB_filter_values : callBasic ev "filter_values" args ctx = none := rfl
theorem skipL_filter_values : callList ev "filter_values" args ctx = none := rfl
theorem skipB_map_keys : callBasic ev "map_keys" args ctx = none := rfl
theorem skipL_map_keys : callList ev "map_keys" args ctx = none := rfl
theorem skipB_map_values : callBasic ev "map_values" args ctx = none := rfl
theorem skipL_map_values : callList ev "map_values" args ctx = none := rfl
theorem skipB_insert_if_absent : callBasic ev "insert_if_absent" args ctx = none := rfl
theorem skipL_insert_if_absent : callList ev "insert_if_absent" args ctx = none := rfl
theorem skipB_put : callBasic ev "put" args ctx = none := rfl
theorem skipL_put : callList ev "put" args ctx = none := rfl
theorem skipB_replace_if_exists : callBasic ev "replace_if_exists" args ctx = none := rfl
theorem skipL_replace_if_exists : callList ev "replace_if_exists" args ctx = none := rfl
theorem skipB_sort_by_values_by : callBasic ev "sort_by_values_by" args ctx = none := rfl
theorem skipL_sort_by_values_by : callList ev "sort_by_values_by" args ctx = none := rfl
theorem skipB_sort_by_keys : callBasic ev "sort_by_keys" args ctx = none := rfl
theorem skipL_sort_by_keys : callList ev "sort_by_keys" args ctx = none := rfl
theorem skipB_sort_by_values : callBasic ev "sort_by_values" args ctx = none := rfl
theorem skipL_sort_by_values : callList ev "sort_by_values" args ctx = none := rfl

end DispatchObj

/-- `call_simp` of `EvalLaws.lean` for the functions of this file -/
macro "obj_simp" "[" ts:Lean.Parser.Tactic.simpLemma,* "]" : tactic =>
  `(tactic| (
    simp only [eval, callFn, skipB_filter_keys, skipL_filter_keys, skipB_filter_values, skipL_filter_values,
      skipB_map_keys, skipL_map_keys, skipB_map_values, skipL_map_values, skipB_insert_if_absent,
      skipL_insert_if_absent, skipB_put, skipL_put, skipB_replace_if_exists, skipL_replace_if_exists,
      skipB_sort_by_values_by, skipL_sort_by_values_by, skipB_sort_by_keys, skipL_sort_by_keys,
      skipB_sort_by_values, skipL_sort_by_values]
    simp only [callBasic, callObject,
      applyArg, List.getElem?_cons_zero, List.getElem?_cons_succ, List.getElem?_nil,
      bind, Except.bind, pure, Except.pure, strArg, jbool, $ts,*]))

/-! ## Helper lemmas about lists and objects (not about `eval`) -/

theorem isTrue_iff (r : Option JV) : isTrue r = true ↔ r = some (.bool true) := by
  rcases r with _ | (_ | (_ | _) | _ | _ | _ | _) <;> simp [isTrue]

/-- the keys of an object, in member order -/
def objKeys (m : List (Str × JV)) : List Str := m.map (·.1)

/-- the renamed members of `map_keys`: member `i` gets the `i`-th new key when that is a string, and is dropped otherwise -/
def renameKeys (m : List (Str × JV)) (ks : List (Option JV)) : List (Str × JV) :=
  (m.zip ks).filterMap (fun x => (strArg x.2).map (fun s => (s, x.1.2)))

theorem renameKeys_map (m : List (Str × JV)) (g : Str → Option JV) :
    renameKeys m (m.map (fun kv => g kv.1)) = m.filterMap (fun kv => (strArg (g kv.1)).map (fun s => (s, kv.2))) := by
  induction m with
  | nil => rfl
  | cons x xs ih =>
    simp only [renameKeys] at ih
    simp only [renameKeys, List.map_cons, List.zip_cons_cons, List.filterMap_cons, ih]

/-- the re-valued members of `map_values`: member `i` gets the `i`-th new value, and is dropped when that is nothing -/
def revalue (m : List (Str × JV)) (vs : List (Option JV)) : List (Str × JV) :=
  (m.zip vs).filterMap (fun x => x.2.map (fun v => (x.1.1, v)))

theorem revalue_map (m : List (Str × JV)) (g : JV → Option JV) :
    revalue m (m.map (fun kv => g kv.2)) = m.filterMap (fun kv => (g kv.2).map (fun v => (kv.1, v))) := by
  induction m with
  | nil => rfl
  | cons x xs ih =>
    simp only [revalue] at ih
    simp only [revalue, List.map_cons, List.zip_cons_cons, List.filterMap_cons, ih]

/-! ### `objInsert` (`IndexMap::insert`) -/

theorem objGet?_objInsert_same (m : List (Str × JV)) (k : Str) (v : JV) : objGet? (objInsert m k v) k = some v := by
  induction m with
  | nil => simp [objInsert, objGet?]
  | cons kv m ih =>
    obtain ⟨k', v'⟩ := kv
    by_cases h : k' = k <;> simp [objInsert, objGet?, h, ih]

theorem objGet?_objInsert_other (m : List (Str × JV)) (k k' : Str) (v : JV) (hk : k' ≠ k) :
    objGet? (objInsert m k v) k' = objGet? m k' := by
  induction m with
  | nil => simp [objInsert, objGet?, Ne.symm hk]
  | cons kv m ih =>
    obtain ⟨k'', v''⟩ := kv
    by_cases h : k'' = k
    · subst h; simp [objInsert, objGet?, Ne.symm hk]
    · by_cases h' : k'' = k' <;> simp [objInsert, objGet?, h, h', ih, hk]

/-- a new key goes last -/
theorem objInsert_absent (m : List (Str × JV)) (k : Str) (v : JV) (h : objGet? m k = none) :
    objInsert m k v = m ++ [(k, v)] := by
  induction m with
  | nil => rfl
  | cons kv m ih =>
    obtain ⟨k', v'⟩ := kv
    by_cases hk : k' = k
    · simp [objGet?, hk] at h
    · simp only [objGet?, hk, if_false] at h
      simp [objInsert, hk, ih h]

/-- an existing key keeps its place: the FIRST member with that key is replaced, nothing else changes -/
theorem objInsert_present (m : List (Str × JV)) (k : Str) (v : JV) (h : (objGet? m k).isSome) :
    ∃ pre post w, m = pre ++ (k, w) :: post ∧ (∀ kv ∈ pre, kv.1 ≠ k) ∧ objInsert m k v = pre ++ (k, v) :: post := by
  induction m with
  | nil => simp [objGet?] at h
  | cons kv m ih =>
    obtain ⟨k', v'⟩ := kv
    by_cases hk : k' = k
    · subst hk
      exact ⟨[], m, v', rfl, by simp, by simp [objInsert]⟩
    · simp only [objGet?, hk, if_false] at h
      obtain ⟨pre, post, w, h1, h2, h3⟩ := ih h
      refine ⟨(k', v') :: pre, post, w, by simp [h1], ?_, by simp [objInsert, hk, h3]⟩
      intro kv hkv
      rcases List.mem_cons.1 hkv with rfl | hkv
      · exact hk
      · exact h2 kv hkv

/-- the keys, in member order: unchanged for an existing key, the new key appended otherwise -/
theorem objKeys_objInsert (m : List (Str × JV)) (k : Str) (v : JV) :
    objKeys (objInsert m k v) = if (objGet? m k).isSome then objKeys m else objKeys m ++ [k] := by
  induction m with
  | nil => simp [objInsert, objGet?, objKeys]
  | cons kv m ih =>
    obtain ⟨k', v'⟩ := kv
    by_cases hk : k' = k
    · simp [objInsert, objGet?, objKeys, hk]
    · simp only [objKeys] at ih
      simp only [objInsert, objGet?, objKeys, hk, if_false, List.map_cons, ih]
      split <;> simp

theorem length_objInsert (m : List (Str × JV)) (k : Str) (v : JV) :
    (objInsert m k v).length = if (objGet? m k).isSome then m.length else m.length + 1 := by
  have := congrArg List.length (objKeys_objInsert m k v)
  simp only [objKeys, List.length_map] at this
  rw [this]
  split <;> simp

theorem objGet?_isSome_iff (m : List (Str × JV)) (k : Str) : (objGet? m k).isSome ↔ k ∈ objKeys m := by
  induction m with
  | nil => simp [objGet?, objKeys]
  | cons kv m ih =>
    obtain ⟨k', v'⟩ := kv
    simp only [objKeys] at ih
    by_cases hk : k' = k
    · simp [objGet?, objKeys, hk]
    · simp [objGet?, objKeys, hk, ih, Ne.symm hk]

theorem objInsert_nodup_keys (m : List (Str × JV)) (k : Str) (v : JV) (h : (objKeys m).Nodup) :
    (objKeys (objInsert m k v)).Nodup := by
  rw [objKeys_objInsert]
  split
  · exact h
  · rename_i hk
    rw [objGet?_isSome_iff] at hk
    rw [List.nodup_append]
    exact ⟨h, by simp, fun a ha b hb => by simp at hb; subst hb; exact fun e => hk (e ▸ ha)⟩

/-! ### `objOfList` (`collect::<IndexMap<_, _>>()`): later duplicates replace earlier ones in place -/

/-- the loop of `objOfList` from an arbitrary accumulator -/
def objFold (acc l : List (Str × JV)) : List (Str × JV) := l.foldl (fun acc kv => objInsert acc kv.1 kv.2) acc

theorem objOfList_eq (l : List (Str × JV)) : objOfList l = objFold [] l := rfl

theorem objFold_nodup_keys (acc l : List (Str × JV)) (h : (objKeys acc).Nodup) : (objKeys (objFold acc l)).Nodup := by
  induction l generalizing acc with
  | nil => exact h
  | cons x xs ih => exact ih _ (objInsert_nodup_keys acc x.1 x.2 h)

/-- the result of a collect has distinct keys -/
theorem objOfList_nodup_keys (l : List (Str × JV)) : (objKeys (objOfList l)).Nodup :=
  objFold_nodup_keys [] l List.nodup_nil

theorem objFold_get (acc l : List (Str × JV)) (k : Str) :
    objGet? (objFold acc l) k = ((l.reverse.find? (fun kv => kv.1 == k)).map (·.2)).or (objGet? acc k) := by
  induction l generalizing acc with
  | nil => simp [objFold]
  | cons x xs ih =>
    have : objFold acc (x :: xs) = objFold (objInsert acc x.1 x.2) xs := rfl
    rw [this, ih, List.reverse_cons, List.find?_append]
    cases hf : xs.reverse.find? (fun kv => kv.1 == k) with
    | some kv => simp
    | none =>
      by_cases hk : x.1 = k
      · subst hk; simp [objGet?_objInsert_same]
      · simp [hk, objGet?_objInsert_other acc x.1 k x.2 (Ne.symm hk)]

/-- looking a key up in the collected object gives the value of the LAST pair with that key -/
theorem objGet?_objOfList (l : List (Str × JV)) (k : Str) :
    objGet? (objOfList l) k = (l.reverse.find? (fun kv => kv.1 == k)).map (·.2) := by
  rw [objOfList_eq, objFold_get]
  simp [objGet?]

theorem objFold_keys_mem (acc l : List (Str × JV)) (k : Str) :
    k ∈ objKeys (objFold acc l) ↔ k ∈ objKeys acc ∨ k ∈ objKeys l := by
  induction l generalizing acc with
  | nil => simp [objFold, objKeys]
  | cons x xs ih =>
    have : objFold acc (x :: xs) = objFold (objInsert acc x.1 x.2) xs := rfl
    rw [this, ih, objKeys_objInsert]
    split
    · rename_i h
      rw [objGet?_isSome_iff] at h
      simp only [objKeys, List.map_cons, List.mem_cons]
      constructor
      · rintro (h' | h') <;> simp [h']
      · rintro (h' | rfl | h')
        · exact .inl h'
        · exact .inl h
        · exact .inr h'
    · simp only [objKeys, List.map_cons, List.mem_cons, List.mem_append, List.not_mem_nil, or_false]
      exact or_assoc

/-- the collected object has exactly the keys of the pairs -/
theorem objOfList_keys_mem (l : List (Str × JV)) (k : Str) : k ∈ objKeys (objOfList l) ↔ k ∈ objKeys l := by
  rw [objOfList_eq, objFold_keys_mem]; simp [objKeys]

theorem objFold_of_nodup (acc l : List (Str × JV)) (h : (objKeys (acc ++ l)).Nodup) : objFold acc l = acc ++ l := by
  induction l generalizing acc with
  | nil => simp [objFold]
  | cons x xs ih =>
    have e : objFold acc (x :: xs) = objFold (objInsert acc x.1 x.2) xs := rfl
    have hx : objGet? acc x.1 = none := by
      rw [objGet?_none_iff]
      intro kv hkv hk
      simp only [objKeys, List.map_append, List.map_cons] at h
      rw [List.nodup_append] at h
      exact h.2.2 kv.1 (List.mem_map_of_mem hkv) x.1 List.mem_cons_self hk
    rw [e, objInsert_absent acc x.1 x.2 hx, ih]
    · simp
    · simpa using h

/-- pairs with distinct keys are collected as they are -/
theorem objOfList_of_nodup (l : List (Str × JV)) (h : (objKeys l).Nodup) : objOfList l = l := by
  rw [objOfList_eq, objFold_of_nodup [] l (by simpa using h)]; rfl

/-- the keys of the collected object are the keys of the pairs in order of FIRST occurrence -/
theorem objFold_keys (acc l : List (Str × JV)) (h : (objKeys acc).Nodup) :
    objKeys (objFold acc l) = objKeys acc ++ ((objKeys l).filter (fun k => !(objKeys acc).contains k)).eraseDups := by
  induction l generalizing acc with
  | nil => simp [objFold, objKeys]
  | cons x xs ih =>
    have e : objFold acc (x :: xs) = objFold (objInsert acc x.1 x.2) xs := rfl
    rw [e, ih _ (objInsert_nodup_keys acc x.1 x.2 h), objKeys_objInsert]
    split
    · rename_i hx
      rw [objGet?_isSome_iff] at hx
      have : (objKeys (x :: xs)).filter (fun k => !(objKeys acc).contains k)
          = (objKeys xs).filter (fun k => !(objKeys acc).contains k) := by
        simp only [objKeys, List.map_cons, List.filter_cons]
        rw [if_neg]
        simpa [objKeys] using hx
      rw [this]
    · rename_i hx
      rw [objGet?_isSome_iff] at hx
      have h1 : (objKeys (x :: xs)).filter (fun k => !(objKeys acc).contains k)
          = x.1 :: (objKeys xs).filter (fun k => !(objKeys acc).contains k) := by
        simp only [objKeys, List.map_cons, List.filter_cons]
        rw [if_pos]
        simpa [objKeys] using hx
      rw [h1, List.eraseDups_cons, List.filter_filter, List.append_assoc]
      have hfil : (objKeys xs).filter (fun k => !(objKeys acc ++ [x.1]).contains k)
          = (objKeys xs).filter (fun a => (!a == x.1) && !(objKeys acc).contains a) := by
        apply List.filter_congr
        intro k _
        by_cases hk : k = x.1 <;> simp [hk]
      rw [hfil]
      rfl

theorem objOfList_keys (l : List (Str × JV)) : objKeys (objOfList l) = (objKeys l).eraseDups := by
  rw [objOfList_eq, objFold_keys [] l List.nodup_nil]
  have : (objKeys l).filter (fun k => !(objKeys ([] : List (Str × JV))).contains k) = objKeys l := by
    apply List.filter_eq_self.2
    intro k _; rfl
  rw [this]; rfl

variable (orc : Oracles) (fuel : Nat) (ctx : Ctx)

/-! ## 1. `filter_keys`, `filter_values`: "Filter an object by keys." / "Filter an object by values." -/

theorem filter_keys_aux (a f : Expr) (m : List (Str × JV)) (x : Except Abort (List Bool))
    (ha : eval orc fuel a ctx = .ok (some (.obj m)))
    (hf : mapM' (fun (kv : Str × JV) => (eval orc fuel f (ctx.withInput (.str kv.1))).map isTrue) m = x) :
    eval orc (fuel + 1) (.call "filter_keys" [a, f]) ctx =
      x.bind (fun keep => .ok (some (.obj (select m keep)))) := by
  obj_simp [ha]
  generalize hF : mapM' _ m = y
  have : mapM' (fun (kv : Str × JV) => (eval orc fuel f (ctx.withInput (.str kv.1))).map isTrue) m = y := by
    rw [← hF]; congr 1; funext kv
    cases eval orc fuel f (ctx.withInput (.str kv.1)) with
    | error e => rfl
    | ok r =>
      simp only [Except.map]
      split <;> simp_all [isTrue]
  rw [← hf, this]
  rfl

theorem filter_keys_obj_ok (a f : Expr) (m : List (Str × JV)) (keep : List Bool)
    (ha : eval orc fuel a ctx = .ok (some (.obj m)))
    (hf : mapM' (fun (kv : Str × JV) => (eval orc fuel f (ctx.withInput (.str kv.1))).map isTrue) m = .ok keep) :
    eval orc (fuel + 1) (.call "filter_keys" [a, f]) ctx = .ok (some (.obj (select m keep))) :=
  filter_keys_aux orc fuel ctx a f m _ ha hf

theorem filter_keys_obj_error (a f : Expr) (m : List (Str × JV)) (e : Abort)
    (ha : eval orc fuel a ctx = .ok (some (.obj m)))
    (hf : mapM' (fun (kv : Str × JV) => (eval orc fuel f (ctx.withInput (.str kv.1))).map isTrue) m = .error e) :
    eval orc (fuel + 1) (.call "filter_keys" [a, f]) ctx = .error e :=
  filter_keys_aux orc fuel ctx a f m _ ha hf

/-- `filter_keys`: the members for whose KEY (given to the function as a string input) the function is `true`, in
their original order -/
theorem filter_keys_obj (a f : Expr) (m : List (Str × JV)) (p : Str → Option JV)
    (ha : eval orc fuel a ctx = .ok (some (.obj m)))
    (hf : ∀ kv ∈ m, eval orc fuel f (ctx.withInput (.str kv.1)) = .ok (p kv.1)) :
    eval orc (fuel + 1) (.call "filter_keys" [a, f]) ctx =
      .ok (some (.obj (m.filter (fun kv => isTrue (p kv.1))))) := by
  rw [filter_keys_obj_ok orc fuel ctx a f m _ ha
    (mapM'_ok _ (fun kv => isTrue (p kv.1)) m (fun kv hkv => by rw [hf kv hkv]; rfl)), select_map]

/-- exactly the members whose key satisfies the predicate, a sub-list of the members -/
theorem filter_keys_members (a f : Expr) (m : List (Str × JV)) (p : Str → Option JV)
    (ha : eval orc fuel a ctx = .ok (some (.obj m)))
    (hf : ∀ kv ∈ m, eval orc fuel f (ctx.withInput (.str kv.1)) = .ok (p kv.1)) :
    ∃ r, eval orc (fuel + 1) (.call "filter_keys" [a, f]) ctx = .ok (some (.obj r)) ∧ r.Sublist m ∧
      ∀ kv, kv ∈ r ↔ kv ∈ m ∧ p kv.1 = some (.bool true) := by
  refine ⟨_, filter_keys_obj orc fuel ctx a f m p ha hf, List.filter_sublist, fun kv => ?_⟩
  rw [List.mem_filter, isTrue_iff]

/-- whatever the function is: the result is a sub-list of the members (same members, same order, some left out),
and an abort is an abort of the function on one of the keys -/
theorem filter_keys_result (a f : Expr) (m : List (Str × JV)) (ha : eval orc fuel a ctx = .ok (some (.obj m))) :
    (∃ r, eval orc (fuel + 1) (.call "filter_keys" [a, f]) ctx = .ok (some (.obj r)) ∧ r.Sublist m) ∨
    (∃ e, eval orc (fuel + 1) (.call "filter_keys" [a, f]) ctx = .error e ∧
        ∃ kv ∈ m, eval orc fuel f (ctx.withInput (.str kv.1)) = .error e) := by
  cases h : mapM' (fun (kv : Str × JV) => (eval orc fuel f (ctx.withInput (.str kv.1))).map isTrue) m with
  | error e =>
    refine .inr ⟨e, filter_keys_obj_error orc fuel ctx a f m e ha h, ?_⟩
    obtain ⟨kv, hkv, hve⟩ := mapM'_error _ m e h
    refine ⟨kv, hkv, ?_⟩
    cases h' : eval orc fuel f (ctx.withInput (.str kv.1)) with
    | error e' => rw [h'] at hve; simp [Except.map] at hve; rw [hve]
    | ok r => rw [h'] at hve; simp [Except.map] at hve
  | ok keep => exact .inl ⟨_, filter_keys_obj_ok orc fuel ctx a f m keep ha h, select_sublist m keep⟩

/-- not an object ⇒ nothing (the documentation's `(filter_keys [1, 2, 4] false)`) -/
theorem filter_keys_wrong_type (a f : Expr) (v : Option JV) (hv : isObj v = false) (ha : eval orc fuel a ctx = .ok v) :
    eval orc (fuel + 1) (.call "filter_keys" [a, f]) ctx = .ok none := by
  obj_simp [ha]
  rcases v with _ | (_ | _ | _ | _ | _ | _) <;> simp_all [isObj]

theorem filter_values_aux (a f : Expr) (m : List (Str × JV)) (x : Except Abort (List Bool))
    (ha : eval orc fuel a ctx = .ok (some (.obj m)))
    (hf : mapM' (fun (kv : Str × JV) => (eval orc fuel f (ctx.withInput kv.2)).map isTrue) m = x) :
    eval orc (fuel + 1) (.call "filter_values" [a, f]) ctx =
      x.bind (fun keep => .ok (some (.obj (select m keep)))) := by
  obj_simp [ha]
  generalize hF : mapM' _ m = y
  have : mapM' (fun (kv : Str × JV) => (eval orc fuel f (ctx.withInput kv.2)).map isTrue) m = y := by
    rw [← hF]; congr 1; funext kv
    cases eval orc fuel f (ctx.withInput kv.2) with
    | error e => rfl
    | ok r =>
      simp only [Except.map]
      split <;> simp_all [isTrue]
  rw [← hf, this]
  rfl

theorem filter_values_obj_ok (a f : Expr) (m : List (Str × JV)) (keep : List Bool)
    (ha : eval orc fuel a ctx = .ok (some (.obj m)))
    (hf : mapM' (fun (kv : Str × JV) => (eval orc fuel f (ctx.withInput kv.2)).map isTrue) m = .ok keep) :
    eval orc (fuel + 1) (.call "filter_values" [a, f]) ctx = .ok (some (.obj (select m keep))) :=
  filter_values_aux orc fuel ctx a f m _ ha hf

theorem filter_values_obj_error (a f : Expr) (m : List (Str × JV)) (e : Abort)
    (ha : eval orc fuel a ctx = .ok (some (.obj m)))
    (hf : mapM' (fun (kv : Str × JV) => (eval orc fuel f (ctx.withInput kv.2)).map isTrue) m = .error e) :
    eval orc (fuel + 1) (.call "filter_values" [a, f]) ctx = .error e :=
  filter_values_aux orc fuel ctx a f m _ ha hf

/-- `filter_values`: the members for whose VALUE (the function's input) the function is `true`, in their original order -/
theorem filter_values_obj (a f : Expr) (m : List (Str × JV)) (p : JV → Option JV)
    (ha : eval orc fuel a ctx = .ok (some (.obj m)))
    (hf : ∀ kv ∈ m, eval orc fuel f (ctx.withInput kv.2) = .ok (p kv.2)) :
    eval orc (fuel + 1) (.call "filter_values" [a, f]) ctx =
      .ok (some (.obj (m.filter (fun kv => isTrue (p kv.2))))) := by
  rw [filter_values_obj_ok orc fuel ctx a f m _ ha
    (mapM'_ok _ (fun kv => isTrue (p kv.2)) m (fun kv hkv => by rw [hf kv hkv]; rfl)), select_map]

/-- exactly the members whose value satisfies the predicate, a sub-list of the members -/
theorem filter_values_members (a f : Expr) (m : List (Str × JV)) (p : JV → Option JV)
    (ha : eval orc fuel a ctx = .ok (some (.obj m)))
    (hf : ∀ kv ∈ m, eval orc fuel f (ctx.withInput kv.2) = .ok (p kv.2)) :
    ∃ r, eval orc (fuel + 1) (.call "filter_values" [a, f]) ctx = .ok (some (.obj r)) ∧ r.Sublist m ∧
      ∀ kv, kv ∈ r ↔ kv ∈ m ∧ p kv.2 = some (.bool true) := by
  refine ⟨_, filter_values_obj orc fuel ctx a f m p ha hf, List.filter_sublist, fun kv => ?_⟩
  rw [List.mem_filter, isTrue_iff]

theorem filter_values_result (a f : Expr) (m : List (Str × JV)) (ha : eval orc fuel a ctx = .ok (some (.obj m))) :
    (∃ r, eval orc (fuel + 1) (.call "filter_values" [a, f]) ctx = .ok (some (.obj r)) ∧ r.Sublist m) ∨
    (∃ e, eval orc (fuel + 1) (.call "filter_values" [a, f]) ctx = .error e ∧
        ∃ kv ∈ m, eval orc fuel f (ctx.withInput kv.2) = .error e) := by
  cases h : mapM' (fun (kv : Str × JV) => (eval orc fuel f (ctx.withInput kv.2)).map isTrue) m with
  | error e =>
    refine .inr ⟨e, filter_values_obj_error orc fuel ctx a f m e ha h, ?_⟩
    obtain ⟨kv, hkv, hve⟩ := mapM'_error _ m e h
    refine ⟨kv, hkv, ?_⟩
    cases h' : eval orc fuel f (ctx.withInput kv.2) with
    | error e' => rw [h'] at hve; simp [Except.map] at hve; rw [hve]
    | ok r => rw [h'] at hve; simp [Except.map] at hve
  | ok keep => exact .inl ⟨_, filter_values_obj_ok orc fuel ctx a f m keep ha h, select_sublist m keep⟩

theorem filter_values_wrong_type (a f : Expr) (v : Option JV) (hv : isObj v = false) (ha : eval orc fuel a ctx = .ok v) :
    eval orc (fuel + 1) (.call "filter_values" [a, f]) ctx = .ok none := by
  obj_simp [ha]
  rcases v with _ | (_ | _ | _ | _ | _ | _) <;> simp_all [isObj]

/-- a constant `true` keeps every member, any other constant none -/
theorem filter_keys_const_true (a : Expr) (m : List (Str × JV)) (ha : eval orc (fuel + 1) a ctx = .ok (some (.obj m))) :
    eval orc (fuel + 2) (.call "filter_keys" [a, .const (.bool true)]) ctx = .ok (some (.obj m)) := by
  rw [filter_keys_obj orc (fuel + 1) ctx a _ m (fun _ => some (.bool true)) ha (fun _ _ => rfl)]
  simp [isTrue]

theorem filter_values_const_not_true (a : Expr) (m : List (Str × JV)) (c : JV) (hc : isTrue (some c) = false)
    (ha : eval orc (fuel + 1) a ctx = .ok (some (.obj m))) :
    eval orc (fuel + 2) (.call "filter_values" [a, .const c]) ctx = .ok (some (.obj [])) := by
  rw [filter_values_obj orc (fuel + 1) ctx a _ m (fun _ => some c) ha (fun _ _ => rfl)]
  simp [hc]

/-! ## 2. `map_keys`: "Map an object keys." -/

theorem map_keys_obj_ok (a f : Expr) (m : List (Str × JV)) (ks : List (Option JV))
    (ha : eval orc fuel a ctx = .ok (some (.obj m)))
    (hf : mapM' (fun (kv : Str × JV) => eval orc fuel f (ctx.withInput (.str kv.1))) m = .ok ks) :
    eval orc (fuel + 1) (.call "map_keys" [a, f]) ctx = .ok (some (.obj (objOfList (renameKeys m ks)))) := by
  obj_simp [ha, hf]
  congr 5
  funext x
  obtain ⟨kv, k⟩ := x
  rcases k with _ | (_ | _ | _ | _ | _ | _) <;> rfl

theorem map_keys_obj_error (a f : Expr) (m : List (Str × JV)) (e : Abort)
    (ha : eval orc fuel a ctx = .ok (some (.obj m)))
    (hf : mapM' (fun (kv : Str × JV) => eval orc fuel f (ctx.withInput (.str kv.1))) m = .error e) :
    eval orc (fuel + 1) (.call "map_keys" [a, f]) ctx = .error e := by
  obj_simp [ha, hf]

/-- `map_keys`: every member is renamed to the function's value on its key; members whose new key is not a string are
dropped; the renamed members are collected into an object (`objOfList`: a later member with an equal new key REPLACES the
value of the earlier one, at the earlier one's place) -/
theorem map_keys_obj (a f : Expr) (m : List (Str × JV)) (g : Str → Option JV)
    (ha : eval orc fuel a ctx = .ok (some (.obj m)))
    (hf : ∀ kv ∈ m, eval orc fuel f (ctx.withInput (.str kv.1)) = .ok (g kv.1)) :
    eval orc (fuel + 1) (.call "map_keys" [a, f]) ctx =
      .ok (some (.obj (objOfList (m.filterMap (fun kv => (strArg (g kv.1)).map (fun s => (s, kv.2))))))) := by
  rw [map_keys_obj_ok orc fuel ctx a f m _ ha (mapM'_ok _ (fun kv => g kv.1) m hf), renameKeys_map]

/-- a renaming to strings that makes no two keys equal: same values, same order, new keys -/
theorem map_keys_injective (a f : Expr) (m : List (Str × JV)) (g : Str → Str)
    (hnd : (m.map (fun kv => g kv.1)).Nodup)
    (ha : eval orc fuel a ctx = .ok (some (.obj m)))
    (hf : ∀ kv ∈ m, eval orc fuel f (ctx.withInput (.str kv.1)) = .ok (some (.str (g kv.1)))) :
    eval orc (fuel + 1) (.call "map_keys" [a, f]) ctx = .ok (some (.obj (m.map (fun kv => (g kv.1, kv.2))))) := by
  rw [map_keys_obj orc fuel ctx a f m (fun k => some (.str (g k))) ha hf]
  simp only [strArg, Option.map_some, List.filterMap_eq_map']
  rw [objOfList_of_nodup]
  simpa [objKeys, List.map_map, Function.comp_def] using hnd

/-- the corollary for an injective renaming of an object with distinct keys -/
theorem map_keys_injective' (a f : Expr) (m : List (Str × JV)) (g : Str → Str)
    (hm : (objKeys m).Nodup) (hg : ∀ k₁ k₂, g k₁ = g k₂ → k₁ = k₂)
    (ha : eval orc fuel a ctx = .ok (some (.obj m)))
    (hf : ∀ kv ∈ m, eval orc fuel f (ctx.withInput (.str kv.1)) = .ok (some (.str (g kv.1)))) :
    eval orc (fuel + 1) (.call "map_keys" [a, f]) ctx = .ok (some (.obj (m.map (fun kv => (g kv.1, kv.2))))) := by
  refine map_keys_injective orc fuel ctx a f m g ?_ ha hf
  have : (objKeys m).map g = m.map (fun kv => g kv.1) := by simp [objKeys, List.map_map, Function.comp_def]
  rw [← this]
  exact List.Pairwise.map g (fun a b hab e => hab (hg a b e)) hm

/-- what the collected result looks like in general: its keys are distinct and are the string results in order of
first occurrence; looking a new key up gives the value of the LAST member renamed to it -/
theorem map_keys_lookup (a f : Expr) (m : List (Str × JV)) (g : Str → Option JV)
    (ha : eval orc fuel a ctx = .ok (some (.obj m)))
    (hf : ∀ kv ∈ m, eval orc fuel f (ctx.withInput (.str kv.1)) = .ok (g kv.1)) :
    ∃ r, eval orc (fuel + 1) (.call "map_keys" [a, f]) ctx = .ok (some (.obj r)) ∧
      (objKeys r).Nodup ∧
      objKeys r = (m.filterMap (fun kv => strArg (g kv.1))).eraseDups ∧
      ∀ k, objGet? r k = ((m.reverse.find? (fun kv => strArg (g kv.1) == some k)).map (·.2)) := by
  refine ⟨_, map_keys_obj orc fuel ctx a f m g ha hf, objOfList_nodup_keys _, ?_, fun k => ?_⟩
  · rw [objOfList_keys]
    congr 1
    simp only [objKeys, List.map_filterMap]
    congr 1; funext kv
    cases strArg (g kv.1) <;> rfl
  · rw [objGet?_objOfList, ← List.filterMap_reverse]
    generalize m.reverse = l
    induction l with
    | nil => rfl
    | cons x xs ih =>
      cases hx : strArg (g x.1) with
      | none =>
        simp only [List.filterMap_cons, List.find?_cons, hx, Option.map_none, ih]
        rfl
      | some s =>
        simp only [List.filterMap_cons, List.find?_cons, hx, Option.map_some]
        by_cases hs : s = k
        · subst hs; simp
        · have h1 : (some s == some k) = false := by simp [hs]
          have h2 : (s == k) = false := by simp [hs]
          simp only [h1, h2]
          exact ih

theorem map_keys_wrong_type (a f : Expr) (v : Option JV) (hv : isObj v = false) (ha : eval orc fuel a ctx = .ok v) :
    eval orc (fuel + 1) (.call "map_keys" [a, f]) ctx = .ok none := by
  obj_simp [ha]
  rcases v with _ | (_ | _ | _ | _ | _ | _) <;> simp_all [isObj]

/-- no new key is a string (the documentation's `(map_keys {…} (number? .))`): the empty object -/
theorem map_keys_no_string (a f : Expr) (m : List (Str × JV)) (g : Str → Option JV)
    (hg : ∀ kv ∈ m, strArg (g kv.1) = none)
    (ha : eval orc fuel a ctx = .ok (some (.obj m)))
    (hf : ∀ kv ∈ m, eval orc fuel f (ctx.withInput (.str kv.1)) = .ok (g kv.1)) :
    eval orc (fuel + 1) (.call "map_keys" [a, f]) ctx = .ok (some (.obj [])) := by
  rw [map_keys_obj orc fuel ctx a f m g ha hf]
  have : m.filterMap (fun kv => (strArg (g kv.1)).map (fun s => (s, kv.2))) = [] := by
    rw [List.filterMap_eq_nil_iff]
    intro kv hkv; simp [hg kv hkv]
  rw [this]; rfl

/-! ## 3. `map_values`: "Map an object values." -/

theorem map_values_obj_ok (a f : Expr) (m : List (Str × JV)) (vs : List (Option JV))
    (ha : eval orc fuel a ctx = .ok (some (.obj m)))
    (hf : mapM' (fun (kv : Str × JV) => eval orc fuel f (ctx.withInput kv.2)) m = .ok vs) :
    eval orc (fuel + 1) (.call "map_values" [a, f]) ctx = .ok (some (.obj (revalue m vs))) := by
  obj_simp [ha, hf]
  rfl

theorem map_values_obj_error (a f : Expr) (m : List (Str × JV)) (e : Abort)
    (ha : eval orc fuel a ctx = .ok (some (.obj m)))
    (hf : mapM' (fun (kv : Str × JV) => eval orc fuel f (ctx.withInput kv.2)) m = .error e) :
    eval orc (fuel + 1) (.call "map_values" [a, f]) ctx = .error e := by
  obj_simp [ha, hf]

/-- `map_values`: every member keeps its key and gets the function's value on its value; a member on whose value the
function gives nothing is dropped; the order is kept -/
theorem map_values_obj (a f : Expr) (m : List (Str × JV)) (g : JV → Option JV)
    (ha : eval orc fuel a ctx = .ok (some (.obj m)))
    (hf : ∀ kv ∈ m, eval orc fuel f (ctx.withInput kv.2) = .ok (g kv.2)) :
    eval orc (fuel + 1) (.call "map_values" [a, f]) ctx =
      .ok (some (.obj (m.filterMap (fun kv => (g kv.2).map (fun v => (kv.1, v)))))) := by
  rw [map_values_obj_ok orc fuel ctx a f m _ ha (mapM'_ok _ (fun kv => g kv.2) m hf), revalue_map]

/-- the function gives a value for every member: same keys, same order, values mapped -/
theorem map_values_total (a f : Expr) (m : List (Str × JV)) (g : JV → JV)
    (ha : eval orc fuel a ctx = .ok (some (.obj m)))
    (hf : ∀ kv ∈ m, eval orc fuel f (ctx.withInput kv.2) = .ok (some (g kv.2))) :
    eval orc (fuel + 1) (.call "map_values" [a, f]) ctx = .ok (some (.obj (m.map (fun kv => (kv.1, g kv.2))))) := by
  rw [map_values_obj orc fuel ctx a f m (fun v => some (g v)) ha hf]
  simp only [Option.map_some, List.filterMap_eq_map']

/-- `keys (map_values o f) = keys o` for a function that always gives a value -/
theorem keys_map_values_total (a f : Expr) (m : List (Str × JV)) (g : JV → JV)
    (ha : eval orc fuel a ctx = .ok (some (.obj m)))
    (hf : ∀ kv ∈ m, eval orc fuel f (ctx.withInput kv.2) = .ok (some (g kv.2))) :
    eval orc (fuel + 2) (.call "keys" [.call "map_values" [a, f]]) ctx = eval orc (fuel + 1) (.call "keys" [a]) ctx := by
  rw [keys_obj orc (fuel + 1) ctx _ _ (map_values_total orc fuel ctx a f m g ha hf), keys_obj orc fuel ctx a m ha,
    List.map_map]
  rfl

/-- whatever the function is: the keys of the result are a sub-list of the keys (at most as many members, same order) -/
theorem map_values_result (a f : Expr) (m : List (Str × JV)) (ha : eval orc fuel a ctx = .ok (some (.obj m))) :
    (∃ r, eval orc (fuel + 1) (.call "map_values" [a, f]) ctx = .ok (some (.obj r)) ∧
        (objKeys r).Sublist (objKeys m) ∧ r.length ≤ m.length) ∨
    (∃ e, eval orc (fuel + 1) (.call "map_values" [a, f]) ctx = .error e ∧
        ∃ kv ∈ m, eval orc fuel f (ctx.withInput kv.2) = .error e) := by
  cases h : mapM' (fun (kv : Str × JV) => eval orc fuel f (ctx.withInput kv.2)) m with
  | error e => exact .inr ⟨e, map_values_obj_error orc fuel ctx a f m e ha h, mapM'_error _ m e h⟩
  | ok vs =>
    refine .inl ⟨_, map_values_obj_ok orc fuel ctx a f m vs ha h, ?_⟩
    have key : ∀ (m : List (Str × JV)) (vs : List (Option JV)), (objKeys (revalue m vs)).Sublist (objKeys m) := by
      intro m
      induction m with
      | nil => intro vs; simp [revalue, objKeys]
      | cons x xs ih =>
        intro vs
        cases vs with
        | nil => simp [revalue, objKeys]
        | cons w ws =>
          have := ih ws
          simp only [revalue, objKeys] at this
          cases w with
          | none => simpa [revalue, objKeys] using this.cons x.1
          | some w => simpa [revalue, objKeys] using this.cons_cons x.1
    refine ⟨key m vs, ?_⟩
    have := (key m vs).length_le
    simpa [objKeys] using this

theorem map_values_wrong_type (a f : Expr) (v : Option JV) (hv : isObj v = false) (ha : eval orc fuel a ctx = .ok v) :
    eval orc (fuel + 1) (.call "map_values" [a, f]) ctx = .ok none := by
  obj_simp [ha]
  rcases v with _ | (_ | _ | _ | _ | _ | _) <;> simp_all [isObj]

/-! ## 4. `put`, `insert_if_absent`, `replace_if_exists` -/

/-- `put`: "Add a new entry to a map. … If the object has that key, it will be replaced." (`IndexMap::insert`) -/
theorem put_obj (a b c : Expr) (m : List (Str × JV)) (k : Str) (v : JV)
    (ha : eval orc fuel a ctx = .ok (some (.obj m))) (hb : eval orc fuel b ctx = .ok (some (.str k)))
    (hc : eval orc fuel c ctx = .ok (some v)) :
    eval orc (fuel + 1) (.call "put" [a, b, c]) ctx = .ok (some (.obj (objInsert m k v))) := by
  obj_simp [ha, hb, hc]

/-- a new key goes last -/
theorem put_absent (a b c : Expr) (m : List (Str × JV)) (k : Str) (v : JV) (hk : objGet? m k = none)
    (ha : eval orc fuel a ctx = .ok (some (.obj m))) (hb : eval orc fuel b ctx = .ok (some (.str k)))
    (hc : eval orc fuel c ctx = .ok (some v)) :
    eval orc (fuel + 1) (.call "put" [a, b, c]) ctx = .ok (some (.obj (m ++ [(k, v)]))) := by
  rw [put_obj orc fuel ctx a b c m k v ha hb hc, objInsert_absent m k v hk]

/-- an existing key keeps its place: only the value of the (first) member with that key changes -/
theorem put_present (a b c : Expr) (m : List (Str × JV)) (k : Str) (v : JV) (hk : (objGet? m k).isSome)
    (ha : eval orc fuel a ctx = .ok (some (.obj m))) (hb : eval orc fuel b ctx = .ok (some (.str k)))
    (hc : eval orc fuel c ctx = .ok (some v)) :
    ∃ pre post w, m = pre ++ (k, w) :: post ∧ (∀ kv ∈ pre, kv.1 ≠ k) ∧
      eval orc (fuel + 1) (.call "put" [a, b, c]) ctx = .ok (some (.obj (pre ++ (k, v) :: post))) := by
  obtain ⟨pre, post, w, h1, h2, h3⟩ := objInsert_present m k v hk
  exact ⟨pre, post, w, h1, h2, by rw [put_obj orc fuel ctx a b c m k v ha hb hc, h3]⟩

/-- put then get gives the value -/
theorem get_put_same (a b c b' : Expr) (m : List (Str × JV)) (k : Str) (v : JV)
    (ha : eval orc fuel a ctx = .ok (some (.obj m))) (hb : eval orc fuel b ctx = .ok (some (.str k)))
    (hc : eval orc fuel c ctx = .ok (some v)) (hb' : eval orc (fuel + 1) b' ctx = .ok (some (.str k))) :
    eval orc (fuel + 2) (.call "get" [.call "put" [a, b, c], b']) ctx = .ok (some v) := by
  rw [get_obj orc (fuel + 1) ctx _ b' _ k (put_obj orc fuel ctx a b c m k v ha hb hc) hb', objGet?_objInsert_same]

/-- the other keys are unchanged -/
theorem get_put_other (a b c b' : Expr) (m : List (Str × JV)) (k k' : Str) (v : JV) (hk : k' ≠ k)
    (ha : eval orc fuel a ctx = .ok (some (.obj m))) (hb : eval orc fuel b ctx = .ok (some (.str k)))
    (hc : eval orc fuel c ctx = .ok (some v)) (hb' : eval orc (fuel + 1) b' ctx = .ok (some (.str k'))) :
    eval orc (fuel + 2) (.call "get" [.call "put" [a, b, c], b']) ctx = .ok (objGet? m k') := by
  rw [get_obj orc (fuel + 1) ctx _ b' _ k' (put_obj orc fuel ctx a b c m k v ha hb hc) hb',
    objGet?_objInsert_other m k k' v hk]

/-- member order: the keys are unchanged when the key was there, and get the new key at the end otherwise -/
theorem keys_put (a b c : Expr) (m : List (Str × JV)) (k : Str) (v : JV)
    (ha : eval orc fuel a ctx = .ok (some (.obj m))) (hb : eval orc fuel b ctx = .ok (some (.str k)))
    (hc : eval orc fuel c ctx = .ok (some v)) :
    eval orc (fuel + 2) (.call "keys" [.call "put" [a, b, c]]) ctx =
      .ok (some (.arr ((if (objGet? m k).isSome then objKeys m else objKeys m ++ [k]).map JV.str))) := by
  rw [keys_obj orc (fuel + 1) ctx _ _ (put_obj orc fuel ctx a b c m k v ha hb hc), ← objKeys_objInsert m k v]
  simp [objKeys, List.map_map, Function.comp_def]

/-- the size grows by one exactly when the key was absent -/
theorem size_put (a b c : Expr) (m : List (Str × JV)) (k : Str) (v : JV)
    (ha : eval orc fuel a ctx = .ok (some (.obj m))) (hb : eval orc fuel b ctx = .ok (some (.str k)))
    (hc : eval orc fuel c ctx = .ok (some v)) :
    eval orc (fuel + 2) (.call "size" [.call "put" [a, b, c]]) ctx =
      .ok (some (.num (.pos (if (objGet? m k).isSome then m.length else m.length + 1)))) := by
  rw [size_obj orc (fuel + 1) ctx _ _ (put_obj orc fuel ctx a b c m k v ha hb hc), length_objInsert]

/-- the first argument is not an object, the key is not a string, or the value is nothing ⇒ nothing -/
theorem put_wrong_type (a b c : Expr) (x w y : Option JV) (h : isObj x = false ∨ strArg w = none ∨ y = none)
    (ha : eval orc fuel a ctx = .ok x) (hb : eval orc fuel b ctx = .ok w) (hc : eval orc fuel c ctx = .ok y) :
    eval orc (fuel + 1) (.call "put" [a, b, c]) ctx = .ok none := by
  obj_simp [ha, hb, hc]
  simp only [strArg] at h
  split
  · simp_all [isObj]
  · rfl

/-- `insert_if_absent`: "Add a new entry to a map if it has no such key. … If the object has that key, it will not be
replaced." -/
theorem insert_if_absent_obj (a b c : Expr) (m : List (Str × JV)) (k : Str) (v : JV)
    (ha : eval orc fuel a ctx = .ok (some (.obj m))) (hb : eval orc fuel b ctx = .ok (some (.str k)))
    (hc : eval orc fuel c ctx = .ok (some v)) :
    eval orc (fuel + 1) (.call "insert_if_absent" [a, b, c]) ctx =
      .ok (some (.obj (if (objGet? m k).isSome then m else m ++ [(k, v)]))) := by
  obj_simp [ha, hb, hc]
  split
  · rfl
  · rename_i h
    rw [objInsert_absent m k v (by simpa using h)]

/-- the key is there: the object is returned as it is -/
theorem insert_if_absent_present (a b c : Expr) (m : List (Str × JV)) (k : Str) (v : JV) (hk : (objGet? m k).isSome)
    (ha : eval orc fuel a ctx = .ok (some (.obj m))) (hb : eval orc fuel b ctx = .ok (some (.str k)))
    (hc : eval orc fuel c ctx = .ok (some v)) :
    eval orc (fuel + 1) (.call "insert_if_absent" [a, b, c]) ctx = .ok (some (.obj m)) := by
  rw [insert_if_absent_obj orc fuel ctx a b c m k v ha hb hc, if_pos hk]

/-- the key is not there: the new member goes last -/
theorem insert_if_absent_absent (a b c : Expr) (m : List (Str × JV)) (k : Str) (v : JV) (hk : objGet? m k = none)
    (ha : eval orc fuel a ctx = .ok (some (.obj m))) (hb : eval orc fuel b ctx = .ok (some (.str k)))
    (hc : eval orc fuel c ctx = .ok (some v)) :
    eval orc (fuel + 1) (.call "insert_if_absent" [a, b, c]) ctx = .ok (some (.obj (m ++ [(k, v)]))) := by
  rw [insert_if_absent_obj orc fuel ctx a b c m k v ha hb hc, if_neg (by simp [hk])]

/-- looking the key up afterwards gives the old value if there was one, the new value otherwise -/
theorem get_insert_if_absent_same (a b c b' : Expr) (m : List (Str × JV)) (k : Str) (v : JV)
    (ha : eval orc fuel a ctx = .ok (some (.obj m))) (hb : eval orc fuel b ctx = .ok (some (.str k)))
    (hc : eval orc fuel c ctx = .ok (some v)) (hb' : eval orc (fuel + 1) b' ctx = .ok (some (.str k))) :
    eval orc (fuel + 2) (.call "get" [.call "insert_if_absent" [a, b, c], b']) ctx =
      .ok (some ((objGet? m k).getD v)) := by
  rw [get_obj orc (fuel + 1) ctx _ b' _ k (insert_if_absent_obj orc fuel ctx a b c m k v ha hb hc) hb']
  cases h : objGet? m k with
  | some w => simp [h]
  | none =>
    have := objGet?_objInsert_same m k v
    rw [objInsert_absent m k v h] at this
    simp [this]

theorem get_insert_if_absent_other (a b c b' : Expr) (m : List (Str × JV)) (k k' : Str) (v : JV) (hk : k' ≠ k)
    (ha : eval orc fuel a ctx = .ok (some (.obj m))) (hb : eval orc fuel b ctx = .ok (some (.str k)))
    (hc : eval orc fuel c ctx = .ok (some v)) (hb' : eval orc (fuel + 1) b' ctx = .ok (some (.str k'))) :
    eval orc (fuel + 2) (.call "get" [.call "insert_if_absent" [a, b, c], b']) ctx = .ok (objGet? m k') := by
  rw [get_obj orc (fuel + 1) ctx _ b' _ k' (insert_if_absent_obj orc fuel ctx a b c m k v ha hb hc) hb']
  cases h : objGet? m k with
  | some w => simp
  | none =>
    have := objGet?_objInsert_other m k k' v hk
    rw [objInsert_absent m k v h] at this
    simp [this]

theorem size_insert_if_absent (a b c : Expr) (m : List (Str × JV)) (k : Str) (v : JV)
    (ha : eval orc fuel a ctx = .ok (some (.obj m))) (hb : eval orc fuel b ctx = .ok (some (.str k)))
    (hc : eval orc fuel c ctx = .ok (some v)) :
    eval orc (fuel + 2) (.call "size" [.call "insert_if_absent" [a, b, c]]) ctx =
      .ok (some (.num (.pos (if (objGet? m k).isSome then m.length else m.length + 1)))) := by
  rw [size_obj orc (fuel + 1) ctx _ _ (insert_if_absent_obj orc fuel ctx a b c m k v ha hb hc)]
  split <;> simp

theorem insert_if_absent_wrong_type (a b c : Expr) (x w y : Option JV)
    (h : isObj x = false ∨ strArg w = none ∨ y = none)
    (ha : eval orc fuel a ctx = .ok x) (hb : eval orc fuel b ctx = .ok w) (hc : eval orc fuel c ctx = .ok y) :
    eval orc (fuel + 1) (.call "insert_if_absent" [a, b, c]) ctx = .ok none := by
  obj_simp [ha, hb, hc]
  simp only [strArg] at h
  split
  · simp_all [isObj]
  · rfl

/-- `replace_if_exists`: "Add a new entry to a map if it has such key. … If the object dosen't has that key, it will not
be replaced." -/
theorem replace_if_exists_obj (a b c : Expr) (m : List (Str × JV)) (k : Str) (v : JV)
    (ha : eval orc fuel a ctx = .ok (some (.obj m))) (hb : eval orc fuel b ctx = .ok (some (.str k)))
    (hc : eval orc fuel c ctx = .ok (some v)) :
    eval orc (fuel + 1) (.call "replace_if_exists" [a, b, c]) ctx =
      .ok (some (.obj (if (objGet? m k).isSome then objInsert m k v else m))) := by
  obj_simp [ha, hb, hc]

/-- the key is not there: the object is returned as it is -/
theorem replace_if_exists_absent (a b c : Expr) (m : List (Str × JV)) (k : Str) (v : JV) (hk : objGet? m k = none)
    (ha : eval orc fuel a ctx = .ok (some (.obj m))) (hb : eval orc fuel b ctx = .ok (some (.str k)))
    (hc : eval orc fuel c ctx = .ok (some v)) :
    eval orc (fuel + 1) (.call "replace_if_exists" [a, b, c]) ctx = .ok (some (.obj m)) := by
  rw [replace_if_exists_obj orc fuel ctx a b c m k v ha hb hc, if_neg (by simp [hk])]

/-- the key is there: its member gets the new value and keeps its place -/
theorem replace_if_exists_present (a b c : Expr) (m : List (Str × JV)) (k : Str) (v : JV) (hk : (objGet? m k).isSome)
    (ha : eval orc fuel a ctx = .ok (some (.obj m))) (hb : eval orc fuel b ctx = .ok (some (.str k)))
    (hc : eval orc fuel c ctx = .ok (some v)) :
    ∃ pre post w, m = pre ++ (k, w) :: post ∧ (∀ kv ∈ pre, kv.1 ≠ k) ∧
      eval orc (fuel + 1) (.call "replace_if_exists" [a, b, c]) ctx = .ok (some (.obj (pre ++ (k, v) :: post))) := by
  obtain ⟨pre, post, w, h1, h2, h3⟩ := objInsert_present m k v hk
  exact ⟨pre, post, w, h1, h2, by rw [replace_if_exists_obj orc fuel ctx a b c m k v ha hb hc, if_pos hk, h3]⟩

/-- looking the key up afterwards gives the new value exactly when there was an old one -/
theorem get_replace_if_exists_same (a b c b' : Expr) (m : List (Str × JV)) (k : Str) (v : JV)
    (ha : eval orc fuel a ctx = .ok (some (.obj m))) (hb : eval orc fuel b ctx = .ok (some (.str k)))
    (hc : eval orc fuel c ctx = .ok (some v)) (hb' : eval orc (fuel + 1) b' ctx = .ok (some (.str k))) :
    eval orc (fuel + 2) (.call "get" [.call "replace_if_exists" [a, b, c], b']) ctx =
      .ok ((objGet? m k).map (fun _ => v)) := by
  rw [get_obj orc (fuel + 1) ctx _ b' _ k (replace_if_exists_obj orc fuel ctx a b c m k v ha hb hc) hb']
  cases h : objGet? m k with
  | some w => simp [objGet?_objInsert_same]
  | none => simp [h]

theorem get_replace_if_exists_other (a b c b' : Expr) (m : List (Str × JV)) (k k' : Str) (v : JV) (hk : k' ≠ k)
    (ha : eval orc fuel a ctx = .ok (some (.obj m))) (hb : eval orc fuel b ctx = .ok (some (.str k)))
    (hc : eval orc fuel c ctx = .ok (some v)) (hb' : eval orc (fuel + 1) b' ctx = .ok (some (.str k'))) :
    eval orc (fuel + 2) (.call "get" [.call "replace_if_exists" [a, b, c], b']) ctx = .ok (objGet? m k') := by
  rw [get_obj orc (fuel + 1) ctx _ b' _ k' (replace_if_exists_obj orc fuel ctx a b c m k v ha hb hc) hb']
  split
  · rw [objGet?_objInsert_other m k k' v hk]
  · rfl

/-- the keys (and so the size and the member order) never change -/
theorem keys_replace_if_exists (a b c : Expr) (m : List (Str × JV)) (k : Str) (v : JV)
    (ha : eval orc fuel a ctx = .ok (some (.obj m))) (hb : eval orc fuel b ctx = .ok (some (.str k)))
    (hc : eval orc fuel c ctx = .ok (some v)) :
    eval orc (fuel + 2) (.call "keys" [.call "replace_if_exists" [a, b, c]]) ctx =
      .ok (some (.arr ((objKeys m).map JV.str))) := by
  rw [keys_obj orc (fuel + 1) ctx _ _ (replace_if_exists_obj orc fuel ctx a b c m k v ha hb hc)]
  have : objKeys (if (objGet? m k).isSome then objInsert m k v else m) = objKeys m := by
    split
    · rename_i h; rw [objKeys_objInsert, if_pos h]
    · rfl
  rw [← this]
  simp [objKeys, List.map_map, Function.comp_def]

theorem size_replace_if_exists (a b c : Expr) (m : List (Str × JV)) (k : Str) (v : JV)
    (ha : eval orc fuel a ctx = .ok (some (.obj m))) (hb : eval orc fuel b ctx = .ok (some (.str k)))
    (hc : eval orc fuel c ctx = .ok (some v)) :
    eval orc (fuel + 2) (.call "size" [.call "replace_if_exists" [a, b, c]]) ctx = .ok (some (.num (.pos m.length))) := by
  rw [size_obj orc (fuel + 1) ctx _ _ (replace_if_exists_obj orc fuel ctx a b c m k v ha hb hc)]
  split
  · rename_i h; rw [length_objInsert, if_pos h]
  · rfl

theorem replace_if_exists_wrong_type (a b c : Expr) (x w y : Option JV)
    (h : isObj x = false ∨ strArg w = none ∨ y = none)
    (ha : eval orc fuel a ctx = .ok x) (hb : eval orc fuel b ctx = .ok w) (hc : eval orc fuel c ctx = .ok y) :
    eval orc (fuel + 1) (.call "replace_if_exists" [a, b, c]) ctx = .ok none := by
  obj_simp [ha, hb, hc]
  simp only [strArg] at h
  split
  · simp_all [isObj]
  · rfl

/-- `put` is `insert_if_absent` for a new key and `replace_if_exists` for an existing one -/
theorem put_eq_insert_if_absent (a b c : Expr) (m : List (Str × JV)) (k : Str) (v : JV) (hk : objGet? m k = none)
    (ha : eval orc fuel a ctx = .ok (some (.obj m))) (hb : eval orc fuel b ctx = .ok (some (.str k)))
    (hc : eval orc fuel c ctx = .ok (some v)) :
    eval orc (fuel + 1) (.call "put" [a, b, c]) ctx = eval orc (fuel + 1) (.call "insert_if_absent" [a, b, c]) ctx := by
  rw [put_absent orc fuel ctx a b c m k v hk ha hb hc, insert_if_absent_absent orc fuel ctx a b c m k v hk ha hb hc]

theorem put_eq_replace_if_exists (a b c : Expr) (m : List (Str × JV)) (k : Str) (v : JV) (hk : (objGet? m k).isSome)
    (ha : eval orc fuel a ctx = .ok (some (.obj m))) (hb : eval orc fuel b ctx = .ok (some (.str k)))
    (hc : eval orc fuel c ctx = .ok (some v)) :
    eval orc (fuel + 1) (.call "put" [a, b, c]) ctx = eval orc (fuel + 1) (.call "replace_if_exists" [a, b, c]) ctx := by
  rw [put_obj orc fuel ctx a b c m k v ha hb hc, replace_if_exists_obj orc fuel ctx a b c m k v ha hb hc, if_pos hk]

/-! ## 5. `sort_by_keys`, `sort_by_values`, `sort_by_values_by` -/

/-- `sort_by_keys`: "return object sorted by it's keys": the stable sort of the members by `cmpStr` (code point order) on
the keys -/
theorem sort_by_keys_obj (a : Expr) (m : List (Str × JV)) (ha : eval orc fuel a ctx = .ok (some (.obj m))) :
    eval orc (fuel + 1) (.call "sort_by_keys" [a]) ctx =
      .ok (some (.obj (stableSortBy (fun (x y : Str × JV) => cmpStr x.1 y.1) m))) := by
  obj_simp [ha]

/-- the result is a permutation of the members, sorted by key, and stable (members with equal keys keep their order) -/
theorem sort_by_keys_spec (a : Expr) (m : List (Str × JV)) (ha : eval orc fuel a ctx = .ok (some (.obj m))) :
    ∃ r, eval orc (fuel + 1) (.call "sort_by_keys" [a]) ctx = .ok (some (.obj r)) ∧ r.Perm m ∧
      r.Pairwise (fun x y => cmpStr x.1 y.1 ≠ .gt) ∧
      ∀ k, r.filter (fun x => x.1 == k) = m.filter (fun x => x.1 == k) := by
  refine ⟨_, sort_by_keys_obj orc fuel ctx a m ha, SortFns.sort_by_keys_perm m, SortFns.sort_by_keys_sorted m, fun k => ?_⟩
  have h := SortFns.sort_by_keys_stable m k
  have e : (fun (x : Str × JV) => decide (cmpStr x.1 k = .eq)) = (fun x => x.1 == k) := by
    funext x
    by_cases hx : x.1 = k
    · simp [hx, Order.cmpStr_refl]
    · have : ¬ cmpStr x.1 k = .eq := fun h' => hx ((Order.cmpStr_eq_iff _ _).1 h')
      simp [hx, this]
  rwa [e] at h

/-- for an object with distinct keys the keys of the result are strictly increasing -/
theorem sort_by_keys_strict (a : Expr) (m : List (Str × JV)) (hm : (objKeys m).Nodup)
    (ha : eval orc fuel a ctx = .ok (some (.obj m))) :
    ∃ r, eval orc (fuel + 1) (.call "sort_by_keys" [a]) ctx = .ok (some (.obj r)) ∧ r.Perm m ∧
      r.Pairwise (fun x y => cmpStr x.1 y.1 = .lt) := by
  obtain ⟨r, h1, h2, h3, -⟩ := sort_by_keys_spec orc fuel ctx a m ha
  refine ⟨r, h1, h2, ?_⟩
  have hnd : (r.map (fun kv => kv.1)).Nodup := (h2.map (fun (kv : Str × JV) => kv.1)).nodup_iff.2 hm
  have hnd' : r.Pairwise (fun x y => x.1 ≠ y.1) := List.pairwise_map.1 hnd
  refine (h3.and hnd').imp ?_
  rintro x y ⟨h, h'⟩
  rcases Order.cmpStr_lt_or_gt_of_ne h' with h'' | h''
  · exact h''
  · exact absurd h'' h

theorem size_sort_by_keys (a : Expr) (m : List (Str × JV)) (ha : eval orc fuel a ctx = .ok (some (.obj m))) :
    eval orc (fuel + 2) (.call "size" [.call "sort_by_keys" [a]]) ctx = .ok (some (.num (.pos m.length))) := by
  rw [size_obj orc (fuel + 1) ctx _ _ (sort_by_keys_obj orc fuel ctx a m ha), SortFns.stableSortBy_length]

theorem sort_by_keys_wrong_type (a : Expr) (v : Option JV) (hv : isObj v = false) (ha : eval orc fuel a ctx = .ok v) :
    eval orc (fuel + 1) (.call "sort_by_keys" [a]) ctx = .ok none := by
  obj_simp [ha]
  rcases v with _ | (_ | _ | _ | _ | _ | _) <;> simp_all [isObj]

/-- `sort_by_values`: "return object sorted by it's values": the stable sort of the members by `JV.cmp` on the values -/
theorem sort_by_values_obj (a : Expr) (m : List (Str × JV)) (ha : eval orc fuel a ctx = .ok (some (.obj m))) :
    eval orc (fuel + 1) (.call "sort_by_values" [a]) ctx =
      .ok (some (.obj (stableSortBy (fun (x y : Str × JV) => JV.cmp x.2 y.2) m))) := by
  obj_simp [ha]

/-- the result is a permutation of the members, sorted by value, and stable (members with equal values keep their order) -/
theorem sort_by_values_spec (a : Expr) (m : List (Str × JV)) (ha : eval orc fuel a ctx = .ok (some (.obj m))) :
    ∃ r, eval orc (fuel + 1) (.call "sort_by_values" [a]) ctx = .ok (some (.obj r)) ∧ r.Perm m ∧
      r.Pairwise (fun x y => JV.cmp x.2 y.2 ≠ .gt) ∧
      ∀ v, r.filter (fun x => JV.cmp x.2 v = .eq) = m.filter (fun x => JV.cmp x.2 v = .eq) :=
  ⟨_, sort_by_values_obj orc fuel ctx a m ha, SortFns.sort_by_values_perm m, SortFns.sort_by_values_sorted m,
    SortFns.sort_by_values_stable m⟩

theorem size_sort_by_values (a : Expr) (m : List (Str × JV)) (ha : eval orc fuel a ctx = .ok (some (.obj m))) :
    eval orc (fuel + 2) (.call "size" [.call "sort_by_values" [a]]) ctx = .ok (some (.num (.pos m.length))) := by
  rw [size_obj orc (fuel + 1) ctx _ _ (sort_by_values_obj orc fuel ctx a m ha), SortFns.stableSortBy_length]

theorem sort_by_values_wrong_type (a : Expr) (v : Option JV) (hv : isObj v = false) (ha : eval orc fuel a ctx = .ok v) :
    eval orc (fuel + 1) (.call "sort_by_values" [a]) ctx = .ok none := by
  obj_simp [ha]
  rcases v with _ | (_ | _ | _ | _ | _ | _) <;> simp_all [isObj]

theorem sort_by_values_by_obj_ok (a f : Expr) (m : List (Str × JV)) (ks : List (Option JV))
    (ha : eval orc fuel a ctx = .ok (some (.obj m)))
    (hf : mapM' (fun (kv : Str × JV) => eval orc fuel f (ctx.withInput kv.2)) m = .ok ks) :
    eval orc (fuel + 1) (.call "sort_by_values_by" [a, f]) ctx = .ok (some (.obj (SortFns.sortZip m ks))) := by
  obj_simp [ha, hf]
  rfl

theorem sort_by_values_by_obj_error (a f : Expr) (m : List (Str × JV)) (e : Abort)
    (ha : eval orc fuel a ctx = .ok (some (.obj m)))
    (hf : mapM' (fun (kv : Str × JV) => eval orc fuel f (ctx.withInput kv.2)) m = .error e) :
    eval orc (fuel + 1) (.call "sort_by_values_by" [a, f]) ctx = .error e := by
  obj_simp [ha, hf]

/-- `sort_by_values_by`: "return object sorted by applying the second argumetn to it's values": the stable sort of the
members by `cmpOpt` (nothing first, then `JV.cmp`) on the function's value on the member's value -/
theorem sort_by_values_by_obj (a f : Expr) (m : List (Str × JV)) (g : JV → Option JV)
    (ha : eval orc fuel a ctx = .ok (some (.obj m)))
    (hf : ∀ kv ∈ m, eval orc fuel f (ctx.withInput kv.2) = .ok (g kv.2)) :
    eval orc (fuel + 1) (.call "sort_by_values_by" [a, f]) ctx =
      .ok (some (.obj (stableSortBy (fun (x y : Str × JV) => cmpOpt (g x.2) (g y.2)) m))) := by
  rw [sort_by_values_by_obj_ok orc fuel ctx a f m _ ha (mapM'_ok _ (fun kv => g kv.2) m hf),
    SortFns.sortZip_map (fun (kv : Str × JV) => g kv.2) m]

/-- the result is a permutation of the members, sorted by the computed key, and stable -/
theorem sort_by_values_by_spec (a f : Expr) (m : List (Str × JV)) (g : JV → Option JV)
    (ha : eval orc fuel a ctx = .ok (some (.obj m)))
    (hf : ∀ kv ∈ m, eval orc fuel f (ctx.withInput kv.2) = .ok (g kv.2)) :
    ∃ r, eval orc (fuel + 1) (.call "sort_by_values_by" [a, f]) ctx = .ok (some (.obj r)) ∧ r.Perm m ∧
      r.Pairwise (fun x y => cmpOpt (g x.2) (g y.2) ≠ .gt) ∧
      ∀ k, r.filter (fun x => cmpOpt (g x.2) k = .eq) = m.filter (fun x => cmpOpt (g x.2) k = .eq) :=
  ⟨_, sort_by_values_by_obj orc fuel ctx a f m g ha hf, SortFns.sort_by_perm (fun (kv : Str × JV) => g kv.2) m,
    SortFns.sort_by_sorted (fun (kv : Str × JV) => g kv.2) m, SortFns.sort_by_stable (fun (kv : Str × JV) => g kv.2) m⟩

/-- whatever the function is: a permutation of the members, or the abort of the function on one of the values -/
theorem sort_by_values_by_result (a f : Expr) (m : List (Str × JV)) (ha : eval orc fuel a ctx = .ok (some (.obj m))) :
    (∃ r, eval orc (fuel + 1) (.call "sort_by_values_by" [a, f]) ctx = .ok (some (.obj r)) ∧ r.Perm m) ∨
    (∃ e, eval orc (fuel + 1) (.call "sort_by_values_by" [a, f]) ctx = .error e ∧
        ∃ kv ∈ m, eval orc fuel f (ctx.withInput kv.2) = .error e) := by
  cases h : mapM' (fun (kv : Str × JV) => eval orc fuel f (ctx.withInput kv.2)) m with
  | error e => exact .inr ⟨e, sort_by_values_by_obj_error orc fuel ctx a f m e ha h, mapM'_error _ m e h⟩
  | ok ks =>
    exact .inl ⟨_, sort_by_values_by_obj_ok orc fuel ctx a f m ks ha h,
      SortFns.sortZip_perm m ks (mapM'_length _ m ks h)⟩

/-- sorting by the identity function is `sort_by_values` -/
theorem sort_by_values_by_identity (a : Expr) (m : List (Str × JV)) (ha : eval orc (fuel + 1) a ctx = .ok (some (.obj m))) :
    eval orc (fuel + 2) (.call "sort_by_values_by" [a, .extract 0 []]) ctx =
      eval orc (fuel + 2) (.call "sort_by_values" [a]) ctx := by
  rw [sort_by_values_by_obj orc (fuel + 1) ctx a _ m some ha (fun _ _ => rfl),
    sort_by_values_obj orc (fuel + 1) ctx a m ha]
  rfl

theorem sort_by_values_by_wrong_type (a f : Expr) (v : Option JV) (hv : isObj v = false)
    (ha : eval orc fuel a ctx = .ok v) :
    eval orc (fuel + 1) (.call "sort_by_values_by" [a, f]) ctx = .ok none := by
  obj_simp [ha]
  rcases v with _ | (_ | _ | _ | _ | _ | _) <;> simp_all [isObj]

/-! ## 6. Type conversions ("return the … if the argument is …, nothing if it's not.") and `null?` -/

theorem as_array_arr (a : Expr) (l : List JV) (ha : eval orc fuel a ctx = .ok (some (.arr l))) :
    eval orc (fuel + 1) (.call "as_array" [a]) ctx = .ok (some (.arr l)) := by
  obj_simp [ha]

theorem as_object_obj (a : Expr) (m : List (Str × JV)) (ha : eval orc fuel a ctx = .ok (some (.obj m))) :
    eval orc (fuel + 1) (.call "as_object" [a]) ctx = .ok (some (.obj m)) := by
  obj_simp [ha]

theorem as_string_str (a : Expr) (s : Str) (ha : eval orc fuel a ctx = .ok (some (.str s))) :
    eval orc (fuel + 1) (.call "as_string" [a]) ctx = .ok (some (.str s)) := by
  obj_simp [ha]

/-- the number is returned as it is (an integer stays an integer, a float the same float) -/
theorem as_number_num (a : Expr) (n : Num) (ha : eval orc fuel a ctx = .ok (some (.num n))) :
    eval orc (fuel + 1) (.call "as_number" [a]) ctx = .ok (some (.num n)) := by
  obj_simp [ha]

theorem as_boolean_bool (a : Expr) (b : Bool) (ha : eval orc fuel a ctx = .ok (some (.bool b))) :
    eval orc (fuel + 1) (.call "as_boolean" [a]) ctx = .ok (some (.bool b)) := by
  obj_simp [ha]

theorem as_array_wrong_type (a : Expr) (v : Option JV) (hv : isArr v = false) (ha : eval orc fuel a ctx = .ok v) :
    eval orc (fuel + 1) (.call "as_array" [a]) ctx = .ok none := by
  obj_simp [ha]
  rcases v with _ | (_ | _ | _ | _ | _ | _) <;> simp_all [isArr]

theorem as_object_wrong_type (a : Expr) (v : Option JV) (hv : isObj v = false) (ha : eval orc fuel a ctx = .ok v) :
    eval orc (fuel + 1) (.call "as_object" [a]) ctx = .ok none := by
  obj_simp [ha]
  rcases v with _ | (_ | _ | _ | _ | _ | _) <;> simp_all [isObj]

theorem as_string_wrong_type (a : Expr) (v : Option JV) (hv : strArg v = none) (ha : eval orc fuel a ctx = .ok v) :
    eval orc (fuel + 1) (.call "as_string" [a]) ctx = .ok none := by
  obj_simp [ha]
  rcases v with _ | (_ | _ | _ | _ | _ | _) <;> simp_all [strArg]

theorem as_number_wrong_type (a : Expr) (v : Option JV) (hv : numArg v = none) (ha : eval orc fuel a ctx = .ok v) :
    eval orc (fuel + 1) (.call "as_number" [a]) ctx = .ok none := by
  obj_simp [ha]
  rcases v with _ | (_ | _ | _ | _ | _ | _) <;> simp_all [numArg]

theorem as_boolean_wrong_type (a : Expr) (v : Option JV) (hv : isBool v = false) (ha : eval orc fuel a ctx = .ok v) :
    eval orc (fuel + 1) (.call "as_boolean" [a]) ctx = .ok none := by
  obj_simp [ha]
  rcases v with _ | (_ | _ | _ | _ | _ | _) <;> simp_all [isBool]

/-- all five at once: a conversion returns its argument unchanged when the type test of the same name holds, and
nothing otherwise; it never aborts -/
theorem casts (a : Expr) (v : Option JV) (ha : eval orc fuel a ctx = .ok v) :
    eval orc (fuel + 1) (.call "as_array" [a]) ctx = .ok (if isArr v then v else none) ∧
    eval orc (fuel + 1) (.call "as_object" [a]) ctx = .ok (if isObj v then v else none) ∧
    eval orc (fuel + 1) (.call "as_string" [a]) ctx = .ok (if (strArg v).isSome then v else none) ∧
    eval orc (fuel + 1) (.call "as_number" [a]) ctx = .ok (if (numArg v).isSome then v else none) ∧
    eval orc (fuel + 1) (.call "as_boolean" [a]) ctx = .ok (if isBool v then v else none) := by
  refine ⟨?_, ?_, ?_, ?_, ?_⟩ <;>
  · obj_simp [ha]
    rcases v with _ | (_ | _ | _ | _ | _ | _) <;> rfl

/-- a conversion followed by the type test of the same name: `true` exactly when the conversion gave a value -/
theorem array_test_as_array (a : Expr) (v : Option JV) (ha : eval orc fuel a ctx = .ok v) :
    eval orc (fuel + 2) (.call "array?" [.call "as_array" [a]]) ctx = eval orc (fuel + 1) (.call "array?" [a]) ctx := by
  rw [(type_tests orc (fuel + 1) ctx _ _ (casts orc fuel ctx a v ha).1).1, (type_tests orc fuel ctx a v ha).1]
  rcases v with _ | (_ | _ | _ | _ | _ | _) <;> rfl

def isNull : Option JV → Bool
  | some .null => true
  | _ => false

/-- `null?`: "return true if the argument is a null." — a boolean for every argument, `false` for nothing -/
theorem null_test (a : Expr) (v : Option JV) (ha : eval orc fuel a ctx = .ok v) :
    eval orc (fuel + 1) (.call "null?" [a]) ctx = .ok (some (.bool (isNull v))) := by
  obj_simp [ha]
  rcases v with _ | (_ | _ | _ | _ | _ | _) <;> rfl

/-- every value (or nothing) passes exactly one of the seven type tests -/
theorem type_tests_partition (v : Option JV) :
    [isNull v, isBool v, (strArg v).isSome, (numArg v).isSome, isObj v, isArr v, v.isNone].count true = 1 := by
  rcases v with _ | (_ | _ | _ | _ | _ | _) <;> rfl

section Examples
private def n (k : Nat) : JV := .num (.pos k)
private def o4 : List (Str × JV) := [("a".toList, n 1), ("aa".toList, n 2), ("aaa".toList, n 3), ("aaaa".toList, n 4)]
private def o3 : List (Str × JV) := [("a".toList, .arr [.null]), ("b".toList, .bool true), ("c".toList, .arr [])]
private def oz : List (Str × JV) := [("z".toList, n 1), ("x".toList, n 2), ("w".toList, .null)]

/-- `(filter_keys {"a": 1, "aa": 2, "aaa": 3, "aaaa": 4} (= . "aa"))` -/
example : eval {} 5 (.call "filter_keys" [.const (.obj o4), .call "=" [.extract 0 [], .const (.str "aa".toList)]]) {}
    = .ok (some (.obj [("aa".toList, n 2)])) := by
  rw [filter_keys_obj {} 4 {} _ _ o4 (fun k => some (.bool (JV.beq (.str k) (.str "aa".toList)))) rfl (fun _ _ => rfl)]
  simp [o4, isTrue, JV.beq]
/-- `(filter_values {"a": [null], "b": true, "c": []} (array? .))` -/
example : eval {} 5 (.call "filter_values" [.const (.obj o3), .call "array?" [.extract 0 []]]) {}
    = .ok (some (.obj [("a".toList, .arr [.null]), ("c".toList, .arr [])])) := by
  rw [filter_values_obj {} 4 {} _ _ o3 (fun v => match v with | .arr _ => some (.bool true) | _ => some (.bool false)) rfl
    (by intro kv hkv; simp [o3] at hkv; rcases hkv with rfl | rfl | rfl <;> rfl)]
  rfl
example : eval {} 5 (.call "filter_keys" [.const (.arr [n 1, n 2, n 4]), .const (.bool false)]) {} = .ok none :=
  filter_keys_wrong_type {} 4 {} _ _ (some (.arr [n 1, n 2, n 4])) rfl rfl
example : eval {} 5 (.call "filter_keys" [.const (.obj o4), .const (.bool true)]) {} = .ok (some (.obj o4)) :=
  filter_keys_const_true {} 3 {} _ o4 rfl
/-- an abort inside the function is the only way `filter_values` aborts -/
example : eval {} 5 (.call "filter_values" [.const (.obj o4), .call "no-such-function" []]) {}
    = .error (.panic "unmodelled-function:no-such-function") :=
  filter_values_obj_error {} 4 {} _ _ o4 _ rfl rfl
/-- the documentation's `(map_keys {"a": 1, "aa": 2, "aaa": 3, "aaaa": 4} (concat "_" .))` -/
example : eval {} 5 (.call "map_keys" [.const (.obj o4), .call "concat" [.const (.str "_".toList), .extract 0 []]]) {}
    = .ok (some (.obj [("_a".toList, n 1), ("_aa".toList, n 2), ("_aaa".toList, n 3), ("_aaaa".toList, n 4)])) :=
  map_keys_injective {} 4 {} _ _ o4 (fun k => "_".toList ++ k) (by decide) rfl (fun _ _ => rfl)
example : eval {} 5 (.call "map_keys" [.const (.obj o4), .call "concat" [.const (.str "_".toList), .extract 0 []]]) {}
    = .ok (some (.obj [("_a".toList, n 1), ("_aa".toList, n 2), ("_aaa".toList, n 3), ("_aaaa".toList, n 4)])) :=
  map_keys_injective' {} 4 {} _ _ o4 (fun k => "_".toList ++ k) (by decide) (fun _ _ h => List.append_cancel_left h) rfl
    (fun _ _ => rfl)
/-- two keys renamed to the same string: the later value replaces the earlier one at the earlier one's place:
`(map_keys {"ab": 1, "c": 2, "ac": null} (take . 1))` is `{"a": null, "c": 2}` -/
example : eval {} 5 (.call "map_keys" [.const (.obj [("ab".toList, n 1), ("c".toList, n 2), ("ac".toList, .null)]),
      .call "take" [.extract 0 [], .const (n 1)]]) {}
    = .ok (some (.obj [("a".toList, .null), ("c".toList, n 2)])) := by
  rw [map_keys_obj {} 4 {} _ _ _ (fun k => some (.str (k.take 1))) rfl (fun _ _ => rfl)]
  simp [strArg, objOfList, objInsert]
/-- the documentation's `(map_keys {…} (number? .))` is `{}` -/
example : eval {} 5 (.call "map_keys" [.const (.obj o4), .call "number?" [.extract 0 []]]) {} = .ok (some (.obj [])) :=
  map_keys_no_string {} 4 {} _ _ o4 (fun _ => some (.bool false)) (fun _ _ => rfl) rfl (fun _ _ => rfl)
example : eval {} 5 (.call "map_keys" [.const (.arr [n 1]), .const (.bool false)]) {} = .ok none :=
  map_keys_wrong_type {} 4 {} _ _ (some (.arr [n 1])) rfl rfl
/-- `(map_values {"a": [null], "b": true, "c": []} (size .))` drops `b`, whose value has no size -/
example : eval {} 5 (.call "map_values" [.const (.obj o3), .call "size" [.extract 0 []]]) {}
    = .ok (some (.obj [("a".toList, n 1), ("c".toList, n 0)])) := by
  rw [map_values_obj {} 4 {} _ _ o3 (fun v => match v with | .arr l => some (n l.length) | _ => none) rfl
    (by intro kv hkv; simp [o3] at hkv; rcases hkv with rfl | rfl | rfl <;> rfl)]
  rfl
example : eval {} 5 (.call "map_values" [.const (.obj o3), .call "array?" [.extract 0 []]]) {}
    = .ok (some (.obj [("a".toList, .bool true), ("b".toList, .bool false), ("c".toList, .bool true)])) := by
  rw [map_values_total {} 4 {} _ _ o3 (fun v => match v with | .arr _ => .bool true | _ => .bool false) rfl
    (by intro kv hkv; simp [o3] at hkv; rcases hkv with rfl | rfl | rfl <;> rfl)]
  rfl
/-- the documentation's examples of `put`, `insert_if_absent`, `replace_if_exists` -/
example : eval {} 5 (.call "put" [.const (.obj []), .const (.str "a".toList), .const (n 1)]) {}
    = .ok (some (.obj [("a".toList, n 1)])) :=
  put_absent {} 4 {} _ _ _ [] "a".toList (n 1) rfl rfl rfl rfl
example : eval {} 5 (.call "put" [.const (.obj [("a".toList, n 10), ("b".toList, n 22)]), .const (.str "a".toList),
      .const (.num (.neg (-1)))]) {} = .ok (some (.obj [("a".toList, .num (.neg (-1))), ("b".toList, n 22)])) := by
  rw [put_obj {} 4 {} _ _ _ [("a".toList, n 10), ("b".toList, n 22)] "a".toList (.num (.neg (-1))) rfl rfl rfl]
  simp [objInsert]
example : ∃ pre post w, [("b".toList, n 22), ("a".toList, n 10)] = pre ++ ("a".toList, w) :: post ∧ (∀ kv ∈ pre, kv.1 ≠ "a".toList) ∧
    eval {} 5 (.call "put" [.const (.obj [("b".toList, n 22), ("a".toList, n 10)]), .const (.str "a".toList), .const .null]) {}
      = .ok (some (.obj (pre ++ ("a".toList, .null) :: post))) :=
  put_present {} 4 {} _ _ _ _ "a".toList .null rfl rfl rfl rfl
example : eval {} 5 (.call "put" [.const (.arr []), .const (.str "a".toList), .const (n 1)]) {} = .ok none :=
  put_wrong_type {} 4 {} _ _ _ (some (.arr [])) _ _ (.inl rfl) rfl rfl rfl
example : eval {} 5 (.call "put" [.const (.obj []), .const (n 1), .const (n 1)]) {} = .ok none :=
  put_wrong_type {} 4 {} _ _ _ _ (some (n 1)) _ (.inr (.inl rfl)) rfl rfl rfl
/-- `(put {} "1" <nothing>)` -/
example : eval {} 5 (.call "put" [.const (.obj []), .const (.str "1".toList), .var "unset".toList]) {} = .ok none :=
  put_wrong_type {} 4 {} _ _ _ _ _ none (.inr (.inr rfl)) rfl rfl rfl
example : eval {} 5 (.call "get" [.call "put" [.const (.obj o4), .const (.str "aa".toList), .const .null],
      .const (.str "aa".toList)]) {} = .ok (some .null) :=
  get_put_same {} 3 {} _ _ _ _ o4 "aa".toList .null rfl rfl rfl rfl
example : eval {} 5 (.call "get" [.call "put" [.const (.obj o4), .const (.str "aa".toList), .const .null],
      .const (.str "a".toList)]) {} = .ok (some (n 1)) :=
  get_put_other {} 3 {} _ _ _ _ o4 "aa".toList "a".toList .null (by decide) rfl rfl rfl rfl
example : eval {} 5 (.call "size" [.call "put" [.const (.obj o4), .const (.str "b".toList), .const .null]]) {}
    = .ok (some (n 5)) :=
  size_put {} 3 {} _ _ _ o4 "b".toList .null rfl rfl rfl
example : eval {} 5 (.call "insert_if_absent" [.const (.obj [("a".toList, n 10), ("b".toList, n 22)]),
      .const (.str "a".toList), .const (.num (.neg (-1)))]) {} = .ok (some (.obj [("a".toList, n 10), ("b".toList, n 22)])) :=
  insert_if_absent_present {} 4 {} _ _ _ _ "a".toList _ rfl rfl rfl rfl
example : eval {} 5 (.call "insert_if_absent" [.const (.obj []), .const (.str "a".toList), .const (n 1)]) {}
    = .ok (some (.obj [("a".toList, n 1)])) :=
  insert_if_absent_absent {} 4 {} _ _ _ [] "a".toList (n 1) rfl rfl rfl rfl
example : eval {} 5 (.call "insert_if_absent" [.const (.arr []), .const (.str "a".toList), .const (n 1)]) {} = .ok none :=
  insert_if_absent_wrong_type {} 4 {} _ _ _ (some (.arr [])) _ _ (.inl rfl) rfl rfl rfl
example : eval {} 5 (.call "replace_if_exists" [.const (.obj []), .const (.str "a".toList), .const (n 1)]) {}
    = .ok (some (.obj [])) :=
  replace_if_exists_absent {} 4 {} _ _ _ [] "a".toList (n 1) rfl rfl rfl rfl
example : eval {} 5 (.call "replace_if_exists" [.const (.obj [("a".toList, n 10), ("b".toList, n 22)]),
      .const (.str "a".toList), .const (.num (.neg (-1)))]) {}
    = .ok (some (.obj [("a".toList, .num (.neg (-1))), ("b".toList, n 22)])) := by
  rw [replace_if_exists_obj {} 4 {} _ _ _ [("a".toList, n 10), ("b".toList, n 22)] "a".toList (.num (.neg (-1))) rfl rfl rfl]
  simp [objInsert, objGet?]
example : eval {} 5 (.call "replace_if_exists" [.const (.obj []), .const (n 1), .const (n 1)]) {} = .ok none :=
  replace_if_exists_wrong_type {} 4 {} _ _ _ _ (some (n 1)) _ (.inr (.inl rfl)) rfl rfl rfl
/-- the documentation's `(sort_by_keys {"z": 1, "x": 2, "w": null})` (`List.mergeSort` does not reduce in the kernel;
the instance is computed through the bridge to the insertion sort of the specification) -/
example : eval {} 5 (.call "sort_by_keys" [.const (.obj oz)]) {}
    = .ok (some (.obj [("w".toList, .null), ("x".toList, n 2), ("z".toList, n 1)])) := by
  rw [sort_by_keys_obj {} 4 {} _ oz rfl, SortFns.sort_by_keys_eq_spec]
  rfl
example : eval {} 5 (.call "sort_by_keys" [.const (.bool false)]) {} = .ok none :=
  sort_by_keys_wrong_type {} 4 {} _ (some (.bool false)) rfl rfl
/-- `(sort_by_values {"z": "s", "x": true, "w": null})` -/
example : eval {} 5 (.call "sort_by_values" [.const (.obj
      [("z".toList, .str "s".toList), ("x".toList, .bool true), ("w".toList, .null)])]) {}
    = .ok (some (.obj [("w".toList, .null), ("x".toList, .bool true), ("z".toList, .str "s".toList)])) := by
  rw [sort_by_values_obj {} 4 {} _ _ rfl, SortFns.sort_by_values_eq_spec]
  rfl
/-- `(sort_by_values_by {"a": [null], "b": true, "c": []} (first .))`: the keys are `null`, nothing, nothing;
the members without a key come first in their original order -/
example : eval {} 5 (.call "sort_by_values_by" [.const (.obj o3), .call "first" [.extract 0 []]]) {}
    = .ok (some (.obj [("b".toList, .bool true), ("c".toList, .arr []), ("a".toList, .arr [.null])])) := by
  rw [sort_by_values_by_obj {} 4 {} _ _ o3 (fun v => match v with | .arr l => l.head? | _ => none) rfl
    (by intro kv hkv; simp [o3] at hkv; rcases hkv with rfl | rfl | rfl <;> rfl), SortFns.sort_by_eq_spec]
  rfl
example : eval {} 5 (.call "sort_by_values_by" [.const (.bool false), .extract 0 []]) {} = .ok none :=
  sort_by_values_by_wrong_type {} 4 {} _ _ (some (.bool false)) rfl rfl
example : ∃ r, eval {} 5 (.call "sort_by_keys" [.const (.obj o4)]) {} = .ok (some (.obj r)) ∧ r.Perm o4 ∧
    r.Pairwise (fun x y => cmpStr x.1 y.1 = .lt) :=
  sort_by_keys_strict {} 4 {} _ o4 (by decide) rfl
/-- the documentation's examples of the conversions -/
example : eval {} 5 (.call "as_array" [.const (.arr [n 1, n 2])]) {} = .ok (some (.arr [n 1, n 2])) :=
  as_array_arr {} 4 {} _ _ rfl
example : eval {} 5 (.call "as_array" [.const (n 312)]) {} = .ok none :=
  as_array_wrong_type {} 4 {} _ (some (n 312)) rfl rfl
example : eval {} 5 (.call "as_object" [.const (.obj [("key".toList, n 12)])]) {} = .ok (some (.obj [("key".toList, n 12)])) :=
  as_object_obj {} 4 {} _ _ rfl
example : eval {} 5 (.call "as_string" [.const (.str "text".toList)]) {} = .ok (some (.str "text".toList)) :=
  as_string_str {} 4 {} _ _ rfl
example : eval {} 5 (.call "as_string" [.const (n 312)]) {} = .ok none :=
  as_string_wrong_type {} 4 {} _ (some (n 312)) rfl rfl
example : eval {} 5 (.call "as_number" [.const (.num (.flt (.fin true 21 (-2))))]) {} = .ok (some (.num (.flt (.fin true 21 (-2))))) :=
  as_number_num {} 4 {} _ _ rfl
example : eval {} 5 (.call "as_number" [.const (.bool false)]) {} = .ok none :=
  as_number_wrong_type {} 4 {} _ (some (.bool false)) rfl rfl
example : eval {} 5 (.call "as_boolean" [.const (.bool false)]) {} = .ok (some (.bool false)) :=
  as_boolean_bool {} 4 {} _ _ rfl
example : eval {} 5 (.call "as_boolean" [.var "unset".toList]) {} = .ok none :=
  as_boolean_wrong_type {} 4 {} _ none rfl rfl
example : eval {} 5 (.call "null?" [.const .null]) {} = .ok (some (.bool true)) := null_test {} 4 {} _ (some .null) rfl
example : eval {} 5 (.call "null?" [.const (n 1)]) {} = .ok (some (.bool false)) := null_test {} 4 {} _ (some (n 1)) rfl
example : eval {} 5 (.call "null?" [.var "unset".toList]) {} = .ok (some (.bool false)) := null_test {} 4 {} _ none rfl
/-- the helper lemmas on concrete objects -/
example : objOfList [("a".toList, n 1), ("b".toList, n 2), ("a".toList, n 3)] = [("a".toList, n 3), ("b".toList, n 2)] := by
  simp [objOfList, objInsert]
example : objKeys (objOfList [("a".toList, n 1), ("b".toList, n 2), ("a".toList, n 3)]) = ["a".toList, "b".toList] := by
  rw [objOfList_keys]; decide
end Examples

/-
  Axiom audit (`#print axioms` on every theorem of this file, 2026-09-29): all ⊆ {propext, Classical.choice, Quot.sound}.
-/
end Jawk.EvalLaws
