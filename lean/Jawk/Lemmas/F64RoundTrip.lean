import Jawk.Model.F64
namespace Jawk.F64RT
open Jawk Jawk.F64

/-! ## Item 1: every answer of the digit search passed the round-trip test -/

theorem go_sound (f : F64) (num den : Nat) (k : Int) (fuel n : Nat) (d : Nat) (p : Int)
    (h : shortestDigits.go f num den k fuel n = some (d, p)) :
    roundTrips f d p = true ∧ d ≠ 0 := by
  induction fuel generalizing n with
  | zero => simp [shortestDigits.go] at h
  | succ fuel ih =>
    simp only [shortestDigits.go] at h
    split at h
    · rename_i hboth
      simp only [Bool.and_eq_true, decide_eq_true_eq] at hboth
      split at h <;> simp only [Option.some.injEq, Prod.mk.injEq] at h <;>
        obtain ⟨rfl, rfl⟩ := h
      · exact ⟨hboth.1.2, by simpa using hboth.1.1⟩
      · exact ⟨hboth.2, by omega⟩
      · exact ⟨hboth.2, by omega⟩
    · split at h
      · rename_i hlo
        simp only [Bool.and_eq_true, decide_eq_true_eq] at hlo
        simp only [Option.some.injEq, Prod.mk.injEq] at h
        obtain ⟨rfl, rfl⟩ := h
        exact ⟨hlo.2, by simpa using hlo.1⟩
      · split at h
        · rename_i hhi
          simp only [Option.some.injEq, Prod.mk.injEq] at h
          obtain ⟨rfl, rfl⟩ := h
          exact ⟨hhi, by omega⟩
        · exact ih _ h

theorem shortestDigits_sound {f : F64} {s : Bool} {m : Nat} {e : Int} {d : Nat} {p : Int}
    (h : shortestDigits f = some (d, p)) (hf : f = fin s m e) (hm : m ≠ 0) :
    roundTrips f d p = true ∧ d ≠ 0 := by
  subst hf
  simp only [shortestDigits, F64.abs, hm, if_false] at h
  exact go_sound _ _ _ _ _ _ _ _ h

theorem shortestDigits_roundTrips {f : F64} {s : Bool} {m : Nat} {e : Int} {d : Nat} {p : Int}
    (h : shortestDigits f = some (d, p)) (hf : f = fin s m e) (hm : m ≠ 0) :
    roundTrips f d p = true := (shortestDigits_sound h hf hm).1

theorem shortestDigits_ne_zero {f : F64} {s : Bool} {m : Nat} {e : Int} {d : Nat} {p : Int}
    (h : shortestDigits f = some (d, p)) (hf : f = fin s m e) (hm : m ≠ 0) :
    d ≠ 0 := (shortestDigits_sound h hf hm).2


/-! ## Item 2a: `roundRat` depends only on the value `num/den` and the sign is independent -/

/-- the quotient component of `scaleDiv` -/
def Q (num den : Nat) (e : Int) : Nat := (scaleDiv num den e).1

/-- exponent selected by `roundRat` before clamping to the subnormal range -/
def e2Of (num den : Nat) : Int :=
  let e1 : Int := (Nat.log2 num : Int) - (Nat.log2 den : Int) - 52
  if Q num den e1 ≥ 2 ^ 52 then e1 else e1 - 1

def clampE (e2 : Int) : Int := if e2 < -1074 then -1074 else e2

/-- the final rounding step of `roundRat` -/
def finish (neg : Bool) (e : Int) (qrd : Nat × Nat × Nat) : F64 :=
  let up : Bool := decide (2 * qrd.2.1 > qrd.2.2) || (decide (2 * qrd.2.1 = qrd.2.2) && qrd.1 % 2 == 1)
  let q' := if up then qrd.1 + 1 else qrd.1
  let me : Nat × Int := if q' = 2 ^ 53 then (2 ^ 52, e + 1) else (q', e)
  if me.2 > 971 then inf neg else fin neg me.1 me.2

theorem roundRat_eq (neg : Bool) (num den : Nat) :
    roundRat neg num den =
      if num = 0 ∨ den = 0 then fin neg 0 (-1074)
      else finish neg (clampE (e2Of num den)) (scaleDiv num den (clampE (e2Of num den))) := by
  rfl



theorem Q_nonneg {num den : Nat} {e : Int} (h : 0 ≤ e) : Q num den e = num / (den * 2 ^ e.toNat) := by
  simp [Q, scaleDiv, h]

theorem Q_neg {num den : Nat} {e : Int} (h : e < 0) : Q num den e = num * 2 ^ (-e).toNat / den := by
  have : ¬ 0 ≤ e := by omega
  simp [Q, scaleDiv, this]

theorem Q_add (num den : Nat) (e : Int) (j : Nat) : Q num den (e + j) = Q num den e / 2 ^ j := by
  by_cases h : 0 ≤ e
  · rw [Q_nonneg h, Q_nonneg (by omega : 0 ≤ e + j)]
    have : (e + j).toNat = e.toNat + j := by omega
    rw [this, Nat.div_div_eq_div_mul, Nat.pow_add, Nat.mul_assoc]
  · have h' : e < 0 := by omega
    rw [Q_neg h', Nat.div_div_eq_div_mul]
    by_cases h2 : 0 ≤ e + j
    · rw [Q_nonneg h2]
      have : j = (e + j).toNat + (-e).toNat := by omega
      rw (occs := [2]) [this]
      rw [Nat.pow_add, ← Nat.mul_assoc, Nat.mul_div_mul_right _ _ (Nat.pow_pos (by decide))]
    · rw [Q_neg (by omega)]
      have : (-e).toNat = (-(e + j)).toNat + j := by omega
      rw [this, Nat.pow_add, ← Nat.mul_assoc, Nat.mul_div_mul_right _ _ (Nat.pow_pos (by decide))]

theorem Q_unique {num den : Nat} {e e' : Int}
    (h1 : 2 ^ 52 ≤ Q num den e) (h2 : Q num den e < 2 ^ 53)
    (h1' : 2 ^ 52 ≤ Q num den e') (h2' : Q num den e' < 2 ^ 53) : e = e' := by
  have key : ∀ (a b : Int), a < b → 2 ^ 52 ≤ Q num den b → Q num den a < 2 ^ 53 → False := by
    intro a b hab hb ha
    have hj : b = a + ((b - a).toNat : Int) := by omega
    rw [hj, Q_add] at hb
    have h2j : 2 ^ 1 ≤ 2 ^ (b - a).toNat := Nat.pow_le_pow_right (by decide) (by omega)
    have : Q num den a / 2 ^ (b - a).toNat ≤ Q num den a / 2 ^ 1 :=
      Nat.div_le_div_left h2j (by decide)
    omega
  rcases Int.lt_trichotomy e e' with h | h | h
  · exact (key e e' h h1' h2).elim
  · exact h
  · exact (key e' e h h1 h2').elim

theorem scaleDiv_scale (n d k : Nat) (hk : 0 < k) (e : Int) :
    scaleDiv (n * k) (d * k) e =
      ((scaleDiv n d e).1, (scaleDiv n d e).2.1 * k, (scaleDiv n d e).2.2 * k) := by
  unfold scaleDiv
  split
  · simp only
    rw [Nat.mul_right_comm d k, Nat.mul_div_mul_right _ _ hk, Nat.mul_mod_mul_right]
  · simp only
    rw [Nat.mul_right_comm n k, Nat.mul_div_mul_right _ _ hk, Nat.mul_mod_mul_right]

theorem Q_scale (n d k : Nat) (hk : 0 < k) (e : Int) : Q (n * k) (d * k) e = Q n d e := by
  simp [Q, scaleDiv_scale n d k hk e]


theorem log2_bounds {n : Nat} (h : n ≠ 0) : 2 ^ n.log2 ≤ n ∧ n < 2 ^ (n.log2 + 1) :=
  ⟨Nat.log2_self_le h, Nat.lt_log2_self⟩

/-- core estimate: with `2^a ≤ num < 2^(a+1)`, `2^b ≤ den < 2^(b+1)`, scaling by `2^(a-b-52)` puts the quotient in `[2^51, 2^53)`. -/
theorem est_nonneg {num den a b t : Nat} (ha : 2 ^ a ≤ num) (ha' : num < 2 ^ (a + 1))
    (hb : 2 ^ b ≤ den) (hb' : den < 2 ^ (b + 1)) (hab : a = b + 52 + t) :
    2 ^ 51 ≤ num / (den * 2 ^ t) ∧ num / (den * 2 ^ t) < 2 ^ 53 := by
  have hpos : 0 < den * 2 ^ t := Nat.mul_pos (by have := Nat.pow_pos (n := b) (by decide : 0 < 2); omega) (Nat.pow_pos (by decide))
  constructor
  · rw [Nat.le_div_iff_mul_le hpos]
    have h1 : den * 2 ^ t ≤ 2 ^ (b + 1) * 2 ^ t := Nat.mul_le_mul_right _ (Nat.le_of_lt hb')
    have h2 : 2 ^ 51 * (den * 2 ^ t) ≤ 2 ^ 51 * (2 ^ (b + 1) * 2 ^ t) := Nat.mul_le_mul_left _ h1
    have h3 : 2 ^ 51 * (2 ^ (b + 1) * 2 ^ t) = 2 ^ a := by
      rw [← Nat.pow_add, ← Nat.pow_add]; congr 1; omega
    omega
  · rw [Nat.div_lt_iff_lt_mul hpos]
    have h1 : 2 ^ b * 2 ^ t ≤ den * 2 ^ t := Nat.mul_le_mul_right _ hb
    have h2 : 2 ^ 53 * (2 ^ b * 2 ^ t) ≤ 2 ^ 53 * (den * 2 ^ t) := Nat.mul_le_mul_left _ h1
    have h3 : 2 ^ 53 * (2 ^ b * 2 ^ t) = 2 ^ (a + 1) := by
      rw [← Nat.pow_add, ← Nat.pow_add]; congr 1; omega
    omega

theorem est_neg {num den a b t : Nat} (ha : 2 ^ a ≤ num) (ha' : num < 2 ^ (a + 1))
    (hb : 2 ^ b ≤ den) (hb' : den < 2 ^ (b + 1)) (hab : a + t = b + 52) :
    2 ^ 51 ≤ num * 2 ^ t / den ∧ num * 2 ^ t / den < 2 ^ 53 := by
  have hpos : 0 < den := by have := Nat.pow_pos (n := b) (by decide : 0 < 2); omega
  constructor
  · rw [Nat.le_div_iff_mul_le hpos]
    have h1 : 2 ^ 51 * den ≤ 2 ^ 51 * 2 ^ (b + 1) := Nat.mul_le_mul_left _ (Nat.le_of_lt hb')
    have h2 : 2 ^ 51 * 2 ^ (b + 1) = 2 ^ a * 2 ^ t := by
      rw [← Nat.pow_add, ← Nat.pow_add]; congr 1; omega
    have h3 : 2 ^ a * 2 ^ t ≤ num * 2 ^ t := Nat.mul_le_mul_right _ ha
    omega
  · rw [Nat.div_lt_iff_lt_mul hpos]
    have h1 : num * 2 ^ t < 2 ^ (a + 1) * 2 ^ t := Nat.mul_lt_mul_of_pos_right ha' (Nat.pow_pos (by decide))
    have h2 : 2 ^ (a + 1) * 2 ^ t = 2 ^ 53 * 2 ^ b := by
      rw [← Nat.pow_add, ← Nat.pow_add]; congr 1; omega
    have h3 : 2 ^ 53 * 2 ^ b ≤ 2 ^ 53 * den := Nat.mul_le_mul_left _ hb
    omega


theorem Q_e1_bounds {num den : Nat} (hn : num ≠ 0) (hd : den ≠ 0) :
    2 ^ 51 ≤ Q num den ((Nat.log2 num : Int) - (Nat.log2 den : Int) - 52) ∧
    Q num den ((Nat.log2 num : Int) - (Nat.log2 den : Int) - 52) < 2 ^ 53 := by
  obtain ⟨ha, ha'⟩ := log2_bounds hn
  obtain ⟨hb, hb'⟩ := log2_bounds hd
  by_cases h : 0 ≤ (Nat.log2 num : Int) - (Nat.log2 den : Int) - 52
  · rw [Q_nonneg h]
    exact est_nonneg ha ha' hb hb' (by omega)
  · rw [Q_neg (by omega)]
    exact est_neg ha ha' hb hb' (by omega)

theorem e2Of_spec {num den : Nat} (hn : num ≠ 0) (hd : den ≠ 0) :
    2 ^ 52 ≤ Q num den (e2Of num den) ∧ Q num den (e2Of num den) < 2 ^ 53 := by
  obtain ⟨h1, h2⟩ := Q_e1_bounds hn hd
  unfold e2Of
  simp only
  split
  · rename_i h; exact ⟨h, h2⟩
  · rename_i h
    have := Q_add num den ((Nat.log2 num : Int) - (Nat.log2 den : Int) - 52 - 1) 1
    rw [show (Nat.log2 num : Int) - (Nat.log2 den : Int) - 52 - 1 + ((1 : Nat) : Int)
          = (Nat.log2 num : Int) - (Nat.log2 den : Int) - 52 by omega] at this
    omega

theorem e2Of_scale (n d k : Nat) (hn : n ≠ 0) (hd : d ≠ 0) (hk : 0 < k) :
    e2Of (n * k) (d * k) = e2Of n d := by
  have hnk : n * k ≠ 0 := Nat.mul_ne_zero hn (by omega)
  have hdk : d * k ≠ 0 := Nat.mul_ne_zero hd (by omega)
  obtain ⟨h1, h2⟩ := e2Of_spec hnk hdk
  obtain ⟨h3, h4⟩ := e2Of_spec hn hd
  rw [Q_scale n d k hk] at h1 h2
  exact Q_unique h1 h2 h3 h4

theorem finish_scale (neg : Bool) (e : Int) (q r d k : Nat) (hk : 0 < k) :
    finish neg e (q, r * k, d * k) = finish neg e (q, r, d) := by
  unfold finish
  have h1 : (2 * (r * k) > d * k) ↔ (2 * r > d) := by
    rw [← Nat.mul_assoc]; exact Nat.mul_lt_mul_right hk
  have h2 : (2 * (r * k) = d * k) ↔ (2 * r = d) := by
    rw [← Nat.mul_assoc]; exact Nat.mul_right_cancel_iff hk
  simp only [h1, h2]

/-- `roundRat` depends only on the value `num / den`. -/
theorem roundRat_scale (neg : Bool) (n d k : Nat) (hk : 0 < k) :
    roundRat neg (n * k) (d * k) = roundRat neg n d := by
  rw [roundRat_eq, roundRat_eq]
  by_cases hz : n = 0 ∨ d = 0
  · have : n * k = 0 ∨ d * k = 0 := by
      rcases hz with h | h <;> simp [h]
    rw [if_pos hz, if_pos this]
  · have hn : n ≠ 0 := fun h => hz (Or.inl h)
    have hd : d ≠ 0 := fun h => hz (Or.inr h)
    have : ¬ (n * k = 0 ∨ d * k = 0) := by
      intro h
      rcases h with h | h <;> rcases Nat.mul_eq_zero.mp h with h | h <;> omega
    rw [if_neg hz, if_neg this, e2Of_scale n d k hn hd hk, scaleDiv_scale n d k hk, finish_scale _ _ _ _ _ _ hk]

/-- replace the sign of a double -/
def withSign (s : Bool) : F64 → F64
  | fin _ m e => fin s m e
  | inf _ => inf s
  | nan => nan

theorem finish_sign (s s' : Bool) (e : Int) (x : Nat × Nat × Nat) :
    finish s e x = withSign s (finish s' e x) := by
  unfold finish
  simp only
  generalize (if (if (decide (2 * x.2.1 > x.2.2) || (decide (2 * x.2.1 = x.2.2) && x.1 % 2 == 1)) = true
      then x.1 + 1 else x.1) = 2 ^ 53 then ((2 ^ 52 : Nat), e + 1) else
      (if (decide (2 * x.2.1 > x.2.2) || (decide (2 * x.2.1 = x.2.2) && x.1 % 2 == 1)) = true
      then x.1 + 1 else x.1, e)) = me
  by_cases h : me.2 > 971
  · simp only [h, if_true, withSign]
  · simp only [h, if_false, withSign]

theorem roundRat_sign (s s' : Bool) (n d : Nat) : roundRat s n d = withSign s (roundRat s' n d) := by
  rw [roundRat_eq, roundRat_eq]
  split
  · rfl
  · exact finish_sign _ _ _ _


/-! ## Item 2b: `stripZeros` preserves the value -/

/-- the double nearest to `d × 10^p` with sign `s` (what `roundTrips` computes, with a sign) -/
def rd (s : Bool) (d : Nat) (p : Int) : F64 :=
  if 0 ≤ p then roundRat s (d * 10 ^ p.toNat) 1 else roundRat s d (10 ^ (-p).toNat)

theorem rd_step (s : Bool) (d : Nat) (p : Int) : rd s (10 * d) p = rd s d (p + 1) := by
  unfold rd
  by_cases h : 0 ≤ p
  · rw [if_pos h, if_pos (by omega : 0 ≤ p + 1)]
    have : (p + 1).toNat = p.toNat + 1 := by omega
    rw [this, Nat.pow_succ, Nat.mul_comm 10 d, Nat.mul_assoc, Nat.mul_comm 10]
  · rw [if_neg h]
    by_cases h1 : 0 ≤ p + 1
    · rw [if_pos h1]
      have e1 : (-p).toNat = 1 := by omega
      have e2 : (p + 1).toNat = 0 := by omega
      rw [e1, e2]
      have := roundRat_scale s d 1 10 (by decide)
      simpa [Nat.mul_comm] using this
    · rw [if_neg h1]
      have e1 : (-p).toNat = (-(p + 1)).toNat + 1 := by omega
      rw [e1, Nat.pow_succ, Nat.mul_comm 10 d]
      exact roundRat_scale s d _ 10 (by decide)

theorem stripZeros_spec (fuel d : Nat) (p : Int) :
    ∃ j : Nat, (stripZeros fuel d p).2 = p + j ∧ d = (stripZeros fuel d p).1 * 10 ^ j ∧
      (d ≠ 0 → (stripZeros fuel d p).1 ≠ 0) := by
  induction fuel generalizing d p with
  | zero => exact ⟨0, by simp [stripZeros]⟩
  | succ fuel ih =>
    unfold stripZeros
    split
    · rename_i h
      obtain ⟨j, h1, h2, h3⟩ := ih (d / 10) (p + 1)
      refine ⟨j + 1, ?_, ?_, ?_⟩
      · rw [h1]; omega
      · have : d = d / 10 * 10 := by omega
        rw (occs := [1]) [this]
        rw (occs := [1]) [h2]
        rw [Nat.pow_succ, Nat.mul_assoc]
      · intro _; exact h3 (by omega)
    · exact ⟨0, by simp⟩

theorem rd_stripZeros (s : Bool) (fuel d : Nat) (p : Int) :
    rd s (stripZeros fuel d p).1 (stripZeros fuel d p).2 = rd s d p := by
  induction fuel generalizing d p with
  | zero => simp [stripZeros]
  | succ fuel ih =>
    unfold stripZeros
    split
    · rename_i h
      rw [ih, ← rd_step]
      congr 1; omega
    · rfl


/-! ## Item 2c: text lemmas -/

/-! ### digit strings -/

theorem foldl_eq_ofDigitChars (ds : List Char) (init : Nat) :
    ds.foldl (fun acc c => acc * 10 + digitVal c) init = Nat.ofDigitChars 10 ds init := by
  induction ds generalizing init with
  | nil => rfl
  | cons c cs ih =>
    rw [List.foldl_cons, ih, Nat.ofDigitChars_cons, Nat.mul_comm]
    rfl

theorem digitsToNat_eq (ds : List Char) : digitsToNat ds = Nat.ofDigitChars 10 ds 0 :=
  foldl_eq_ofDigitChars ds 0

theorem digitsToNat_toDigits (n : Nat) : digitsToNat (Nat.toDigits 10 n) = n := by
  rw [digitsToNat_eq, Nat.ofDigitChars_ten_toDigits]

theorem digitsToNat_append_zeros (ds : List Char) (k : Nat) :
    digitsToNat (ds ++ List.replicate k '0') = digitsToNat ds * 10 ^ k := by
  rw [digitsToNat_eq, digitsToNat_eq, Nat.ofDigitChars_append, Nat.ofDigitChars_replicate_zero, Nat.mul_comm]

theorem digitsToNat_zeros_append (k : Nat) (ds : List Char) :
    digitsToNat (List.replicate k '0' ++ ds) = digitsToNat ds := by
  rw [digitsToNat_eq, digitsToNat_eq, Nat.ofDigitChars_append, Nat.ofDigitChars_replicate_zero, Nat.mul_zero]

theorem digitsToNat_zero_cons (ds : List Char) : digitsToNat ('0' :: ds) = digitsToNat ds :=
  digitsToNat_zeros_append 1 ds

/-- all characters are ASCII digits -/
def AllDigits (ds : List Char) : Prop := ∀ c ∈ ds, c.isDigit = true

theorem allDigits_toDigits (n : Nat) : AllDigits (Nat.toDigits 10 n) :=
  fun _ hc => Nat.isDigit_of_mem_toDigits (by decide) (by decide) hc

theorem allDigits_replicate_zero (k : Nat) : AllDigits (List.replicate k '0') := by
  intro c hc
  rw [List.mem_replicate] at hc
  rw [hc.2]; decide

theorem AllDigits.append {a b : List Char} (ha : AllDigits a) (hb : AllDigits b) : AllDigits (a ++ b) := by
  intro c hc
  rcases List.mem_append.mp hc with h | h
  · exact ha c h
  · exact hb c h

theorem AllDigits.take {a : List Char} (ha : AllDigits a) (n : Nat) : AllDigits (a.take n) :=
  fun c hc => ha c (List.mem_of_mem_take hc)

theorem AllDigits.drop {a : List Char} (ha : AllDigits a) (n : Nat) : AllDigits (a.drop n) :=
  fun c hc => ha c (List.mem_of_mem_drop hc)

/-- `rest` does not begin with a digit -/
def NoDigitHead : List Char → Prop
  | [] => True
  | c :: _ => c.isDigit = false

theorem takeDigits_append (ds rest : List Char) (hd : AllDigits ds) (hr : NoDigitHead rest) :
    takeDigits (ds ++ rest) = (ds, rest) := by
  induction ds with
  | nil =>
    cases rest with
    | nil => rfl
    | cons c cs =>
      simp only [NoDigitHead] at hr
      simp [takeDigits, hr]
  | cons c cs ih =>
    have hc : c.isDigit = true := hd c (List.mem_cons_self ..)
    have := ih (fun x hx => hd x (List.mem_cons_of_mem _ hx))
    simp [takeDigits, hc, this]

theorem takeDigits_all (ds : List Char) (hd : AllDigits ds) : takeDigits ds = (ds, []) := by
  simpa using takeDigits_append ds [] hd trivial

/-! ### the parser after the optional sign -/

/-- `parseDecimal` once the optional sign has been consumed -/
def parseAfterSign (neg : Bool) (s : List Char) : Option F64 :=
  let (ip, s) := takeDigits s
  let (fp, s) := match s with
    | '.' :: r => takeDigits r
    | r => ([], r)
  if ip.isEmpty && fp.isEmpty then none else
  let mant := digitsToNat (ip ++ fp)
  let nd := (ip ++ fp).length
  match s with
  | [] => some (ofDecimal neg mant nd (-(fp.length : Int)))
  | c :: r =>
    if c = 'e' ∨ c = 'E' then
      let (eneg, r) := match r with
        | '-' :: t => (true, t)
        | '+' :: t => (false, t)
        | t => (false, t)
      let (ed, rest) := takeDigits r
      if ed.isEmpty || !rest.isEmpty then none else
      let eabs := if ed.length > 8 then 100000000 else digitsToNat ed
      let ev : Int := if eneg then -(eabs : Int) else eabs
      some (ofDecimal neg mant nd (ev - (fp.length : Int)))
    else none

theorem parseDecimal_minus (r : List Char) : parseDecimal ('-' :: r) = parseAfterSign true r := rfl

theorem parseDecimal_digit (c : Char) (r : List Char) (hc : c.isDigit = true) :
    parseDecimal (c :: r) = parseAfterSign false (c :: r) := by
  have h1 : c ≠ '-' := by rintro rfl; revert hc; decide
  have h2 : c ≠ '+' := by rintro rfl; revert hc; decide
  unfold parseDecimal
  split
  rename_i x eneg r' heq
  have hm : (eneg, r') = (false, c :: r) := by
    rw [← heq]
    split
    · rename_i h; simp only [List.cons.injEq] at h; exact absurd h.1 h1
    · rename_i h; simp only [List.cons.injEq] at h; exact absurd h.1 h2
    · rfl
  simp only [Prod.mk.injEq] at hm
  obtain ⟨rfl, rfl⟩ := hm
  rfl

theorem parseAfterSign_int (neg : Bool) (ip : List Char) (hip : AllDigits ip) (hne : ip ≠ []) :
    parseAfterSign neg ip = some (ofDecimal neg (digitsToNat ip) ip.length 0) := by
  unfold parseAfterSign
  rw [takeDigits_all ip hip]
  cases ip with
  | nil => exact absurd rfl hne
  | cons c cs => simp

theorem parseAfterSign_frac (neg : Bool) (ip fp : List Char) (hip : AllDigits ip) (hfp : AllDigits fp)
    (hne : ip ≠ []) :
    parseAfterSign neg (ip ++ '.' :: fp) =
      some (ofDecimal neg (digitsToNat (ip ++ fp)) (ip ++ fp).length (-(fp.length : Int))) := by
  unfold parseAfterSign
  rw [takeDigits_append ip ('.' :: fp) hip (by simp [NoDigitHead])]
  simp only
  rw [takeDigits_all fp hfp]
  cases ip with
  | nil => exact absurd rfl hne
  | cons c cs => simp


/-! ### rendering -/

/-- the unsigned part of `render`, after `stripZeros` -/
def renderBody (digits : Nat) (p : Int) : List Char :=
  let ds := Nat.toDigits 10 digits
  if digits = 0 then ['0']
  else if 0 ≤ p then ds ++ List.replicate p.toNat '0'
  else
    let fr := (-p).toNat
    if ds.length > fr then ds.take (ds.length - fr) ++ ['.'] ++ ds.drop (ds.length - fr)
    else ['0', '.'] ++ List.replicate (fr - ds.length) '0' ++ ds

theorem render_eq (neg : Bool) (d : Nat) (p : Int) :
    render neg d p =
      if neg then '-' :: renderBody (stripZeros 400 d p).1 (stripZeros 400 d p).2
      else renderBody (stripZeros 400 d p).1 (stripZeros 400 d p).2 := rfl

theorem parseDecimal_signed (neg : Bool) (body : List Char) (c : Char) (r : List Char)
    (hb : body = c :: r) (hc : c.isDigit = true) :
    parseDecimal (if neg then '-' :: body else body) = parseAfterSign neg body := by
  cases neg
  · simp only [Bool.false_eq_true, if_false]; rw [hb]; exact parseDecimal_digit c r hc
  · simp only [if_true]; exact parseDecimal_minus body

theorem exists_cons_of_allDigits_ne_nil {l : List Char} (h : AllDigits l) (hne : l ≠ []) :
    ∃ c r, l = c :: r ∧ c.isDigit = true := by
  cases l with
  | nil => exact absurd rfl hne
  | cons c r => exact ⟨c, r, rfl, h c (List.mem_cons_self ..)⟩

/-- Case A: non-negative exponent, integer text `digits ++ zeros` -/
theorem parse_body_int (neg : Bool) (d : Nat) (p : Int) (hd : d ≠ 0) (hp : 0 ≤ p) :
    parseDecimal (if neg then '-' :: renderBody d p else renderBody d p) = some (rd neg d p) := by
  have hbody : renderBody d p = Nat.toDigits 10 d ++ List.replicate p.toNat '0' := by
    simp [renderBody, hd, hp]
  have hall : AllDigits (renderBody d p) := by
    rw [hbody]; exact (allDigits_toDigits d).append (allDigits_replicate_zero _)
  have hne : renderBody d p ≠ [] := by rw [hbody]; simp
  obtain ⟨c, r, hcr, hc⟩ := exists_cons_of_allDigits_ne_nil hall hne
  rw [parseDecimal_signed neg _ c r hcr hc, parseAfterSign_int neg _ hall hne, hbody,
    digitsToNat_append_zeros, digitsToNat_toDigits]
  have hm : d * 10 ^ p.toNat ≠ 0 := Nat.mul_ne_zero hd (Nat.ne_of_gt (Nat.pow_pos (by decide)))
  simp [ofDecimal, hm, rd, hp]


/-- Case B: negative exponent, the point falls inside the digit string -/
theorem parse_body_mid (neg : Bool) (d : Nat) (p : Int) (hd : d ≠ 0) (hp : p < 0)
    (hlen : (Nat.toDigits 10 d).length > (-p).toNat) :
    parseDecimal (if neg then '-' :: renderBody d p else renderBody d p) = some (rd neg d p) := by
  have hp' : ¬ 0 ≤ p := by omega
  have hbody : renderBody d p =
      (Nat.toDigits 10 d).take ((Nat.toDigits 10 d).length - (-p).toNat) ++
        '.' :: (Nat.toDigits 10 d).drop ((Nat.toDigits 10 d).length - (-p).toNat) := by
    simp [renderBody, hd, hp', hlen]
  have hip : AllDigits ((Nat.toDigits 10 d).take ((Nat.toDigits 10 d).length - (-p).toNat)) :=
    (allDigits_toDigits d).take _
  have hfp : AllDigits ((Nat.toDigits 10 d).drop ((Nat.toDigits 10 d).length - (-p).toNat)) :=
    (allDigits_toDigits d).drop _
  have hne : (Nat.toDigits 10 d).take ((Nat.toDigits 10 d).length - (-p).toNat) ≠ [] := by
    intro h
    have := congrArg List.length h
    rw [List.length_take] at this
    simp only [List.length_nil] at this
    omega
  obtain ⟨c, r, hcr, hc⟩ := exists_cons_of_allDigits_ne_nil hip hne
  have hcr' : renderBody d p = c :: (r ++ '.' :: (Nat.toDigits 10 d).drop ((Nat.toDigits 10 d).length - (-p).toNat)) := by
    rw [hbody, hcr]; rfl
  rw [parseDecimal_signed neg _ c _ hcr' hc, hbody, parseAfterSign_frac neg _ _ hip hfp hne,
    List.take_append_drop, digitsToNat_toDigits, List.length_drop]
  have e1 : (((Nat.toDigits 10 d).length - ((Nat.toDigits 10 d).length - (-p).toNat) : Nat) : Int) = -p := by
    omega
  rw [e1]
  have h1 : ¬ (- -p ≥ 0) := by omega
  have h2 : ¬ (((Nat.toDigits 10 d).length : Int) + - -p < -400) := by omega
  simp only [ofDecimal, hd, if_false, h1, h2, rd, hp']
  simp

/-- Case C: negative exponent, leading `0.` and padding zeros -/
theorem parse_body_small (neg : Bool) (d : Nat) (p : Int) (hd : d ≠ 0) (hp : p < 0)
    (hlen : ¬ (Nat.toDigits 10 d).length > (-p).toNat) :
    parseDecimal (if neg then '-' :: renderBody d p else renderBody d p) = some (rd neg d p) := by
  have hp' : ¬ 0 ≤ p := by omega
  have hbody : renderBody d p =
      ['0'] ++ '.' :: (List.replicate ((-p).toNat - (Nat.toDigits 10 d).length) '0' ++ Nat.toDigits 10 d) := by
    simp [renderBody, hd, hp', hlen]
  have hip : AllDigits ['0'] := allDigits_replicate_zero 1
  have hfp : AllDigits (List.replicate ((-p).toNat - (Nat.toDigits 10 d).length) '0' ++ Nat.toDigits 10 d) :=
    (allDigits_replicate_zero _).append (allDigits_toDigits d)
  rw [parseDecimal_signed neg _ '0' _ hbody (by decide), hbody,
    parseAfterSign_frac neg _ _ hip hfp (by simp)]
  have e0 : digitsToNat (['0'] ++ (List.replicate ((-p).toNat - (Nat.toDigits 10 d).length) '0' ++ Nat.toDigits 10 d)) = d := by
    rw [show ['0'] ++ (List.replicate ((-p).toNat - (Nat.toDigits 10 d).length) '0' ++ Nat.toDigits 10 d)
          = '0' :: (List.replicate ((-p).toNat - (Nat.toDigits 10 d).length) '0' ++ Nat.toDigits 10 d) from rfl,
      digitsToNat_zero_cons, digitsToNat_zeros_append, digitsToNat_toDigits]
  rw [e0]
  have e1 : (((List.replicate ((-p).toNat - (Nat.toDigits 10 d).length) '0' ++ Nat.toDigits 10 d).length : Nat) : Int) = -p := by
    rw [List.length_append, List.length_replicate]; omega
  rw [e1]
  have e2 : ((['0'] ++ (List.replicate ((-p).toNat - (Nat.toDigits 10 d).length) '0' ++ Nat.toDigits 10 d)).length : Nat) = 1 + (-p).toNat := by
    simp only [List.length_append, List.length_replicate, List.length_cons, List.length_nil]; omega
  rw [e2]
  have h1 : ¬ (- -p ≥ 0) := by omega
  have h2 : ¬ (((1 + (-p).toNat : Nat) : Int) + - -p < -400) := by omega
  simp only [ofDecimal, hd, if_false, h1, h2, rd, hp']
  simp

/-- Item 2 (body form): the rendered text of a non-zero `d × 10^p` parses to its rounding. No range
condition is needed: `render` never prints an exponent, so `ofDecimal` sees `exp10 = 0` or
`nd + exp10 ≥ 1`, and neither guard can fire. -/
theorem parse_renderBody (neg : Bool) (d : Nat) (p : Int) (hd : d ≠ 0) :
    parseDecimal (if neg then '-' :: renderBody d p else renderBody d p) = some (rd neg d p) := by
  by_cases hp : 0 ≤ p
  · exact parse_body_int neg d p hd hp
  · by_cases hlen : (Nat.toDigits 10 d).length > (-p).toNat
    · exact parse_body_mid neg d p hd (by omega) hlen
    · exact parse_body_small neg d p hd (by omega) hlen


/-! ## Items 2 and 3: rendering/parsing agreement and the round trip -/

/-- Item 2, exactly as stated: with `(d', p') = stripZeros 400 d p`, the rendered text parses to the
rounding of `d' × 10^p'`.  No side condition on `p` is needed. -/
theorem parse_render (neg : Bool) (d : Nat) (p : Int) (hd : d ≠ 0) :
    parseDecimal (render neg d p) =
      some (if 0 ≤ (stripZeros 400 d p).2
            then roundRat neg ((stripZeros 400 d p).1 * 10 ^ (stripZeros 400 d p).2.toNat) 1
            else roundRat neg (stripZeros 400 d p).1 (10 ^ (-(stripZeros 400 d p).2).toNat)) := by
  obtain ⟨j, _, _, h3⟩ := stripZeros_spec 400 d p
  rw [render_eq]
  exact parse_renderBody neg _ _ (h3 hd)

/-- Item 2, in terms of the original `(d, p)`. -/
theorem parse_render_rd (neg : Bool) (d : Nat) (p : Int) (hd : d ≠ 0) :
    parseDecimal (render neg d p) = some (rd neg d p) := by
  rw [parse_render neg d p hd]
  exact congrArg some (rd_stripZeros neg 400 d p)

theorem rd_sign (s s' : Bool) (d : Nat) (p : Int) : rd s d p = withSign s (rd s' d p) := by
  unfold rd
  split <;> exact roundRat_sign _ _ _ _

theorem roundTrips_rd {s : Bool} {m : Nat} {e : Int} {d : Nat} {p : Int}
    (h : roundTrips (fin s m e) d p = true) : rd s d p = fin s m e := by
  have hg : roundTrips (fin s m e) d p =
      (match (fin s m e).abs, rd false d p with
        | fin _ m e, fin _ m' e' => m == m' && e == e'
        | _, _ => false) := rfl
  rw [hg] at h
  rw [rd_sign s false]
  cases hr : rd false d p with
  | fin s' m' e' =>
    rw [hr] at h
    simp only [F64.abs, Bool.and_eq_true, beq_iff_eq] at h
    obtain ⟨rfl, rfl⟩ := h
    rfl
  | inf _ => rw [hr] at h; simp [F64.abs] at h
  | nan => rw [hr] at h; simp [F64.abs] at h

/-- MAIN (C01/C02): the shortest-decimal rendering of a non-zero finite double parses back to exactly
that double.  (`Canonical f` is not needed: it is implied by the success of the digit search.) -/
theorem display_parse {f : F64} {s : Bool} {m : Nat} {e : Int} {t : List Char}
    (hf : f = fin s m e) (hm : m ≠ 0) (h : toDisplay? f = some t) : parseDecimal t = some f := by
  subst hf
  have hd : toDisplay? (fin s m e) = (match shortestDigits (fin s m e) with
      | some (d, p) => some (render s d p)
      | none => none) := rfl
  rw [hd] at h
  split at h
  · rename_i d p hsd
    simp only [Option.some.injEq] at h
    subst h
    obtain ⟨hrt, hd⟩ := shortestDigits_sound hsd rfl hm
    rw [parse_render_rd s d p hd, roundTrips_rd hrt]
  · simp at h

/-- The statement in the form requested (with the redundant `Canonical` hypothesis). -/
theorem display_parse_canonical {f : F64} {s : Bool} {m : Nat} {e : Int} {t : List Char}
    (hf : f = fin s m e) (_hc : Canonical f) (hm : m ≠ 0) (h : toDisplay? f = some t) :
    parseDecimal t = some f := display_parse hf hm h

theorem toDisplay_zero (e : Int) : toDisplay? (fin false 0 e) = some "0".toList := rfl
theorem toDisplay_negZero (e : Int) : toDisplay? (fin true 0 e) = some "-0".toList := rfl
theorem parse_zero : parseDecimal "0".toList = some zero := by decide
theorem parse_negZero : parseDecimal "-0".toList = some negZero := by decide

/-- the hypotheses of `display_parse` are satisfiable: `0.1` -/
example : toDisplay? (fin false 7205759403792794 (-56)) = some "0.1".toList := by decide +kernel
example : parseDecimal "0.1".toList = some (fin false 7205759403792794 (-56)) :=
  display_parse (f := fin false 7205759403792794 (-56)) rfl (by decide) (by decide +kernel)

/-! ## Item 4: the shape of the printed text -/

/-- `digits` or `digits.digits`, at least one digit on each side of the point -/
def UnsignedShape (b : List Char) : Prop :=
  (AllDigits b ∧ b ≠ []) ∨
  ∃ ip fp, b = ip ++ '.' :: fp ∧ AllDigits ip ∧ ip ≠ [] ∧ AllDigits fp ∧ fp ≠ []

/-- `[-]digits` or `[-]digits.digits`: no exponent, no leading `+`, digits on both sides of the point -/
def DecimalShape (t : List Char) : Prop :=
  UnsignedShape t ∨ ∃ b, t = '-' :: b ∧ UnsignedShape b

/-- JSON's integer part: `0` alone, or no leading zero -/
def NoLeadingZero (ip : List Char) : Prop := ip = ['0'] ∨ ip.head? ≠ some '0'

/-- unsigned JSON number without exponent -/
def UnsignedJsonShape (b : List Char) : Prop :=
  (AllDigits b ∧ b ≠ [] ∧ NoLeadingZero b) ∨
  ∃ ip fp, b = ip ++ '.' :: fp ∧ AllDigits ip ∧ ip ≠ [] ∧ NoLeadingZero ip ∧ AllDigits fp ∧ fp ≠ []

/-- the JSON `number` grammar without exponent part: `-? (0 | [1-9][0-9]*) (. [0-9]+)?` -/
def JsonNumberShape (t : List Char) : Prop :=
  UnsignedJsonShape t ∨ ∃ b, t = '-' :: b ∧ UnsignedJsonShape b

theorem UnsignedJsonShape.toUnsigned {b : List Char} (h : UnsignedJsonShape b) : UnsignedShape b := by
  rcases h with ⟨h1, h2, _⟩ | ⟨ip, fp, h1, h2, h3, _, h5, h6⟩
  · exact Or.inl ⟨h1, h2⟩
  · exact Or.inr ⟨ip, fp, h1, h2, h3, h5, h6⟩

theorem JsonNumberShape.toDecimal {t : List Char} (h : JsonNumberShape t) : DecimalShape t := by
  rcases h with h | ⟨b, hb, h⟩
  · exact Or.inl h.toUnsigned
  · exact Or.inr ⟨b, hb, h.toUnsigned⟩

theorem digitChar_ne_zero {n : Nat} (h0 : n ≠ 0) (h : n < 10) : Nat.digitChar n ≠ '0' := by
  have : n = 1 ∨ n = 2 ∨ n = 3 ∨ n = 4 ∨ n = 5 ∨ n = 6 ∨ n = 7 ∨ n = 8 ∨ n = 9 := by omega
  rcases this with rfl | rfl | rfl | rfl | rfl | rfl | rfl | rfl | rfl <;> decide

theorem head_toDigits_ne_zero (n : Nat) (hn : n ≠ 0) : (Nat.toDigits 10 n).head? ≠ some '0' := by
  induction n using Nat.strongRecOn with
  | _ n ih =>
    by_cases h : n < 10
    · rw [Nat.toDigits_of_lt_base h]
      simp only [List.head?_cons, ne_eq, Option.some.injEq]
      exact digitChar_ne_zero hn h
    · rw [Nat.toDigits_of_base_le (by decide) (by omega)]
      have hne : Nat.toDigits 10 (n / 10) ≠ [] := Nat.toDigits_ne_nil
      have := ih (n / 10) (by omega) (by omega)
      obtain ⟨c, cs, hcs⟩ := List.exists_cons_of_ne_nil hne
      rw [hcs] at this ⊢
      simpa using this


theorem renderBody_shape (d : Nat) (p : Int) : UnsignedJsonShape (renderBody d p) := by
  by_cases hd : d = 0
  · refine Or.inl ?_
    have : renderBody d p = ['0'] := by simp [renderBody, hd]
    rw [this]
    exact ⟨allDigits_replicate_zero 1, by simp, Or.inl rfl⟩
  have hds := allDigits_toDigits d
  have hhead := head_toDigits_ne_zero d hd
  obtain ⟨c, cs, hcs⟩ := List.exists_cons_of_ne_nil (Nat.toDigits_ne_nil (b := 10) (n := d))
  by_cases hp : 0 ≤ p
  · refine Or.inl ?_
    have : renderBody d p = Nat.toDigits 10 d ++ List.replicate p.toNat '0' := by
      simp [renderBody, hd, hp]
    rw [this]
    refine ⟨hds.append (allDigits_replicate_zero _), by simp, Or.inr ?_⟩
    rw [hcs] at hhead ⊢
    simpa using hhead
  · refine Or.inr ?_
    by_cases hlen : (Nat.toDigits 10 d).length > (-p).toNat
    · have : renderBody d p =
          (Nat.toDigits 10 d).take ((Nat.toDigits 10 d).length - (-p).toNat) ++
            '.' :: (Nat.toDigits 10 d).drop ((Nat.toDigits 10 d).length - (-p).toNat) := by
        simp [renderBody, hd, hp, hlen]
      refine ⟨_, _, this, hds.take _, ?_, Or.inr ?_, hds.drop _, ?_⟩
      · intro h
        have := congrArg List.length h
        rw [List.length_take] at this
        simp only [List.length_nil] at this
        omega
      · rw [List.head?_take]
        have : (Nat.toDigits 10 d).length - (-p).toNat ≠ 0 := by omega
        rw [if_neg this]
        exact hhead
      · intro h
        have := congrArg List.length h
        rw [List.length_drop] at this
        simp only [List.length_nil] at this
        omega
    · have : renderBody d p =
          ['0'] ++ '.' :: (List.replicate ((-p).toNat - (Nat.toDigits 10 d).length) '0' ++ Nat.toDigits 10 d) := by
        simp [renderBody, hd, hp, hlen]
      refine ⟨_, _, this, allDigits_replicate_zero 1, by simp, Or.inl rfl,
        (allDigits_replicate_zero _).append hds, by simp⟩

/-- Item 4: `render` always produces a JSON number without exponent. -/
theorem render_jsonShape (neg : Bool) (d : Nat) (p : Int) : JsonNumberShape (render neg d p) := by
  rw [render_eq]
  cases neg
  · exact Or.inl (renderBody_shape _ _)
  · exact Or.inr ⟨_, rfl, renderBody_shape _ _⟩

theorem render_shape (neg : Bool) (d : Nat) (p : Int) : DecimalShape (render neg d p) :=
  (render_jsonShape neg d p).toDecimal

theorem toDisplay_jsonShape {s : Bool} {m : Nat} {e : Int} {t : List Char}
    (h : toDisplay? (fin s m e) = some t) : JsonNumberShape t := by
  have hd : toDisplay? (fin s m e) = (match shortestDigits (fin s m e) with
      | some (d, p) => some (render s d p)
      | none => none) := rfl
  rw [hd] at h
  split at h
  · simp only [Option.some.injEq] at h
    subst h
    exact render_jsonShape _ _ _
  · simp at h

/-- Item 4: the display text of every finite double is `[-]digits[.digits]`. -/
theorem toDisplay_shape {s : Bool} {m : Nat} {e : Int} {t : List Char}
    (h : toDisplay? (fin s m e) = some t) : DecimalShape t :=
  (toDisplay_jsonShape h).toDecimal

/-- every text of `DecimalShape` is accepted by `parseDecimal` -/
theorem DecimalShape.parse_isSome {t : List Char} (h : DecimalShape t) : (parseDecimal t).isSome = true := by
  have key : ∀ (neg : Bool) (b : List Char), UnsignedShape b →
      (parseDecimal (if neg then '-' :: b else b)).isSome = true := by
    intro neg b hb
    rcases hb with ⟨h1, h2⟩ | ⟨ip, fp, rfl, h2, h3, h4, _⟩
    · obtain ⟨c, r, hcr, hc⟩ := exists_cons_of_allDigits_ne_nil h1 h2
      rw [parseDecimal_signed neg _ c r hcr hc, parseAfterSign_int neg _ h1 h2]; rfl
    · obtain ⟨c, r, hcr, hc⟩ := exists_cons_of_allDigits_ne_nil h2 h3
      have hcr' : ip ++ '.' :: fp = c :: (r ++ '.' :: fp) := by rw [hcr]; rfl
      rw [parseDecimal_signed neg _ c _ hcr' hc, parseAfterSign_frac neg _ _ h2 h4 h3]; rfl
  rcases h with h | ⟨b, rfl, h⟩
  · exact key false t h
  · exact key true b h


/-! ## Item 5: facts about `roundRat` -/

/-- `Q` is antitone in the exponent -/
theorem Q_anti (num den : Nat) {e e' : Int} (h : e ≤ e') : Q num den e' ≤ Q num den e := by
  have hj : e' = e + ((e' - e).toNat : Int) := by omega
  rw [hj, Q_add]
  exact Nat.div_le_self _ _

/-- one step up in the exponent at least halves `Q` -/
theorem Q_lt_of_lt (num den : Nat) {e e' : Int} (h : e < e') {B : Nat} (hB : Q num den e < 2 * B) :
    Q num den e' < B := by
  have hj : e' = e + ((e' - e).toNat : Int) := by omega
  rw [hj, Q_add]
  have h2j : 2 ^ 1 ≤ 2 ^ (e' - e).toNat := Nat.pow_le_pow_right (by decide) (by omega)
  have : Q num den e / 2 ^ (e' - e).toNat ≤ Q num den e / 2 ^ 1 := Nat.div_le_div_left h2j (by decide)
  omega

/-- what `roundRat` knows about the scaled quotient at the (clamped) working exponent -/
theorem clamp_facts {num den : Nat} (hn : num ≠ 0) (hd : den ≠ 0) :
    -1074 ≤ clampE (e2Of num den) ∧
    Q num den (clampE (e2Of num den)) < 2 ^ 53 ∧
    (Q num den (clampE (e2Of num den)) < 2 ^ 52 → clampE (e2Of num den) = -1074) ∧
    (-1074 < clampE (e2Of num den) → clampE (e2Of num den) = e2Of num den) := by
  obtain ⟨h1, h2⟩ := e2Of_spec hn hd
  unfold clampE
  split
  · rename_i hlt
    refine ⟨by omega, ?_, fun _ => rfl, fun h => by omega⟩
    have := Q_lt_of_lt num den hlt (B := 2 ^ 52) (by omega)
    omega
  · refine ⟨by omega, h2, fun h => by omega, fun _ => rfl⟩

theorem finish_canonical (s : Bool) (e : Int) (q r d : Nat) (he : -1074 ≤ e) (hq : q < 2 ^ 53)
    (hsub : q < 2 ^ 52 → e = -1074) : Canonical (finish s e (q, r, d)) := by
  unfold finish
  simp only
  generalize (decide (2 * r > d) || (decide (2 * r = d) && q % 2 == 1)) = up
  by_cases h53 : (if up = true then q + 1 else q) = 2 ^ 53
  · rw [if_pos h53]
    simp only
    split
    · trivial
    · refine ⟨by decide, by omega, by omega, fun h => absurd h (by decide)⟩
  · rw [if_neg h53]
    simp only
    split
    · trivial
    · refine ⟨?_, he, by omega, ?_⟩
      · cases up <;> simp only [if_true, Bool.false_eq_true, if_false] at h53 ⊢ <;> omega
      · intro h
        apply hsub
        cases up <;> simp only [if_true, Bool.false_eq_true, if_false] at h ⊢ <;> omega

/-- Item 5a: every result of `roundRat` is in canonical form (infinity counts as canonical). -/
theorem roundRat_canonical (s : Bool) (num den : Nat) : Canonical (roundRat s num den) := by
  rw [roundRat_eq]
  split
  · exact ⟨by decide, by decide, by decide, fun _ => rfl⟩
  · rename_i hz
    have hn : num ≠ 0 := fun h => hz (Or.inl h)
    have hd : den ≠ 0 := fun h => hz (Or.inr h)
    obtain ⟨h1, h2, h3, _⟩ := clamp_facts hn hd
    have : scaleDiv num den (clampE (e2Of num den)) =
        (Q num den (clampE (e2Of num den)), (scaleDiv num den (clampE (e2Of num den))).2.1,
          (scaleDiv num den (clampE (e2Of num den))).2.2) := rfl
    rw [this]
    exact finish_canonical s _ _ _ _ h1 h2 h3


/-! ### 5b: exactness -/

theorem scaleDiv_toRat (s : Bool) (m : Nat) (e : Int) :
    ∃ D, 0 < D ∧ scaleDiv (toRat (fin s m e)).1 (toRat (fin s m e)).2 e = (m, 0, D) := by
  by_cases h : 0 ≤ e
  · refine ⟨1 * 2 ^ e.toNat, Nat.mul_pos (by decide) (Nat.pow_pos (by decide)), ?_⟩
    simp only [toRat, scaleDiv, h, if_true, Nat.one_mul]
    rw [Nat.mul_div_cancel _ (Nat.pow_pos (by decide)), Nat.mul_mod_left]
  · refine ⟨2 ^ (-e).toNat, Nat.pow_pos (by decide), ?_⟩
    simp only [toRat, scaleDiv, h, if_false]
    rw [Nat.mul_div_cancel _ (Nat.pow_pos (by decide)), Nat.mul_mod_left]

theorem toRat_ne_zero (s : Bool) {m : Nat} (e : Int) (hm : m ≠ 0) :
    (toRat (fin s m e)).1 ≠ 0 ∧ (toRat (fin s m e)).2 ≠ 0 := by
  have hp : ∀ t : Nat, 2 ^ t ≠ 0 := fun t => Nat.ne_of_gt (Nat.pow_pos (by decide))
  by_cases h : 0 ≤ e
  · simp only [toRat, h, if_true]
    exact ⟨Nat.mul_ne_zero hm (hp _), by decide⟩
  · simp only [toRat, h, if_false]
    exact ⟨hm, hp _⟩

theorem finish_exact (s : Bool) (e : Int) (m D : Nat) (hD : 0 < D) (hm : m < 2 ^ 53) (he : e ≤ 971) :
    finish s e (m, 0, D) = fin s m e := by
  unfold finish
  have h1 : ¬ (2 * 0 > D) := by omega
  have h2 : ¬ (2 * 0 = D) := by omega
  have h3 : ¬ (m = 2 ^ 53) := by omega
  have h4 : ¬ (e > 971) := by omega
  simp [h1, h2, h3, h4]

/-- Item 5b (general form): rounding the exact value of a canonical non-zero double returns that double. -/
theorem roundRat_toRat {s : Bool} {m : Nat} {e : Int} (hc : Canonical (fin s m e)) (hm : m ≠ 0) :
    roundRat s (toRat (fin s m e)).1 (toRat (fin s m e)).2 = fin s m e := by
  obtain ⟨hm53, he1, he2, hsub⟩ := hc
  obtain ⟨hn, hd⟩ := toRat_ne_zero s e hm
  obtain ⟨D, hD, hsd⟩ := scaleDiv_toRat s m e
  have hQ : Q (toRat (fin s m e)).1 (toRat (fin s m e)).2 e = m := by
    unfold Q; rw [hsd]
  obtain ⟨h1, h2⟩ := e2Of_spec hn hd
  have hclamp : clampE (e2Of (toRat (fin s m e)).1 (toRat (fin s m e)).2) = e := by
    by_cases hnorm : 2 ^ 52 ≤ m
    · have : e2Of (toRat (fin s m e)).1 (toRat (fin s m e)).2 = e :=
        Q_unique h1 h2 (by rw [hQ]; exact hnorm) (by rw [hQ]; exact hm53)
      rw [this]; unfold clampE; rw [if_neg (by omega)]
    · have he : e = -1074 := hsub (by omega)
      subst he
      have hlt : e2Of (toRat (fin s m (-1074))).1 (toRat (fin s m (-1074))).2 < -1074 := by
        apply Int.lt_of_not_ge
        intro hge
        have := Q_anti (toRat (fin s m (-1074))).1 (toRat (fin s m (-1074))).2 hge
        omega
      unfold clampE; rw [if_pos hlt]
  rw [roundRat_eq, if_neg (by intro h; rcases h with h | h <;> contradiction), hclamp, hsd]
  exact finish_exact s e m D hD hm53 he2

/-- the normalised double with value `n`, for `0 < n < 2^53` -/
theorem roundRat_nat_exact (s : Bool) {n : Nat} (h0 : n ≠ 0) (h : n < 2 ^ 53) :
    roundRat s n 1 = fin s (n * 2 ^ (52 - n.log2)) ((n.log2 : Int) - 52) := by
  obtain ⟨hlo, hhi⟩ := log2_bounds h0
  have hlog : n.log2 < 53 := (Nat.log2_lt h0).mpr h
  have hk : n.log2 + (52 - n.log2) = 52 := by omega
  have hmlo : 2 ^ 52 ≤ n * 2 ^ (52 - n.log2) := by
    have : 2 ^ 52 = 2 ^ n.log2 * 2 ^ (52 - n.log2) := by rw [← Nat.pow_add, hk]
    rw [this]; exact Nat.mul_le_mul_right _ hlo
  have hmhi : n * 2 ^ (52 - n.log2) < 2 ^ 53 := by
    have : n * 2 ^ (52 - n.log2) < 2 ^ (n.log2 + 1) * 2 ^ (52 - n.log2) :=
      Nat.mul_lt_mul_of_pos_right hhi (Nat.pow_pos (by decide))
    rw [← Nat.pow_add] at this
    rwa [show n.log2 + 1 + (52 - n.log2) = 53 by omega] at this
  have hc : Canonical (fin s (n * 2 ^ (52 - n.log2)) ((n.log2 : Int) - 52)) :=
    ⟨hmhi, by omega, by omega, fun h => by omega⟩
  have := roundRat_toRat hc (by omega)
  by_cases he : 0 ≤ (n.log2 : Int) - 52
  · have h52 : n.log2 = 52 := by omega
    simp only [toRat, he, if_true] at this
    rw [← this, h52]; simp
  · simp only [toRat, he, if_false] at this
    rw [← this]
    have e1 : (-((n.log2 : Int) - 52)).toNat = 52 - n.log2 := by omega
    rw [e1]
    have := roundRat_scale s n 1 (2 ^ (52 - n.log2)) (Nat.pow_pos (by decide))
    rw [Nat.one_mul] at this
    exact this.symm

/-- Item 5b: `roundRat s n 1` is exact for `n < 2^53`: the result is finite and its value `m · 2^e` is `n`. -/
theorem roundRat_nat_value (s : Bool) {n : Nat} (h0 : n ≠ 0) (h : n < 2 ^ 53) :
    ∃ m k : Nat, roundRat s n 1 = fin s m (-(k : Int)) ∧ m = n * 2 ^ k ∧ Canonical (fin s m (-(k : Int))) := by
  refine ⟨n * 2 ^ (52 - n.log2), 52 - n.log2, ?_, rfl, ?_⟩
  · have hlog : n.log2 < 53 := (Nat.log2_lt h0).mpr h
    rw [roundRat_nat_exact s h0 h]; congr 1; omega
  · have hlog : n.log2 < 53 := (Nat.log2_lt h0).mpr h
    have := roundRat_canonical s n 1
    rw [roundRat_nat_exact s h0 h] at this
    rwa [show ((n.log2 : Int) - 52) = -((52 - n.log2 : Nat) : Int) by omega] at this


/-! ### 5c: monotonicity -/

/-- the rounded significand -/
def roundUp (q r d : Nat) : Nat :=
  if (decide (2 * r > d) || (decide (2 * r = d) && q % 2 == 1)) = true then q + 1 else q

/-- position of `(e, q')` on the (unbounded) binary64 lattice, counted in units of the bit pattern -/
def key (e : Int) (q' : Nat) : Nat := (e + 1074).toNat * 2 ^ 52 + q'

theorem roundUp_bounds (q r d : Nat) : q ≤ roundUp q r d ∧ roundUp q r d ≤ q + 1 := by
  unfold roundUp; split <;> omega

theorem finish_bits (e : Int) (q r d : Nat) (he : -1074 ≤ e) (hq : q < 2 ^ 53)
    (hsub : q < 2 ^ 52 → e = -1074) :
    toBits (finish false e (q, r, d)) = min (2047 * 2 ^ 52) (key e (roundUp q r d)) := by
  obtain ⟨hb1, hb2⟩ := roundUp_bounds q r d
  have hf : finish false e (q, r, d) =
      if (if roundUp q r d = 2 ^ 53 then ((2 ^ 52 : Nat), e + 1) else (roundUp q r d, e)).2 > 971 then inf false
      else fin false (if roundUp q r d = 2 ^ 53 then ((2 ^ 52 : Nat), e + 1) else (roundUp q r d, e)).1
        (if roundUp q r d = 2 ^ 53 then ((2 ^ 52 : Nat), e + 1) else (roundUp q r d, e)).2 := rfl
  rw [hf]
  generalize roundUp q r d = q' at hb1 hb2 ⊢
  unfold key
  by_cases h53 : q' = 2 ^ 53
  · rw [if_pos h53]
    simp only
    split
    · simp only [toBits, Bool.false_eq_true, if_false]; omega
    · simp only [toBits, Bool.false_eq_true, if_false]
      rw [if_neg (by decide)]
      omega
  · rw [if_neg h53]
    simp only
    split
    · simp only [toBits, Bool.false_eq_true, if_false]; omega
    · simp only [toBits, Bool.false_eq_true, if_false]
      split <;> omega


theorem Q_mono_num {n n' : Nat} (h : n ≤ n') (d : Nat) (e : Int) : Q n d e ≤ Q n' d e := by
  by_cases he : 0 ≤ e
  · rw [Q_nonneg he, Q_nonneg he]; exact Nat.div_le_div_right h
  · rw [Q_neg (by omega), Q_neg (by omega)]
    exact Nat.div_le_div_right (Nat.mul_le_mul_right _ h)

theorem e2Of_mono {n n' d : Nat} (hn : n ≠ 0) (hd : d ≠ 0) (h : n ≤ n') : e2Of n d ≤ e2Of n' d := by
  have hn' : n' ≠ 0 := by omega
  obtain ⟨h1, _⟩ := e2Of_spec hn hd
  obtain ⟨_, h2'⟩ := e2Of_spec hn' hd
  apply Int.le_of_not_gt
  intro hlt
  have := Q_lt_of_lt n' d hlt (B := 2 ^ 52) (by omega)
  have := Q_mono_num h d (e2Of n d)
  omega

theorem clampE_mono {a b : Int} (h : a ≤ b) : clampE a ≤ clampE b := by
  unfold clampE; split <;> split <;> omega

/-- division with remainder, as performed by `scaleDiv` -/
theorem scaleDiv_spec (n d : Nat) (e : Int) (hd : d ≠ 0) :
    ∃ N D, 0 < D ∧ (scaleDiv n d e).2.2 = D ∧ N = (scaleDiv n d e).1 * D + (scaleDiv n d e).2.1 ∧
      (scaleDiv n d e).2.1 < D ∧
      N = (if 0 ≤ e then n else n * 2 ^ (-e).toNat) ∧ D = (if 0 ≤ e then d * 2 ^ e.toNat else d) := by
  by_cases he : 0 ≤ e
  · have hD : 0 < d * 2 ^ e.toNat := Nat.mul_pos (by omega) (Nat.pow_pos (by decide))
    refine ⟨n, d * 2 ^ e.toNat, hD, ?_, ?_, ?_, by simp [he], by simp [he]⟩
    · simp [scaleDiv, he]
    · simp only [scaleDiv, he, if_true]
      exact (Nat.div_add_mod' _ _).symm
    · simp only [scaleDiv, he, if_true]; exact Nat.mod_lt _ hD
  · refine ⟨n * 2 ^ (-e).toNat, d, by omega, ?_, ?_, ?_, by simp [he], by simp [he]⟩
    · simp [scaleDiv, he]
    · simp only [scaleDiv, he, if_false]
      exact (Nat.div_add_mod' _ _).symm
    · simp only [scaleDiv, he, if_false]; exact Nat.mod_lt _ (by omega)

theorem roundUp_mono {q r q' r' D : Nat} (hr' : r' < D)
    (h : q * D + r ≤ q' * D + r') : roundUp q r D ≤ roundUp q' r' D := by
  have hqq : q ≤ q' := by
    apply Nat.le_of_not_gt
    intro hgt
    have : (q' + 1) * D ≤ q * D := Nat.mul_le_mul_right _ hgt
    rw [Nat.add_mul] at this
    omega
  obtain ⟨a1, a2⟩ := roundUp_bounds q r D
  obtain ⟨b1, b2⟩ := roundUp_bounds q' r' D
  by_cases heq : q = q'
  · subst heq
    have hrr : r ≤ r' := by omega
    unfold roundUp
    by_cases hup : (decide (2 * r > D) || (decide (2 * r = D) && q % 2 == 1)) = true
    · have hup' : (decide (2 * r' > D) || (decide (2 * r' = D) && q % 2 == 1)) = true := by
        simp only [Bool.or_eq_true, Bool.and_eq_true, decide_eq_true_eq, beq_iff_eq] at hup ⊢
        omega
      rw [if_pos hup, if_pos hup']; omega
    · rw [if_neg hup]; split <;> omega
  · omega

/-- the lattice position of the rounding of `n/d` (before saturation to infinity) -/
def rkey (n d : Nat) : Nat :=
  key (clampE (e2Of n d))
    (roundUp (scaleDiv n d (clampE (e2Of n d))).1 (scaleDiv n d (clampE (e2Of n d))).2.1
      (scaleDiv n d (clampE (e2Of n d))).2.2)

theorem roundRat_bits {n d : Nat} (hn : n ≠ 0) (hd : d ≠ 0) :
    toBits (roundRat false n d) = min (2047 * 2 ^ 52) (rkey n d) := by
  obtain ⟨h1, h2, h3, _⟩ := clamp_facts hn hd
  rw [roundRat_eq, if_neg (by intro h; rcases h with h | h <;> contradiction)]
  exact finish_bits _ _ _ _ h1 h2 h3

theorem rkey_mono {n n' d : Nat} (hn : n ≠ 0) (hd : d ≠ 0) (h : n ≤ n') : rkey n d ≤ rkey n' d := by
  have hn' : n' ≠ 0 := by omega
  obtain ⟨c1, c2, c3, c4⟩ := clamp_facts hn hd
  obtain ⟨c1', c2', c3', c4'⟩ := clamp_facts hn' hd
  have hee := clampE_mono (e2Of_mono hn hd h)
  unfold rkey
  by_cases heq : clampE (e2Of n d) = clampE (e2Of n' d)
  · rw [← heq]
    obtain ⟨N, D, hD, e3, e4, e5, e6, e7⟩ := scaleDiv_spec n d (clampE (e2Of n d)) hd
    obtain ⟨N', D', hD', e3', e4', e5', e6', e7'⟩ := scaleDiv_spec n' d (clampE (e2Of n d)) hd
    have hDD : D = D' := by rw [e7, e7']
    subst hDD
    have hNN : N ≤ N' := by
      rw [e6, e6']; split
      · exact h
      · exact Nat.mul_le_mul_right _ h
    have hle : (scaleDiv n d (clampE (e2Of n d))).1 * D + (scaleDiv n d (clampE (e2Of n d))).2.1 ≤
        (scaleDiv n' d (clampE (e2Of n d))).1 * D + (scaleDiv n' d (clampE (e2Of n d))).2.1 := by
      rw [← e4, ← e4']; exact hNN
    rw [e3, e3']
    unfold key
    have := roundUp_mono e5' hle
    omega
  · have hlt : clampE (e2Of n d) < clampE (e2Of n' d) := by omega
    have hunc := c4' (by omega)
    obtain ⟨s1, _⟩ := e2Of_spec hn' hd
    rw [← hunc] at s1
    have a := roundUp_bounds (scaleDiv n d (clampE (e2Of n d))).1 (scaleDiv n d (clampE (e2Of n d))).2.1
      (scaleDiv n d (clampE (e2Of n d))).2.2
    have b := roundUp_bounds (scaleDiv n' d (clampE (e2Of n' d))).1 (scaleDiv n' d (clampE (e2Of n' d))).2.1
      (scaleDiv n' d (clampE (e2Of n' d))).2.2
    unfold Q at c2 s1
    unfold key
    have : (clampE (e2Of n d) + 1074).toNat + 1 ≤ (clampE (e2Of n' d) + 1074).toNat := by omega
    have := Nat.mul_le_mul_right (2 ^ 52) this
    omega

/-- Item 5c: `roundRat` is monotone in the numerator (bit patterns of non-negative doubles are ordered like
their values, with `+inf` on top). -/
theorem roundRat_mono_num {n n' d : Nat} (hd : d ≠ 0) (h : n ≤ n') :
    toBits (roundRat false n d) ≤ toBits (roundRat false n' d) := by
  by_cases hn : n = 0
  · subst hn
    have : roundRat false 0 d = fin false 0 (-1074) := by simp [roundRat]
    rw [this]; simp [toBits]
  · have hn' : n' ≠ 0 := by omega
    rw [roundRat_bits hn hd, roundRat_bits hn' hd]
    have := rkey_mono hn hd h
    omega

/-- Item 5c, general form: `n/d ≤ n'/d'` implies `round (n/d) ≤ round (n'/d')`. -/
theorem roundRat_mono {n d n' d' : Nat} (hd : d ≠ 0) (hd' : d' ≠ 0) (h : n * d' ≤ n' * d) :
    toBits (roundRat false n d) ≤ toBits (roundRat false n' d') := by
  have e1 := roundRat_scale false n d d' (by omega)
  have e2 := roundRat_scale false n' d' d (by omega)
  rw [← e1, ← e2, Nat.mul_comm d' d]
  exact roundRat_mono_num (Nat.mul_ne_zero hd hd') h


theorem toBits_roundRat_lt (n d : Nat) : toBits (roundRat false n d) < 2 ^ 63 := by
  by_cases hz : n = 0 ∨ d = 0
  · have : roundRat false n d = fin false 0 (-1074) := by simp [roundRat, hz]
    rw [this]; simp [toBits]
  · rw [roundRat_bits (fun h => hz (Or.inl h)) (fun h => hz (Or.inr h))]
    omega

/-- Item 5c in terms of `f64::total_cmp` (jawk's number order). -/
theorem roundRat_mono_totalCmp {n d n' d' : Nat} (hd : d ≠ 0) (hd' : d' ≠ 0) (h : n * d' ≤ n' * d) :
    totalCmp (roundRat false n d) (roundRat false n' d') ≠ .gt := by
  have h1 := toBits_roundRat_lt n d
  have h2 := toBits_roundRat_lt n' d'
  have h3 := roundRat_mono hd hd' h
  unfold totalCmp totalKey
  simp only
  rw [if_neg (by omega), if_neg (by omega)]
  intro hgt
  rw [Int.compare_eq_gt] at hgt
  omega

/-! ## Non-vacuity examples -/

example : shortestDigits (fin false 7205759403792794 (-56)) = some (1, -1) := by decide +kernel
example : roundTrips (fin false 7205759403792794 (-56)) 1 (-1) = true :=
  shortestDigits_roundTrips (f := fin false 7205759403792794 (-56)) (by decide +kernel) rfl (by decide)
example : parseDecimal (render true 1500 (-3)) = some (rd true 1500 (-3)) := parse_render_rd true 1500 (-3) (by decide)
example : render true 1500 (-3) = "-1.5".toList := by decide +kernel
example : JsonNumberShape "-1.5".toList := by
  have := render_jsonShape true 1500 (-3)
  rwa [show render true 1500 (-3) = "-1.5".toList by decide +kernel] at this
example : roundRat false (toRat (fin false (2 ^ 52) (-52))).1 (toRat (fin false (2 ^ 52) (-52))).2 =
    fin false (2 ^ 52) (-52) := roundRat_toRat (by decide) (by decide)
example : roundRat true 3 1 = fin true (3 * 2 ^ 51) (-51) := roundRat_nat_exact true (by decide) (by decide)
example : toBits (roundRat false 1 3) ≤ toBits (roundRat false 1 2) := roundRat_mono (by decide) (by decide) (by decide)

end Jawk.F64RT

-- #print axioms Jawk.F64RT.shortestDigits_roundTrips
-- #print axioms Jawk.F64RT.display_parse
-- #print axioms Jawk.F64RT.parse_render
-- #print axioms Jawk.F64RT.roundRat_scale
-- #print axioms Jawk.F64RT.toDisplay_jsonShape
-- #print axioms Jawk.F64RT.DecimalShape.parse_isSome
-- #print axioms Jawk.F64RT.roundRat_canonical
-- #print axioms Jawk.F64RT.roundRat_toRat
-- #print axioms Jawk.F64RT.roundRat_nat_exact
-- #print axioms Jawk.F64RT.roundRat_mono
-- #print axioms Jawk.F64RT.roundRat_mono_totalCmp
