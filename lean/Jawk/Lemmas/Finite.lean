/-
  Property C02 (computed values): expressions never produce a number that JSON cannot spell.

  JSON has no spelling for `NaN` / `inf` / `-inf`.  Values read from the input are finite (the parser rejects
  numbers that overflow); this file is about COMPUTED values: for every expression, every function of the
  evaluator, every depth, a finite context gives a finite result.

  Statements
  * `eval_finite`          MAIN, with one added hypothesis `hrep` (below)
  * `evalRep_finite`       the same for the 64-bit evaluator `evalRep`, no added hypothesis
  * `eval_finite_partial`  no added hypothesis, for expressions without `% abs ceil floor round parse_selection`
  * `eval_finite_false`    the statement without `hrep` is FALSE in the model (counter-example, proved)
  * `selected_rows_finite`, `withResult_finite`, `build_finite`   the selection stage and the row it builds
  * `jnumFinite_finite`, `ofF64_finite`, `nextJson_finite`, `parser_fin`   helper facts
  * `callFn_fin` / `evalNode_fin`   the generic induction step (every function body), parametric in what is
      known about evaluated sub-expressions (`S`) and in the set of allowed function names (`allow`)

  Why `hrep`.  Arithmetic goes through `jnumFinite` (`from_finite`): `+ * - / sum` return nothing instead of a
  non-finite double whatever their arguments are.  Five functions return `jnum` (`From<f64>`) unguarded:
  `% abs ceil floor round`.  They are finite on finite binary64 arguments (`rem_finite`, `abs_finite`, …), but
  the model is more generous than Rust in two places: `.pos n` is an unbounded `Nat` (`size` of a list with
  `2^1024` elements is `.pos (2^1024)`, whose `f64` is `inf`), and `F64.fin` allows mantissas/exponents outside
  binary64.  `evalRep` is `eval` with one check added after every evaluation: a returned number has to be a
  Rust `NumberValue` (`Num.WF`: `u64`, `i64`, canonical binary64); otherwise it stops with `.overflow`.
  `evalRep_le` / `evalRep_eq`: the two evaluators agree unless that check fails.  `hrep` says it did not fail.
  No list that long fits a machine, so this is a gap of the model, not a finding about jawk.
-/
import Jawk.Model.Eval
import Jawk.Lemmas.F64RoundTrip
import Jawk.Lemmas.FloatBridge
import Jawk.Lemmas.Fixpoint
import Jawk.Lemmas.Subst
import Jawk.Lemmas.NoPanic
namespace Jawk.Finite
open Jawk Jawk.F64 Jawk.F64RT

/-! ## `f64` facts: which operations keep a double finite -/

theorem isFinite_withSign (s : Bool) (f : F64) : (withSign s f).isFinite = f.isFinite := by
  cases f <;> rfl

/-- finiteness of a rounding does not depend on the sign -/
theorem roundRat_isFinite_sign (s s' : Bool) (n d : Nat) :
    (roundRat s n d).isFinite = (roundRat s' n d).isFinite := by
  rw [roundRat_sign s s', isFinite_withSign]

theorem ite_ne_nan (c : Prop) [Decidable c] {a b : F64} (ha : a ≠ nan) (hb : b ≠ nan) :
    (if c then a else b) ≠ nan := by
  split <;> assumption

theorem finish_ne_nan (s : Bool) (e : Int) (x : Nat × Nat × Nat) : finish s e x ≠ nan := by
  rw [show x = (x.1, x.2.1, x.2.2) from rfl, Ser.finish_roundUp]
  exact ite_ne_nan _ (fun h => by cases h) (fun h => by cases h)

theorem roundRat_ne_nan (s : Bool) (n d : Nat) : roundRat s n d ≠ nan := by
  rw [roundRat_eq]
  split
  · intro h; cases h
  · exact finish_ne_nan _ _ _

theorem toBits_canonical_lt {m : Nat} {e : Int} (hc : Canonical (fin false m e)) :
    toBits (fin false m e) < 2047 * 2 ^ 52 := by
  obtain ⟨h1, h2, h3, h4⟩ := hc
  simp only [toBits, Bool.false_eq_true, if_false, Nat.zero_add]
  split
  · omega
  · have : (e + 1075).toNat ≤ 2046 := by omega
    have := Nat.mul_le_mul_right (2 ^ 52) this
    omega

/-- a rational not above a (canonical, non-zero) double rounds to a finite double -/
theorem roundRat_finite_of_le (s : Bool) {n d m : Nat} {e : Int} (hc : Canonical (fin false m e)) (hm : m ≠ 0)
    (hd : d ≠ 0) (h : n * (toRat (fin false m e)).2 ≤ (toRat (fin false m e)).1 * d) :
    (roundRat s n d).isFinite = true := by
  rw [roundRat_isFinite_sign s false]
  have hd' := (toRat_ne_zero false e hm).2
  have h1 := roundRat_mono hd hd' h
  rw [roundRat_toRat hc hm] at h1
  have h2 := toBits_canonical_lt hc
  cases hr : roundRat false n d with
  | fin s' m' e' => rfl
  | nan => exact absurd hr (roundRat_ne_nan _ _ _)
  | inf s' =>
    rw [hr] at h1
    have hs : roundRat false n d = withSign false (roundRat false n d) := roundRat_sign false false n d
    rw [hr] at hs
    simp only [withSign] at hs
    cases hs
    have : toBits (inf false) = 2047 * 2 ^ 52 := by decide
    omega

/-- the largest finite double -/
def maxNat : Nat := (2 ^ 53 - 1) * 2 ^ 971

theorem maxF_canonical : Canonical (fin false (2 ^ 53 - 1) 971) := by decide
theorem maxF_toRat : toRat (fin false (2 ^ 53 - 1) 971) = (maxNat, 1) := by decide +kernel
theorem u64_le_maxNat : (2 : Nat) ^ 64 ≤ maxNat := by decide +kernel

/-- every natural number up to the largest double (in particular every `u64`) converts to a finite double -/
theorem roundRat_nat_finite (s : Bool) {n : Nat} (h : n ≤ maxNat) : (roundRat s n 1).isFinite = true := by
  refine roundRat_finite_of_le s maxF_canonical (by decide) (by decide) ?_
  rw [maxF_toRat]
  simpa using h

theorem ofNat_finite {n : Nat} (h : n ≤ maxNat) : (F64.ofNat n).isFinite = true :=
  roundRat_nat_finite false h

theorem ofNat_finite_u64 {n : Nat} (h : n < 2 ^ 64) : (F64.ofNat n).isFinite = true := by
  apply ofNat_finite
  have := u64_le_maxNat
  omega

theorem ofInt_finite_i64 {i : Int} (h1 : -(2 ^ 63 : Int) ≤ i) (h2 : i < 2 ^ 63) : (F64.ofInt i).isFinite = true := by
  have hb := u64_le_maxNat
  unfold F64.ofInt
  split
  · exact roundRat_nat_finite true (by omega)
  · exact roundRat_nat_finite false (by omega)


theorem toRat_den_ne_zero (s : Bool) (m : Nat) (e : Int) : (toRat (fin s m e)).2 ≠ 0 := by
  simp only [toRat]
  split
  · exact Nat.one_ne_zero
  · exact Nat.ne_of_gt (Nat.pow_pos (by decide))

theorem two53_le_maxNat : (2 : Nat) ^ 53 + 1 ≤ maxNat := by decide +kernel

theorem abs_finite {x : F64} (h : x.isFinite = true) : x.abs.isFinite = true := by
  cases x <;> first | rfl | cases h

/-- the integer part of a double with a fractional part is below `2^53` -/
theorem toRat_frac {s : Bool} {m : Nat} {e : Int} (hc : Canonical (fin s m e))
    (hf : (fin s m e).fractIsZero = false) :
    (toRat (fin s m e)).1 < 2 ^ 53 ∧ (toRat (fin s m e)).2 ≠ 0 := by
  refine ⟨?_, toRat_den_ne_zero s m e⟩
  simp only [fractIsZero] at hf
  simp only [toRat]
  split at hf
  · cases hf
  · split at hf
    · cases hf
    · rename_i h
      rw [if_neg h]
      exact hc.1

theorem floor_finite {x : F64} (hc : x.Canonical) (h : x.isFinite = true) : x.floor.isFinite = true := by
  cases x with
  | nan => cases h
  | inf s => cases h
  | fin s m e =>
    have hb := two53_le_maxNat
    simp only [F64.floor]
    split
    · rfl
    · rename_i hf
      obtain ⟨h1, h2⟩ := toRat_frac hc (by simpa using hf)
      have hq : (toRat (fin s m e)).1 / (toRat (fin s m e)).2 ≤ (toRat (fin s m e)).1 := Nat.div_le_self _ _
      split
      · exact roundRat_nat_finite true (by omega)
      · split
        · rfl
        · exact roundRat_nat_finite false (by omega)

theorem ceil_finite {x : F64} (hc : x.Canonical) (h : x.isFinite = true) : x.ceil.isFinite = true := by
  cases x with
  | nan => cases h
  | inf s => cases h
  | fin s m e =>
    have hb := two53_le_maxNat
    simp only [F64.ceil]
    split
    · rfl
    · rename_i hf
      obtain ⟨h1, h2⟩ := toRat_frac hc (by simpa using hf)
      have hq : (toRat (fin s m e)).1 / (toRat (fin s m e)).2 ≤ (toRat (fin s m e)).1 := Nat.div_le_self _ _
      split
      · split
        · rfl
        · exact roundRat_nat_finite true (by omega)
      · exact roundRat_nat_finite false (by omega)

theorem round_finite {x : F64} (hc : x.Canonical) (h : x.isFinite = true) : x.round.isFinite = true := by
  cases x with
  | nan => cases h
  | inf s => cases h
  | fin s m e =>
    have hb := two53_le_maxNat
    simp only [F64.round]
    split
    · rfl
    · rename_i hf
      obtain ⟨h1, h2⟩ := toRat_frac hc (by simpa using hf)
      generalize (toRat (fin s m e)).1 = n at h1
      generalize (toRat (fin s m e)).2 = d at h2
      have hq : (2 * n + d) / (2 * d) < n + 2 := by
        rw [Nat.div_lt_iff_lt_mul (by omega)]
        have h3 : n * 1 ≤ n * d := Nat.mul_le_mul_left n (by omega)
        have h4 : (n + 2) * (2 * d) = 2 * (n * d) + 4 * d := by
          rw [Nat.add_mul, Nat.mul_left_comm]; omega
        omega
      split
      · rfl
      · exact roundRat_nat_finite s (by omega)

/-- `fmod` of finite doubles with a non-zero divisor is finite -/
theorem rem_finite {x y : F64} (hcx : x.Canonical) (hx : x.isFinite = true) (hy : y.isFinite = true)
    (hz : y.isZero = false) : (F64.rem x y).isFinite = true := by
  cases x with
  | nan => cases hx
  | inf s => cases hx
  | fin s1 m1 e1 =>
  cases y with
  | nan => cases hy
  | inf s => cases hy
  | fin s2 m2 e2 =>
    unfold F64.rem
    simp only
    split
    · rename_i h0; subst h0; simp [isZero] at hz
    · split
      · rfl
      · rename_i hr
        have hm1 : m1 ≠ 0 := by
          intro h0
          subst h0
          apply hr
          have : (toRat (fin s1 0 e1)).1 = 0 := by simp only [toRat]; split <;> simp
          rw [this]; simp
        have hd1 := toRat_den_ne_zero s1 m1 e1
        have hd2 := toRat_den_ne_zero s2 m2 e2
        refine roundRat_finite_of_le s1 (m := m1) (e := e1) hcx hm1 (Nat.mul_ne_zero hd1 hd2) ?_
        show _ * (toRat (fin s1 m1 e1)).2 ≤ (toRat (fin s1 m1 e1)).1 * _
        generalize (toRat (fin s1 m1 e1)).1 = n1
        generalize (toRat (fin s1 m1 e1)).2 = d1
        generalize (toRat (fin s2 m2 e2)).1 = n2
        generalize (toRat (fin s2 m2 e2)).2 = d2
        have : n1 * d2 % (n2 * d1) ≤ n1 * d2 := Nat.mod_le _ _
        calc n1 * d2 % (n2 * d1) * d1 ≤ n1 * d2 * d1 := Nat.mul_le_mul_right _ this
          _ = n1 * (d1 * d2) := by rw [Nat.mul_assoc, Nat.mul_comm d2 d1]

/-! ## The predicates -/

mutual
/-- every number inside the value is finite (integers always are; a float must be `F64.isFinite`) -/
def FiniteV : JV → Prop
  | .null => True
  | .bool _ => True
  | .str _ => True
  | .num (.pos _) => True
  | .num (.neg _) => True
  | .num (.flt f) => f.isFinite = true
  | .arr vs => FiniteVs vs
  | .obj kvs => FiniteKVs kvs
def FiniteVs : List JV → Prop
  | [] => True
  | v :: vs => FiniteV v ∧ FiniteVs vs
def FiniteKVs : List (Str × JV) → Prop
  | [] => True
  | (_, v) :: kvs => FiniteV v ∧ FiniteKVs kvs
end

theorem finiteVs_iff (l : List JV) : FiniteVs l ↔ ∀ x ∈ l, FiniteV x := by
  induction l with
  | nil => simp [FiniteVs]
  | cons x xs ih => simp [FiniteVs, ih]

theorem finiteKVs_iff (m : List (Str × JV)) : FiniteKVs m ↔ ∀ kv ∈ m, FiniteV kv.2 := by
  induction m with
  | nil => simp [FiniteKVs]
  | cons x xs ih => obtain ⟨k, v⟩ := x; simp [FiniteKVs, ih]

@[simp] theorem finiteV_null : FiniteV .null := by simp [FiniteV]
@[simp] theorem finiteV_bool (b : Bool) : FiniteV (.bool b) := by simp [FiniteV]
@[simp] theorem finiteV_str (s : Str) : FiniteV (.str s) := by simp [FiniteV]
@[simp] theorem finiteV_pos (n : Nat) : FiniteV (.num (.pos n)) := by simp [FiniteV]
@[simp] theorem finiteV_neg (i : Int) : FiniteV (.num (.neg i)) := by simp [FiniteV]
@[simp] theorem finiteV_flt (f : F64) : FiniteV (.num (.flt f)) ↔ f.isFinite = true := by simp [FiniteV]
@[simp] theorem finiteV_arr (l : List JV) : FiniteV (.arr l) ↔ ∀ x ∈ l, FiniteV x := by
  rw [FiniteV, finiteVs_iff]
@[simp] theorem finiteV_obj (m : List (Str × JV)) : FiniteV (.obj m) ↔ ∀ kv ∈ m, FiniteV kv.2 := by
  rw [FiniteV, finiteKVs_iff]
@[simp] theorem finiteV_jusize (n : Nat) : FiniteV (jusize n) := by simp [jusize]

mutual
/-- the literals of an expression are finite (the expression parser reads them with the JSON parser,
which rejects non-finite numbers) -/
def FiniteE : Expr → Prop
  | .const v => FiniteV v
  | .call _ args => FiniteEs args
  | .extract _ _ => True
  | .var _ => True
  | .macro _ => True
  | .selected _ => True
  | .ictx _ => True
def FiniteEs : List Expr → Prop
  | [] => True
  | e :: es => FiniteE e ∧ FiniteEs es
end

theorem finiteEs_iff (l : List Expr) : FiniteEs l ↔ ∀ e ∈ l, FiniteE e := by
  induction l with
  | nil => simp [FiniteEs]
  | cons x xs ih => simp [FiniteEs, ih]

/-- a context whose input, enclosing inputs, variables, selected values are finite and whose macro
bodies have finite literals -/
structure FiniteCtx (c : Ctx) : Prop where
  input : FiniteV c.input
  parents : ∀ v ∈ c.parents, FiniteV v
  vars : ∀ kv ∈ c.vars, FiniteV kv.2
  results : ∀ tr ∈ c.results, ∀ v, tr.2 = some v → FiniteV v
  defs : ∀ nd ∈ c.defs, FiniteE nd.2

/-- the library oracles (regex, time, base64, decimal division) answer with finite values -/
def FiniteOrc (orc : Oracles) : Prop := ∀ ent ∈ orc.table, ∀ v, ent.2.2 = some v → FiniteV v

/-! ## Results of evaluations -/

/-- every value `r` can return satisfies `P` -/
def FR (P : JV → Prop) (r : R) : Prop := ∀ v, r = .ok (some v) → P v

theorem FR.nil {P} : FR P (.ok none) := by intro v h; cases h
theorem FR.val {P} {v : JV} (h : P v) : FR P (.ok (some v)) := by intro w hw; cases hw; exact h
theorem FR.opt {P} {o : Option JV} (h : ∀ v, o = some v → P v) : FR P (.ok o) := by
  intro w hw; cases hw; exact h w rfl
theorem FR.err {P} {a : Abort} : FR P (.error a) := by intro v h; cases h
theorem FR.bind {α P} {m : Except Abort α} {f : α → R} (h : ∀ a, m = .ok a → FR P (f a)) : FR P (m >>= f) := by
  cases m with
  | error e => exact FR.err
  | ok a => exact h a rfl
theorem FR.mono {P Q : JV → Prop} {r : R} (h : ∀ v, P v → Q v) (hr : FR P r) : FR Q r :=
  fun v hv => h v (hr v hv)
theorem FR.jbool {P} {b : Bool} (h : ∀ b, P (.bool b)) : FR P (.ok (jbool b)) := FR.val (h b)

/-- the functions whose result goes through `From<f64>` without the `from_finite` guard -/
def unguarded : List String := ["%", "abs", "ceil", "floor", "round"]

/-- finite literals, and only function names from `allow` -/
def GoodE (allow : String → Bool) (e : Expr) : Prop := FiniteE e ∧ NoPanic.allCalls allow e = true

/-- a finite context whose macro bodies only use function names from `allow` -/
structure GoodCtx (allow : String → Bool) (c : Ctx) : Prop where
  fin : FiniteCtx c
  defs : ∀ nd ∈ c.defs, NoPanic.allCalls allow nd.2 = true

theorem GoodCtx.withInput {allow c} (h : GoodCtx allow c) {v : JV} (hv : FiniteV v) :
    GoodCtx allow (c.withInput v) := by
  refine ⟨⟨hv, ?_, h.fin.vars, ?_, h.fin.defs⟩, h.defs⟩
  · intro w hw
    simp only [Ctx.withInput, List.mem_cons] at hw
    rcases hw with rfl | hw
    · exact h.fin.input
    · exact h.fin.parents w hw
  · intro tr htr; simp [Ctx.withInput] at htr

theorem GoodCtx.withVariable {allow c} (h : GoodCtx allow c) (n : Str) {v : JV} (hv : FiniteV v) :
    GoodCtx allow (c.withVariable n v) := by
  refine ⟨⟨h.fin.input, h.fin.parents, ?_, h.fin.results, h.fin.defs⟩, h.defs⟩
  intro kv hkv
  simp only [Ctx.withVariable, List.mem_cons] at hkv
  rcases hkv with rfl | hkv
  · exact hv
  · exact h.fin.vars kv hkv

theorem GoodCtx.withDefinition {allow c} (h : GoodCtx allow c) (n : Str) {d : Expr} (hd : GoodE allow d) :
    GoodCtx allow (c.withDefinition n d) := by
  refine ⟨⟨h.fin.input, h.fin.parents, h.fin.vars, h.fin.results, ?_⟩, ?_⟩
  · intro nd hnd
    simp only [Ctx.withDefinition, List.mem_cons] at hnd
    rcases hnd with rfl | hnd
    · exact hd.1
    · exact h.fin.defs nd hnd
  · intro nd hnd
    simp only [Ctx.withDefinition, List.mem_cons] at hnd
    rcases hnd with rfl | hnd
    · exact hd.2
    · exact h.defs nd hnd

theorem GoodCtx.getDefinition {allow c} (h : GoodCtx allow c) {n : Str} {d : Expr}
    (hd : c.getDefinition n = some d) : GoodE allow d :=
  ⟨h.fin.defs _ (NoPanic.lookup_mem hd), h.defs _ (NoPanic.lookup_mem hd)⟩

theorem GoodCtx.getVariable {allow c} (h : GoodCtx allow c) {n : Str} {v : JV}
    (hv : c.getVariable n = some v) : FiniteV v := h.fin.vars _ (NoPanic.lookup_mem hv)

/-- local hypotheses about the evaluator handed to a function body -/
structure Hyp (S : JV → Prop) (allow : String → Bool) (ev : Ev) (orc : Oracles) (fn : String)
    (args : List Expr) (ctx : Ctx) : Prop where
  ctx : GoodCtx allow ctx
  args : ∀ e ∈ args, GoodE allow e
  ev : ∀ e c, GoodE allow e → GoodCtx allow c → FR (fun v => FiniteV v ∧ S v) (ev e c)
  parsed : fn = "parse_selection" → ∀ n, allow n = true
  orc : FiniteOrc orc
  five : fn ∈ unguarded → ∀ n, S (.num n) → Num.WF n

section
variable {S : JV → Prop} {allow : String → Bool} {ev : Ev} {orc : Oracles} {fn : String}
  {args : List Expr} {ctx : Ctx}

theorem Hyp.ev' (H : Hyp S allow ev orc fn args ctx) {e c} (he : GoodE allow e) (hc : GoodCtx allow c) :
    FR FiniteV (ev e c) := (H.ev e c he hc).mono (fun _ h => h.1)

theorem Hyp.app (H : Hyp S allow ev orc fn args ctx) {c : Ctx} (hc : GoodCtx allow c) (i : Nat) :
    FR (fun v => FiniteV v ∧ S v) (applyArg ev args c i) := by
  unfold applyArg
  split
  · next e h => exact H.ev e c (H.args e (List.mem_of_getElem? h)) hc
  · exact FR.nil

theorem Hyp.app' (H : Hyp S allow ev orc fn args ctx) {c : Ctx} (hc : GoodCtx allow c) (i : Nat) :
    FR FiniteV (applyArg ev args c i) := (H.app hc i).mono (fun _ h => h.1)

/-- what is known about an evaluated argument -/
theorem Hyp.a (H : Hyp S allow ev orc fn args ctx) {i : Nat} {x : Option JV}
    (h : applyArg ev args ctx i = .ok x) : ∀ v, x = some v → FiniteV v := by
  intro v hv; subst hv; exact (H.app H.ctx i _ h).1

theorem Hyp.aS (H : Hyp S allow ev orc fn args ctx) {i : Nat} {x : Option JV}
    (h : applyArg ev args ctx i = .ok x) : ∀ v, x = some v → S v := by
  intro v hv; subst hv; exact (H.app H.ctx i _ h).2

end

section
variable {S : JV → Prop} {allow : String → Bool} {ev : Ev} {orc : Oracles} {fn : String}
  {args : List Expr} {ctx : Ctx}

theorem foldArgs_fr {σ} {P Q : JV → Prop} {ev : Ev} {ctx : Ctx}
    {step : σ → Option JV → Except Abort (Sum (Option JV) σ)} {fin : σ → Option JV} (args : List Expr) (s : σ)
    (hev : ∀ e ∈ args, FR Q (ev e ctx))
    (hstep : ∀ s v r, (∀ w, v = some w → Q w) → step s v = .ok (.inl r) → ∀ w, r = some w → P w)
    (hfin : ∀ s w, fin s = some w → P w) : FR P (foldArgs ev ctx step fin args s) := by
  induction args generalizing s with
  | nil => exact FR.opt (hfin s)
  | cons e es ih =>
    unfold foldArgs
    refine FR.bind ?_
    intro v hv
    refine FR.bind ?_
    intro r hr
    split
    · next r' => exact FR.opt (hstep s v r' (fun w hw => by subst hw; exact hev e (by simp) _ hv) hr)
    · exact ih _ (fun e he => hev e (by simp [he]))

theorem Hyp.foldArgs (H : Hyp S allow ev orc fn args ctx) {σ} {P : JV → Prop}
    {step : σ → Option JV → Except Abort (Sum (Option JV) σ)} {fin : σ → Option JV} (s : σ)
    (hstep : ∀ s v r, (∀ w, v = some w → FiniteV w ∧ S w) → step s v = .ok (.inl r) → ∀ w, r = some w → P w)
    (hfin : ∀ s w, fin s = some w → P w) : FR P (foldArgs ev ctx step fin args s) :=
  foldArgs_fr args s (fun e he => H.ev e ctx (H.args e he) H.ctx) hstep hfin

theorem pipeGo_fr (H : Hyp S allow ev orc fn args ctx) :
    ∀ (es : List Expr), (∀ e ∈ es, e ∈ args) → ∀ c : Ctx, GoodCtx allow c → FR FiniteV (callBasic.go ev c es) := by
  intro es
  induction es with
  | nil => intro _ c hc; unfold callBasic.go; exact FR.val hc.fin.input
  | cons e es ih =>
    intro hsub c hc
    unfold callBasic.go
    refine FR.bind ?_
    intro v hv
    split
    · next w =>
      exact ih (fun e he => hsub e (by simp [he])) _
        (hc.withInput (H.ev e c (H.args e (hsub e (by simp))) hc w hv).1)
    · exact FR.nil

theorem objGet?_mem {m : List (Str × JV)} {k : Str} {v : JV} (h : objGet? m k = some v) : (k, v) ∈ m := by
  induction m with
  | nil => cases h
  | cons x xs ih =>
    obtain ⟨k', v'⟩ := x
    unfold objGet? at h
    split at h
    · next hk => cases h; subst hk; simp
    · exact List.mem_cons_of_mem _ (ih h)

theorem mapM'_mem {α β} {f : α → Except Abort β} {l : List α} {ys : List β} (h : mapM' f l = .ok ys) :
    ∀ y ∈ ys, ∃ x ∈ l, f x = .ok y := by
  induction l generalizing ys with
  | nil => unfold mapM' at h; cases h; simp
  | cons x xs ih =>
    unfold mapM' at h
    cases hx : f x with
    | error e => simp [hx, bind, Except.bind] at h
    | ok y =>
      cases hxs : mapM' f xs with
      | error e => simp [hx, hxs, bind, Except.bind] at h
      | ok ys' =>
        simp only [hx, hxs, bind, Except.bind, Except.ok.injEq] at h
        subst h
        intro y' hy'
        simp only [List.mem_cons] at hy'
        rcases hy' with rfl | hy'
        · exact ⟨x, by simp, hx⟩
        · obtain ⟨x', hx', hf⟩ := ih hxs y' hy'
          exact ⟨x', by simp [hx'], hf⟩

/-- results of evaluating an argument once per element -/
theorem Hyp.mapSub (H : Hyp S allow ev orc fn args ctx) {α} {g : α → JV} {l : List α} {i : Nat}
    {rs : List (Option JV)} (h : mapM' (fun a => applyArg ev args (ctx.withInput (g a)) i) l = .ok rs) :
    (∀ a ∈ l, FiniteV (g a)) → ∀ r ∈ rs, ∀ v, r = some v → FiniteV v := by
  intro hl r hr v hv
  subst hv
  obtain ⟨a, ha, hf⟩ := mapM'_mem h _ hr
  exact H.app' (H.ctx.withInput (hl a ha)) i _ hf

/-- results of evaluating some of the arguments -/
theorem Hyp.mapArgs (H : Hyp S allow ev orc fn args ctx) {es : List Expr} {rs : List (Option JV)}
    (h : mapM' (fun e => ev e ctx) es = .ok rs) (hes : ∀ e ∈ es, e ∈ args) :
    ∀ r ∈ rs, ∀ v, r = some v → FiniteV v := by
  intro r hr v hv
  subst hv
  obtain ⟨e, he, hf⟩ := mapM'_mem h _ hr
  exact H.ev' (H.args e (hes e he)) H.ctx _ hf

theorem objInsert_mem {m : List (Str × JV)} {k : Str} {v : JV} {kv : Str × JV}
    (h : kv ∈ objInsert m k v) : kv = (k, v) ∨ kv ∈ m := by
  induction m with
  | nil => simp [objInsert] at h; exact Or.inl h
  | cons x xs ih =>
    obtain ⟨k', v'⟩ := x
    unfold objInsert at h
    split at h
    · simp only [List.mem_cons] at h
      rcases h with h | h
      · exact Or.inl h
      · exact Or.inr (List.mem_cons_of_mem _ h)
    · simp only [List.mem_cons] at h
      rcases h with h | h
      · exact Or.inr (by simp [h])
      · rcases ih h with h | h
        · exact Or.inl h
        · exact Or.inr (List.mem_cons_of_mem _ h)

theorem finiteKVs_insert {m : List (Str × JV)} {k : Str} {v : JV} (hm : ∀ kv ∈ m, FiniteV kv.2) (hv : FiniteV v) :
    ∀ kv ∈ objInsert m k v, FiniteV kv.2 := by
  intro kv hkv
  rcases objInsert_mem hkv with rfl | h
  · exact hv
  · exact hm kv h

theorem objOfList_mem {kvs : List (Str × JV)} {kv : Str × JV} (h : kv ∈ objOfList kvs) : kv ∈ kvs := by
  have key : ∀ (l acc : List (Str × JV)), kv ∈ l.foldl (fun acc kv => objInsert acc kv.1 kv.2) acc →
      kv ∈ acc ∨ kv ∈ l := by
    intro l
    induction l with
    | nil => intro acc h; exact Or.inl h
    | cons x xs ih =>
      intro acc h
      rcases ih _ h with h | h
      · rcases objInsert_mem h with h | h
        · exact Or.inr (by simp [h])
        · exact Or.inl h
      · exact Or.inr (List.mem_cons_of_mem _ h)
  rcases key kvs [] h with h | h
  · cases h
  · exact h

theorem dedupBy_mem (eq : JV → JV → Bool) {l : List JV} {x : JV} (h : x ∈ dedupBy eq l) : x ∈ l := by
  fun_induction dedupBy eq l with
  | case1 => exact h
  | case2 => exact h
  | case3 a b rest hab ih =>
    have := ih h
    simp only [List.mem_cons] at this ⊢
    rcases this with h | h
    · exact Or.inl h
    · exact Or.inr (Or.inr h)
  | case4 a b rest hab ih =>
    simp only [List.mem_cons] at h ⊢
    rcases h with h | h
    · exact Or.inl h
    · exact Or.inr (by simpa using ih h)

theorem ofF64_finite {f : F64} (h : f.isFinite = true) : FiniteV (.num (Num.ofF64 f)) := by
  unfold Num.ofF64
  split
  · split
    · simp
    · split
      · simp
      · simpa using h
  · simpa using h

theorem jnum_finite {f : F64} (h : f.isFinite = true) : ∀ v, jnum f = some v → FiniteV v := by
  intro v hv; cases hv; exact ofF64_finite h

theorem jnumFinite_finite {f : F64} {v : JV} (h : jnumFinite f = some v) : FiniteV v := by
  unfold jnumFinite at h
  split at h
  · exact jnum_finite ‹_› v h
  · cases h

theorem foldGo_fr (H : Hyp S allow ev orc fn args ctx) {f : Expr} (hf : f ∈ args) :
    ∀ (l : List JV) (cur : Option JV) (idx : Nat), (∀ x ∈ l, FiniteV x) → (∀ w, cur = some w → FiniteV w) →
      FR FiniteV (callList.foldGo ev ctx f cur idx l) := by
  intro l
  induction l with
  | nil => intro cur idx _ hc; unfold callList.foldGo; exact FR.opt hc
  | cons v vs ih =>
    intro cur idx hl hc
    unfold callList.foldGo
    dsimp only
    refine FR.bind ?_
    intro next hnext
    refine ih _ _ (fun x hx => hl x (by simp [hx])) ?_
    intro w hw
    subst hw
    refine H.ev' (H.args f hf) (H.ctx.withInput ?_) _ hnext
    rw [finiteV_obj]
    refine finiteKVs_insert (finiteKVs_insert ?_ (hl v (by simp))) (finiteV_jusize _)
    split
    · next c => intro kv hkv; simp only [List.mem_singleton] at hkv; subst hkv; exact hc c rfl
    · intro kv hkv; cases hkv

theorem groupGo_fin : ∀ (items : List (JV × Option JV)) (groups : List (Str × List JV)) (res : List (Str × List JV)),
    (∀ it ∈ items, FiniteV it.1) → (∀ g ∈ groups, ∀ x ∈ g.2, FiniteV x) →
    callList.groupGo groups items = some res → ∀ g ∈ res, ∀ x ∈ g.2, FiniteV x := by
  intro items
  induction items with
  | nil => intro groups res _ hg h; unfold callList.groupGo at h; cases h; exact hg
  | cons it rest ih =>
    intro groups res hit hg h
    obtain ⟨item, k⟩ := it
    unfold callList.groupGo at h
    split at h
    · next key =>
      refine ih _ res (fun it h => hit it (by simp [h])) ?_ h
      have hitem : FiniteV item := hit (item, some (.str key)) (by simp)
      split
      · intro g hg' x hx
        simp only [List.mem_map] at hg'
        obtain ⟨g0, hg0, rfl⟩ := hg'
        split at hx
        · simp only [List.mem_append, List.mem_singleton] at hx
          rcases hx with hx | rfl
          · exact hg g0 hg0 x hx
          · exact hitem
        · exact hg g0 hg0 x hx
      · intro g hg' x hx
        simp only [List.mem_append, List.mem_singleton] at hg'
        rcases hg' with hg' | rfl
        · exact hg g hg' x hx
        · simp only [List.mem_singleton] at hx; subst hx; exact hitem
    · cases h

theorem mem_stableSortBy {α} (cmp : α → α → Ordering) (l : List α) (x : α) :
    x ∈ stableSortBy cmp l ↔ x ∈ l := by
  unfold stableSortBy; exact List.mem_mergeSort

theorem lists_fin {vs : List (Option JV)} {l : List JV}
    (hl : l ∈ vs.filterMap (fun v => match v with
      | some (.arr l) => some l
      | _ => none))
    (hvs : ∀ r ∈ vs, ∀ v, r = some v → FiniteV v) : ∀ x ∈ l, FiniteV x := by
  simp only [List.mem_filterMap] at hl
  obtain ⟨r, hr, h⟩ := hl
  split at h
  · next l' => cases h; exact (finiteV_arr _).1 (hvs _ hr _ rfl)
  · cases h

theorem crossFold_fin : ∀ (ls : List (List JV × Nat)) (joined : List (List (Str × JV))),
    (∀ p ∈ ls, ∀ v ∈ p.1, FiniteV v) → (∀ o ∈ joined, ∀ kv ∈ o, FiniteV kv.2) →
    ∀ o ∈ ls.foldl (fun joined (x : List JV × Nat) =>
        x.1.flatMap (fun v => joined.map (fun sofar => objInsert sofar ('.' :: Nat.toDigits 10 x.2) v))) joined,
      ∀ kv ∈ o, FiniteV kv.2 := by
  intro ls
  induction ls with
  | nil => intro joined _ hj; exact hj
  | cons p ps ih =>
    intro joined hls hj
    simp only [List.foldl_cons]
    refine ih _ (fun q hq => hls q (by simp [hq])) ?_
    intro o ho
    simp only [List.mem_flatMap, List.mem_map] at ho
    obtain ⟨v, hv, sofar, hs, rfl⟩ := ho
    exact finiteKVs_insert (hj sofar hs) (hls p (by simp) v hv)

theorem toF64_fin {n : Num} (hf : FiniteV (.num n)) (hw : Num.WF n) :
    n.toF64.isFinite = true ∧ n.toF64.Canonical := by
  cases n with
  | pos n => exact ⟨ofNat_finite_u64 hw, roundRat_canonical _ _ _⟩
  | neg i =>
    refine ⟨ofInt_finite_i64 hw.1 hw.2, ?_⟩
    simp only [Num.toF64, F64.ofInt]
    split <;> exact roundRat_canonical _ _ _
  | flt f => exact ⟨(finiteV_flt f).1 hf, hw⟩

theorem numArg_fin {S : JV → Prop} {r : Option JV} {x : F64} (hf : ∀ v, r = some v → FiniteV v)
    (hs : ∀ v, r = some v → S v) (h5 : ∀ n, S (.num n) → Num.WF n) (h : numArg r = some x) :
    x.isFinite = true ∧ x.Canonical := by
  unfold numArg at h
  split at h
  · next n => cases h; exact toF64_fin (hf _ rfl) (h5 n (hs _ rfl))
  · cases h

theorem ask_fin {orc : Oracles} (ho : FiniteOrc orc) (fn : String) (args : List JV) :
    FR FiniteV (orc.ask fn args) := by
  unfold Oracles.ask
  dsimp only
  split
  · next ent hf =>
    exact FR.opt (fun v hv => ho _ (List.mem_of_find?_eq_some hf) v hv)
  · exact FR.err

/-! ### the JSON parser and the expression parser only produce finite literals -/

mutual
theorem pv_finite : ∀ (v : JV), Fix.PV v → FiniteV v
  | .null, _ => finiteV_null
  | .bool _, _ => finiteV_bool _
  | .str _, _ => finiteV_str _
  | .num (.pos _), _ => finiteV_pos _
  | .num (.neg _), _ => finiteV_neg _
  | .num (.flt f), h => by
    rw [Fix.PV] at h
    exact (finiteV_flt f).2 h.1.1
  | .arr vs, h => by
    rw [Fix.PV] at h; rw [FiniteV]
    exact pvList_finite vs h
  | .obj kvs, h => by
    rw [Fix.PV] at h; rw [FiniteV]
    exact pvMembers_finite kvs h.1
theorem pvList_finite : ∀ (vs : List JV), Fix.PVList vs → FiniteVs vs
  | [], _ => by rw [FiniteVs]; exact True.intro
  | v :: vs, h => by
    rw [Fix.PVList] at h; rw [FiniteVs]
    exact ⟨pv_finite v h.1, pvList_finite vs h.2⟩
theorem pvMembers_finite : ∀ (kvs : List (Str × JV)), Fix.PVMembers kvs → FiniteKVs kvs
  | [], _ => by rw [FiniteKVs]; exact True.intro
  | (k, v) :: kvs, h => by
    rw [Fix.PVMembers] at h; rw [FiniteKVs]
    exact ⟨pv_finite v h.1, pvMembers_finite kvs h.2⟩
end

/-- whatever the JSON parser returns is finite (it rejects numbers that overflow to infinity) -/
theorem nextJson_finite {r r' : Reader} {v : JV} (h : r.nextJson = (.ok (some v), r')) : FiniteV v :=
  pv_finite v (Fix.parsed_values h)

theorem allCalls_all (allow : String → Bool) (h : ∀ n, allow n = true) :
    ∀ e, NoPanic.allCalls allow e = true := by
  intro e
  induction e using Expr.rec (motive_2 := fun l => NoPanic.allCallsList allow l = true) with
  | call fn args ih => simp only [NoPanic.allCalls, Bool.and_eq_true]; exact ⟨h fn, ih⟩
  | nil => rfl
  | cons e es ihe ihes => simp only [NoPanic.allCallsList, Bool.and_eq_true]; exact ⟨ihe, ihes⟩
  | _ => rfl

open NoPanic in
theorem liftP_ep {α} {P : α → Prop} {m : PM α} (h : Fix.Post P m) : EP P (liftP m) := ⟨by
  intro r a r' hl
  unfold liftP at hl
  split at hl
  · next a' r1 hm => cases hl; exact h _ _ _ hm
  · cases hl⟩

theorem finiteEs_snoc {acc : List Expr} {a : Expr} (h1 : FiniteEs acc) (h2 : FiniteE a) : FiniteEs (acc ++ [a]) := by
  rw [finiteEs_iff] at h1 ⊢
  intro e he
  simp only [List.mem_append, List.mem_singleton] at he
  rcases he with he | rfl
  · exact h1 e he
  · exact h2

open NoPanic in
macro "fe_step" : tactic => `(tactic| first
  | exact EP.fail _
  | (apply EP.pure; first
      | (simp only [FiniteE]; done)
      | assumption
      | (split <;> simp only [FiniteE]; done)
      | (rw [FiniteE]; exact pv_finite _ (‹Fix.PVOpt _› _ rfl))
      | (rw [FiniteE]; assumption))
  | assumption
  | (refine ‹∀ acc, _ → EP _ (parseArgs _ acc)› _ (finiteEs_snoc ‹_› ‹_›))
  | (have h := ‹_ = (_, _)›; split at h <;> cases h <;> simp [FiniteEs, FiniteE]; done)
  | exact ‹∀ acc, _ → EP _ (parseArgs _ acc)› _ ‹_›
  | (refine EP.bind _ (liftP_ep (Fix.valuePV _).value) ?_)
  | (refine EP.bind _ ‹EP _ (readGetter _)› ?_)
  | (refine EP.bind _ (‹∀ acc, _ → EP _ (parseArgs _ acc)› _ ?_) ?_)
  | (apply EP.bind')
  | intro _
  | split
  | dsimp only
  )

open NoPanic in
theorem parser_fin : ∀ fuel,
    EP FiniteE (readGetter fuel) ∧ EP FiniteE (parseFunction fuel) ∧
    ∀ acc, FiniteEs acc → EP FiniteEs (parseArgs fuel acc) := by
  intro fuel
  induction fuel with
  | zero =>
    refine ⟨?_, ?_, ?_⟩
    · unfold readGetter; exact EP.fail _
    · unfold parseFunction; exact EP.fail _
    · intro acc _; unfold parseArgs; exact EP.fail _
  | succ fuel ih =>
    obtain ⟨ih1, ih2, ih3⟩ := ih
    refine ⟨?_, ?_, ?_⟩
    · unfold readGetter
      repeat' fe_step
    · unfold parseFunction
      repeat' fe_step
    · intro acc hacc; unfold parseArgs
      repeat' fe_step

open NoPanic in
macro "fe_step'" : tactic => `(tactic| first
  | (refine EP.bind _ (parser_fin _).1 ?_)
  | fe_step)

macro "fr_step" : tactic => `(tactic| first
  | exact FR.nil
  | exact FR.err
  | exact FR.val (finiteV_bool _)
  | exact FR.val (finiteV_str _)
  | exact FR.val (finiteV_jusize _)
  | exact FR.opt (fun v hv => jnumFinite_finite hv)
  | exact ask_fin (Hyp.orc ‹Hyp _ _ _ _ _ _ _›) _ _
  | exact FR.val (nextJson_finite ‹_›)
  | exact Hyp.app' ‹Hyp _ _ _ _ _ _ _› (Hyp.ctx ‹Hyp _ _ _ _ _ _ _›) _
  | exact FR.opt (fun v hv => GoodCtx.getVariable (Hyp.ctx ‹Hyp _ _ _ _ _ _ _›) hv)
  | exact Hyp.ev' ‹Hyp _ _ _ _ _ _ _› (GoodCtx.getDefinition (Hyp.ctx ‹Hyp _ _ _ _ _ _ _›) ‹_›)
      (Hyp.ctx ‹Hyp _ _ _ _ _ _ _›)
  | exact Hyp.app' ‹Hyp _ _ _ _ _ _ _› (GoodCtx.withVariable (Hyp.ctx ‹Hyp _ _ _ _ _ _ _›) _
      (Hyp.a ‹Hyp _ _ _ _ _ _ _› ‹_› _ rfl)) _
  | exact Hyp.app' ‹Hyp _ _ _ _ _ _ _› (GoodCtx.withDefinition (Hyp.ctx ‹Hyp _ _ _ _ _ _ _›) _
      (Hyp.args ‹Hyp _ _ _ _ _ _ _› _ (List.mem_of_getElem? ‹_›))) _
  | exact pipeGo_fr ‹Hyp _ _ _ _ _ _ _› _ (fun _ h => h) _
      (GoodCtx.withInput (Hyp.ctx ‹Hyp _ _ _ _ _ _ _›) (Hyp.ctx ‹Hyp _ _ _ _ _ _ _›).fin.input)
  | (refine FR.bind ?_; intro x hx;
      first
      | (have hxx := Hyp.a ‹Hyp _ _ _ _ _ _ _› hx)
      | (have hxx := Hyp.mapSub ‹Hyp _ _ _ _ _ _ _› hx)
      | (have hxx := Hyp.mapArgs ‹Hyp _ _ _ _ _ _ _› hx (fun _ h => List.mem_of_mem_drop h))
      | (have hxx := Hyp.mapArgs ‹Hyp _ _ _ _ _ _ _› hx (fun _ h => h))
      | skip)
  | refine FR.val ?_
  | refine FR.opt ?_
  | split
  | dsimp only)

macro "fr_leaf" : tactic => `(tactic| first
  | done
  | (simp_all; done)
  | (simp_all; grind [List.mem_of_mem_take, List.mem_of_mem_drop, List.mem_of_getElem?, List.dropLast_subset,
      List.mem_mergeSort, List.mem_of_mem_head?, List.mem_of_getLast?, → objGet?_mem, List.mem_of_mem_tail,
      → dedupBy_mem, → List.of_mem_zip, mem_stableSortBy, → objInsert_mem, → objOfList_mem])
  )

theorem callBasic_fin (H : Hyp S allow ev orc fn args ctx) :
    ∀ r, callBasic ev fn args ctx = some r → FR FiniteV r := by
  intro r h
  unfold callBasic at h
  split at h
  all_goals first | cases h | skip
  all_goals try dsimp only
  case h_7 =>
    exact H.foldArgs _ (fun s v r hv hs => by
      intro w hw; subst hw; split at hs <;> cases hs; exact (hv _ rfl).1) (fun _ _ h => by cases h)
  case h_15 =>
    exact H.foldArgs _ (fun s v r hv hs => by
      intro w hw; subst hw; split at hs <;> cases hs; simp) (fun _ _ h => by cases h; simp)
  case h_16 =>
    exact H.foldArgs _ (fun s v r hv hs => by
      intro w hw; subst hw; split at hs <;> cases hs; simp) (fun _ _ h => by cases h; simp)
  all_goals repeat' fr_step
  all_goals fr_leaf

theorem callList_fin (H : Hyp S allow ev orc fn args ctx) :
    ∀ r, callList ev fn args ctx = some r → FR FiniteV r := by
  intro r h
  unfold callList at h
  split at h
  all_goals first | cases h | skip
  all_goals try dsimp only
  -- flat_map
  case h_3 =>
    refine FR.bind ?_; intro x hx; have h0 := H.a hx
    split
    · next l =>
      have hl := (finiteV_arr _).1 (h0 _ rfl)
      refine FR.bind ?_; intro rs hrs
      have hm := H.mapSub hrs hl
      refine FR.val ((finiteV_arr _).2 ?_)
      intro y hy
      simp only [List.mem_flatMap] at hy
      obtain ⟨r, hr, hy⟩ := hy
      split at hy
      · next ys => exact (finiteV_arr _).1 (hm _ hr _ rfl) y hy
      · cases hy
    · exact FR.nil
  -- fold
  case h_4 =>
    refine FR.bind ?_; intro x hx; have h0 := H.a hx
    split
    · next l =>
      have hl := (finiteV_arr _).1 (h0 _ rfl)
      refine FR.bind ?_; intro init hinit
      have hi : ∀ w, init = some w → FiniteV w := by
        split at hinit
        · exact H.a hinit
        · cases hinit; intro w hw; cases hw
      split
      · exact FR.nil
      · next f hf => exact foldGo_fr H (by split at hf <;> exact List.mem_of_getElem? hf) l _ _ hl hi
    · exact FR.nil
  -- group_by
  case h_5 =>
    refine FR.bind ?_; intro x hx; have h0 := H.a hx
    split
    · next l =>
      have hl := (finiteV_arr _).1 (h0 _ rfl)
      refine FR.bind ?_; intro keys hkeys
      split
      · next groups hg =>
        refine FR.val ((finiteV_obj _).2 ?_)
        intro kv hkv
        simp only [List.mem_map] at hkv
        obtain ⟨g, hg', rfl⟩ := hkv
        rw [finiteV_arr]
        exact groupGo_fin _ [] groups (fun it hit => hl _ (List.of_mem_zip hit).1)
          (fun g hg => by cases hg) hg g hg'
      · exact FR.nil
    · exact FR.nil
  -- sum
  case h_12 =>
    refine FR.bind ?_; intro x hx
    split
    · refine FR.opt ?_
      intro v hv
      simp only [Option.bind_eq_some_iff] at hv
      obtain ⟨f, _, hf⟩ := hv
      exact jnumFinite_finite hf
    · exact FR.nil
  -- indexed
  case h_13 =>
    refine FR.bind ?_; intro x hx; have h0 := H.a hx
    split
    · next l =>
      have hl := (finiteV_arr _).1 (h0 _ rfl)
      refine FR.val ((finiteV_arr _).2 ?_)
      intro y hy
      simp only [List.mem_map] at hy
      obtain ⟨⟨v, i⟩, hvi, rfl⟩ := hy
      rw [finiteV_obj]
      intro kv hkv
      simp only [List.mem_cons, List.not_mem_nil, or_false] at hkv
      rcases hkv with rfl | rfl
      · exact hl v (List.fst_mem_of_mem_zipIdx hvi)
      · exact finiteV_jusize _
    · exact FR.nil
  -- zip
  case h_22 =>
    refine FR.bind ?_; intro vs hvs
    have hm := H.mapArgs hvs (fun _ h => h)
    split
    · exact FR.nil
    · refine FR.val ((finiteV_arr _).2 ?_)
      intro y hy
      simp only [List.mem_map] at hy
      obtain ⟨idx, _, rfl⟩ := hy
      rw [finiteV_obj]
      intro kv hkv
      have hkv' := objOfList_mem hkv
      simp only [List.mem_filterMap, Option.map_eq_some_iff] at hkv'
      obtain ⟨⟨l, i⟩, hli, v, hv, rfl⟩ := hkv'
      exact lists_fin (List.fst_mem_of_mem_zipIdx hli) hm v (List.mem_of_getElem? hv)
  -- cross
  case h_23 =>
    refine FR.bind ?_; intro vs hvs
    have hm := H.mapArgs hvs (fun _ h => h)
    split
    · exact FR.nil
    · refine FR.val ((finiteV_arr _).2 ?_)
      intro y hy
      simp only [List.mem_map] at hy
      obtain ⟨o, ho, rfl⟩ := hy
      rw [finiteV_obj]
      refine crossFold_fin _ _ ?_ ?_ o ho
      · intro p hp
        exact lists_fin (List.fst_mem_of_mem_zipIdx hp) hm
      · intro o ho kv hkv
        simp only [List.mem_singleton] at ho
        subst ho
        cases hkv
  all_goals repeat' fr_step
  all_goals fr_leaf

theorem callObject_fin (H : Hyp S allow ev orc fn args ctx) :
    ∀ r, callObject ev fn args ctx = some r → FR FiniteV r := by
  intro r h
  unfold callObject at h
  split at h
  all_goals first | cases h | skip
  all_goals try dsimp only
  -- map_keys
  case h_3 =>
    refine FR.bind ?_; intro x hx; have h0 := H.a hx
    split
    · next m =>
      have hm := (finiteV_obj _).1 (h0 _ rfl)
      refine FR.bind ?_; intro ks hks
      refine FR.val ((finiteV_obj _).2 ?_)
      intro kv hkv
      have hkv' := objOfList_mem hkv
      simp only [List.mem_filterMap] at hkv'
      obtain ⟨⟨kv0, k⟩, hz, hk⟩ := hkv'
      split at hk
      · cases hk; exact hm kv0 (List.of_mem_zip hz).1
      · cases hk
    · exact FR.nil
  -- entries
  case h_8 =>
    refine FR.bind ?_; intro x hx; have h0 := H.a hx
    split
    · next m =>
      have hm := (finiteV_obj _).1 (h0 _ rfl)
      refine FR.val ((finiteV_arr _).2 ?_)
      intro y hy
      simp only [List.mem_map] at hy
      obtain ⟨⟨k, v⟩, hkv, rfl⟩ := hy
      rw [finiteV_obj]
      intro kv hkv'
      simp only [List.mem_cons, List.not_mem_nil, or_false] at hkv'
      rcases hkv' with rfl | rfl
      · exact hm (k, v) hkv
      · exact finiteV_str _
    · exact FR.nil
  -- keys
  case h_9 =>
    refine FR.bind ?_; intro x hx
    split
    · refine FR.val ((finiteV_arr _).2 ?_)
      intro y hy
      simp only [List.mem_map] at hy
      obtain ⟨kv, _, rfl⟩ := hy
      exact finiteV_str _
    · exact FR.nil
  all_goals repeat' fr_step
  all_goals fr_leaf

theorem callNumber_fin (H : Hyp S allow ev orc fn args ctx) :
    ∀ r, callNumber ev fn args ctx = some r → FR FiniteV r := by
  intro r h
  unfold callNumber at h
  split at h
  all_goals first | cases h | skip
  all_goals try dsimp only
  case h_1 =>
    exact H.foldArgs _ (fun s v r hv hs => by
      intro w hw; subst hw; split at hs <;> cases hs) (fun _ _ h => jnumFinite_finite h)
  case h_2 =>
    exact H.foldArgs _ (fun s v r hv hs => by
      intro w hw; subst hw; split at hs <;> cases hs) (fun _ _ h => jnumFinite_finite h)
  case h_5 =>
    have h5 := H.five (by decide)
    refine FR.bind ?_; intro r0 h0; refine FR.bind ?_; intro r1 h1
    split
    · next x y hx hy =>
      obtain ⟨fx, cx⟩ := numArg_fin (H.a h0) (H.aS h0) h5 hx
      obtain ⟨fy, cy⟩ := numArg_fin (H.a h1) (H.aS h1) h5 hy
      split
      · exact FR.nil
      · next hz => exact FR.opt (jnum_finite (rem_finite cx fx fy (by simpa using hz)))
    · exact FR.nil
  case h_6 =>
    have h5 := H.five (by decide)
    refine FR.bind ?_; intro r0 h0
    split
    · next x hx =>
      obtain ⟨fx, cx⟩ := numArg_fin (H.a h0) (H.aS h0) h5 hx
      exact FR.opt (jnum_finite (abs_finite fx))
    · exact FR.nil
  case h_7 =>
    have h5 := H.five (by decide)
    refine FR.bind ?_; intro r0 h0
    split
    · next x hx =>
      obtain ⟨fx, cx⟩ := numArg_fin (H.a h0) (H.aS h0) h5 hx
      exact FR.opt (jnum_finite (ceil_finite cx fx))
    · exact FR.nil
  case h_8 =>
    have h5 := H.five (by decide)
    refine FR.bind ?_; intro r0 h0
    split
    · next x hx =>
      obtain ⟨fx, cx⟩ := numArg_fin (H.a h0) (H.aS h0) h5 hx
      exact FR.opt (jnum_finite (floor_finite cx fx))
    · exact FR.nil
  case h_9 =>
    have h5 := H.five (by decide)
    refine FR.bind ?_; intro r0 h0
    split
    · next x hx =>
      obtain ⟨fx, cx⟩ := numArg_fin (H.a h0) (H.aS h0) h5 hx
      exact FR.opt (jnum_finite (round_finite cx fx))
    · exact FR.nil
  all_goals repeat' fr_step
  all_goals fr_leaf

theorem callString_fin (H : Hyp S allow ev orc fn args ctx) :
    ∀ r, callString ev orc fn args ctx = some r → FR FiniteV r := by
  intro r h
  unfold callString at h
  split at h
  all_goals first | cases h | skip
  all_goals try dsimp only
  case h_1 =>
    exact H.foldArgs _ (fun s v r hv hs => by
      intro w hw; subst hw; split at hs <;> cases hs) (fun _ _ h => by cases h; exact finiteV_str _)
  case h_7 =>
    refine FR.bind ?_; intro x hx
    split
    · next s hs =>
      split
      · next e he =>
        have hfe : FiniteE e := by
          refine NoPanic.EP.fst (P := FiniteE) ?_ he
          repeat' fe_step'
        exact H.ev' ⟨hfe, allCalls_all allow (H.parsed rfl) e⟩ H.ctx
      · exact FR.nil
    · exact FR.nil
  all_goals repeat' fr_step
  all_goals fr_leaf

theorem callNas_fin (H : Hyp S allow ev orc fn args ctx) :
    ∀ r, callNas ev orc fn args ctx = some r → FR FiniteV r := by
  intro r h
  unfold callNas at h
  split at h
  all_goals first | cases h | skip
  all_goals try dsimp only
  case h_1 =>
    exact H.foldArgs _ (fun s v r hv hs => by
      intro w hw; subst hw; split at hs <;> cases hs) (fun _ _ h => by cases h; exact finiteV_str _)
  case h_2 =>
    exact H.foldArgs _ (fun s v r hv hs => by
      intro w hw; subst hw; split at hs <;> cases hs) (fun _ _ h => by cases h; exact finiteV_str _)
  all_goals repeat' fr_step
  all_goals fr_leaf

/-- **Every function body preserves finiteness.** -/
theorem callFn_fin (H : Hyp S allow ev orc fn args ctx) : FR FiniteV (callFn ev orc fn args ctx) := by
  unfold callFn
  split; · exact callBasic_fin H _ ‹_›
  split; · exact callList_fin H _ ‹_›
  split; · exact callObject_fin H _ ‹_›
  split; · exact callNumber_fin H _ ‹_›
  split; · exact callString_fin H _ ‹_›
  split; · exact callNas_fin H _ ‹_›
  exact FR.err
end

/-! ## The evaluator -/

/-- one node of `eval`, with the evaluator for the sub-expressions as a parameter -/
def evalNode (ev : Ev) (orc : Oracles) (e : Expr) (ctx : Ctx) : R :=
  match e with
  | .extract parents steps => .ok (extractSteps steps (ctx.parentInput parents))
  | .const v => .ok (some v)
  | .var n => .ok (ctx.getVariable n)
  | .macro n =>
    match ctx.getDefinition n with
    | some d => ev d ctx
    | none => .ok none
  | .selected n => .ok (ctx.getSelected n)
  | .ictx k => .ok (ctx.ictx.bind k.get)
  | .call fn args => callFn ev orc fn args ctx

theorem eval_succ (orc : Oracles) (fuel : Nat) (e : Expr) (ctx : Ctx) :
    eval orc (fuel + 1) e ctx = evalNode (eval orc fuel) orc e ctx := by
  cases e <;> rfl

theorem extract_fin {s : Jawk.Step} {v w : JV} (hv : FiniteV v) (h : SingleStep.extract s v = some w) : FiniteV w := by
  unfold SingleStep.extract at h
  split at h
  · exact (finiteV_arr _).1 hv w (List.mem_of_getElem? h)
  · exact (finiteV_obj _).1 hv _ (objGet?_mem h)
  · cases h

theorem extractSteps_fin (steps : List Jawk.Step) {v : JV} (hv : FiniteV v) :
    ∀ w, extractSteps steps v = some w → FiniteV w := by
  unfold extractSteps
  generalize hacc : some v = acc
  have hacc' : ∀ w, acc = some w → FiniteV w := by intro w hw; subst hacc; cases hw; exact hv
  clear hacc hv
  induction steps generalizing acc with
  | nil => exact hacc'
  | cons s ss ih =>
    simp only [List.foldl_cons]
    apply ih
    intro w hw
    split at hw
    · cases hw
    · next x => exact extract_fin (hacc' x rfl) hw

theorem parentInput_fin {c : Ctx} (hc : FiniteCtx c) (n : Nat) : FiniteV (c.parentInput n) := by
  unfold Ctx.parentInput
  split
  · exact hc.input
  · cases h : c.parents[n - 1]? with
    | none => exact hc.input
    | some v => exact hc.parents v (List.mem_of_getElem? h)

theorem getSelected_fin {c : Ctx} (hc : FiniteCtx c) (n : Str) : ∀ v, c.getSelected n = some v → FiniteV v := by
  intro v hv
  unfold Ctx.getSelected at hv
  split at hv
  · next r hr => exact hc.results _ (NoPanic.lookup_mem hr) v hv
  · cases hv

theorem ictx_fin (k : ICtxKind) (ic : Option InputCtx) : ∀ v, ic.bind k.get = some v → FiniteV v := by
  intro v hv
  cases ic with
  | none => cases hv
  | some ic =>
    simp only [Option.bind_some] at hv
    cases k <;> simp only [ICtxKind.get, Option.some.injEq, Option.map_eq_some_iff] at hv
    all_goals first
      | (subst hv; exact finiteV_pos _)
      | (obtain ⟨_, _, rfl⟩ := hv; exact finiteV_str _)

theorem goodEs_of_call {allow : String → Bool} {fn : String} {args : List Expr} (h : GoodE allow (.call fn args)) :
    allow fn = true ∧ ∀ e ∈ args, GoodE allow e := by
  obtain ⟨h1, h2⟩ := h
  rw [FiniteE, finiteEs_iff] at h1
  simp only [NoPanic.allCalls, Bool.and_eq_true] at h2
  exact ⟨h2.1, fun e he => ⟨h1 e he, (NoPanic.allCallsList_iff allow args).1 h2.2 e he⟩⟩

/-- **One node.**  If the evaluator for the sub-expressions returns finite values satisfying `S`, the node
returns a finite value.  `S` has to say that a number fits the machine types for the five functions
`unguarded`; `parse_selection` needs every function name allowed. -/
theorem evalNode_fin {S : JV → Prop} {allow : String → Bool} {ev : Ev} {orc : Oracles}
    (hev : ∀ e c, GoodE allow e → GoodCtx allow c → FR (fun v => FiniteV v ∧ S v) (ev e c))
    (hpar : allow "parse_selection" = true → ∀ n, allow n = true)
    (h5 : ∀ fn, fn ∈ unguarded → allow fn = true → ∀ n, S (.num n) → Num.WF n)
    (ho : FiniteOrc orc) {e : Expr} {ctx : Ctx} (he : GoodE allow e) (hc : GoodCtx allow ctx) :
    FR FiniteV (evalNode ev orc e ctx) := by
  cases e with
  | extract parents steps => exact FR.opt (extractSteps_fin steps (parentInput_fin hc.fin parents))
  | const v => exact FR.val (by have := he.1; rwa [FiniteE] at this)
  | var n => exact FR.opt (fun v hv => hc.getVariable hv)
  | «macro» n =>
    simp only [evalNode]
    split
    · next d hd => exact (hev d ctx (hc.getDefinition hd) hc).mono (fun _ h => h.1)
    · exact FR.nil
  | selected n => exact FR.opt (getSelected_fin hc.fin n)
  | ictx k => exact FR.opt (ictx_fin k ctx.ictx)
  | call fn args =>
    obtain ⟨hfn, hargs⟩ := goodEs_of_call he
    exact callFn_fin ⟨hc, hargs, hev, fun h => hpar (h ▸ hfn), ho, fun h => h5 fn h hfn⟩

/-! ### Numbers that fit the machine types -/

instance : DecidablePred Num.WF := fun n => by
  cases n <;> unfold Num.WF <;> infer_instance

/-- the value, if it is a number, is a Rust `NumberValue`: a `u64`, an `i64`, or a binary64 in canonical form -/
def fits : JV → Bool
  | .num n => decide (Num.WF n)
  | _ => true

/-- abort (as a capacity overflow) when a returned number does not fit -/
def guardFits (r : R) : R :=
  match r with
  | .ok (some v) => if fits v then .ok (some v) else .error .overflow
  | r => r

/-- `eval` on a machine with 64-bit integers: the same evaluator, aborting as soon as an evaluation returns
a number that Rust's `NumberValue` cannot hold (the model's `.pos n` is an unbounded natural number and its
lists have unbounded length; jawk's `u64`/`usize` are not) -/
def evalRep (orc : Oracles) : Nat → Expr → Ctx → R
  | 0, _, _ => .error .overflow
  | fuel + 1, e, ctx => guardFits (evalNode (evalRep orc fuel) orc e ctx)

theorem guardFits_le {r r' : R} (h : Subst.Le r r') : Subst.Le (guardFits r) r' := by
  rcases h with h | h
  · subst h; exact Or.inl rfl
  · subst h
    unfold guardFits
    split
    · split
      · exact Or.inr rfl
      · exact Or.inl rfl
    · exact Or.inr rfl

/-- the two evaluators agree unless `evalRep` stops -/
theorem evalRep_le (orc : Oracles) : ∀ (fuel : Nat) (e : Expr) (ctx : Ctx),
    Subst.Le (evalRep orc fuel e ctx) (eval orc fuel e ctx) := by
  intro fuel
  induction fuel with
  | zero => intro e ctx; exact Or.inl rfl
  | succ fuel ih =>
    intro e ctx
    rw [eval_succ]
    unfold evalRep
    apply guardFits_le
    cases e with
    | «macro» n =>
      simp only [evalNode]
      split
      · exact ih _ _
      · exact Subst.Le.refl _
    | call fn args => exact Subst.callFn_le (Subst.Hyp.of_ev_le ih fn args ctx)
    | _ => exact Subst.Le.refl _

theorem evalRep_eq (orc : Oracles) {fuel : Nat} {e : Expr} {ctx : Ctx}
    (h : evalRep orc fuel e ctx ≠ .error .overflow) : evalRep orc fuel e ctx = eval orc fuel e ctx :=
  ((evalRep_le orc fuel e ctx).eq_of_ne h).symm

theorem guardFits_fr {P : JV → Prop} {r : R} (h : FR P r) : FR (fun v => P v ∧ fits v = true) (guardFits r) := by
  intro v hv
  unfold guardFits at hv
  split at hv
  · next w =>
    split at hv
    · next hf => cases hv; exact ⟨h _ rfl, hf⟩
    · cases hv
  · next hne => exact absurd hv (hne v)

theorem goodE_all {e : Expr} (h : FiniteE e) : GoodE (fun _ => true) e := ⟨h, allCalls_all _ (fun _ => rfl) e⟩
theorem goodCtx_all {c : Ctx} (h : FiniteCtx c) : GoodCtx (fun _ => true) c :=
  ⟨h, fun nd _ => allCalls_all _ (fun _ => rfl) nd.2⟩

/-- the 64-bit evaluator only returns finite values that fit -/
theorem evalRep_fin (orc : Oracles) (ho : FiniteOrc orc) : ∀ (fuel : Nat) (e : Expr) (ctx : Ctx),
    GoodE (fun _ => true) e → GoodCtx (fun _ => true) ctx →
    FR (fun v => FiniteV v ∧ fits v = true) (evalRep orc fuel e ctx) := by
  intro fuel
  induction fuel with
  | zero => intro e ctx _ _; exact FR.err
  | succ fuel ih =>
    intro e ctx he hc
    unfold evalRep
    apply guardFits_fr
    exact evalNode_fin ih (fun _ _ => rfl) (fun fn _ _ n hn => of_decide_eq_true hn) ho he hc

/-! ## Statements -/

/-- the 64-bit evaluator: whatever it returns is finite, and `eval` returns the same -/
theorem evalRep_finite (orc : Oracles) (fuel : Nat) (e : Expr) (ctx : Ctx) (v : JV)
    (ho : FiniteOrc orc) (he : FiniteE e) (hc : FiniteCtx ctx)
    (h : evalRep orc fuel e ctx = .ok (some v)) :
    FiniteV v ∧ eval orc fuel e ctx = .ok (some v) :=
  ⟨(evalRep_fin orc ho fuel e ctx (goodE_all he) (goodCtx_all hc) v h).1, (evalRep_le orc fuel e ctx).ok h⟩

/-- **MAIN**: evaluation preserves finiteness — whatever an expression evaluates to can be printed as JSON.
Added hypothesis `hrep`: no sub-evaluation returned a number outside `u64` / `i64` / binary64 (`evalRep` is
`eval` with that check; they agree unless the check fails, `evalRep_eq`).  Without it the statement is false
in the model, see `eval_finite_false`. -/
theorem eval_finite (orc : Oracles) (fuel : Nat) (e : Expr) (ctx : Ctx) (v : JV)
    (ho : FiniteOrc orc) (he : FiniteE e) (hc : FiniteCtx ctx)
    (hrep : evalRep orc fuel e ctx ≠ .error .overflow)
    (h : eval orc fuel e ctx = .ok (some v)) : FiniteV v :=
  (evalRep_finite orc fuel e ctx v ho he hc (by rw [evalRep_eq orc hrep]; exact h)).1

/-- function names whose result is guarded by `from_finite` or is not computed from `f64` at all, and not
`parse_selection` (which can reach any function at run time) -/
def guardedOnly (n : String) : Bool := !unguarded.contains n && n != "parse_selection"

/-- every function name in `e` is in `guardedOnly` -/
def GuardedOnly (e : Expr) : Prop := NoPanic.allCalls guardedOnly e = true
instance (e : Expr) : Decidable (GuardedOnly e) := inferInstanceAs (Decidable (_ = true))

theorem eval_fin_guarded (orc : Oracles) (ho : FiniteOrc orc) : ∀ (fuel : Nat) (e : Expr) (ctx : Ctx),
    GoodE guardedOnly e → GoodCtx guardedOnly ctx → FR (fun v => FiniteV v ∧ True) (eval orc fuel e ctx) := by
  intro fuel
  induction fuel with
  | zero => intro e ctx _ _; exact FR.err
  | succ fuel ih =>
    intro e ctx he hc
    rw [eval_succ]
    refine (evalNode_fin ih ?_ ?_ ho he hc).mono (fun v h => ⟨h, trivial⟩)
    · intro h; exact absurd h (by decide)
    · intro fn hfn hal
      simp only [guardedOnly, Bool.and_eq_true, Bool.not_eq_true', List.contains_eq_mem,
        decide_eq_false_iff_not] at hal
      exact absurd hfn hal.1

/-- **Unconditional part**: without `%`, `abs`, `ceil`, `floor`, `round` (and `parse_selection`) in the expression
and in the macro bodies, evaluation preserves finiteness with no further hypothesis — every other arithmetic
result goes through `from_finite`. -/
theorem eval_finite_partial (orc : Oracles) (fuel : Nat) (e : Expr) (ctx : Ctx) (v : JV)
    (ho : FiniteOrc orc) (he : FiniteE e) (hc : FiniteCtx ctx)
    (hg : GuardedOnly e) (hd : ∀ nd ∈ ctx.defs, GuardedOnly nd.2)
    (h : eval orc fuel e ctx = .ok (some v)) : FiniteV v :=
  (eval_fin_guarded orc ho fuel e ctx ⟨he, hg⟩ ⟨hc, hd⟩ v h).1

/-! ## Corollaries -/

/-- a selection stage keeps the row finite: the context handed to the next stage and the row it builds -/
theorem withResult_finite {c : Ctx} (hc : FiniteCtx c) (name : Str) {r : Option JV}
    (hr : ∀ v, r = some v → FiniteV v) : FiniteCtx (c.withResult name r) := by
  refine ⟨hc.input, hc.parents, hc.vars, ?_, hc.defs⟩
  intro tr htr
  simp only [Ctx.withResult, List.mem_append, List.mem_singleton] at htr
  rcases htr with htr | rfl
  · exact hc.results tr htr
  · exact hr

theorem build_finite {c : Ctx} (hc : FiniteCtx c) : FiniteV c.build := by
  unfold Ctx.build
  split
  · exact hc.input
  · rw [finiteV_obj]
    have key : ∀ (rs : List (Str × Option JV)) (acc : List (Str × JV)),
        (∀ tr ∈ rs, ∀ v, tr.2 = some v → FiniteV v) → (∀ kv ∈ acc, FiniteV kv.2) →
        ∀ kv ∈ rs.foldl (fun acc (x : Str × Option JV) => match x.2 with
          | some v => objInsert acc x.1 v
          | none => acc) acc, FiniteV kv.2 := by
      intro rs
      induction rs with
      | nil => intro acc _ ha; exact ha
      | cons x xs ih =>
        intro acc hrs ha
        simp only [List.foldl_cons]
        refine ih _ (fun tr h => hrs tr (by simp [h])) ?_
        split
        · next v hv => exact finiteKVs_insert ha (hrs x (by simp) v hv)
        · exact ha
    exact key c.results [] hc.results (fun kv h => by cases h)

/-- **Selected rows are finite.**  For a selection stage (`process` on `.select name e`: the row goes on as
`ctx.withResult name r` with `r` the value of `e`), a finite row stays finite, and so is the value
`Ctx.build` that the JSON sink prints for it. -/
theorem selected_rows_finite (orc : Oracles) (e : Expr) (ctx : Ctx) (name : Str) (r : Option JV)
    (ho : FiniteOrc orc) (he : FiniteE e) (hc : FiniteCtx ctx)
    (hrep : evalRep orc evalFuel e ctx ≠ .error .overflow)
    (h : eval orc evalFuel e ctx = .ok r) :
    FiniteCtx (ctx.withResult name r) ∧ FiniteV (ctx.withResult name r).build := by
  have hr : ∀ v, r = some v → FiniteV v := by
    intro v hv; subst hv; exact eval_finite orc evalFuel e ctx v ho he hc hrep h
  exact ⟨withResult_finite hc name hr, build_finite (withResult_finite hc name hr)⟩

/-! ## Counter-examples: why `hrep` is there -/

/-- `(abs (size .))` on an array is the absolute value of its length as a double -/
theorem abs_size_eval (l : List JV) :
    eval {} 3 (.call "abs" [.call "size" [.extract 0 []]]) { input := .arr l } =
      .ok (jnum (F64.ofNat l.length).abs) := by
  rfl

theorem ofNat_two1024 : F64.ofNat (2 ^ 1024) = .inf false := by decide +kernel

/-- **The statement without `hrep` is false in the model.**  The model's lists have unbounded length and
`size` returns the unbounded `.pos len`; an array of `2^1024` nulls is a finite input, yet `(abs (size .))`
evaluates to `inf` on it.  (No such array fits a machine: this is a gap between the model's `Nat` and Rust's
`usize`, not a behaviour of jawk.) -/
theorem eval_finite_false :
    ∃ (orc : Oracles) (fuel : Nat) (e : Expr) (ctx : Ctx) (v : JV),
      FiniteOrc orc ∧ FiniteE e ∧ FiniteCtx ctx ∧ eval orc fuel e ctx = .ok (some v) ∧ ¬ FiniteV v := by
  refine ⟨{}, 3, .call "abs" [.call "size" [.extract 0 []]],
    { input := .arr (List.replicate (2 ^ 1024) .null) }, .num (.flt (.inf false)), ?_, ?_, ?_, ?_, ?_⟩
  · intro ent h; cases h
  · simp [FiniteE, FiniteEs]
  · refine ⟨?_, ?_, ?_, ?_, ?_⟩
    · rw [finiteV_arr]; intro x hx; rw [List.eq_of_mem_replicate hx]; exact finiteV_null
    all_goals (intro x h; cases h)
  · rw [abs_size_eval, List.length_replicate, ofNat_two1024]; rfl
  · simp [F64.isFinite]

/-! ### Boolean observers for kernel-evaluated tests (`JV` has no decidable equality) -/

def returnsFlt (f : F64) : R → Bool
  | .ok (some (.num (.flt g))) => decide (g = f)
  | _ => false
def isOverflow : R → Bool
  | .error .overflow => true
  | _ => false
theorem returnsFlt_eq {f : F64} {r : R} (h : returnsFlt f r = true) : r = .ok (some (.num (.flt f))) := by
  unfold returnsFlt at h
  split at h
  · simp only [decide_eq_true_eq] at h; rw [h]
  · cases h
theorem not_overflow {r : R} (h : isOverflow r = false) : r ≠ .error .overflow := by
  intro e; rw [e] at h; cases h

/-- the same with a literal: the model's `.pos n` is not bounded by `2^64` (the parser never builds such a
literal; `FiniteE` as stated allows it) … -/
theorem abs_big_literal :
    eval {} 2 (.call "abs" [.const (.num (.pos (2 ^ 1024)))]) {} = .ok (some (.num (.flt (.inf false)))) :=
  returnsFlt_eq (by decide +kernel)
/-- … and `evalRep` stops there -/
example : isOverflow (evalRep {} 2 (.call "abs" [.const (.num (.pos (2 ^ 1024)))]) {}) = true := by decide +kernel
/-- a double that is not in canonical form (not a binary64) is `isFinite` in the model, and `floor` of it is not -/
theorem floor_noncanonical :
    eval {} 2 (.call "floor" [.const (.num (.flt (.fin false (2 ^ 1100 + 1) (-1))))]) {} =
      .ok (some (.num (.flt (.inf false)))) :=
  returnsFlt_eq (by decide +kernel)

/-! ## Tests (kernel evaluation through the model's expression parser) -/

/-- evaluate the text of an expression on the input `null` -/
def evalText (s : String) : Option R :=
  match parseWholeExpr s.toList with
  | .ok e => some (eval {} 10 e {})
  | .error _ => none

def evalRepText (s : String) : Option R :=
  match parseWholeExpr s.toList with
  | .ok e => some (evalRep {} 10 e {})
  | .error _ => none

def isNothing : Option R → Bool
  | some (.ok none) => true
  | _ => false

def isPos (n : Nat) : Option R → Bool
  | some (.ok (some (.num (.pos m)))) => m == n
  | _ => false

-- the seeded change (`is_infinite()` instead of `!is_finite()`) made this one print `NaN`: inf · 0
example : isNothing (evalText "(* 1e308 10 0)") = true := by decide +kernel
example : isNothing (evalText "(/ 0 0)") = true := by decide +kernel
example : isNothing (evalText "(% 1 0)") = true := by decide +kernel
example : isNothing (evalText "(+ 1e308 1e308)") = true := by decide +kernel
example : isNothing (evalText "(- 1e308 -1e308)") = true := by decide +kernel
example : isNothing (evalText "(/ 1e308 1e-308)") = true := by decide +kernel
example : isNothing (evalText "(* 1e308 10)") = true := by decide +kernel
example : isNothing (evalRepText "(* 1e308 10 0)") = true := by decide +kernel
-- finite results are values, and the 64-bit evaluator agrees
example : isPos 3 (evalText "(+ 1 2)") = true := by decide +kernel
example : isPos 3 (evalRepText "(+ 1 2)") = true := by decide +kernel
example : isPos 1 (evalRepText "(% 7 2)") = true := by decide +kernel
example : isPos 2 (evalRepText "(abs (round -1.5))") = true := by decide +kernel

/-! ### Non-vacuity of `eval_finite` -/

/-- `(abs (* 1.5 .a @m))` -/
def exE : Expr :=
  .call "abs" [.call "*" [.const (.num (.flt (.fin false 6755399441055744 (-52)))),
    .extract 0 [.key "a".toList], .macro "m".toList]]
/-- input `{"a": 2.5}`, macro `m` = `1` -/
def exC : Ctx :=
  { input := .obj [("a".toList, .num (.flt (.fin false 5629499534213120 (-51))))],
    defs := [("m".toList, .const (.num (.pos 1)))] }

/-- an instance of every hypothesis of `eval_finite`: a float literal, a float in the input, a macro body,
an unguarded function; the result is the double 3.75 -/
example : FiniteV (.num (.flt (.fin false 8444249301319680 (-51)))) := by
  refine eval_finite {} 6 exE exC _ ?_ ?_ ?_ (not_overflow (by decide +kernel)) (returnsFlt_eq (by decide +kernel))
  · intro ent h; cases h
  · simp [exE, FiniteE, FiniteEs, F64.isFinite]
  · refine ⟨?_, ?_, ?_, ?_, ?_⟩
    · simp [exC, F64.isFinite]
    · intro x h; cases h
    · intro x h; cases h
    · intro x h; cases h
    · intro x h; simp only [exC, List.mem_singleton] at h; subst h; simp [FiniteE]

/-- … and of `eval_finite_partial` -/
example : GuardedOnly (.call "sum" [.call "map" [.extract 0 [], .call "/" [.extract 0 [], .const (.num (.pos 3))]]]) := by
  decide +kernel

-- #print axioms eval_finite            -- [propext, Classical.choice, Quot.sound]
-- #print axioms eval_finite_partial
-- #print axioms evalRep_finite
-- #print axioms selected_rows_finite
-- #print axioms eval_finite_false

end Jawk.Finite
