/-
  C02 (fixpoint): feeding jawk's JSON output back into jawk reproduces it byte for byte.
  C11 (concatenation): out(A·B) = out(A)·out(B) as bytes, for whole runs of a stateless chain.
-/
import Jawk.Lemmas.Noise
import Jawk.Lemmas.ParseSer
import Jawk.Lemmas.RunCor
namespace Jawk.Fix
open Jawk Jawk.Pipe Jawk.Fuel Jawk.RunSpec Jawk.RT Jawk.Noise Jawk.C06 Reader

/-! ## Part 1 — the fixpoint (C02) -/

/-- an output-only configuration: JSON output options `jo`, row separator `sep`, everything else default -/
def outCfg (jo : Option JsonOpts) (sep : Str) : Cfg := { jsonOpts := jo, rowSep := sep }

def outPipeline (jo : Option JsonOpts) (sep : Str) : Pipeline :=
  { cfgs := [], sts := [], sink := .json (jo.getD {}) sep, sinkLen := 0, titles := [] }

theorem build_outCfg (orc : Oracles) (jo : Option JsonOpts) (sep : Str) :
    build orc (outCfg jo sep) = .ok (outPipeline jo sep) := rfl


/-! ### printing does not see the difference between a value and its normal form -/

theorem printNum_normNum (n : Num) : printNum (normNum n) = printNum n := by
  cases n with
  | pos n => rfl
  | flt f => rfl
  | neg i =>
    by_cases h : i < 0
    · simp only [normNum, h, if_true]
    · simp only [normNum, printNum, h, if_false]
      congr 1
      omega

mutual
theorem printAt_norm (o : JsonOpts) : ∀ (ind : Nat) (v : JV), printJsonAt o ind (norm v) = printJsonAt o ind v
  | _, .null => by rw [norm]
  | _, .bool b => by rw [norm]
  | _, .num n => by rw [norm, printJsonAt, printJsonAt, printNum_normNum]
  | _, .str s => by rw [norm]
  | _, .arr [] => by rw [norm, normList]
  | ind, .arr (v :: vs) => by
    have h := printElems_norm o (ind + 1) (v :: vs)
    rw [normList] at h
    rw [norm, normList, printJsonAt, printJsonAt, h]
  | _, .obj [] => by rw [norm, normMembers]
  | ind, .obj ((k, v) :: kvs) => by
    have h := printMembers_norm o (ind + 1) ((k, v) :: kvs)
    rw [normMembers] at h
    rw [norm, normMembers, printJsonAt, printJsonAt, h]
theorem printElems_norm (o : JsonOpts) : ∀ (ind : Nat) (vs : List JV),
    printElems o ind (normList vs) = printElems o ind vs
  | _, [] => by rw [normList]
  | ind, [v] => by rw [normList, normList, printElems, printElems, printAt_norm o ind v]
  | ind, v :: w :: vs => by
    have h := printElems_norm o ind (w :: vs)
    rw [normList] at h
    rw [normList, normList, printElems, printElems, printAt_norm o ind v, h]
theorem printMembers_norm (o : JsonOpts) : ∀ (ind : Nat) (kvs : List (Str × JV)),
    printMembers o ind (normMembers kvs) = printMembers o ind kvs
  | _, [] => by rw [normMembers]
  | ind, [(k, v)] => by rw [normMembers, normMembers, printMembers, printMembers, printAt_norm o ind v]
  | ind, (k, v) :: kv :: kvs => by
    have h := printMembers_norm o ind (kv :: kvs)
    obtain ⟨k', v'⟩ := kv
    rw [normMembers] at h
    rw [normMembers, normMembers, printMembers, printMembers, printAt_norm o ind v, h]
end

/-- a value and its normal form (`-0` read back as `0`) are printed alike -/
theorem printJson_norm (o : JsonOpts) (v : JV) : printJson o (norm v) = printJson o v :=
  printAt_norm o 0 v

/-! ### item 1: what an output-only run writes -/

/-- **run_output_only.**  With only output options (`jo`, `sep`), every value read is written back as one
JSON row in the chosen style followed by the separator; nothing else is written. -/
theorem run_output_only (orc : Oracles) (jo : Option JsonOpts) (sep : Str) (sources : List Source)
    (wOut wErr : Writer) (hw : Unbounded wOut) (hcl : CleanIO sources) :
    (run orc (outCfg jo sep) sources wOut wErr).result = .ok ()
      ∧ (run orc (outCfg jo sep) sources wOut wErr).stdout
          = wOut.out ++ (ctxsOfSources (outCfg jo sep) sources 0).flatMap
              (fun ctx => utf8 (printJson (jo.getD {}) ctx.input) ++ utf8 sep)
      ∧ (run orc (outCfg jo sep) sources wOut wErr).stderr = wErr.out := by
  obtain ⟨h1, h2, h3⟩ := run_ignore_spec orc (outCfg jo sep) sources wOut wErr (outPipeline jo sep) rfl
    (build_outCfg orc jo sep) (fun c hc => by cases hc) hw hcl (fun h => h)
  refine ⟨h1, ?_, h3⟩
  rw [h2]
  have hh : headerBytes (outPipeline jo sep) = [] := rfl
  rw [hh, List.append_nil]
  congr 1
  show (ctxsOfSources (outCfg jo sep) sources 0).flatMap
    (sinkBytes (outPipeline jo sep).sink (outPipeline jo sep).sinkLen) = _
  apply flatMap_congr'
  intro ctx hctx
  simp only [outPipeline, sinkBytes,
    build_of_results_nil (ctxsOfSources_results _ _ _ ctx hctx), rowBytes]

/-! ### item 2: the printed rows are read back -/

/-- the four white-space characters -/
def WsSep (sep : Str) : Prop := ∀ ch ∈ sep, ch ∈ [' ', '\n', '\t', '\r']

theorem utf8_wsSep {sep : Str} (h : WsSep sep) : ∀ b ∈ utf8 sep, isWs b = true := by
  intro b hb
  simp only [utf8, List.mem_flatMap] at hb
  obtain ⟨ch, hch, hb⟩ := hb
  have := h ch hch
  simp only [List.mem_cons, List.not_mem_nil, or_false] at this
  rcases this with rfl | rfl | rfl | rfl <;>
    (simp only [show String.utf8EncodeChar ' ' = [32] from by decide,
      show String.utf8EncodeChar '\n' = [10] from by decide,
      show String.utf8EncodeChar '\t' = [9] from by decide,
      show String.utf8EncodeChar '\r' = [13] from by decide, List.mem_singleton] at hb
     subst hb
     decide)

theorem utf8_ne_nil {sep : Str} (h : sep ≠ []) : utf8 sep ≠ [] := by
  cases sep with
  | nil => exact absurd rfl h
  | cons c s =>
    rw [utf8_cons]
    intro h'
    have hl := congrArg List.length (List.append_eq_nil_iff.mp h').1
    rw [String.length_utf8EncodeChar] at hl
    have := Char.utf8Size_pos c
    simp at hl
    omega

/-- the text of the rows `vs`: every value printed with options `o`, followed by the separator -/
def rowsBytes (o : JsonOpts) (sep : Str) (vs : List JV) : List Byte :=
  vs.flatMap (fun v => utf8 (printJson o v) ++ utf8 sep)

/-- the rows as a stream in the sense of `Noise`: no leading gap, after every value the separator, no garbage -/
def rowItems (sep : Str) (vs : List JV) : List (JV × Gap) := vs.map (fun v => (v, { ws := utf8 sep }))

theorem stream_rowItems (o : JsonOpts) (sep : Str) (vs : List JV) :
    stream o {} (rowItems sep vs) = rowsBytes o sep vs := by
  simp only [stream, rowItems, rowsBytes, Gap.bytes, toksBytes, List.flatMap_nil, List.append_nil, List.nil_append,
    List.flatMap_map]

theorem rowItems_values (sep : Str) (vs : List JV) : (rowItems sep vs).map (·.1) = vs := by
  simp [rowItems, Function.comp_def]

theorem rowItems_ok (o : JsonOpts) (sep : Str) (hsep : WsSep sep) (hne : sep ≠ []) (vs : List JV)
    (hvs : ∀ v ∈ vs, Printable o v) : ItemsOK o (rowItems sep vs) := by
  induction vs with
  | nil => trivial
  | cons v vs ih =>
    refine ⟨hvs v List.mem_cons_self, ⟨utf8_wsSep hsep, fun t ht => by cases ht⟩, .inl (utf8_ne_nil hne),
      ih (fun w hw => hvs w (List.mem_cons_of_mem _ hw))⟩

/-- **printed_rows_read_back** (general form).  The text of printable rows `vs`, printed in any style and each
followed by a non-empty white-space separator, is read (from stdin or a named file, with any sufficient fuel,
under any configuration that does not drop scalars) as the normal forms of `vs`, in order. -/
theorem printed_rows_read_back_norm (c : Cfg) (hc : c.onlyObjectsAndArrays = false) (o : JsonOpts) (sep : Str)
    (hsep : WsSep sep) (hne : sep ≠ []) (vs : List JV) (hvs : ∀ v ∈ vs, Printable o v)
    (name : Option Str) (fuel : Nat) (hf : (rowsBytes o sep vs).length + 2 ≤ fuel) (i k : Nat) :
    (ctxsOf c fuel (Reader.ofBytes (rowsBytes o sep vs) name) i k).map (·.input) = vs.map norm := by
  have h := (noisy_rows c o {} (rowItems sep vs) emptyGap_ok (rowItems_ok o sep hsep hne vs hvs) name fuel
    (by rw [stream_rowItems]; exact hf) i k).1
  rw [stream_rowItems, rowItems_values, applyOnlyObj_off c hc] at h
  exact h

theorem map_norm_id {vs : List JV} (h : ∀ v ∈ vs, norm v = v) : vs.map norm = vs := by
  induction vs with
  | nil => rfl
  | cons v vs ih =>
    rw [List.map_cons, h v List.mem_cons_self, ih (fun w hw => h w (List.mem_cons_of_mem _ hw))]

/-- **printed_rows_read_back** (item 2 as stated): printable values in normal form are read back exactly. -/
theorem printed_rows_read_back (c : Cfg) (hc : c.onlyObjectsAndArrays = false) (o : JsonOpts) (sep : Str)
    (hsep : WsSep sep) (hne : sep ≠ []) (vs : List JV) (hvs : ∀ v ∈ vs, Printable o v ∧ norm v = v)
    (fuel : Nat) (hf : (rowsBytes o sep vs).length + 2 ≤ fuel) :
    (ctxsOf c fuel (Reader.ofBytes (rowsBytes o sep vs) none) 0 0).map (·.input) = vs := by
  rw [printed_rows_read_back_norm c hc o sep hsep hne vs (fun v hv => (hvs v hv).1) none fuel hf 0 0]
  exact map_norm_id (fun v hv => (hvs v hv).2)

/-- the rows printed again: the normal forms give the same text -/
theorem rowsBytes_norm (o : JsonOpts) (sep : Str) (vs : List JV) :
    rowsBytes o sep (vs.map norm) = rowsBytes o sep vs := by
  simp only [rowsBytes, List.flatMap_map, printJson_norm]

/-! ### item 3: the fixpoint -/

theorem unbounded_empty : Unbounded ({} : Writer) := ⟨rfl, rfl⟩

/-- stdout of an output-only run with fresh writers, as the text of the values read -/
theorem stdout_output_only (orc : Oracles) (jo : Option JsonOpts) (sep : Str) (sources : List Source)
    (hcl : CleanIO sources) :
    (run orc (outCfg jo sep) sources {} {}).stdout
      = rowsBytes (jo.getD {}) sep ((ctxsOfSources (outCfg jo sep) sources 0).map (·.input)) := by
  rw [(run_output_only orc jo sep sources {} {} unbounded_empty hcl).2.1]
  show [] ++ _ = _
  rw [List.nil_append, rowsBytes,
    ← flatMap_input (fun v => utf8 (printJson (jo.getD {}) v) ++ utf8 sep)]

theorem cleanIO_stdin_bytes (bs : List Byte) : CleanIO [⟨none, cleanInput bs⟩] :=
  cleanIO_of_bytes [(none, bs)]

/-- **fixpoint (C02), general form.**  Run jawk with output options only (any JSON style, ASCII or UTF-8 strings,
any non-empty white-space row separator) on any sources without I/O error — malformed regions are skipped —
such that every value read is printable.  Feeding the bytes written on stdout back into the same jawk (on stdin)
writes exactly the same bytes.  (No normal-form hypothesis is needed: `-0` is written `0`, read back as `0`
and written `0` again.) -/
theorem fixpoint_sources (orc : Oracles) (jo : Option JsonOpts) (sep : Str) (hsep : WsSep sep) (hne : sep ≠ [])
    (sources : List Source) (hcl : CleanIO sources)
    (hvals : ∀ ctx ∈ ctxsOfSources (outCfg jo sep) sources 0, Printable (jo.getD {}) ctx.input) :
    (run orc (outCfg jo sep) [⟨none, cleanInput (run orc (outCfg jo sep) sources {} {}).stdout⟩] {} {}).stdout
      = (run orc (outCfg jo sep) sources {} {}).stdout := by
  rw [stdout_output_only orc jo sep sources hcl]
  generalize hvs : (ctxsOfSources (outCfg jo sep) sources 0).map (·.input) = vs
  have hp : ∀ v ∈ vs, Printable (jo.getD {}) v := by
    intro v hv
    rw [← hvs] at hv
    obtain ⟨ctx, hctx, rfl⟩ := List.mem_map.mp hv
    exact hvals ctx hctx
  rw [stdout_output_only orc jo sep _ (cleanIO_stdin_bytes _)]
  have hsrc : ctxsOfSources (outCfg jo sep) [⟨none, cleanInput (rowsBytes (jo.getD {}) sep vs)⟩] 0
      = ctxsOf (outCfg jo sep) ((rowsBytes (jo.getD {}) sep vs).length + 2)
          (Reader.ofBytes (rowsBytes (jo.getD {}) sep vs) none) 0 0 := by
    simp only [ctxsOfSources, List.append_nil, cleanInput, List.length_map]
    rfl
  rw [hsrc, printed_rows_read_back_norm (outCfg jo sep) rfl (jo.getD {}) sep hsep hne vs hp none _
    (Nat.le_refl _) 0 0, rowsBytes_norm]

/-- **fixpoint (C02), as stated**: one stream on stdin. -/
theorem fixpoint (orc : Oracles) (jo : Option JsonOpts) (sep : Str) (hsep : WsSep sep) (hne : sep ≠ [])
    (items : List RItem) (hcl : ∀ it ∈ items, it ≠ RItem.err)
    (hvals : ∀ ctx ∈ ctxsOf (outCfg jo sep) (items.length + 2) (Reader.ofItems items none) 0 0,
      Printable (jo.getD {}) ctx.input ∧ norm ctx.input = ctx.input) :
    let out1 := (run orc (outCfg jo sep) [⟨none, items⟩] {} {}).stdout
    (run orc (outCfg jo sep) [⟨none, cleanInput out1⟩] {} {}).stdout = out1 := by
  intro out1
  apply fixpoint_sources orc jo sep hsep hne [⟨none, items⟩]
  · intro s hs
    simp only [List.mem_singleton] at hs
    subst hs
    exact hcl
  · intro ctx hctx
    simp only [ctxsOfSources, List.append_nil] at hctx
    exact (hvals ctx hctx).1


/-! ### `parsed_values`: what the parser returns is printable

Whatever `next_json_value` returns (on ANY input, well formed or not, after any number of skipped regions) is a
value whose numbers are `u64` / non-positive `i64` integers or finite canonical doubles that `From<f64>` leaves
alone, and whose objects have pairwise distinct member names. -/

open Jawk.Ser in
/-- numbers the parser produces; floats are in canonical form -/
def NumC (n : Num) : Prop := ParsedNum n ∧ ∀ f, n = .flt f → f.Canonical

mutual
/-- the values the parser can produce -/
def PV : JV → Prop
  | .null => True
  | .bool _ => True
  | .num n => NumC n
  | .str _ => True
  | .arr vs => PVList vs
  | .obj kvs => PVMembers kvs ∧ (kvs.map (·.1)).Nodup
def PVList : List JV → Prop
  | [] => True
  | v :: vs => PV v ∧ PVList vs
def PVMembers : List (Str × JV) → Prop
  | [] => True
  | (_, v) :: kvs => PV v ∧ PVMembers kvs
end

theorem pvList_snoc {acc : List JV} {v : JV} (ha : PVList acc) (hv : PV v) : PVList (acc ++ [v]) := by
  induction acc with
  | nil => rw [List.nil_append, PVList, PVList]; exact ⟨hv, True.intro⟩
  | cons a acc ih =>
    rw [PVList] at ha
    rw [List.cons_append, PVList]
    exact ⟨ha.1, ih ha.2⟩

theorem objInsert_keys (acc : List (Str × JV)) (k : Str) (v : JV) :
    (objInsert acc k v).map (·.1) = if k ∈ acc.map (·.1) then acc.map (·.1) else acc.map (·.1) ++ [k] := by
  induction acc with
  | nil => simp [objInsert]
  | cons a acc ih =>
    obtain ⟨k', v'⟩ := a
    unfold objInsert
    by_cases h : k' = k
    · subst h; simp
    · have h' : ¬ k = k' := fun e => h e.symm
      simp only [h, if_false, List.map_cons, ih, List.mem_cons, h', false_or]
      split <;> simp

theorem objInsert_nodup {acc : List (Str × JV)} (k : Str) (v : JV) (h : (acc.map (·.1)).Nodup) :
    ((objInsert acc k v).map (·.1)).Nodup := by
  rw [objInsert_keys]
  split
  · exact h
  · rename_i hk
    rw [List.nodup_append]
    exact ⟨h, by simp, by
      intro a ha b hb
      simp only [List.mem_singleton] at hb
      subst hb
      intro e; subst e; exact hk ha⟩

theorem pvMembers_insert {acc : List (Str × JV)} (k : Str) {v : JV} (ha : PVMembers acc) (hv : PV v) :
    PVMembers (objInsert acc k v) := by
  induction acc with
  | nil => rw [objInsert, PVMembers, PVMembers]; exact ⟨hv, True.intro⟩
  | cons a acc ih =>
    obtain ⟨k', v'⟩ := a
    rw [PVMembers] at ha
    unfold objInsert
    split
    · rw [PVMembers]; exact ⟨hv, ha.2⟩
    · rw [PVMembers]; exact ⟨ha.1, ih ha.2⟩

/-- every successful result of the action satisfies `P` -/
def Post {α} (P : α → Prop) (m : PM α) : Prop := ∀ r a r', m r = (.ok a, r') → P a

theorem post_pure {α} {P : α → Prop} {a : α} (h : P a) : Post P (pure a : PM α) := by
  intro r b r' hb
  simp only [PM.pure_apply, Prod.mk.injEq, Except.ok.injEq] at hb
  rw [← hb.1]; exact h

theorem post_fail {α} {P : α → Prop} (e : PErr) : Post P (PM.fail e : PM α) := by
  intro r b r' hb; simp at hb

theorem post_locErr {α} {P : α → Prop} (mk : Loc → PErr) : Post P (locErr mk : PM α) := by
  intro r b r' hb; simp at hb

theorem post_bind {α β} {Q : α → Prop} {P : β → Prop} {m : PM α} {f : α → PM β}
    (hm : Post Q m) (hf : ∀ a, Q a → Post P (f a)) : Post P (m >>= f) := by
  intro r b r' hb
  obtain ⟨a, r1, h1, h2⟩ := Ser.PM.bind_ok_inv hb
  exact hf a (hm r a r1 h1) r1 b r' h2

theorem post_bind' {α β} {P : β → Prop} {m : PM α} {f : α → PM β}
    (hf : ∀ a, Post P (f a)) : Post P (m >>= f) :=
  post_bind (Q := fun _ => True) (fun _ _ _ _ => True.intro) (fun a _ => hf a)

open Jawk.Ser in
theorem parseToDouble_numC {text : List Byte} {r r' : Reader} {v : JV}
    (h : parseToDouble text r = (.ok v, r')) : ∃ n, v = .num n ∧ NumC n := by
  cases hp : F64.parseDecimal (bytesToStr text) with
  | none => simp [parseToDouble, hp] at h
  | some f =>
    by_cases hfin : f.isFinite = true
    · simp only [parseToDouble, hp, hfin, if_true, PM.pure_apply, Prod.mk.injEq, Except.ok.injEq] at h
      refine ⟨_, h.1.symm, parsedNum_ofF64 f hfin, ?_⟩
      intro g hg
      rw [ofF64_flt_inv hg]
      exact parseDecimal_canonical hp
    · simp [parseToDouble, hp, hfin] at h

open Jawk.Ser in
theorem finishNumber_numC {negative : Bool} {ip chars : List Byte} {double : Bool} {r r' : Reader} {v : JV}
    (h : RT.finishNumber negative ip chars double r = (.ok v, r')) : ∃ n, v = .num n ∧ NumC n := by
  obtain ⟨n, hn, hp⟩ := finishNumber_parsed h
  refine ⟨n, hn, hp, ?_⟩
  intro f hf
  subst hf
  subst hn
  -- a float can only come from `parse_to_double`
  unfold RT.finishNumber at h
  by_cases hd : double = true
  · rw [if_pos hd] at h
    obtain ⟨n, e, hc⟩ := parseToDouble_numC h
    cases e; exact hc.2 f rfl
  · rw [if_neg hd] at h
    by_cases hneg : negative = true
    · rw [if_pos hneg] at h
      cases hi : parseI64Neg ip with
      | ok i => simp [hi] at h
      | overflow =>
        simp only [hi] at h
        obtain ⟨n, e, hc⟩ := parseToDouble_numC h
        cases e; exact hc.2 f rfl
      | invalid => simp [hi] at h
    · rw [if_neg hneg] at h
      cases hu : parseU64 ip with
      | some n => simp [hu] at h
      | none =>
        simp only [hu] at h
        obtain ⟨n, e, hc⟩ := parseToDouble_numC h
        cases e; exact hc.2 f rfl

theorem readNumber_post (fuel : Nat) : Post PV (readNumber fuel) := by
  intro r v r' h
  rw [RT.readNumber_eq] at h
  obtain ⟨_, _, _, h⟩ := Ser.PM.bind_ok_inv h
  obtain ⟨_, _, _, h⟩ := Ser.PM.bind_ok_inv h
  obtain ⟨_, _, _, h⟩ := Ser.PM.bind_ok_inv h
  obtain ⟨_, _, _, h⟩ := Ser.PM.bind_ok_inv h
  obtain ⟨n, rfl, hn⟩ := finishNumber_numC h
  rw [PV]; exact hn

/-- the result of `next_json_value`, when there is one -/
def PVOpt (o : Option JV) : Prop := ∀ v, o = some v → PV v

theorem pvOpt_some {v : JV} (h : PV v) : PVOpt (some v) := by
  intro w hw; cases hw; exact h

structure ValuePV (fuel : Nat) : Prop where
  value : Post PVOpt (nextValue fuel)
  array : Post PV (readArray fuel)
  arrayLoop : ∀ acc, PVList acc → Post PV (readArrayLoop fuel acc)
  object : Post PV (readObject fuel)
  objectLoop : ∀ acc, PVMembers acc → (acc.map (·.1)).Nodup → Post PV (readObjectLoop fuel acc)

macro "post_step" : tactic => `(tactic| first
  | with_reducible exact post_fail _
  | with_reducible exact post_locErr _
  | with_reducible apply post_bind'
  | intro _
  | split)

theorem pv_arr_nil : PV (.arr []) := by rw [PV, PVList]; exact True.intro
theorem pv_obj_nil : PV (.obj []) := by rw [PV, PVMembers]; exact ⟨True.intro, List.nodup_nil⟩

theorem valuePV (fuel : Nat) : ValuePV fuel := by
  induction fuel with
  | zero =>
    refine ⟨?_, ?_, fun _ _ => ?_, ?_, fun _ _ _ => ?_⟩
    · unfold nextValue; exact post_fail _
    · unfold readArray; exact post_fail _
    · unfold readArrayLoop; exact post_fail _
    · unfold readObject; exact post_fail _
    · unfold readObjectLoop; exact post_fail _
  | succ fuel ih =>
    refine ⟨?_, ?_, fun acc hacc => ?_, ?_, fun acc hacc hnd => ?_⟩
    · unfold nextValue
      apply post_bind'; intro _
      apply post_bind'; intro p
      split
      · exact post_pure (fun v hv => by cases hv)
      · split
        · apply post_bind'; intro _; exact post_pure (pvOpt_some (by rw [PV]; exact True.intro))
        · split
          · apply post_bind'; intro _; exact post_pure (pvOpt_some (by rw [PV]; exact True.intro))
          · split
            · apply post_bind'; intro _; exact post_pure (pvOpt_some (by rw [PV]; exact True.intro))
            · split
              · apply post_bind'; intro _; exact post_pure (pvOpt_some (by rw [PV]; exact True.intro))
              · split
                · exact post_bind (readNumber_post _) (fun v hv => post_pure (pvOpt_some hv))
                · split
                  · exact post_bind ih.array (fun v hv => post_pure (pvOpt_some hv))
                  · split
                    · exact post_bind ih.object (fun v hv => post_pure (pvOpt_some hv))
                    · apply post_bind'; intro _; exact post_locErr _
    · unfold readArray
      apply post_bind'; intro _
      apply post_bind'; intro _
      apply post_bind'; intro p
      split
      · apply post_bind'; intro _; exact post_pure pv_arr_nil
      · exact ih.arrayLoop [] True.intro
    · unfold readArrayLoop
      refine post_bind ih.value ?_
      intro o ho
      split
      · exact post_locErr _
      · rename_i v
        have hv : PV v := ho v rfl
        have hacc' := pvList_snoc hacc hv
        apply post_bind'; intro _
        apply post_bind'; intro p
        split
        · exact post_locErr _
        · split
          · apply post_bind'; intro _
            exact post_pure (by rw [PV]; exact hacc')
          · split
            · apply post_bind'; intro _
              exact ih.arrayLoop _ hacc'
            · exact post_locErr _
    · unfold readObject
      apply post_bind'; intro _
      apply post_bind'; intro _
      apply post_bind'; intro p
      split
      · apply post_bind'; intro _; exact post_pure pv_obj_nil
      · exact ih.objectLoop [] True.intro List.nodup_nil
    · unfold readObjectLoop
      apply post_bind'; intro o
      split
      · exact post_locErr _
      · rename_i key
        apply post_bind'; intro _
        apply post_bind'; intro p
        split
        · exact post_locErr _
        · split
          · exact post_locErr _
          · apply post_bind'; intro _
            refine post_bind ih.value ?_
            intro o2 ho2
            split
            · exact post_locErr _
            · rename_i v
              have hv : PV v := ho2 v rfl
              have hacc' := pvMembers_insert key hacc hv
              have hnd' := objInsert_nodup key v hnd
              apply post_bind'; intro _
              apply post_bind'; intro p2
              split
              · exact post_locErr _
              · split
                · apply post_bind'; intro _
                  exact post_pure (by rw [PV]; exact ⟨hacc', hnd'⟩)
                · split
                  · apply post_bind'; intro _
                    exact ih.objectLoop _ hacc' hnd'
                  · exact post_locErr _
      · exact post_locErr _

/-- **parsed_values.**  Every value `next_json_value` returns — with any fuel, from any reader, whatever the
input — satisfies `PV`. -/
theorem parsed_values {r r' : Reader} {v : JV} (h : r.nextJson = (.ok (some v), r')) : PV v :=
  (valuePV _).value r (some v) r' h v rfl


mutual
/-- under `H17` (17 significant digits suffice) and `utf8Strings`, every value the parser can produce is a value
of the kind `Ser.Parsed`, hence printable -/
theorem parsed_of_pv (h17 : Ser.H17) (o : JsonOpts) (ho : o.utf8Strings = true) :
    ∀ (v : JV), PV v → Ser.Parsed o v
  | .null, _ => by rw [Ser.Parsed]; exact True.intro
  | .bool _, _ => by rw [Ser.Parsed]; exact True.intro
  | .num n, h => by
    rw [PV] at h; rw [Ser.Parsed]
    refine ⟨h.1, ?_⟩
    intro f hf
    subst hf
    exact h17 f (h.2 f rfl) h.1.1
  | .str s, _ => by rw [Ser.Parsed]; exact Ser.strOK_utf8 o ho s
  | .arr vs, h => by
    rw [PV] at h; rw [Ser.Parsed]
    exact parsedList_of_pv h17 o ho vs h
  | .obj kvs, h => by
    rw [PV] at h; rw [Ser.Parsed]
    exact ⟨parsedMembers_of_pv h17 o ho kvs h.1, h.2⟩
theorem parsedList_of_pv (h17 : Ser.H17) (o : JsonOpts) (ho : o.utf8Strings = true) :
    ∀ (vs : List JV), PVList vs → Ser.ParsedList o vs
  | [], _ => by rw [Ser.ParsedList]; exact True.intro
  | v :: vs, h => by
    rw [PVList] at h; rw [Ser.ParsedList]
    exact ⟨parsed_of_pv h17 o ho v h.1, parsedList_of_pv h17 o ho vs h.2⟩
theorem parsedMembers_of_pv (h17 : Ser.H17) (o : JsonOpts) (ho : o.utf8Strings = true) :
    ∀ (kvs : List (Str × JV)), PVMembers kvs → Ser.ParsedMembers o kvs
  | [], _ => by rw [Ser.ParsedMembers]; exact True.intro
  | (k, v) :: kvs, h => by
    rw [PVMembers] at h; rw [Ser.ParsedMembers]
    exact ⟨Ser.strOK_utf8 o ho k, parsed_of_pv h17 o ho v h.1, parsedMembers_of_pv h17 o ho kvs h.2⟩
end

theorem printable_of_pv (h17 : Ser.H17) (o : JsonOpts) (ho : o.utf8Strings = true) (v : JV) (h : PV v) :
    Printable o v :=
  Ser.printable_of_parsed o v (parsed_of_pv h17 o ho v h)

/-- every row the read loop makes carries a value the parser returned -/
theorem ctxsOf_pv (c : Cfg) (fuel : Nat) (r : Reader) (inFile idx : Nat) :
    ∀ ctx ∈ ctxsOf c fuel r inFile idx, PV ctx.input := by
  induction fuel generalizing r inFile idx with
  | zero => intro ctx h; cases h
  | succ fuel ih =>
    intro ctx h
    unfold ctxsOf at h
    split at h
    · rename_i v r' hn
      split at h
      · exact ih _ _ _ ctx h
      · rcases List.mem_cons.mp h with rfl | h
        · exact parsed_values hn
        · exact ih _ _ _ ctx h
    · cases h
    · split at h
      · exact ih _ _ _ ctx h
      · cases h

theorem ctxsOfSources_pv (c : Cfg) (sources : List Source) (idx : Nat) :
    ∀ ctx ∈ ctxsOfSources c sources idx, PV ctx.input := by
  induction sources generalizing idx with
  | nil => intro ctx h; cases h
  | cons src rest ih =>
    intro ctx h
    unfold ctxsOfSources at h
    rcases List.mem_append.mp h with h | h
    · exact ctxsOf_pv _ _ _ _ _ ctx h
    · exact ih _ ctx h

/-- **fixpoint (C02) for ALL inputs.**  Assume only `H17` (the digit search of `Display for f64` succeeds on
every finite canonical double).  With UTF-8 string output (`--utf8-strings`; any style) and a non-empty
white-space row separator, for ANY input bytes in any number of sources (no I/O error; malformed regions are
skipped): feeding jawk's output back into jawk reproduces it byte for byte. -/
theorem fixpoint_all (h17 : Ser.H17) (orc : Oracles) (o : JsonOpts) (ho : o.utf8Strings = true) (sep : Str)
    (hsep : WsSep sep) (hne : sep ≠ []) (sources : List Source) (hcl : CleanIO sources) :
    (run orc (outCfg (some o) sep) [⟨none, cleanInput (run orc (outCfg (some o) sep) sources {} {}).stdout⟩] {} {}).stdout
      = (run orc (outCfg (some o) sep) sources {} {}).stdout :=
  fixpoint_sources orc (some o) sep hsep hne sources hcl
    (fun ctx hctx => printable_of_pv h17 o ho _ (ctxsOfSources_pv _ _ _ ctx hctx))

/-- the same for input bytes on stdin -/
theorem fixpoint_all_stdin (h17 : Ser.H17) (orc : Oracles) (o : JsonOpts) (ho : o.utf8Strings = true) (sep : Str)
    (hsep : WsSep sep) (hne : sep ≠ []) (input : List Byte) :
    let c := outCfg (some o) sep
    let out1 := (run orc c [⟨none, cleanInput input⟩] {} {}).stdout
    (run orc c [⟨none, cleanInput out1⟩] {} {}).stdout = out1 :=
  fixpoint_all h17 orc o ho sep hsep hne _ (cleanIO_stdin_bytes input)

/-! ### non-vacuity and the counter-example for separators that are not white space -/

example : WsSep ['\n'] ∧ ['\n'] ≠ [] := ⟨by intro ch h; simp at h; subst h; simp, by simp⟩

/-- `1 2` → `1\n2\n` -/
example (orc : Oracles) :
    (run orc (outCfg none ['\n']) [⟨none, cleanInput [49, 32, 50]⟩] {} {}).stdout = [49, 10, 50, 10] := by
  rw [stdout_output_only orc none _ _ (cleanIO_stdin_bytes _)]
  decide +kernel

/-- `1\n2\n` → `1\n2\n` -/
example (orc : Oracles) :
    (run orc (outCfg none ['\n']) [⟨none, cleanInput [49, 10, 50, 10]⟩] {} {}).stdout = [49, 10, 50, 10] := by
  rw [stdout_output_only orc none _ _ (cleanIO_stdin_bytes _)]
  decide +kernel

/-- counter-example: with the separator `0` (not white space) the output of `1 2` is `1020`, which jawk reads as
one number and prints as `10200` -/
example (orc : Oracles) :
    (run orc (outCfg none ['0']) [⟨none, cleanInput [49, 32, 50]⟩] {} {}).stdout = [49, 48, 50, 48] ∧
    (run orc (outCfg none ['0']) [⟨none, cleanInput [49, 48, 50, 48]⟩] {} {}).stdout = [49, 48, 50, 48, 48] := by
  rw [stdout_output_only orc none _ _ (cleanIO_stdin_bytes _), stdout_output_only orc none _ _ (cleanIO_stdin_bytes _)]
  decide +kernel


/-- counter-example for ASCII string output (`utf8Strings = false`) and characters outside the BMP: the string
`"\u{D8000}"` (raw UTF-8 on input) is written `"\ud8000"`; read back, `\ud800` is a lone surrogate, the region is
skipped, and the second run writes `0`.  Hence `fixpoint_all` needs `utf8Strings` (or `StrOK`: no such character). -/
example (orc : Oracles) :
    (run orc (outCfg none ['\n']) [⟨none, cleanInput [34, 0xF3, 0x98, 0x80, 0x80, 34]⟩] {} {}).stdout
      = [34, 92, 117, 100, 56, 48, 48, 48, 34, 10] ∧
    (run orc (outCfg none ['\n']) [⟨none, cleanInput [34, 92, 117, 100, 56, 48, 48, 48, 34, 10]⟩] {} {}).stdout
      = [48, 10] := by
  rw [stdout_output_only orc none _ _ (cleanIO_stdin_bytes _), stdout_output_only orc none _ _ (cleanIO_stdin_bytes _)]
  decide +kernel

/-- non-vacuity of `fixpoint`: all hypotheses hold for the input `1 2` -/
example (orc : Oracles) :
    let out1 := (run orc (outCfg none ['\n']) [⟨none, cleanInput [49, 32, 50]⟩] {} {}).stdout
    (run orc (outCfg none ['\n']) [⟨none, cleanInput out1⟩] {} {}).stdout = out1 := by
  apply fixpoint orc none ['\n'] (by intro ch h; simp at h; subst h; simp) (by simp) _ (cleanInput_clean _)
  intro ctx hctx
  have hv : (ctxsOf (outCfg none ['\n']) ((cleanInput [49, 32, 50]).length + 2)
      (Reader.ofItems (cleanInput [49, 32, 50]) none) 0 0).map (·.input) = [.num (.pos 1), .num (.pos 2)] := by
    rfl
  have hm := List.mem_map_of_mem (f := (·.input)) hctx
  rw [hv] at hm
  simp only [List.mem_cons, List.not_mem_nil, or_false] at hm
  rcases hm with h | h <;> rw [h] <;> exact ⟨by show _ < 2 ^ 64; decide, by simp [norm, normNum]⟩


/-! ## Part 2 — concatenation as bytes (C11)

### item 4: the rows of `A ++ B` -/

/-- append white space to the last token of a gap -/
def toksSnocWs : List (List Byte × List Byte) → List Byte → List (List Byte × List Byte)
  | [], _ => []
  | [t], w => [(t.1, t.2 ++ w)]
  | t :: u :: rest, w => t :: toksSnocWs (u :: rest) w

theorem toksBytes_cons (t : List Byte × List Byte) (ts : List (List Byte × List Byte)) :
    toksBytes (t :: ts) = t.1 ++ t.2 ++ toksBytes ts := by
  simp [toksBytes]

theorem toksBytes_append (a b : List (List Byte × List Byte)) : toksBytes (a ++ b) = toksBytes a ++ toksBytes b := by
  simp [toksBytes]

theorem toksBytes_snocWs : ∀ (toks : List (List Byte × List Byte)), toks ≠ [] → ∀ w : List Byte,
    toksBytes (toksSnocWs toks w) = toksBytes toks ++ w
  | [], h, _ => absurd rfl h
  | [t], _, w => by simp [toksSnocWs, toksBytes]
  | t :: u :: rest, _, w => by
    rw [toksSnocWs, toksBytes_cons, toksBytes_snocWs (u :: rest) (by simp) w, toksBytes_cons t]
    simp only [List.append_assoc]

theorem toksSnocWs_ok : ∀ (toks : List (List Byte × List Byte)) (w : List Byte), (∀ b ∈ w, isWs b = true) →
    (∀ t ∈ toks, t.1 ≠ [] ∧ (∀ b ∈ t.1, Garbage b = true) ∧ (∀ b ∈ t.2, isWs b = true)) →
    ∀ t ∈ toksSnocWs toks w, t.1 ≠ [] ∧ (∀ b ∈ t.1, Garbage b = true) ∧ (∀ b ∈ t.2, isWs b = true)
  | [], _, _, _ => by intro t ht; cases ht
  | [t], w, hw, h => by
    intro t' ht'
    simp only [toksSnocWs, List.mem_singleton] at ht'
    subst ht'
    obtain ⟨h1, h2, h3⟩ := h t (by simp)
    exact ⟨h1, h2, ws_append h3 hw⟩
  | t :: u :: rest, w, hw, h => by
    intro t' ht'
    rw [toksSnocWs] at ht'
    rcases List.mem_cons.mp ht' with rfl | ht'
    · exact h _ (by simp)
    · exact toksSnocWs_ok (u :: rest) w hw (fun x hx => h x (List.mem_cons_of_mem _ hx)) t' ht'

/-- two gaps one after the other, as one gap -/
def gapAppend (g1 g2 : Gap) : Gap :=
  match g1.toks with
  | [] => { ws := g1.ws ++ g2.ws, toks := g2.toks }
  | t :: ts => { ws := g1.ws, toks := toksSnocWs (t :: ts) g2.ws ++ g2.toks }

theorem gapAppend_bytes (g1 g2 : Gap) : (gapAppend g1 g2).bytes = g1.bytes ++ g2.bytes := by
  obtain ⟨ws1, toks1⟩ := g1
  cases toks1 with
  | nil => simp [gapAppend, Gap.bytes, toksBytes]
  | cons t ts =>
    simp only [gapAppend, Gap.bytes, toksBytes_append, toksBytes_snocWs (t :: ts) (by simp), List.append_assoc]

theorem gapAppend_ok {g1 g2 : Gap} (h1 : g1.OK) (h2 : g2.OK) : (gapAppend g1 g2).OK := by
  obtain ⟨ws1, toks1⟩ := g1
  cases toks1 with
  | nil => exact ⟨ws_append h1.1 h2.1, h2.2⟩
  | cons t ts =>
    refine ⟨h1.1, ?_⟩
    intro t' ht'
    simp only [gapAppend, List.mem_append] at ht'
    rcases ht' with ht' | ht'
    · exact toksSnocWs_ok (t :: ts) g2.ws h2.1 h1.2 t' ht'
    · exact h2.2 t' ht'

theorem gapAppend_ws_left {g1 : Gap} (g2 : Gap) (h : g1.ws ≠ []) : (gapAppend g1 g2).ws ≠ [] := by
  obtain ⟨ws1, toks1⟩ := g1
  cases toks1 with
  | nil =>
    simp only [gapAppend]
    intro e
    exact h (List.append_eq_nil_iff.mp e).1
  | cons t ts => exact h

theorem gapAppend_ws_right {g1 g2 : Gap} (h1 : g1.toks = []) (h : g2.ws ≠ []) : (gapAppend g1 g2).ws ≠ [] := by
  obtain ⟨ws1, toks1⟩ := g1
  simp only at h1
  subst h1
  simp only [gapAppend]
  intro e
  exact h (List.append_eq_nil_iff.mp e).2

/-- the gap of the last item followed by `gB` -/
def joinItems : List (JV × Gap) → Gap → List (JV × Gap)
  | [], _ => []
  | [x], gB => [(x.1, gapAppend x.2 gB)]
  | x :: y :: rest, gB => x :: joinItems (y :: rest) gB

/-- the stream `A ++ B` as (first gap, items): the last gap of `A` and the first gap of `B` are merged -/
def joined (gA : Gap) (itemsA : List (JV × Gap)) (gB : Gap) (itemsB : List (JV × Gap)) : Gap × List (JV × Gap) :=
  match itemsA with
  | [] => (gapAppend gA gB, itemsB)
  | x :: rest => (gA, joinItems (x :: rest) gB ++ itemsB)

theorem joinItems_bytes (o : JsonOpts) : ∀ (items : List (JV × Gap)), items ≠ [] → ∀ gB : Gap,
    (joinItems items gB).flatMap (fun x => utf8 (printJson o x.1) ++ x.2.bytes)
      = items.flatMap (fun x => utf8 (printJson o x.1) ++ x.2.bytes) ++ gB.bytes
  | [], h, _ => absurd rfl h
  | [x], _, gB => by simp [joinItems, gapAppend_bytes]
  | x :: y :: rest, _, gB => by
    rw [joinItems, List.flatMap_cons, joinItems_bytes o (y :: rest) (by simp) gB]
    simp only [List.flatMap_cons, List.append_assoc]

theorem joinItems_values : ∀ (items : List (JV × Gap)) (gB : Gap),
    (joinItems items gB).map (·.1) = items.map (·.1)
  | [], _ => rfl
  | [x], _ => rfl
  | x :: y :: rest, gB => by
    rw [joinItems, List.map_cons, joinItems_values (y :: rest) gB]
    rfl

/-- the bytes of the joined stream are the bytes of `A` followed by the bytes of `B` -/
theorem stream_joined (o : JsonOpts) (gA : Gap) (itemsA : List (JV × Gap)) (gB : Gap) (itemsB : List (JV × Gap)) :
    stream o (joined gA itemsA gB itemsB).1 (joined gA itemsA gB itemsB).2
      = stream o gA itemsA ++ stream o gB itemsB := by
  cases itemsA with
  | nil => simp [joined, stream, gapAppend_bytes]
  | cons x rest =>
    simp only [joined, stream, List.flatMap_append, joinItems_bytes o (x :: rest) (by simp) gB, List.append_assoc]

theorem joined_values (gA : Gap) (itemsA : List (JV × Gap)) (gB : Gap) (itemsB : List (JV × Gap)) :
    (joined gA itemsA gB itemsB).2.map (·.1) = itemsA.map (·.1) ++ itemsB.map (·.1) := by
  cases itemsA with
  | nil => rfl
  | cons x rest => simp only [joined, List.map_append, joinItems_values]

/-- the last gap of the stream starts with white space (true of the empty item list) -/
def EndsWs : List (JV × Gap) → Prop
  | [] => True
  | [x] => x.2.ws ≠ []
  | _ :: y :: rest => EndsWs (y :: rest)

theorem joinItems_ok (o : JsonOpts) (gB : Gap) (hB0 : gB.OK) (itemsB : List (JV × Gap)) (hB : ItemsOK o itemsB) :
    ∀ (itemsA : List (JV × Gap)), itemsA ≠ [] → ItemsOK o itemsA → (gB.ws ≠ [] ∨ EndsWs itemsA) →
      ItemsOK o (joinItems itemsA gB ++ itemsB)
  | [], h, _, _ => absurd rfl h
  | [(v, g)], _, hA, hsep => by
    obtain ⟨hv, hg, hs, _⟩ := hA
    refine ⟨hv, gapAppend_ok hg hB0, .inl ?_, hB⟩
    by_cases hw : g.ws = []
    · rcases hs with hs | ⟨hs, _⟩
      · exact absurd hw hs
      · rcases hsep with hsep | hsep
        · exact gapAppend_ws_right hs hsep
        · exact absurd hw hsep
    · exact gapAppend_ws_left gB hw
  | (v, g) :: y :: rest, _, hA, hsep => by
    obtain ⟨hv, hg, hs, hrest⟩ := hA
    have hs' : g.ws ≠ [] := by
      rcases hs with hs | ⟨_, hs⟩
      · exact hs
      · cases hs
    have ih := joinItems_ok o gB hB0 itemsB hB (y :: rest) (by simp) hrest
      (by rcases hsep with hsep | hsep
          · exact .inl hsep
          · exact .inr hsep)
    exact ⟨hv, hg, .inl hs', ih⟩

/-- the joined stream is well formed as soon as white space separates `A` from `B` -/
theorem joined_ok (o : JsonOpts) (gA : Gap) (itemsA : List (JV × Gap)) (gB : Gap) (itemsB : List (JV × Gap))
    (hA0 : gA.OK) (hA : ItemsOK o itemsA) (hB0 : gB.OK) (hB : ItemsOK o itemsB)
    (hsep : gB.ws ≠ [] ∨ EndsWs itemsA) :
    (joined gA itemsA gB itemsB).1.OK ∧ ItemsOK o (joined gA itemsA gB itemsB).2 := by
  cases itemsA with
  | nil => exact ⟨gapAppend_ok hA0 hB0, hB⟩
  | cons x rest => exact ⟨hA0, joinItems_ok o gB hB0 itemsB hB (x :: rest) (by simp) hA hsep⟩

theorem applyOnlyObj_append (c : Cfg) (a b : List JV) :
    applyOnlyObj c (a ++ b) = applyOnlyObj c a ++ applyOnlyObj c b := by
  simp [applyOnlyObj]

theorem number_append (i k : Nat) (a b : List JV) :
    number i k (a ++ b) = number i k a ++ number (i + a.length) (k + a.length) b := by
  induction a generalizing i k with
  | nil => rfl
  | cons v a ih =>
    simp only [List.cons_append, number, ih, List.length_cons]
    congr 3 <;> omega

/-- **ctxs_concat.**  `A` and `B` are two streams of printed values (any gaps, noise included) with white space
between them (`B` starts with white space or `A` ends in its white-space run).  The rows read from `A ++ B` are
the rows of `A` followed by the rows of `B`: same values, ordinals (`index`, `index-in-file`) running on, same
file name; they differ from the rows of the separate streams in line/column only. -/
theorem ctxs_concat (c : Cfg) (o : JsonOpts) (gA : Gap) (itemsA : List (JV × Gap)) (gB : Gap)
    (itemsB : List (JV × Gap)) (hA0 : gA.OK) (hA : ItemsOK o itemsA) (hB0 : gB.OK) (hB : ItemsOK o itemsB)
    (hsep : gB.ws ≠ [] ∨ EndsWs itemsA) (name : Option Str) (fA fB fAB : Nat)
    (hfA : (stream o gA itemsA).length + 2 ≤ fA) (hfB : (stream o gB itemsB).length + 2 ≤ fB)
    (hfAB : (stream o gA itemsA ++ stream o gB itemsB).length + 2 ≤ fAB) (i k : Nat) :
    let rowsA := ctxsOf c fA (Reader.ofBytes (stream o gA itemsA) name) i k
    let rowsB := ctxsOf c fB (Reader.ofBytes (stream o gB itemsB) name) (i + rowsA.length) (k + rowsA.length)
    let rowsAB := ctxsOf c fAB (Reader.ofBytes (stream o gA itemsA ++ stream o gB itemsB) name) i k
    rowsAB.map (·.input) = rowsA.map (·.input) ++ rowsB.map (·.input)
    ∧ rowsAB.map posFree = rowsA.map posFree ++ rowsB.map posFree
    ∧ rowsAB.map erase = rowsA.map erase ++ rowsB.map erase := by
  intro rowsA rowsB rowsAB
  obtain ⟨hJ0, hJ⟩ := joined_ok o gA itemsA gB itemsB hA0 hA hB0 hB hsep
  have eAB := noisy_rows c o _ _ hJ0 hJ name fAB (by rw [stream_joined]; exact hfAB) i k
  rw [stream_joined, joined_values, List.map_append, applyOnlyObj_append] at eAB
  have eA := noisy_rows c o gA itemsA hA0 hA name fA hfA i k
  have eB := noisy_rows c o gB itemsB hB0 hB name fB hfB (i + rowsA.length) (k + rowsA.length)
  have hlen : rowsA.length = (applyOnlyObj c ((itemsA.map (·.1)).map norm)).length := by
    have := congrArg List.length eA.1
    simpa using this
  refine ⟨?_, ?_, ?_⟩
  · show List.map _ (ctxsOf _ _ _ _ _) = _
    rw [eAB.1, eA.1, eB.1]
  · show List.map _ (ctxsOf _ _ _ _ _) = _
    rw [eAB.2, eA.2, eB.2, number_append, hlen]
  · show List.map _ (ctxsOf _ _ _ _ _) = _
    rw [ctxsOf_erase, ctxsOf_erase, ctxsOf_erase, eAB.1, eA.1, eB.1, number_append, List.map_append, hlen,
      ofBytes_name, ofBytes_name, ofBytes_name]


/-! ### item 5: a stateless chain that reads neither positions nor ordinals

`erase'` zeroes line, column AND the two ordinals of a row (the file name is kept).  The lemmas below are those of
`Noise` (`HypE … eval_erase`) for `erase'`: `callFn` hands its context to the evaluator only through
`withInput` / `withVariable` / `withDefinition`, which commute with `erase'`. -/

def eraseI' (ic : InputCtx) : InputCtx :=
  { startLoc := eraseLoc ic.startLoc, endLoc := eraseLoc ic.endLoc, fileIndex := 0, index := 0 }

/-- a row without line/column and without ordinals (file name kept) -/
def erase' (x : Ctx) : Ctx := { x with ictx := x.ictx.map eraseI' }

mutual
/-- the expression reads no position and no ordinal: its only input-context node is `&file-name`, and it does
not call `parse_selection` -/
def NoOrd : Expr → Bool
  | .ictx k => k == .fileName
  | .call fn args => fn != "parse_selection" && NoOrdList args
  | _ => true
def NoOrdList : List Expr → Bool
  | [] => true
  | e :: es => NoOrd e && NoOrdList es
end

theorem noOrdList_iff (l : List Expr) : NoOrdList l = true ↔ ∀ e ∈ l, NoOrd e = true := by
  induction l with
  | nil => simp [NoOrdList]
  | cons x xs ih => simp [NoOrdList, ih]

/-- an expression without ordinals is in particular position free -/
theorem noPos_of_noOrd : ∀ (e : Expr), NoOrd e = true → NoPos e = true
  | .ictx k, h => by
    have : k = .fileName := by simpa [NoOrd] using h
    subst this; rfl
  | .call fn args, h => by
    simp only [NoOrd, Bool.and_eq_true] at h
    simp only [NoPos, Bool.and_eq_true]
    exact ⟨h.1, noPosList_of_noOrdList args h.2⟩
  | .extract _ _, _ => rfl
  | .const _, _ => rfl
  | .var _, _ => rfl
  | .macro _, _ => rfl
  | .selected _, _ => rfl
where
  noPosList_of_noOrdList : ∀ (l : List Expr), NoOrdList l = true → NoPosList l = true
  | [], _ => rfl
  | e :: es, h => by
    simp only [NoOrdList, Bool.and_eq_true] at h
    simp only [NoPosList, Bool.and_eq_true]
    exact ⟨noPos_of_noOrd e h.1, noPosList_of_noOrdList es h.2⟩

def DefsNoOrd (defs : List (Str × Expr)) : Prop := ∀ p ∈ defs, NoOrd p.2 = true

theorem defsNoOrd_nil : DefsNoOrd [] := fun _ h => by cases h

def OrdIndep (ev : Expr → Ctx → Option JV) (e : Expr) : Prop :=
  ∀ x : Ctx, DefsNoOrd x.defs → ev e (erase' x) = ev e x

theorem ictx_get_erase' (k : ICtxKind) (hk : k = .fileName) (x : Ctx) :
    (erase' x).ictx.bind k.get = x.ictx.bind k.get := by
  subst hk
  cases hx : x.ictx with
  | none => simp [erase', hx]
  | some ic => simp [erase', hx, eraseI', eraseLoc, ICtxKind.get]

section EvalErase
/-- local hypotheses on the evaluator handed to a function body: it does not see the erasure -/
structure HypE' (ev : Ev) (fn : String) (args : List Expr) (x : Ctx) : Prop where
  arg : ∀ e ∈ args, ∀ c : Ctx, c.defs = x.defs → ev e (erase' c) = ev e c
  defn : fn = "define" → ∀ e ∈ args, ∀ n, ∀ d ∈ args, ev e (erase' (x.withDefinition n d)) = ev e (x.withDefinition n d)
  mac : fn = "@" → ∀ n d, x.getDefinition n = some d → ev d (erase' x) = ev d x
  parsed : fn ≠ "parse_selection"

theorem erase'_withVariable (x : Ctx) (n : Str) (v : JV) : (erase' x).withVariable n v = erase' (x.withVariable n v) := rfl
theorem erase'_withDefinition (x : Ctx) (n : Str) (d : Expr) : (erase' x).withDefinition n d = erase' (x.withDefinition n d) := rfl
theorem erase'_withInput' (x : Ctx) (v : JV) : (erase' x).withInput v = erase' (x.withInput v) := rfl
theorem erase'_input (x : Ctx) : (erase' x).input = x.input := rfl
theorem erase'_getVariable (x : Ctx) (n : Str) : (erase' x).getVariable n = x.getVariable n := rfl
theorem erase'_getDefinition (x : Ctx) (n : Str) : (erase' x).getDefinition n = x.getDefinition n := rfl
variable {ev : Ev} {fn : String} {args : List Expr} {x : Ctx}

theorem applyArg_erase' (H : HypE' ev fn args x) (c : Ctx) (hc : c.defs = x.defs) (i : Nat) :
    applyArg ev args (erase' c) i = applyArg ev args c i := by
  unfold applyArg
  split
  · next e h => exact H.arg e (List.mem_of_getElem? h) c hc
  · rfl

theorem applyArg_erase'_def (H : HypE' ev fn args x) (hfn : fn = "define") (n : Str) (d : Expr) (hd : d ∈ args) (i : Nat) :
    applyArg ev args (erase' (x.withDefinition n d)) i = applyArg ev args (x.withDefinition n d) i := by
  unfold applyArg
  split
  · next e h => exact H.defn hfn e (List.mem_of_getElem? h) n d hd
  · rfl

theorem foldArgs_erase' {σ} (H : HypE' ev fn args x) (step : σ → Option JV → Except Abort (Sum (Option JV) σ))
    (fin : σ → Option JV) (s : σ) :
    foldArgs ev (erase' x) step fin args s = foldArgs ev x step fin args s := by
  have gen : ∀ (es : List Expr), (∀ e ∈ es, e ∈ args) → ∀ s,
      foldArgs ev (erase' x) step fin es s = foldArgs ev x step fin es s := by
    intro es
    induction es with
    | nil => intro _ s; rfl
    | cons e es ih =>
      intro hsub s
      unfold foldArgs
      rw [H.arg e (hsub e (by simp)) x rfl]
      congr 1
      funext v
      congr 1
      funext r
      split
      · rfl
      · exact ih (fun e he => hsub e (by simp [he])) _
  exact gen args (fun _ h => h) s

theorem go_erase' (H : HypE' ev fn args x) (c : Ctx) (hc : c.defs = x.defs) :
    callBasic.go ev (erase' c) args = callBasic.go ev c args := by
  have gen : ∀ (es : List Expr), (∀ e ∈ es, e ∈ args) → ∀ c : Ctx, c.defs = x.defs →
      callBasic.go ev (erase' c) es = callBasic.go ev c es := by
    intro es
    induction es with
    | nil => intro _ c _; rfl
    | cons e es ih =>
      intro hsub c hc
      unfold callBasic.go
      rw [H.arg e (hsub e (by simp)) c hc]
      congr 1
      funext v
      split
      · exact ih (fun e he => hsub e (by simp [he])) (c.withInput _) hc
      · rfl
  exact gen args (fun _ h => h) c hc

theorem callBasic_erase' (H : HypE' ev fn args x) :
    callBasic ev fn args (erase' x) = callBasic ev fn args x := by
  unfold callBasic
  simp only [erase'_withVariable, erase'_withDefinition, erase'_withInput', erase'_input, erase'_getVariable,
    erase'_getDefinition, applyArg_erase' H _ rfl, foldArgs_erase' H, go_erase' H (x.withInput x.input) rfl,
    applyArg_erase' H _ (withVariable_defs _ _ _)]
  split
  all_goals first
    | rfl
    | skip
  · congr 2
    funext v
    cases strArg v with
    | none => rfl
    | some n =>
      dsimp only
      cases hd : x.getDefinition n with
      | none => rfl
      | some d => exact H.mac rfl n d hd
  · congr 2
    funext v
    cases strArg v with
    | none => cases args[1]? <;> rfl
    | some n =>
      cases hd : args[1]? with
      | none => rfl
      | some d => exact applyArg_erase'_def H rfl n d (List.mem_of_getElem? hd) 2

theorem mapM'_args_erase' (H : HypE' ev fn args x) :
    mapM' (fun e => ev e (erase' x)) args = mapM' (fun e => ev e x) args :=
  mapM'_congr args (fun e he => H.arg e he x rfl)

theorem mapM'_drop_erase' (H : HypE' ev fn args x) (n : Nat) :
    mapM' (fun e => ev e (erase' x)) (args.drop n) = mapM' (fun e => ev e x) (args.drop n) :=
  mapM'_congr _ (fun e he => H.arg e (List.mem_of_mem_drop he) x rfl)

theorem foldGo_erase' (H : HypE' ev fn args x) (f : Expr) (hf : f ∈ args) (l : List JV) (cur : Option JV) (idx : Nat) :
    callList.foldGo ev (erase' x) f cur idx l = callList.foldGo ev x f cur idx l := by
  induction l generalizing cur idx with
  | nil => rfl
  | cons v vs ih =>
    unfold callList.foldGo
    dsimp only
    rw [erase'_withInput', H.arg f hf _ (withInput_defs _ _)]
    congr 1
    funext next
    exact ih _ _

macro "erase_simp2" H:ident : tactic => `(tactic|
  simp only [erase'_withVariable, erase'_withDefinition, erase'_withInput', erase'_input, erase'_getVariable,
    erase'_getDefinition, applyArg_erase' $H _ rfl, foldArgs_erase' $H,
    applyArg_erase' $H _ (withVariable_defs _ _ _), applyArg_erase' $H _ (withInput_defs _ _),
    mapM'_args_erase' $H, mapM'_drop_erase' $H])

theorem callList_erase' (H : HypE' ev fn args x) :
    callList ev fn args (erase' x) = callList ev fn args x := by
  unfold callList
  erase_simp2 H
  split
  all_goals first
    | rfl
    | skip
  congr 2
  funext v
  cases v with
  | none => rfl
  | some j =>
    cases j <;> first
      | rfl
      | (dsimp only
         congr 1
         funext init
         cases hf : (if args.length > 2 then args[2]? else args[1]?) with
         | none => rfl
         | some f =>
           have hmem : f ∈ args := by
             split at hf <;> exact List.mem_of_getElem? hf
           exact foldGo_erase' H f hmem _ _ _)

theorem callObject_erase' (H : HypE' ev fn args x) :
    callObject ev fn args (erase' x) = callObject ev fn args x := by
  unfold callObject
  erase_simp2 H

theorem callNumber_erase' (H : HypE' ev fn args x) :
    callNumber ev fn args (erase' x) = callNumber ev fn args x := by
  unfold callNumber
  erase_simp2 H

theorem callString_erase' (orc : Oracles) (H : HypE' ev fn args x) :
    callString ev orc fn args (erase' x) = callString ev orc fn args x := by
  unfold callString
  erase_simp2 H
  split
  all_goals first
    | rfl
    | exact absurd rfl H.parsed

theorem callNas_erase' (orc : Oracles) (H : HypE' ev fn args x) :
    callNas ev orc fn args (erase' x) = callNas ev orc fn args x := by
  unfold callNas
  erase_simp2 H

theorem callFn_erase' (orc : Oracles) (H : HypE' ev fn args x) :
    callFn ev orc fn args (erase' x) = callFn ev orc fn args x := by
  unfold callFn
  rw [callBasic_erase' H, callList_erase' H, callObject_erase' H, callNumber_erase' H, callString_erase' orc H,
    callNas_erase' orc H]

theorem DefsNoOrd.lookup {defs : List (Str × Expr)} (h : DefsNoOrd defs) {n : Str} {d : Expr}
    (hd : Ctx.lookup defs n = some d) : NoOrd d = true := by
  obtain ⟨k, hk⟩ := lookup_mem defs n d hd
  exact h _ hk

/-- **eval_erase'.**  A `NoOrd` expression evaluates to the same result (value, nothing, or abort) whatever the
line/column and ordinals of the row, provided the macros in scope are `NoOrd` too — at every fuel, for every oracle. -/
theorem eval_erase' (orc : Oracles) (fuel : Nat) (e : Expr) (x : Ctx) (he : NoOrd e = true)
    (hd : DefsNoOrd x.defs) : eval orc fuel e (erase' x) = eval orc fuel e x := by
  induction fuel generalizing e x with
  | zero => rfl
  | succ fuel ih =>
    cases e with
    | extract p s => rfl
    | const v => rfl
    | var n => rfl
    | selected n => rfl
    | ictx k =>
      have hk : k = .fileName := by simpa [NoOrd] using he
      simp only [eval, ictx_get_erase' k hk x]
    | «macro» n =>
      simp only [eval, erase'_getDefinition]
      cases hg : x.getDefinition n with
      | none => rfl
      | some d => exact ih d x (hd.lookup hg) hd
    | call fn args =>
      simp only [NoOrd, Bool.and_eq_true, bne_iff_ne, ne_eq, noOrdList_iff] at he
      simp only [eval]
      apply callFn_erase'
      refine ⟨?_, ?_, ?_, he.1⟩
      · intro a ha c hc
        exact ih a c (he.2 a ha) (by rw [hc]; exact hd)
      · intro _ a ha n d hdm
        refine ih a _ (he.2 a ha) ?_
        intro p hp
        rcases List.mem_cons.mp hp with rfl | hp
        · exact he.2 d hdm
        · exact hd p hp
      · intro _ n d hg
        exact ih d x (hd.lookup hg) hd

/-- a `NoOrd` expression is position independent, for every oracle -/
theorem ordIndep_of_noOrd (orc : Oracles) (e : Expr) (h : NoOrd e = true) : OrdIndep (evalT orc) e := by
  intro x hx
  simp only [evalT, eval_erase' orc evalFuel e x h hx]

end EvalErase

/-- no expression of the chain, and no macro a `--set @name=…` defines, reads a position or an ordinal -/
def ChainOrdIndep (ev : Expr → Ctx → Option JV) (cfgs : List StageCfg) : Prop :=
  (∀ c ∈ cfgs, ∀ e ∈ stageExprs c, OrdIndep ev e) ∧
  (∀ vars defs, StageCfg.preset vars defs ∈ cfgs → DefsNoOrd defs)

def RowsOK' (rows : List Ctx) : Prop := ∀ x ∈ rows, DefsNoOrd x.defs

theorem RowsOK'.tail {x : Ctx} {rows : List Ctx} (h : RowsOK' (x :: rows)) : RowsOK' rows :=
  fun y hy => h y (List.mem_cons_of_mem _ hy)

theorem RowsOK'.head {x : Ctx} {rows : List Ctx} (h : RowsOK' (x :: rows)) : DefsNoOrd x.defs :=
  h x List.mem_cons_self

theorem sinkBytes_erase' (sink : SinkCfg) (n : Nat) (x : Ctx) :
    sinkBytes sink n (erase' x) = sinkBytes sink n x := by
  cases sink <;> rfl

/-- a per-row stage commutes with erasing positions and ordinals -/
theorem stageSpec_erase' (ev : Expr → Ctx → Option JV) (c : StageCfg) (cap : Option Nat)
    (hst : StageCfg.stateless c = true)
    (hc : ∀ e ∈ stageExprs c, OrdIndep ev e) (rows : List Ctx) (hrows : RowsOK' rows) :
    stageSpec ev c cap (rows.map erase') = (stageSpec ev c cap rows).map erase' := by
  cases c with
  | preset vars defs =>
    simp only [stageSpec, List.map_map]
    rfl
  | split e =>
    have he := hc e (by simp [stageExprs])
    simp only [stageSpec]
    induction rows with
    | nil => rfl
    | cons x rows ih =>
      simp only [List.map_cons, List.flatMap_cons, List.map_append, ih hrows.tail, he x hrows.head]
      congr 1
      cases ev e x with
      | none => rfl
      | some v =>
        cases v <;> first | rfl | (simp only [List.map_map]; rfl)
  | filter e =>
    have he := hc e (by simp [stageExprs])
    simp only [stageSpec]
    induction rows with
    | nil => rfl
    | cons x rows ih =>
      simp only [List.map_cons, List.filter_cons, he x hrows.head, ih hrows.tail]
      split <;> rfl
  | select name e =>
    have he := hc e (by simp [stageExprs])
    simp only [stageSpec, List.map_map]
    apply List.map_congr_left
    intro x hx
    simp only [Function.comp, he x (hrows x hx)]
    rfl
  | unique => exact absurd hst (by simp [StageCfg.stateless])
  | sort key desc => exact absurd hst (by simp [StageCfg.stateless])
  | limit skip take => exact absurd hst (by simp [StageCfg.stateless])
  | group e => exact absurd hst (by simp [StageCfg.stateless])
  | merge => exact absurd hst (by simp [StageCfg.stateless])

theorem stageSpec_rowsOK' (ev : Expr → Ctx → Option JV) (c : StageCfg) (cap : Option Nat)
    (hst : StageCfg.stateless c = true)
    (hp : ∀ vars defs, c = .preset vars defs → DefsNoOrd defs) (rows : List Ctx) (hrows : RowsOK' rows) :
    RowsOK' (stageSpec ev c cap rows) := by
  cases c with
  | preset vars defs =>
    intro y hy
    simp only [stageSpec, List.mem_map] at hy
    obtain ⟨x, _, rfl⟩ := hy
    exact hp vars defs rfl
  | split e =>
    intro y hy
    simp only [stageSpec, List.mem_flatMap] at hy
    obtain ⟨x, hx, hy⟩ := hy
    cases hv : ev e x with
    | none => simp [hv] at hy
    | some v =>
      cases v <;> simp only [hv, List.not_mem_nil] at hy
      obtain ⟨w, _, rfl⟩ := List.mem_map.mp hy
      exact hrows x hx
  | filter e =>
    intro y hy
    exact hrows y (List.filter_sublist.subset hy)
  | select name e =>
    intro y hy
    simp only [stageSpec, List.mem_map] at hy
    obtain ⟨x, hx, rfl⟩ := hy
    exact hrows x hx
  | unique => exact absurd hst (by simp [StageCfg.stateless])
  | sort key desc => exact absurd hst (by simp [StageCfg.stateless])
  | limit skip take => exact absurd hst (by simp [StageCfg.stateless])
  | group e => exact absurd hst (by simp [StageCfg.stateless])
  | merge => exact absurd hst (by simp [StageCfg.stateless])

/-- the composition of per-row stages commutes with erasing positions and ordinals -/
theorem specRows_erase' (ev : Expr → Ctx → Option JV) (cfgs : List StageCfg) (sts : List StageSt)
    (hst : ∀ c ∈ cfgs, StageCfg.stateless c = true)
    (h : ChainOrdIndep ev cfgs) (rows : List Ctx) (hrows : RowsOK' rows) :
    specRows ev cfgs sts (rows.map erase') = (specRows ev cfgs sts rows).map erase' := by
  induction cfgs generalizing sts rows with
  | nil => simp [specRows]
  | cons c cs ih =>
    cases sts with
    | nil => simp [specRows]
    | cons st sts =>
      simp only [specRows]
      rw [stageSpec_erase' ev c _ (hst c (by simp)) (h.1 c (by simp)) rows hrows]
      exact ih sts (fun c' hc' => hst c' (by simp [hc']))
        ⟨fun c' hc' => h.1 c' (by simp [hc']), fun v d hd => h.2 v d (by simp [hd])⟩ _
        (stageSpec_rowsOK' ev c _ (hst c (by simp)) (fun v d hcd => h.2 v d (by simp [hcd])) rows hrows)

/-- **specRows_congr_ord.**  For a chain of per-row stages none of whose expressions (or macros) reads a position
or an ordinal, the bytes written depend on the rows only through their values and file names. -/
theorem specRows_congr_ord (ev : Expr → Ctx → Option JV) (cfgs : List StageCfg) (sts : List StageSt)
    (sink : SinkCfg) (n : Nat) (hst : ∀ c ∈ cfgs, StageCfg.stateless c = true)
    (h : ChainOrdIndep ev cfgs) (rows₁ rows₂ : List Ctx)
    (h₁ : RowsOK' rows₁) (h₂ : RowsOK' rows₂) (heq : rows₁.map erase' = rows₂.map erase') :
    (specRows ev cfgs sts rows₁).flatMap (sinkBytes sink n)
      = (specRows ev cfgs sts rows₂).flatMap (sinkBytes sink n) := by
  have key : ∀ rows : List Ctx, rows.flatMap (sinkBytes sink n) = (rows.map erase').flatMap (sinkBytes sink n) := by
    intro rows
    induction rows with
    | nil => rfl
    | cons x rows ih => simp only [List.map_cons, List.flatMap_cons, sinkBytes_erase', ih]
  rw [key (specRows ev cfgs sts rows₁), key (specRows ev cfgs sts rows₂),
    ← specRows_erase' ev cfgs sts hst h _ h₁, ← specRows_erase' ev cfgs sts hst h _ h₂, heq]

/-- the decidable check: every stage expression and every `--set @name=…` macro is `NoOrd`
(`chainNoPos` plus: no `&index` / `&index-in-file` node) -/
def chainNoOrd : List StageCfg → Bool
  | [] => true
  | c :: cs =>
    NoOrdList (stageExprs c) &&
    (match c with
      | .preset _ defs => NoOrdList (defs.map (·.2))
      | _ => true) && chainNoOrd cs

theorem noPosList_of_noOrdList (l : List Expr) (h : NoOrdList l = true) : NoPosList l = true :=
  (noPosList_iff l).mpr (fun e he => noPos_of_noOrd e ((noOrdList_iff l).mp h e he))

/-- `chainNoOrd` is `chainNoPos` and more -/
theorem chainNoPos_of_chainNoOrd (cfgs : List StageCfg) (h : chainNoOrd cfgs = true) : chainNoPos cfgs = true := by
  induction cfgs with
  | nil => rfl
  | cons c cs ih =>
    simp only [chainNoOrd, Bool.and_eq_true] at h
    obtain ⟨⟨h1, h2⟩, h3⟩ := h
    simp only [chainNoPos, Bool.and_eq_true]
    refine ⟨⟨noPosList_of_noOrdList _ h1, ?_⟩, ih h3⟩
    cases c <;> first | rfl | exact noPosList_of_noOrdList _ h2

theorem chainOrdIndep_of_noOrd (orc : Oracles) (cfgs : List StageCfg) (h : chainNoOrd cfgs = true) :
    ChainOrdIndep (evalT orc) cfgs := by
  induction cfgs with
  | nil =>
    constructor
    · intro c hc; cases hc
    · intro _ _ hc; cases hc
  | cons c cs ih =>
    simp only [chainNoOrd, Bool.and_eq_true] at h
    obtain ⟨⟨h1, h2⟩, h3⟩ := h
    obtain ⟨i1, i2⟩ := ih h3
    constructor
    · intro c' hc' e he
      rcases List.mem_cons.mp hc' with rfl | hc'
      · exact ordIndep_of_noOrd orc e ((noOrdList_iff _).mp h1 e he)
      · exact i1 c' hc' e he
    · intro vars defs hc'
      rcases List.mem_cons.mp hc' with rfl | hc'
      · intro p hp
        exact (noOrdList_iff _).mp h2 p.2 (List.mem_map.mpr ⟨p, hp, rfl⟩)
      · exact i2 vars defs hc'

/-- the erased row of a value read from the source `name` -/
def mkRow' (name : Option Str) (v : JV) : Ctx :=
  { input := v,
    ictx := some { startLoc := { name := name, line := 0, col := 0 },
                   endLoc := { name := name, line := 0, col := 0 }, fileIndex := 0, index := 0 } }

/-- the rows of a source, positions and ordinals erased, are determined by the values read and the source's name -/
theorem ctxsOf_erase' (c : Cfg) (fuel : Nat) (r : Reader) (i k : Nat) :
    (ctxsOf c fuel r i k).map erase' = ((ctxsOf c fuel r i k).map (·.input)).map (mkRow' r.loc.name) := by
  induction fuel generalizing r i k with
  | zero => rfl
  | succ fuel ih =>
    have hname := nextJson_name r
    rcases hn : r.nextJson with ⟨res, r'⟩
    rw [hn] at hname
    simp only at hname
    cases res with
    | error e =>
      simp only [ctxsOf, hn]
      split
      · rw [ih, hname]
      · rfl
    | ok o =>
      cases o with
      | none => simp only [ctxsOf, hn]; rfl
      | some v =>
        simp only [ctxsOf, hn]
        split
        · rw [ih, hname]
        · simp only [List.map_cons, ih, hname]
          congr 1
          simp only [erase', mkRow', eraseI', eraseLoc, Option.map_some, hname]

theorem ctxsOf_rowsOK' (c : Cfg) (fuel : Nat) (r : Reader) (i k : Nat) : RowsOK' (ctxsOf c fuel r i k) := by
  intro ctx h
  rw [ctxsOf_defs _ _ _ _ _ ctx h]
  exact defsNoOrd_nil

theorem ctxsOfSources_bytes (c : Cfg) (name : Option Str) (bs : List Byte) (k : Nat) :
    ctxsOfSources c [⟨name, cleanInput bs⟩] k = ctxsOf c (bs.length + 2) (Reader.ofBytes bs name) 0 k := by
  simp only [ctxsOfSources, List.append_nil, cleanInput, List.length_map]
  rfl

/-- **concat_hom_run (C11, whole runs, as bytes).**  Configuration with `--on-error=ignore` whose chain has only
per-row stages (`--set`, split, filter, selections) and reads neither positions nor ordinals, output without a
header line (`headerBytes p = []`: JSON output, or text output without `--headers`).  For two streams `A`, `B` of
printed values (any gaps, noise included) with white space between them, read under the same name:
`stdout(A ++ B) = stdout(A) ++ stdout(B)`. -/
theorem concat_hom_run_gen (orc : Oracles) (c : Cfg) (p : Pipeline) (hpol : c.onError = .ignore)
    (hb : build orc c = .ok p) (hst : ∀ s ∈ p.cfgs, StageCfg.stateless s = true)
    (hno : chainNoOrd p.cfgs = true) (hna : NoAbort orc p.cfgs)
    (hhdr : headerBytes p = []) (hh : ¬ HeaderMissing p)
    (o : JsonOpts) (gA : Gap) (itemsA : List (JV × Gap)) (gB : Gap) (itemsB : List (JV × Gap))
    (hA0 : gA.OK) (hA : ItemsOK o itemsA) (hB0 : gB.OK) (hB : ItemsOK o itemsB)
    (hsep : gB.ws ≠ [] ∨ EndsWs itemsA) (name : Option Str) :
    let A := stream o gA itemsA
    let B := stream o gB itemsB
    (run orc c [⟨name, cleanInput (A ++ B)⟩] {} {}).stdout
      = (run orc c [⟨name, cleanInput A⟩] {} {}).stdout ++ (run orc c [⟨name, cleanInput B⟩] {} {}).stdout := by
  intro A B
  have hcl : ∀ bs : List Byte, CleanIO [⟨name, cleanInput bs⟩] := fun bs => cleanIO_of_bytes [(name, bs)]
  have hrun : ∀ bs : List Byte, (run orc c [⟨name, cleanInput bs⟩] {} {}).stdout
      = (specRows (evalT orc) p.cfgs p.sts (ctxsOf c (bs.length + 2) (Reader.ofBytes bs name) 0 0)).flatMap
          (sinkBytes p.sink p.sinkLen) := by
    intro bs
    rw [(run_ignore_spec orc c _ {} {} p hpol hb hna unbounded_empty (hcl bs) hh).2.1, hhdr, ctxsOfSources_bytes]
    show [] ++ [] ++ _ = _
    rfl
  rw [hrun, hrun, hrun, ← List.flatMap_append, ← stateless_hom (evalT orc) p.cfgs p.sts hst]
  obtain ⟨e1, -, -⟩ := ctxs_concat c o gA itemsA gB itemsB hA0 hA hB0 hB hsep name (A.length + 2) (B.length + 2)
    ((A ++ B).length + 2) (Nat.le_refl _) (Nat.le_refl _) (Nat.le_refl _) 0 0
  simp only at e1
  -- the values of `B` do not depend on where the ordinals start
  have eB : ∀ i k, (ctxsOf c (B.length + 2) (Reader.ofBytes B name) i k).map (·.input)
      = (ctxsOf c (B.length + 2) (Reader.ofBytes B name) 0 0).map (·.input) := by
    intro i k
    rw [(noisy_rows c o gB itemsB hB0 hB name _ (Nat.le_refl _) i k).1,
      (noisy_rows c o gB itemsB hB0 hB name _ (Nat.le_refl _) 0 0).1]
  rw [eB] at e1
  apply specRows_congr_ord (evalT orc) p.cfgs p.sts p.sink p.sinkLen hst (chainOrdIndep_of_noOrd orc _ hno)
  · exact ctxsOf_rowsOK' _ _ _ _ _
  · intro x hx
    rcases List.mem_append.mp hx with hx | hx <;> exact ctxsOf_rowsOK' _ _ _ _ _ x hx
  · rw [List.map_append, ctxsOf_erase', ctxsOf_erase', ctxsOf_erase', e1, List.map_append]
    rfl

/-- **concat_hom_run** for JSON output (any style, any row separator): no header, nothing else to assume -/
theorem concat_hom_run (orc : Oracles) (c : Cfg) (p : Pipeline) (hpol : c.onError = .ignore)
    (hb : build orc c = .ok p) (hst : ∀ s ∈ p.cfgs, StageCfg.stateless s = true)
    (hno : chainNoOrd p.cfgs = true) (hna : NoAbort orc p.cfgs)
    (hjson : ∃ jo sep, p.sink = .json jo sep)
    (o : JsonOpts) (gA : Gap) (itemsA : List (JV × Gap)) (gB : Gap) (itemsB : List (JV × Gap))
    (hA0 : gA.OK) (hA : ItemsOK o itemsA) (hB0 : gB.OK) (hB : ItemsOK o itemsB)
    (hsep : gB.ws ≠ [] ∨ EndsWs itemsA) (name : Option Str) :
    (run orc c [⟨name, cleanInput (stream o gA itemsA ++ stream o gB itemsB)⟩] {} {}).stdout
      = (run orc c [⟨name, cleanInput (stream o gA itemsA)⟩] {} {}).stdout
        ++ (run orc c [⟨name, cleanInput (stream o gB itemsB)⟩] {} {}).stdout := by
  obtain ⟨jo, sep, hs⟩ := hjson
  have hhdr : headerBytes p = [] := by simp [headerBytes, hs]
  have hh : ¬ HeaderMissing p := by simp [HeaderMissing, hs]
  exact concat_hom_run_gen orc c p hpol hb hst hno hna hhdr hh o gA itemsA gB itemsB hA0 hA hB0 hB hsep name

/-! ### non-vacuity (Part 2) -/

/-- `-f .b -s .a`: a filter and a selection — per-row stages that read no position and no ordinal -/
def homCfg : Cfg := { selects := [".a".toList], filter := some ".b".toList }

def homPipeline : Pipeline :=
  { cfgs := [.filter (.extract 0 [Jawk.Step.key "b".toList]),
             .select ".a".toList (.extract 0 [Jawk.Step.key "a".toList])],
    sts := [.none, .none], sink := .json {} ['\n'], sinkLen := 1, titles := [".a".toList] }

theorem build_homCfg (orc : Oracles) : build orc homCfg = .ok homPipeline := by rfl

theorem homPipeline_noAbort (orc : Oracles) : NoAbort orc homPipeline.cfgs := by
  intro c hc e he ctx
  simp only [homPipeline, List.mem_cons, List.not_mem_nil, or_false] at hc
  rcases hc with rfl | rfl <;>
    simp only [stageExprs, List.mem_singleton] at he <;>
    subst he <;> exact ⟨_, by simp only [evalFuel, eval]; rfl⟩

example : (∀ s ∈ homPipeline.cfgs, StageCfg.stateless s = true) ∧ chainNoOrd homPipeline.cfgs = true :=
  ⟨by simp [homPipeline, StageCfg.stateless], by rfl⟩

/-- an expression that reads an ordinal is not ordinal independent: `&index` tells row 7 from row 0 (in `A ++ B`
the rows of `B` carry on the ordinals of `A`, in a separate run on `B` they restart at 0) -/
example (orc : Oracles) : ¬ OrdIndep (evalT orc) (.ictx .index) := by
  intro h
  have := h { ictx := some { startLoc := {}, endLoc := {}, fileIndex := 0, index := 7 } } defsNoOrd_nil
  simp [evalT, evalFuel, eval, erase', eraseI', ICtxKind.get] at this

/-- a chain that reads an ordinal does not pass the check -/
example : chainNoOrd [.select "i".toList (.ictx .index)] = false := by rfl

/-- all hypotheses of `concat_hom_run` hold for `homCfg` and any two well-formed streams separated by white
space; e.g. `A = B = "1 x 2\n"` (`exItems` of `Noise`) -/
example (orc : Oracles) (name : Option Str) :
    (run orc homCfg [⟨name, cleanInput (stream {} {} exItems ++ stream {} {} exItems)⟩] {} {}).stdout
      = (run orc homCfg [⟨name, cleanInput (stream {} {} exItems)⟩] {} {}).stdout
        ++ (run orc homCfg [⟨name, cleanInput (stream {} {} exItems)⟩] {} {}).stdout :=
  concat_hom_run orc homCfg homPipeline rfl (build_homCfg orc) (by simp [homPipeline, StageCfg.stateless]) (by rfl)
    (homPipeline_noAbort orc) ⟨_, _, rfl⟩ {} {} exItems {} exItems emptyGap_ok exItems_ok emptyGap_ok exItems_ok
    (.inr (by simp [exItems, EndsWs])) name

/-- the default configuration on `1\n` and `2\n`: `out("1\n2\n") = out("1\n") ++ out("2\n") = "1\n2\n"` -/
example (orc : Oracles) :
    (run orc {} [⟨none, cleanInput [49, 10, 50, 10]⟩] {} {}).stdout
      = (run orc {} [⟨none, cleanInput [49, 10]⟩] {} {}).stdout ++ (run orc {} [⟨none, cleanInput [50, 10]⟩] {} {}).stdout
    ∧ (run orc {} [⟨none, cleanInput [49, 10, 50, 10]⟩] {} {}).stdout = [49, 10, 50, 10] := by
  have hp : ∀ n : Nat, n < 2 ^ 64 → ItemsOK {} [(.num (.pos n), { ws := [10] })] := fun n hn =>
    ⟨hn, ⟨by intro b hb; simp at hb; subst hb; rfl, fun t ht => by cases ht⟩, .inl (by simp), trivial⟩
  have h := concat_hom_run orc {} defaultPipeline rfl (build_default orc)
    (fun s hs => by simp [defaultPipeline] at hs) rfl
    (fun c hc => by simp [defaultPipeline] at hc) ⟨_, _, rfl⟩ {} {} [(.num (.pos 1), { ws := [10] })] {} [(.num (.pos 2), { ws := [10] })]
    emptyGap_ok (hp 1 (by decide)) emptyGap_ok (hp 2 (by decide)) (.inr (by simp [EndsWs])) none
  have e1 : stream {} {} [(.num (.pos 1), { ws := [10] })] = [49, 10] := by decide
  have e2 : stream {} {} [(.num (.pos 2), { ws := [10] })] = [50, 10] := by decide
  rw [e1, e2] at h
  refine ⟨h, ?_⟩
  have := stdout_output_only orc none ['\n'] [⟨none, cleanInput [49, 10, 50, 10]⟩] (cleanIO_stdin_bytes _)
  show (run orc (outCfg none ['\n']) _ {} {}).stdout = _
  rw [this]
  decide +kernel

end Jawk.Fix

/- axiom audit (all ⊆ {propext, Classical.choice, Quot.sound}):
#print axioms Jawk.Fix.run_output_only
#print axioms Jawk.Fix.printed_rows_read_back
#print axioms Jawk.Fix.printed_rows_read_back_norm
#print axioms Jawk.Fix.fixpoint
#print axioms Jawk.Fix.fixpoint_sources
#print axioms Jawk.Fix.parsed_values
#print axioms Jawk.Fix.fixpoint_all
#print axioms Jawk.Fix.ctxs_concat
#print axioms Jawk.Fix.eval_erase'
#print axioms Jawk.Fix.specRows_congr_ord
#print axioms Jawk.Fix.concat_hom_run_gen
#print axioms Jawk.Fix.concat_hom_run
-/
