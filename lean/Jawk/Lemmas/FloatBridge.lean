/-
  Bridge between the float round trip (`Jawk.F64RT`) and the hypothesis `RT.FloatRT` of the
  printer → parser round trip: `FloatRT f` holds for every float the parser can produce, given only
  that the digit search of `Display for f64` succeeds (`H17`).
-/
import Jawk.Lemmas.RoundTrip
import Jawk.Lemmas.F64RoundTrip
namespace Jawk.Ser
open Jawk Jawk.F64 Jawk.F64RT

/-! ### integers rounded to doubles -/

theorem Q_one_nonneg (N : Nat) {e : Int} (h : 0 ≤ e) : Q N 1 e = N / 2 ^ e.toNat := by
  rw [Q_nonneg h, Nat.one_mul]

theorem finish_roundUp (s : Bool) (e : Int) (q r d : Nat) :
    finish s e (q, r, d) =
      if (if roundUp q r d = 2 ^ 53 then ((2 ^ 52 : Nat), e + 1) else (roundUp q r d, e)).2 > 971 then inf s
      else fin s (if roundUp q r d = 2 ^ 53 then ((2 ^ 52 : Nat), e + 1) else (roundUp q r d, e)).1
        (if roundUp q r d = 2 ^ 53 then ((2 ^ 52 : Nat), e + 1) else (roundUp q r d, e)).2 := rfl

/-- An integer `2^53 ≤ N < 2^k` rounds to a double `m * 2^e` with `e ≥ 1` whose value is below `2^k`,
or exactly `2^k`. -/
theorem roundRat_big (s : Bool) (N k : Nat) (hk : k ≤ 1000) (h1 : 2 ^ 53 ≤ N) (h2 : N < 2 ^ k) :
    ∃ (m e : Nat), roundRat s N 1 = fin s m (e : Int) ∧ 1 ≤ e ∧ m ≠ 0 ∧
      (m * 2 ^ e < 2 ^ k ∨ (m = 2 ^ 52 ∧ e + 52 = k)) := by
  have hn : N ≠ 0 := by
    have : 0 < 2 ^ 53 := Nat.pow_pos (by decide)
    omega
  have hd : (1 : Nat) ≠ 0 := by decide
  obtain ⟨s1, s2⟩ := e2Of_spec hn hd
  have he1 : 1 ≤ e2Of N 1 := by
    apply Int.le_of_not_gt
    intro hlt
    have := Q_anti N 1 (show e2Of N 1 ≤ 0 by omega)
    rw [Q_one_nonneg N (Int.le_refl 0)] at this
    simp at this
    omega
  obtain ⟨e, he⟩ : ∃ e : Nat, e2Of N 1 = (e : Int) := ⟨(e2Of N 1).toNat, by omega⟩
  rw [he] at s1 s2 he1
  have he1' : 1 ≤ e := by omega
  rw [Q_one_nonneg N (by omega)] at s1 s2
  simp only [Int.toNat_natCast] at s1 s2
  have hpe : 0 < 2 ^ e := Nat.pow_pos (by decide)
  -- `2^52 * 2^e ≤ N < 2^k`
  have hlow : 2 ^ 52 * 2 ^ e ≤ N := (Nat.le_div_iff_mul_le hpe).1 s1
  have hek : e + 53 ≤ k := by
    apply Nat.le_of_not_gt
    intro hgt
    have : 2 ^ k ≤ 2 ^ (52 + e) := Nat.pow_le_pow_right (by decide) (by omega)
    rw [Nat.pow_add] at this
    omega
  have hclamp : clampE (e2Of N 1) = (e : Int) := by
    rw [he]; unfold clampE; rw [if_neg (by omega)]
  have hsd : scaleDiv N 1 (e : Int) = (N / 2 ^ e, (scaleDiv N 1 (e : Int)).2.1, (scaleDiv N 1 (e : Int)).2.2) := by
    have : (scaleDiv N 1 (e : Int)).1 = N / 2 ^ e := by
      have := Q_one_nonneg N (show (0 : Int) ≤ (e : Int) by omega)
      simpa [Q] using this
    rw [← this]
  rw [roundRat_eq, if_neg (by intro h; rcases h with h | h <;> contradiction), hclamp, hsd, finish_roundUp]
  obtain ⟨b1, b2⟩ := roundUp_bounds (N / 2 ^ e) (scaleDiv N 1 (e : Int)).2.1 (scaleDiv N 1 (e : Int)).2.2
  generalize roundUp (N / 2 ^ e) (scaleDiv N 1 (e : Int)).2.1 (scaleDiv N 1 (e : Int)).2.2 = q' at b1 b2
  by_cases h53 : q' = 2 ^ 53
  · rw [if_pos h53]
    simp only
    rw [if_neg (by omega)]
    refine ⟨2 ^ 52, e + 1, by simp, by omega, by decide, ?_⟩
    by_cases hee : e + 53 = k
    · exact Or.inr ⟨rfl, by omega⟩
    · left
      have : 2 ^ 52 * 2 ^ (e + 1) = 2 ^ (52 + (e + 1)) := (Nat.pow_add 2 52 (e + 1)).symm
      rw [this]
      exact Nat.pow_lt_pow_right (by decide) (by omega)
  · rw [if_neg h53]
    simp only
    rw [if_neg (by omega)]
    refine ⟨q', e, rfl, he1', by omega, Or.inl ?_⟩
    have hq : q' < 2 ^ 53 := by omega
    have h3 : q' * 2 ^ e < 2 ^ 53 * 2 ^ e := Nat.mul_lt_mul_of_pos_right hq hpe
    have h4 : 2 ^ 53 * 2 ^ e ≤ 2 ^ k := by
      rw [← Nat.pow_add]; exact Nat.pow_le_pow_right (by decide) (by omega)
    omega


/-! ### `From<f64>` on integral doubles -/

theorem ofNat_max : F64.ofNat (2 ^ 64 - 1) = fin false (2 ^ 52) 12 := by decide +kernel
theorem ofInt_min : F64.ofInt (-(2 ^ 63)) = fin true (2 ^ 52) 11 := by decide +kernel

/-- the double `fin s m e` has the integer value `V` -/
def IntVal (m : Nat) (e : Int) (V : Nat) : Prop :=
  m ≠ 0 ∧ (toRat (fin false m e)).1 = V * (toRat (fin false m e)).2

theorem toRat_sign (s : Bool) (m : Nat) (e : Int) : toRat (fin s m e) = toRat (fin false m e) := rfl

theorem toRat_den_pos (m : Nat) (e : Int) : 0 < (toRat (fin false m e)).2 := by
  by_cases h : 0 ≤ e
  · simp [toRat, h]
  · simp only [toRat, h, if_false]; exact Nat.pow_pos (by decide)

theorem IntVal.of_nonneg {m e : Nat} (hm : m ≠ 0) : IntVal m (e : Int) (m * 2 ^ e) := by
  refine ⟨hm, ?_⟩
  simp [toRat]

theorem IntVal.of_neg {N k : Nat} (hN : N ≠ 0) : IntVal (N * 2 ^ k) (-(k : Int)) N := by
  have hp : 0 < 2 ^ k := Nat.pow_pos (by decide)
  refine ⟨Nat.mul_ne_zero hN (by omega), ?_⟩
  by_cases hk : k = 0
  · subst hk; simp [toRat]
  · simp [toRat, hk]

theorem IntVal.fract {m : Nat} {e : Int} {V : Nat} (h : IntVal m e V) (s : Bool) :
    (fin s m e).fractIsZero = true := by
  obtain ⟨hm, hv⟩ := h
  simp only [fractIsZero, if_neg hm]
  by_cases he : 0 ≤ e
  · rw [if_pos he]
  · rw [if_neg he]
    simp only [toRat, he, if_false] at hv
    rw [hv]; simp

theorem lt_pos_pos (m : Nat) (e : Int) (M : Nat) (E : Int) (hm : m ≠ 0) (hM : M ≠ 0) :
    F64.lt (fin false m e) (fin false M E) =
      decide ((toRat (fin false m e)).1 * (toRat (fin false M E)).2 <
        (toRat (fin false M E)).1 * (toRat (fin false m e)).2) := by
  simp only [F64.lt, hm, hM, false_and, if_false, cmpMag]
  by_cases h : (toRat (fin false m e)).1 * (toRat (fin false M E)).2 <
        (toRat (fin false M E)).1 * (toRat (fin false m e)).2
  · simp [h, Nat.compare_eq_lt.2 h]
  · simp only [h, decide_false]
    cases hc : compare ((toRat (fin false m e)).1 * (toRat (fin false M E)).2)
        ((toRat (fin false M E)).1 * (toRat (fin false m e)).2) with
    | lt => exact absurd (Nat.compare_eq_lt.1 hc) h
    | eq => rfl
    | gt => rfl

theorem lt_neg_neg (m : Nat) (e : Int) (M : Nat) (E : Int) (hm : m ≠ 0) (hM : M ≠ 0) :
    F64.lt (fin true M E) (fin true m e) =
      decide ((toRat (fin false m e)).1 * (toRat (fin false M E)).2 <
        (toRat (fin false M E)).1 * (toRat (fin false m e)).2) := by
  simp only [F64.lt, hm, hM, false_and, if_false, cmpMag, toRat_sign]
  by_cases h : (toRat (fin false m e)).1 * (toRat (fin false M E)).2 <
        (toRat (fin false M E)).1 * (toRat (fin false m e)).2
  · simp [h, Nat.compare_eq_gt.2 h]
  · simp only [h, decide_false]
    cases hc : compare ((toRat (fin false M E)).1 * (toRat (fin false m e)).2)
        ((toRat (fin false m e)).1 * (toRat (fin false M E)).2) with
    | gt => exact absurd (Nat.compare_eq_gt.1 hc) h
    | eq => rfl
    | lt => rfl

/-- a positive integral double with value below `2^64` becomes an integer -/
theorem ofF64_pos_of_intVal {m : Nat} {e : Int} {V : Nat} (h : IntVal m e V) (hV : V < 2 ^ 64) :
    ∃ n, Num.ofF64 (fin false m e) = .pos n := by
  have hd := toRat_den_pos m e
  have h1 : F64.le F64.zero (fin false m e) = true := by
    simp [F64.le, F64.lt, F64.zero, h.1]
  have h2 : F64.lt (fin false m e) (F64.ofNat (2 ^ 64 - 1)) = true := by
    rw [ofNat_max, lt_pos_pos m e _ _ h.1 (by decide), h.2]
    have : toRat (fin false (2 ^ 52) 12) = (2 ^ 64, 1) := by decide +kernel
    rw [this]
    simp only [Nat.mul_one, decide_eq_true_eq]
    exact Nat.mul_lt_mul_of_pos_right hV hd
  refine ⟨(fin false m e).toU64, ?_⟩
  simp only [Num.ofF64, h.fract false, h1, h2, Bool.and_self, if_true]

/-- a negative integral double with magnitude below `2^63` becomes an integer -/
theorem ofF64_neg_of_intVal {m : Nat} {e : Int} {V : Nat} (h : IntVal m e V) (hV : V < 2 ^ 63) :
    ∃ i, Num.ofF64 (fin true m e) = .neg i := by
  have hd := toRat_den_pos m e
  have h1 : F64.le F64.zero (fin true m e) = false := by
    simp [F64.le, F64.lt, F64.eq, F64.zero, h.1]
  have h2 : F64.lt (fin true m e) F64.zero = true := by
    simp [F64.lt, F64.zero, h.1]
  have h3 : F64.lt (F64.ofInt (-(2 ^ 63))) (fin true m e) = true := by
    rw [ofInt_min, lt_neg_neg m e _ _ h.1 (by decide), h.2]
    have : toRat (fin false (2 ^ 52) 11) = (2 ^ 63, 1) := by decide +kernel
    rw [this]
    simp only [Nat.mul_one, decide_eq_true_eq]
    exact Nat.mul_lt_mul_of_pos_right hV hd
  have h3' : F64.le (F64.ofInt (-(2 ^ 63))) (fin true m e) = true := by
    simp only [F64.le, h3, Bool.true_or]
  refine ⟨(fin true m e).toI64, ?_⟩
  simp only [Num.ofF64, h.fract true, h1, h2, h3', Bool.false_and, Bool.and_self,
    Bool.false_eq_true, if_true, if_false]


/-- An integer `0 < N < 2^64` converted to a double is normalised back to an integer by `From<f64>`,
unless it rounds up to `2^64`. -/
theorem ofF64_roundRat_pos {N : Nat} (h0 : N ≠ 0) (h : N < 2 ^ 64) :
    (∃ n, Num.ofF64 (roundRat false N 1) = .pos n) ∨ roundRat false N 1 = fin false (2 ^ 52) 12 := by
  by_cases hs : N < 2 ^ 53
  · obtain ⟨m, k, h1, h2, _⟩ := roundRat_nat_value false h0 hs
    rw [h1, h2]
    exact Or.inl (ofF64_pos_of_intVal (IntVal.of_neg h0) h)
  · obtain ⟨m, e, h1, _, hm, h2⟩ := roundRat_big false N 64 (by decide) (by omega) h
    rw [h1]
    rcases h2 with h2 | ⟨rfl, h2⟩
    · exact Or.inl (ofF64_pos_of_intVal (IntVal.of_nonneg hm) h2)
    · right
      have : e = 12 := by omega
      subst this; rfl

/-- An integer `0 < N ≤ 2^63` negated and converted to a double is normalised back to an integer by
`From<f64>`, unless it is (or rounds up to) `2^63`. -/
theorem ofF64_roundRat_neg {N : Nat} (h0 : N ≠ 0) (h : N ≤ 2 ^ 63) :
    (∃ i, Num.ofF64 (roundRat true N 1) = .neg i) ∨ roundRat true N 1 = fin true (2 ^ 52) 11 := by
  by_cases hs : N < 2 ^ 53
  · obtain ⟨m, k, h1, h2, _⟩ := roundRat_nat_value true h0 hs
    rw [h1, h2]
    exact Or.inl (ofF64_neg_of_intVal (IntVal.of_neg h0) (by omega))
  · by_cases h63 : N = 2 ^ 63
    · right; subst h63; decide +kernel
    · obtain ⟨m, e, h1, _, hm, h2⟩ := roundRat_big true N 63 (by decide) (by omega) (by omega)
      rw [h1]
      rcases h2 with h2 | ⟨rfl, h2⟩
      · exact Or.inl (ofF64_neg_of_intVal (IntVal.of_nonneg hm) h2)
      · right
        have : e = 11 := by omega
        subst this; rfl

theorem display_2p64 : toDisplay? (fin false (2 ^ 52) 12) = some "18446744073709552000".toList := by
  decide +kernel
theorem display_m2p63 : toDisplay? (fin true (2 ^ 52) 11) = some "-9223372036854776000".toList := by
  decide +kernel

/-! ### the shape of the display text, in the form `FloatRT.shape` wants -/

theorem signChars_text (neg : Bool) (b : List Char) :
    (if neg then '-' :: b else b) = RT.signChars neg ++ b := by
  cases neg <;> rfl

theorem ofDecimal_int (neg : Bool) (N nd : Nat) :
    ofDecimal neg N nd 0 = if N = 0 then fin neg 0 (-1074) else roundRat neg N 1 := by
  simp [ofDecimal]

/-- an integer text parses to the rounding of its value -/
theorem parse_int_text (neg : Bool) (ip : List Char) (hip : AllDigits ip) (hne : ip ≠ []) :
    parseDecimal (RT.signChars neg ++ ip) =
      some (if digitsToNat ip = 0 then fin neg 0 (-1074) else roundRat neg (digitsToNat ip) 1) := by
  obtain ⟨c, r, hcr, hc⟩ := exists_cons_of_allDigits_ne_nil hip hne
  rw [← signChars_text, parseDecimal_signed neg ip c r hcr hc, parseAfterSign_int neg ip hip hne,
    ofDecimal_int]

/-- the unsigned part of the shape -/
theorem unsigned_split {b : List Char} (h : UnsignedShape b) :
    ∃ (ip : List Char) (fp : Option (List Char)), b = ip ++ RT.fracChars fp ∧ ip ≠ [] ∧ AllDigits ip ∧
      (∀ d, fp = some d → AllDigits d) := by
  rcases h with ⟨h1, h2⟩ | ⟨ip, fp, rfl, h2, h3, h4, _⟩
  · exact ⟨b, none, by simp [RT.fracChars], h2, h1, by intro d hd; cases hd⟩
  · exact ⟨ip, some fp, rfl, h3, h2, by intro d hd; cases hd; exact h4⟩

theorem decimal_split {t : List Char} (h : DecimalShape t) :
    ∃ (neg : Bool) (ip : List Char) (fp : Option (List Char)),
      t = RT.signChars neg ++ ip ++ RT.fracChars fp ∧ ip ≠ [] ∧ AllDigits ip ∧
      (∀ d, fp = some d → AllDigits d) := by
  rcases h with h | ⟨b, rfl, h⟩
  · obtain ⟨ip, fp, h1, h2, h3, h4⟩ := unsigned_split h
    exact ⟨false, ip, fp, by simpa [RT.signChars] using h1, h2, h3, h4⟩
  · obtain ⟨ip, fp, h1, h2, h3, h4⟩ := unsigned_split h
    exact ⟨true, ip, fp, by simp [RT.signChars, h1], h2, h3, h4⟩

/-! ### Part 1: `FloatRT` for the floats that occur -/

/-- **FloatRT discharged.** A finite non-zero double that `From<f64>` keeps as a float, and for which the
digit search of `Display` succeeds, satisfies everything the printer → parser round trip asks of it. -/
theorem floatRT_of_display {f : F64} {s : Bool} {m : Nat} {e : Int} {t : List Char}
    (hf : f = .fin s m e) (hm : m ≠ 0) (hstay : Num.ofF64 f = .flt f) (ht : F64.toDisplay? f = some t) :
    RT.FloatRT f := by
  have hdisp : F64.toDisplay f = t := by simp [F64.toDisplay, ht]
  have hparse : parseDecimal t = some f := display_parse hf hm ht
  have hshape : DecimalShape t := by subst hf; exact toDisplay_shape ht
  refine ⟨?_, by rw [hdisp]; exact hparse, by subst hf; rfl, hstay⟩
  obtain ⟨neg, ip, fp, h1, h2, h3, h4⟩ := decimal_split hshape
  refine ⟨neg, ip, fp, by rw [hdisp]; exact h1, h2, h3, h4, ?_⟩
  intro hnone
  subst hnone
  simp only [RT.fracChars, List.append_nil] at h1
  subst h1
  rw [parse_int_text neg ip h3 h2] at hparse
  have hN : digitsToNat ip ≠ 0 := by
    intro h0
    rw [if_pos h0] at hparse
    simp only [Option.some.injEq] at hparse
    rw [hf] at hparse
    injection hparse with _ hm' _
    exact hm hm'.symm
  rw [if_neg hN] at hparse
  simp only [Option.some.injEq] at hparse
  cases neg with
  | false =>
    simp only [Bool.false_eq_true, if_false]
    apply Nat.le_of_not_gt
    intro hlt
    rcases ofF64_roundRat_pos hN hlt with ⟨n, hn⟩ | h64
    · rw [hparse, hstay] at hn; cases hn
    · rw [hparse] at h64
      rw [h64, display_2p64] at ht
      simp only [Option.some.injEq, RT.signChars, Bool.false_eq_true, if_false, List.nil_append] at ht
      rw [← ht] at hlt
      revert hlt; decide
  | true =>
    simp only [if_true]
    apply Nat.lt_of_not_ge
    intro hle
    rcases ofF64_roundRat_neg hN hle with ⟨n, hn⟩ | h63
    · rw [hparse, hstay] at hn; cases hn
    · rw [hparse] at h63
      rw [h63, display_m2p63] at ht
      simp only [Option.some.injEq, RT.signChars, if_true] at ht
      have : ip = "9223372036854776000".toList := by
        have := ht.symm
        simpa using this
      rw [this] at hle
      revert hle; decide


/-! ### every number the parser can produce is printable -/

/-- the numbers `read_number` can produce: `u64` integers, non-positive `i64` integers, and finite doubles
that `From<f64>` leaves alone -/
def ParsedNum : Num → Prop
  | .pos n => n < 2 ^ 64
  | .neg i => -(2 ^ 63 : Int) ≤ i ∧ i ≤ 0
  | .flt f => f.isFinite = true ∧ Num.ofF64 f = .flt f

/-- zero (of either sign) is normalised to the integer `0` -/
theorem ofF64_zero (s : Bool) (e : Int) : Num.ofF64 (fin s 0 e) = .pos (fin s 0 e).toU64 := by
  have h1 : F64.le F64.zero (fin s 0 e) = true := by simp [F64.le, F64.lt, F64.eq, F64.zero]
  have h2 : F64.lt (fin s 0 e) (F64.ofNat (2 ^ 64 - 1)) = true := by
    rw [ofNat_max]; simp [F64.lt]
  simp only [Num.ofF64, fractIsZero, if_true, h1, h2, Bool.and_self]

theorem flt_stable_ne_zero {s : Bool} {m : Nat} {e : Int} (h : Num.ofF64 (fin s m e) = .flt (fin s m e)) :
    m ≠ 0 := by
  intro hm
  subst hm
  rw [ofF64_zero] at h
  cases h

theorem toU64_lt (f : F64) : f.toU64 < 2 ^ 64 := by
  cases f with
  | nan => simp [toU64]
  | inf s => cases s <;> simp [toU64]
  | fin s m e =>
    simp only [toU64]
    split
    · decide
    · split
      · decide
      · omega

theorem toI64_range (f : F64) : -(2 ^ 63 : Int) ≤ f.toI64 ∧ f.toI64 < 2 ^ 63 := by
  cases f with
  | nan => simp [toI64]
  | inf s => cases s <;> simp [toI64]
  | fin s m e =>
    simp only [toI64]
    have hq : (0 : Int) ≤ ((toRat (fin s m e)).1 : Int) / ((toRat (fin s m e)).2 : Int) :=
      Int.ediv_nonneg (by omega) (by omega)
    generalize ((toRat (fin s m e)).1 : Int) / ((toRat (fin s m e)).2 : Int) = q at hq
    cases s <;> simp only [Bool.false_eq_true, if_false, if_true] <;> split <;> omega

theorem toI64_nonpos_of_neg (m : Nat) (e : Int) : (fin true m e).toI64 ≤ 0 := by
  simp only [toI64, if_true]
  have hq : (0 : Int) ≤ ((toRat (fin true m e)).1 : Int) / ((toRat (fin true m e)).2 : Int) :=
    Int.ediv_nonneg (by omega) (by omega)
  generalize ((toRat (fin true m e)).1 : Int) / ((toRat (fin true m e)).2 : Int) = q at hq
  split <;> omega

/-- `From<f64>` of a finite double is one of the numbers described by `ParsedNum` -/
theorem parsedNum_ofF64 (f : F64) (hf : f.isFinite = true) : ParsedNum (Num.ofF64 f) := by
  unfold Num.ofF64
  split
  · split
    · exact toU64_lt f
    · split
      · rename_i h
        simp only [Bool.and_eq_true] at h
        cases f with
        | nan => simp [isFinite] at hf
        | inf s => simp [isFinite] at hf
        | fin s m e =>
          cases s with
          | true => exact ⟨(toI64_range _).1, toI64_nonpos_of_neg m e⟩
          | false =>
            have := h.1
            simp [F64.lt, F64.zero] at this
      · rename_i h1 h2 h3
        refine ⟨hf, ?_⟩
        simp only [Num.ofF64, h1, h2, h3, if_true, if_false, Bool.false_eq_true]
  · rename_i h1
    refine ⟨hf, ?_⟩
    simp only [Num.ofF64, h1, if_false, Bool.false_eq_true]

/-- **Corollary.** Every number the parser can produce is printable (`RT.NumPrintable`), given only that the
digit search of `Display for f64` succeeds on it — the classical fact that 17 significant digits always
suffice (`H17`). -/
theorem numPrintable_of_parsed (n : Num) (hn : ParsedNum n)
    (H17 : ∀ f, n = .flt f → (F64.toDisplay? f).isSome = true) : RT.NumPrintable n := by
  cases n with
  | pos n => exact hn
  | neg i => exact ⟨hn.1, by have := hn.2; omega⟩
  | flt f =>
    obtain ⟨hfin, hstay⟩ := hn
    cases f with
    | nan => simp [isFinite] at hfin
    | inf s => simp [isFinite] at hfin
    | fin s m e =>
      obtain ⟨t, ht⟩ := Option.isSome_iff_exists.1 (H17 _ rfl)
      exact floatRT_of_display rfl (flt_stable_ne_zero hstay) hstay ht

/-! ### `read_number` produces only such numbers -/

theorem PM.bind_ok_inv {α β} {m : PM α} {f : α → PM β} {r r' : Reader} {b : β}
    (h : (m >>= f) r = (.ok b, r')) : ∃ a r1, m r = (.ok a, r1) ∧ f a r1 = (.ok b, r') := by
  rw [PM.bind_apply] at h
  split at h
  · rename_i a r1 hm; exact ⟨a, r1, hm, h⟩
  · cases h

theorem parseToDouble_parsed {text : List Byte} {r r' : Reader} {v : JV}
    (h : parseToDouble text r = (.ok v, r')) : ∃ n, v = .num n ∧ ParsedNum n := by
  cases hp : F64.parseDecimal (bytesToStr text) with
  | none => simp [parseToDouble, hp] at h
  | some f =>
    by_cases hfin : f.isFinite = true
    · simp only [parseToDouble, hp, hfin, if_true, PM.pure_apply, Prod.mk.injEq, Except.ok.injEq] at h
      exact ⟨_, h.1.symm, parsedNum_ofF64 f hfin⟩
    · simp [parseToDouble, hp, hfin] at h

theorem finishNumber_parsed {negative : Bool} {ip chars : List Byte} {double : Bool} {r r' : Reader} {v : JV}
    (h : RT.finishNumber negative ip chars double r = (.ok v, r')) : ∃ n, v = .num n ∧ ParsedNum n := by
  unfold RT.finishNumber at h
  by_cases hd : double = true
  · rw [if_pos hd] at h; exact parseToDouble_parsed h
  · rw [if_neg hd] at h
    by_cases hn : negative = true
    · rw [if_pos hn] at h
      cases hi : parseI64Neg ip with
      | ok i =>
        simp only [hi, PM.pure_apply, Prod.mk.injEq, Except.ok.injEq] at h
        refine ⟨_, h.1.symm, ?_⟩
        unfold parseI64Neg at hi
        split at hi
        · cases hi
        · simp only at hi
          split at hi
          · simp only [I64Parse.ok.injEq] at hi
            subst hi
            constructor <;> omega
          · cases hi
      | overflow => simp only [hi] at h; exact parseToDouble_parsed h
      | invalid => simp [hi] at h
    · rw [if_neg hn] at h
      cases hu : parseU64 ip with
      | some n =>
        simp only [hu, PM.pure_apply, Prod.mk.injEq, Except.ok.injEq] at h
        refine ⟨_, h.1.symm, ?_⟩
        unfold parseU64 at hu
        simp only at hu
        split at hu
        · simp only [Option.some.injEq] at hu; subst hu; assumption
        · cases hu
      | none => simp only [hu] at h; exact parseToDouble_parsed h

/-- whatever `read_number` returns is a number described by `ParsedNum` -/
theorem readNumber_parsed {fuel : Nat} {r r' : Reader} {v : JV}
    (h : readNumber fuel r = (.ok v, r')) : ∃ n, v = .num n ∧ ParsedNum n := by
  rw [RT.readNumber_eq] at h
  obtain ⟨_, _, _, h⟩ := PM.bind_ok_inv h
  obtain ⟨_, _, _, h⟩ := PM.bind_ok_inv h
  obtain ⟨_, _, _, h⟩ := PM.bind_ok_inv h
  obtain ⟨_, _, _, h⟩ := PM.bind_ok_inv h
  exact finishNumber_parsed h

/-! ### parsed doubles are canonical -/

theorem ofDecimal_canonical (neg : Bool) (mant nd : Nat) (e : Int) : Canonical (ofDecimal neg mant nd e) := by
  have hz : Canonical (fin neg 0 (-1074)) := ⟨by decide, by decide, by decide, fun _ => rfl⟩
  unfold ofDecimal
  split
  · exact hz
  · split
    · split
      · trivial
      · exact roundRat_canonical _ _ _
    · split
      · exact hz
      · exact roundRat_canonical _ _ _

theorem parseAfterSign_canonical {neg : Bool} {s : List Char} {f : F64} (h : parseAfterSign neg s = some f) :
    Canonical f := by
  unfold parseAfterSign at h
  simp only at h
  repeat' split at h
  all_goals first
    | (cases h; exact ofDecimal_canonical _ _ _ _)
    | cases h

/-- whatever `str::parse::<f64>` returns is in canonical form -/
theorem parseDecimal_canonical {s : List Char} {f : F64} (h : parseDecimal s = some f) : Canonical f := by
  have : ∃ neg r, parseDecimal s = parseAfterSign neg r := by
    unfold parseDecimal
    split
    rename_i x neg r heq
    exact ⟨neg, r, rfl⟩
  obtain ⟨neg, r, e⟩ := this
  rw [e] at h
  exact parseAfterSign_canonical h

theorem ofF64_flt_inv {f g : F64} (h : Num.ofF64 f = .flt g) : g = f := by
  unfold Num.ofF64 at h
  split at h
  · split at h
    · cases h
    · split at h
      · cases h
      · cases h; rfl
  · cases h; rfl

/-! ### whole values: the round trip printer → parser under `H17` only -/

mutual
/-- The values the parser can produce (and the printer can print so that they are read back), stated
without `FloatRT`: numbers as in `ParsedNum` with the digit search succeeding on each float (`H17`);
strings in the BMP unless `utf8Strings` is set; member names pairwise distinct. -/
def Parsed (o : JsonOpts) : JV → Prop
  | .null => True
  | .bool _ => True
  | .num n => ParsedNum n ∧ ∀ f, n = .flt f → (F64.toDisplay? f).isSome = true
  | .str s => RT.StrOK o s
  | .arr vs => ParsedList o vs
  | .obj kvs => ParsedMembers o kvs ∧ (kvs.map (·.1)).Nodup
def ParsedList (o : JsonOpts) : List JV → Prop
  | [] => True
  | v :: vs => Parsed o v ∧ ParsedList o vs
def ParsedMembers (o : JsonOpts) : List (Str × JV) → Prop
  | [] => True
  | (k, v) :: kvs => RT.StrOK o k ∧ Parsed o v ∧ ParsedMembers o kvs
end

mutual
theorem printable_of_parsed (o : JsonOpts) : ∀ (v : JV), Parsed o v → RT.Printable o v
  | .null, _ => by rw [RT.Printable]; exact True.intro
  | .bool _, _ => by rw [RT.Printable]; exact True.intro
  | .num n, h => by
    rw [Parsed] at h; rw [RT.Printable]
    exact numPrintable_of_parsed n h.1 h.2
  | .str s, h => by rw [Parsed] at h; rw [RT.Printable]; exact h
  | .arr vs, h => by
    rw [Parsed] at h; rw [RT.Printable]
    exact printableList_of_parsed o vs h
  | .obj kvs, h => by
    rw [Parsed] at h; rw [RT.Printable]
    exact ⟨printableMembers_of_parsed o kvs h.1, h.2⟩
theorem printableList_of_parsed (o : JsonOpts) : ∀ (vs : List JV), ParsedList o vs → RT.PrintableList o vs
  | [], _ => by rw [RT.PrintableList]; exact True.intro
  | v :: vs, h => by
    rw [ParsedList] at h; rw [RT.PrintableList]
    exact ⟨printable_of_parsed o v h.1, printableList_of_parsed o vs h.2⟩
theorem printableMembers_of_parsed (o : JsonOpts) :
    ∀ (kvs : List (Str × JV)), ParsedMembers o kvs → RT.PrintableMembers o kvs
  | [], _ => by rw [RT.PrintableMembers]; exact True.intro
  | (k, v) :: kvs, h => by
    rw [ParsedMembers] at h; rw [RT.PrintableMembers]
    exact ⟨h.1, printable_of_parsed o v h.2.1, printableMembers_of_parsed o kvs h.2.2⟩
end

/-- **C01/C02 without `FloatRT`.** `RT.parse_print_ready` for every value of the kind the parser produces:
the only assumption left about floats is `H17` (inside `Parsed`), the success of the digit search. -/
theorem parse_print_parsed (o : JsonOpts) (v : JV) (hv : Parsed o v) (rest : List Byte)
    (hd : RT.Delim v rest) (r : Reader) (hr : RT.Ready r (utf8 (printJson o v) ++ rest))
    (fuel : Nat) (hf : RT.fuelBound o v ≤ fuel) :
    ∃ r', nextValue fuel r = (.ok (some (RT.norm v)), r') ∧ RT.Ready r' rest :=
  RT.parse_print_ready o v (printable_of_parsed o v hv) rest hd r hr fuel hf

/-- non-vacuity: `[0.1, "é"]` -/
example : Parsed {} (.arr [.num (.flt (fin false 7205759403792794 (-56))), .str ['é']]) := by
  rw [Parsed, ParsedList, ParsedList, ParsedList, Parsed, Parsed]
  refine ⟨⟨⟨rfl, by decide +kernel⟩, ?_⟩, ?_, True.intro⟩
  · intro f hf; cases hf; decide +kernel
  · intro c hc
    simp only [List.mem_cons, List.not_mem_nil, or_false] at hc
    subst hc; exact Or.inl (by decide)

/-- non-vacuity: `0.1` is a parsed number and is printable (its digit search succeeds) -/
example : RT.NumPrintable (.flt (fin false 7205759403792794 (-56))) :=
  numPrintable_of_parsed _ ⟨rfl, by decide +kernel⟩
    (by intro f hf; cases hf; decide +kernel)

/-- non-vacuity of `floatRT_of_display`: the integral float `1e22` -/
example : RT.FloatRT (fin false 4768371582031250 21) :=
  floatRT_of_display (t := "10000000000000000000000".toList) rfl (by decide)
    (by decide +kernel) (by decide +kernel)

end Jawk.Ser

-- #print axioms Jawk.Ser.floatRT_of_display
-- #print axioms Jawk.Ser.numPrintable_of_parsed
-- #print axioms Jawk.Ser.readNumber_parsed
-- #print axioms Jawk.Ser.parse_print_parsed
