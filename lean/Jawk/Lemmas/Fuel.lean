/-
  C05: the JSON reader always terminates with a result and makes progress.
  Monotonicity of every reader action, fuel sufficiency, progress, the read loop.
-/
import Jawk.Lemmas.PM
import Jawk.Model.Parser
import Jawk.Model.Run
namespace Jawk.Fuel
open Jawk Reader

/-! ### Measures and the reader invariant -/

/-- Reader invariant: once end of input was seen there is no look-ahead byte.
`Reader.next` clears `cur` when it sets `eof`, so every reader built by `ofItems`/`ofBytes`/`ofString`
and every reader reached from one satisfies it. -/
def WF (r : Reader) : Prop := r.eof = true → r.cur = none

/-- number of `next` calls that can still do something: unread items, plus one for detecting the end -/
def μ (r : Reader) : Nat := r.rest.length + (if r.eof then 0 else 1)

/-- the same, counting the look-ahead byte as unread -/
def M (r : Reader) : Nat := r.pending.length + (if r.eof then 0 else 1)

theorem wf_ofItems (items : List RItem) (name : Option Str) : WF (Reader.ofItems items name) := by
  intro h; cases h

theorem wf_ofBytes (bs : List Byte) (name : Option Str) : WF (Reader.ofBytes bs name) := wf_ofItems _ _

theorem wf_ofString (s : Str) : WF (Reader.ofString s) := wf_ofItems _ _

theorem pending_length (r : Reader) :
    r.pending.length = r.rest.length + (if r.cur.isSome then 1 else 0) := by
  cases r with
  | mk rest cur eof loc pulled => cases cur <;> simp [Reader.pending] <;> omega

theorem μ_le_M (r : Reader) : μ r ≤ M r := by
  simp only [μ, M, pending_length]; omega

theorem M_le_μ (r : Reader) : M r ≤ μ r + 1 := by
  simp only [μ, M, pending_length]; split <;> omega

theorem M_of_cur {r : Reader} {b : Byte} (h : r.cur = some b) : M r = μ r + 1 := by
  simp only [μ, M, pending_length, h]; simp; omega

theorem μ_le_rest (r : Reader) : μ r ≤ r.rest.length + 1 := by
  simp only [μ]; split <;> omega

/-- `r'` is reachable from `r`: nothing is un-read, `eof` is sticky, the invariant is kept. -/
structure Mono (r r' : Reader) : Prop where
  suffix : r'.rest <:+ r.rest
  eof : r.eof = true → r'.eof = true
  wf : WF r → WF r'
  pend : M r' ≤ M r

theorem Mono.refl (r : Reader) : Mono r r := ⟨List.suffix_refl _, id, id, Nat.le_refl _⟩

theorem Mono.trans {a b c : Reader} (h1 : Mono a b) (h2 : Mono b c) : Mono a c :=
  ⟨h2.suffix.trans h1.suffix, fun h => h2.eof (h1.eof h), fun h => h2.wf (h1.wf h),
   Nat.le_trans h2.pend h1.pend⟩

theorem Mono.length_le {r r' : Reader} (h : Mono r r') : r'.rest.length ≤ r.rest.length :=
  h.suffix.length_le

theorem Mono.μ_le {r r' : Reader} (h : Mono r r') : μ r' ≤ μ r := by
  have h1 := h.length_le
  have h2 := h.eof
  simp only [μ]
  cases he : r.eof <;> cases he' : r'.eof <;> simp_all <;> omega

/-- an action is monotone when its resulting reader (in the `.ok` and in the `.error` outcome alike)
is reachable from the initial one -/
structure PMono {α} (m : PM α) : Prop where
  mono : ∀ r, Mono r (m r).2

theorem PMono.of_eq {α} {m : PM α} (h : PMono m) {r r' : Reader} {res : Except PErr α}
    (e : m r = (res, r')) : Mono r r' := by
  have := h.mono r; rw [e] at this; exact this

theorem pmono_pure {α} (a : α) : PMono (pure a : PM α) := ⟨fun r => Mono.refl r⟩
theorem pmono_fail {α} (e : PErr) : PMono (PM.fail e : PM α) := ⟨fun r => Mono.refl r⟩
theorem pmono_locErr {α} (mk : Loc → PErr) : PMono (locErr mk : PM α) := ⟨fun r => Mono.refl r⟩

theorem pmono_bind {α β} {m : PM α} {f : α → PM β} (hm : PMono m) (hf : ∀ a, PMono (f a)) :
    PMono (m >>= f) := by
  constructor
  intro r
  have h1 := hm.mono r
  simp only [PM.bind_apply]
  cases h : m r with
  | mk res r1 =>
    rw [h] at h1
    cases res with
    | error e => exact h1
    | ok a => exact h1.trans ((hf a).mono r1)

theorem next_pmono : PMono Reader.next := by
  constructor
  intro r
  cases r with
  | mk rest cur eof loc pulled =>
    cases eof with
    | true => exact Mono.refl _
    | false =>
      cases rest with
      | nil =>
        refine ⟨List.suffix_refl _, fun h => (by cases h), fun _ _ => rfl, ?_⟩
        simp [Reader.next, M, pending_length]
      | cons it rest =>
        cases it with
        | err =>
          refine ⟨List.suffix_cons _ _, fun h => (by cases h), fun _ h => (by cases h), ?_⟩
          simp [Reader.next, M, pending_length]
        | byte b =>
          refine ⟨List.suffix_cons _ _, fun h => (by cases h), fun _ h => (by cases h), ?_⟩
          simp [Reader.next, M, pending_length]

theorem peek_pmono : PMono Reader.peek := by
  constructor
  intro r
  unfold Reader.peek
  split
  · exact Mono.refl _
  · exact next_pmono.mono r

/-- one structural step of a monotonicity proof -/
macro "pmono_step" : tactic => `(tactic| first
  | with_reducible exact pmono_pure _
  | with_reducible exact pmono_fail _
  | with_reducible exact pmono_locErr _
  | with_reducible exact next_pmono
  | with_reducible exact peek_pmono
  | with_reducible assumption
  | with_reducible apply pmono_bind
  | intro _
  | split)

/-- structural monotonicity proof; the listed terms close the leaves (recursive calls, lemmas) -/
syntax "pmono" ("[" term,* "]")? : tactic
macro_rules
  | `(tactic| pmono) => `(tactic| repeat' pmono_step)
  | `(tactic| pmono [$ts,*]) =>
    `(tactic| repeat' (first | pmono_step $[| with_reducible exact $ts]*))

theorem eatWhitespace_pmono (fuel : Nat) : PMono (eatWhitespace fuel) := by
  induction fuel with
  | zero => exact pmono_fail _
  | succ fuel ih => unfold eatWhitespace; pmono

theorem readDigits_pmono (fuel : Nat) (acc : List Byte) : PMono (readDigits fuel acc) := by
  induction fuel generalizing acc with
  | zero => exact pmono_fail _
  | succ fuel ih => unfold readDigits; pmono [ih _]

theorem readWordTail_pmono (word : String) (es : List Byte) : PMono (readWordTail word es) := by
  induction es with
  | nil => unfold readWordTail; pmono
  | cons e es ih => unfold readWordTail; pmono

theorem readHex4_pmono (k acc : Nat) : PMono (readHex4 k acc) := by
  induction k generalizing acc with
  | zero => exact pmono_pure _
  | succ k ih => unfold readHex4; pmono [ih _]

theorem readStringLoop_pmono (fuel : Nat) (acc : List Byte) : PMono (readStringLoop fuel acc) := by
  induction fuel generalizing acc with
  | zero => exact pmono_fail _
  | succ fuel ih => unfold readStringLoop; pmono [ih _, readHex4_pmono _ _]

theorem parseToDouble_pmono (t : List Byte) : PMono (parseToDouble t) := by
  unfold parseToDouble; pmono

theorem readNumber_pmono (fuel : Nat) : PMono (readNumber fuel) := by
  unfold readNumber
  pmono [readDigits_pmono _ _, parseToDouble_pmono _]

/-- all five mutually recursive value readers at one fuel level -/
structure ValueMono (fuel : Nat) : Prop where
  value : PMono (nextValue fuel)
  array : PMono (readArray fuel)
  arrayLoop : ∀ acc, PMono (readArrayLoop fuel acc)
  object : PMono (readObject fuel)
  objectLoop : ∀ acc, PMono (readObjectLoop fuel acc)

theorem valueMono (fuel : Nat) : ValueMono fuel := by
  induction fuel with
  | zero =>
    refine ⟨?_, ?_, fun _ => ?_, ?_, fun _ => ?_⟩
    · unfold nextValue; exact pmono_fail _
    · unfold readArray; exact pmono_fail _
    · unfold readArrayLoop; exact pmono_fail _
    · unfold readObject; exact pmono_fail _
    · unfold readObjectLoop; exact pmono_fail _
  | succ fuel ih =>
    refine ⟨?_, ?_, fun _ => ?_, ?_, fun _ => ?_⟩
    · unfold nextValue
      pmono [eatWhitespace_pmono _, readWordTail_pmono _ _, readStringLoop_pmono _ _, readNumber_pmono _,
        ih.array, ih.object]
    · unfold readArray
      pmono [eatWhitespace_pmono _, ih.arrayLoop _]
    · unfold readArrayLoop
      pmono [eatWhitespace_pmono _, ih.arrayLoop _, ih.value]
    · unfold readObject
      pmono [eatWhitespace_pmono _, ih.objectLoop _]
    · unfold readObjectLoop
      pmono [eatWhitespace_pmono _, ih.objectLoop _, ih.value]

theorem nextValue_pmono (fuel : Nat) : PMono (nextValue fuel) := (valueMono fuel).value
theorem readArray_pmono (fuel : Nat) : PMono (readArray fuel) := (valueMono fuel).array
theorem readArrayLoop_pmono (fuel : Nat) (acc : List JV) : PMono (readArrayLoop fuel acc) :=
  (valueMono fuel).arrayLoop acc
theorem readObject_pmono (fuel : Nat) : PMono (readObject fuel) := (valueMono fuel).object
theorem readObjectLoop_pmono (fuel : Nat) (acc : List (Str × JV)) : PMono (readObjectLoop fuel acc) :=
  (valueMono fuel).objectLoop acc

/-- Item 1, in the plain form: whatever `nextJson` returns, nothing was un-read. -/
theorem nextJson_mono (r : Reader) : Mono r (Reader.nextJson r).2 := (nextValue_pmono _).mono r

theorem nextJson_rest_suffix (r : Reader) : (Reader.nextJson r).2.rest <:+ r.rest := (nextJson_mono r).suffix

theorem nextJson_rest_le (r : Reader) : (Reader.nextJson r).2.rest.length ≤ r.rest.length :=
  (nextJson_mono r).length_le

/-- the invariant is kept, so `nextJson_fuel` applies again to the reader returned -/
theorem nextJson_wf (r : Reader) (hw : WF r) : WF (Reader.nextJson r).2 := (nextJson_mono r).wf hw

/-! ### What `next` and `peek` do -/

theorem next_lt {r : Reader} (he : r.eof = false) : μ (Reader.next r).2 < μ r := by
  cases r with
  | mk rest cur eof loc pulled =>
    cases he
    cases rest with
    | nil => simp [Reader.next, μ]
    | cons it rest => cases it <;> simp [Reader.next, μ]

theorem next_lt_of_eq {r r' : Reader} {res} (he : r.eof = false) (h : Reader.next r = (res, r')) :
    μ r' < μ r := by
  have := next_lt he; rw [h] at this; exact this

theorem next_some {r r' : Reader} {b : Byte} (h : Reader.next r = (.ok (some b), r')) :
    r.eof = false ∧ r'.cur = some b ∧ r'.eof = false := by
  cases r with
  | mk rest cur eof loc pulled =>
    cases eof with
    | true => simp [Reader.next] at h
    | false =>
      cases rest with
      | nil => simp [Reader.next] at h
      | cons it rest =>
        cases it with
        | err => simp [Reader.next] at h
        | byte c =>
          simp only [Reader.next, Bool.false_eq_true, if_false, Prod.mk.injEq, Except.ok.injEq,
            Option.some.injEq] at h
          obtain ⟨h1, h2⟩ := h
          subst h2
          exact ⟨rfl, by rw [h1], rfl⟩

theorem next_error {r r' : Reader} {e : PErr} (h : Reader.next r = (.error e, r')) :
    e = .io ∧ r.eof = false := by
  cases r with
  | mk rest cur eof loc pulled =>
    cases eof with
    | true => simp [Reader.next] at h
    | false =>
      cases rest with
      | nil => simp [Reader.next] at h
      | cons it rest =>
        cases it with
        | err => simp [Reader.next] at h; exact ⟨h.1.symm, rfl⟩
        | byte c => simp [Reader.next] at h

theorem wf_eof_false {r : Reader} {b : Byte} (hw : WF r) (hc : r.cur = some b) : r.eof = false := by
  cases he : r.eof with
  | false => rfl
  | true => have := hw he; rw [hc] at this; cases this

theorem peek_some {r r' : Reader} {b : Byte} (hw : WF r) (h : Reader.peek r = (.ok (some b), r')) :
    r'.cur = some b ∧ r'.eof = false := by
  unfold Reader.peek at h
  split at h
  · next c hc =>
    simp only [Prod.mk.injEq, Except.ok.injEq, Option.some.injEq] at h
    obtain ⟨h1, h2⟩ := h
    subst h1 h2
    exact ⟨hc, wf_eof_false hw hc⟩
  · exact (next_some h).2

theorem peek_error {r r' : Reader} {e : PErr} (h : Reader.peek r = (.error e, r')) :
    e = .io ∧ μ r' < μ r := by
  unfold Reader.peek at h
  split at h
  · cases h
  · exact ⟨(next_error h).1, next_lt_of_eq (next_error h).2 h⟩

/-! ### Fuel sufficiency -/

/-- the action does not run out of fuel on this reader -/
def Safe {α} (m : PM α) (r : Reader) : Prop := (m r).1 ≠ .error .outOfFuel

theorem safe_pure {α} (a : α) (r : Reader) : Safe (pure a : PM α) r := by
  intro h; cases h

theorem safe_locErr {α} (mk : Loc → PErr) (hmk : ∀ l, mk l ≠ .outOfFuel) (r : Reader) :
    Safe (locErr mk : PM α) r := by
  intro h; simp only [locErr_apply] at h; exact hmk _ (Except.error.inj h)

theorem safe_next (r : Reader) : Safe Reader.next r := by
  intro h
  cases hn : Reader.next r with
  | mk res r' =>
    rw [hn] at h; simp only at h; subst h
    have := (next_error hn).1; cases this

theorem safe_peek (r : Reader) : Safe Reader.peek r := by
  intro h
  cases hn : Reader.peek r with
  | mk res r' =>
    rw [hn] at h; simp only at h; subst h
    have := (peek_error hn).1; cases this

theorem safe_bind {α β} {m : PM α} {f : α → PM β} {r : Reader} (hm : Safe m r)
    (hf : ∀ a r1, m r = (.ok a, r1) → Safe (f a) r1) : Safe (m >>= f) r := by
  unfold Safe at *
  simp only [PM.bind_apply]
  cases h : m r with
  | mk res r1 =>
    rw [h] at hm
    cases res with
    | error e =>
      dsimp only at hm ⊢
      intro h'
      cases h'
      exact hm rfl
    | ok a => dsimp only; exact hf a r1 h

/-- the action does not run out of fuel on any reader satisfying `I` -/
structure SafeOn {α} (I : Reader → Prop) (m : PM α) : Prop where
  safe : ∀ r, I r → Safe m r

/-- the invariant threaded through the fuel proofs: the reader is well formed and `fuel F` covers
`c` units per remaining `next` plus `k` spare units -/
def J (c F k : Nat) (r : Reader) : Prop := WF r ∧ c * μ r + k ≤ F

/-- `J`, and a look-ahead byte is present (so the next `next` is not at end of input) -/
def JL (c F k : Nat) (r : Reader) : Prop := J c F k r ∧ ∃ b, r.cur = some b

theorem J.mono {c F k : Nat} {r r' : Reader} (h : J c F k r) (m : Mono r r') : J c F k r' := by
  refine ⟨m.wf h.1, ?_⟩
  have h1 := Nat.mul_le_mul_left c m.μ_le
  have h2 := h.2
  omega

theorem J.weaken {c F k c' F' k' : Nat} {r : Reader} (h : J c F k r) (hc : c' ≤ c)
    (hk : k' + F ≤ k + F') : J c' F' k' r := by
  refine ⟨h.1, ?_⟩
  have h1 := Nat.mul_le_mul_right (μ r) hc
  have h2 := h.2
  omega

theorem J.step {c F k : Nat} {r r' : Reader} (h : J c F k r) (m : Mono r r') (hlt : μ r' < μ r) :
    J c F (k + c) r' := by
  refine ⟨m.wf h.1, ?_⟩
  have h1 : c * (μ r' + 1) ≤ c * μ r := Nat.mul_le_mul_left c hlt
  have h2 := h.2
  rw [Nat.mul_add] at h1
  omega

theorem SafeOn.weaken {α} {m : PM α} {c F k c' F' k' : Nat} (h : SafeOn (J c' F' k') m)
    (hc : c' ≤ c) (hk : k' + F ≤ k + F') : SafeOn (J c F k) m :=
  ⟨fun r hr => h.safe r (hr.weaken hc hk)⟩

theorem SafeOn.weakenL {α} {m : PM α} {c F k c' F' k' : Nat} (h : SafeOn (JL c' F' k') m)
    (hc : c' ≤ c) (hk : k' + F ≤ k + F') : SafeOn (JL c F k) m :=
  ⟨fun r hr => h.safe r ⟨hr.1.weaken hc hk, hr.2⟩⟩

theorem SafeOn.weakenJL {α} {m : PM α} {c F k c' F' k' : Nat} (h : SafeOn (J c' F' k') m)
    (hc : c' ≤ c) (hk : k' + F ≤ k + F') : SafeOn (JL c F k) m :=
  ⟨fun r hr => h.safe r (hr.1.weaken hc hk)⟩

theorem dropL {α} {m : PM α} {c F k : Nat} (h : SafeOn (J c F k) m) : SafeOn (JL c F k) m :=
  ⟨fun r hr => h.safe r hr.1⟩

theorem safeOn_pure {α} {I : Reader → Prop} (a : α) : SafeOn I (pure a : PM α) :=
  ⟨fun r _ => safe_pure a r⟩

theorem safeOn_locErr {α} {I : Reader → Prop} {mk : Loc → PErr} (hmk : ∀ l, mk l ≠ .outOfFuel) :
    SafeOn I (locErr mk : PM α) :=
  ⟨fun r _ => safe_locErr mk hmk r⟩

theorem safeOn_J_zero {α} {m : PM α} {c k : Nat} : SafeOn (J c 0 (k + 1)) m :=
  ⟨fun r hr => by have := hr.2; omega⟩

theorem safeOn_JL_zero {α} {m : PM α} {c k : Nat} : SafeOn (JL c 0 (k + 1)) m := dropL safeOn_J_zero

theorem bindJ {α β} {m : PM α} {f : α → PM β} {c F k : Nat} (hm : SafeOn (J c F k) m)
    (hmono : PMono m) (hf : ∀ a, SafeOn (J c F k) (f a)) : SafeOn (J c F k) (m >>= f) :=
  ⟨fun r hr => safe_bind (hm.safe r hr) fun a r1 h1 => (hf a).safe r1 (hr.mono (hmono.of_eq h1))⟩

theorem bindJL {α β} {m : PM α} {f : α → PM β} {c F k : Nat} (hm : SafeOn (JL c F k) m)
    (hmono : PMono m) (hf : ∀ a, SafeOn (J c F k) (f a)) : SafeOn (JL c F k) (m >>= f) :=
  ⟨fun r hr => safe_bind (hm.safe r hr) fun a r1 h1 => (hf a).safe r1 (hr.1.mono (hmono.of_eq h1))⟩

theorem peekJ {β} {f : Option Byte → PM β} {c F k : Nat} (hn : SafeOn (J c F k) (f none))
    (hs : ∀ b, SafeOn (JL c F k) (f (some b))) : SafeOn (J c F k) (Reader.peek >>= f) :=
  ⟨fun r hr => safe_bind (safe_peek r) fun a r1 h1 => by
    have m1 := hr.mono (peek_pmono.of_eq h1)
    cases a with
    | none => exact hn.safe r1 m1
    | some b => exact (hs b).safe r1 ⟨m1, b, (peek_some hr.1 h1).1⟩⟩

theorem peekJL {β} {f : Option Byte → PM β} {c F k : Nat} (hn : SafeOn (J c F k) (f none))
    (hs : ∀ b, SafeOn (JL c F k) (f (some b))) : SafeOn (JL c F k) (Reader.peek >>= f) :=
  dropL (peekJ hn hs)

theorem nextJ {β} {f : Option Byte → PM β} {c F k : Nat} (hn : SafeOn (J c F k) (f none))
    (hs : ∀ b, SafeOn (JL c F (k + c)) (f (some b))) : SafeOn (J c F k) (Reader.next >>= f) :=
  ⟨fun r hr => safe_bind (safe_next r) fun a r1 h1 => by
    have m1 := next_pmono.of_eq h1
    cases a with
    | none => exact hn.safe r1 (hr.mono m1)
    | some b =>
      have hs1 := next_some h1
      exact (hs b).safe r1 ⟨hr.step m1 (next_lt_of_eq hs1.1 h1), b, hs1.2.1⟩⟩

theorem nextJL {β} {f : Option Byte → PM β} {c F k : Nat} (hn : SafeOn (J c F (k + c)) (f none))
    (hs : ∀ b, SafeOn (JL c F (k + c)) (f (some b))) : SafeOn (JL c F k) (Reader.next >>= f) :=
  ⟨fun r hr => safe_bind (safe_next r) fun a r1 h1 => by
    have m1 := next_pmono.of_eq h1
    obtain ⟨hj, b0, hb0⟩ := hr
    have hlt := next_lt_of_eq (wf_eof_false hj.1 hb0) h1
    cases a with
    | none => exact hn.safe r1 (hj.step m1 hlt)
    | some b => exact (hs b).safe r1 ⟨hj.step m1 hlt, b, (next_some h1).2.1⟩⟩

/-- every monotonicity lemma of this file -/
macro "pmono_all" : tactic => `(tactic| pmono [eatWhitespace_pmono _, readDigits_pmono _ _,
  readWordTail_pmono _ _, readHex4_pmono _ _, readStringLoop_pmono _ _, parseToDouble_pmono _,
  readNumber_pmono _, nextValue_pmono _, readArray_pmono _, readArrayLoop_pmono _ _,
  readObject_pmono _, readObjectLoop_pmono _ _])

macro "psafe_step" : tactic => `(tactic| first
  | with_reducible exact safeOn_pure _
  | ((with_reducible refine safeOn_locErr ?_) <;> (intro _ h; cases h))
  | with_reducible exact safeOn_J_zero
  | with_reducible exact safeOn_JL_zero
  | with_reducible apply peekJ
  | with_reducible apply peekJL
  | with_reducible apply nextJ
  | with_reducible apply nextJL
  | with_reducible apply bindJ
  | with_reducible apply bindJL
  | (show PMono _; pmono_all; done)
  | intro _
  | split)

macro "psafe_leaf" t:term : tactic => `(tactic| first
  | with_reducible exact $t
  | with_reducible exact dropL $t
  | ((with_reducible refine SafeOn.weaken $t ?_ ?_) <;> omega)
  | ((with_reducible refine SafeOn.weakenL $t ?_ ?_) <;> omega)
  | ((with_reducible refine SafeOn.weakenJL $t ?_ ?_) <;> omega))

/-- structural fuel-sufficiency proof; the listed facts close the leaves, up to weakening -/
syntax "psafe" ("[" term,* "]")? : tactic
macro_rules
  | `(tactic| psafe) => `(tactic| repeat' psafe_step)
  | `(tactic| psafe [$ts,*]) =>
    `(tactic| repeat' (first | psafe_step $[| psafe_leaf $ts]*))

theorem eatWhitespace_safeOn (F : Nat) : SafeOn (J 1 F 1) (eatWhitespace F) := by
  induction F with
  | zero => exact safeOn_J_zero
  | succ F ih => unfold eatWhitespace; psafe [ih]

theorem readDigits_safeOn (F : Nat) (acc : List Byte) : SafeOn (J 1 F 1) (readDigits F acc) := by
  induction F generalizing acc with
  | zero => exact safeOn_J_zero
  | succ F ih => unfold readDigits; psafe [ih _]

theorem readWordTail_safeOn (word : String) (es : List Byte) (c F k : Nat) :
    SafeOn (J c F k) (readWordTail word es) := by
  induction es generalizing k with
  | nil => unfold readWordTail; psafe
  | cons e es ih => unfold readWordTail; psafe [ih _]

theorem readHex4_safeOn (n acc : Nat) (c F k : Nat) : SafeOn (J c F k) (readHex4 n acc) := by
  induction n generalizing acc k with
  | zero => exact safeOn_pure _
  | succ n ih => unfold readHex4; psafe [ih _ _]

theorem readStringLoop_safeOn (F : Nat) (acc : List Byte) : SafeOn (J 1 F 1) (readStringLoop F acc) := by
  induction F generalizing acc with
  | zero => exact safeOn_J_zero
  | succ F ih => unfold readStringLoop; psafe [ih _, readHex4_safeOn _ _ _ _ _]

theorem parseToDouble_safeOn (t : List Byte) (c F k : Nat) : SafeOn (J c F k) (parseToDouble t) := by
  unfold parseToDouble; psafe

theorem readNumber_safeOn (F : Nat) : SafeOn (J 1 F 1) (readNumber F) := by
  unfold readNumber
  psafe [readDigits_safeOn _ _, parseToDouble_safeOn _ _ _ _]

theorem safeOn_JL_zero' {α} {m : PM α} {c k : Nat} : SafeOn (JL (c + 1) 0 k) m :=
  ⟨fun r hr => by
    obtain ⟨⟨hw, hb⟩, b, hc⟩ := hr
    have he := wf_eof_false hw hc
    have : 1 ≤ μ r := by simp [μ, he]
    have := Nat.mul_le_mul_left (c + 1) this
    omega⟩

/-- fuel sufficiency of the five mutually recursive value readers at one fuel level: three units
per remaining `next`, because one nesting level costs three units and at least one item -/
structure ValueSafe (F : Nat) : Prop where
  value : SafeOn (J 3 F 1) (nextValue F)
  array : SafeOn (JL 3 F 0) (readArray F)
  arrayLoop : ∀ acc, SafeOn (J 3 F 2) (readArrayLoop F acc)
  object : SafeOn (JL 3 F 0) (readObject F)
  objectLoop : ∀ acc, SafeOn (J 3 F 2) (readObjectLoop F acc)

theorem valueSafe (F : Nat) : ValueSafe F := by
  induction F with
  | zero =>
    exact ⟨safeOn_J_zero, safeOn_JL_zero', fun _ => safeOn_J_zero, safeOn_JL_zero', fun _ => safeOn_J_zero⟩
  | succ F ih =>
    refine ⟨?_, ?_, fun _ => ?_, ?_, fun _ => ?_⟩
    · unfold nextValue
      psafe [eatWhitespace_safeOn _, readWordTail_safeOn _ _ _ _ _, readStringLoop_safeOn _ _,
        readNumber_safeOn _, ih.array, ih.object]
    · unfold readArray
      psafe [eatWhitespace_safeOn _, ih.arrayLoop _]
    · unfold readArrayLoop
      psafe [eatWhitespace_safeOn _, ih.arrayLoop _, ih.value]
    · unfold readObject
      psafe [eatWhitespace_safeOn _, ih.objectLoop _]
    · unfold readObjectLoop
      psafe [eatWhitespace_safeOn _, ih.objectLoop _, ih.value]

/-- Item 3, general form: `nextValue` has enough fuel when it has three units per remaining `next`
plus one. -/
theorem nextValue_fuel (F : Nat) (r : Reader) (hw : WF r) (hf : 3 * μ r + 1 ≤ F) :
    (nextValue F r).1 ≠ .error .outOfFuel :=
  (valueSafe F).value.safe r ⟨hw, hf⟩

/-- Item 3, MAIN: the fuel that `Reader.nextJson` gives to `nextValue` always suffices.
The hypothesis `WF r` cannot be dropped: see `nextJson_fuel_needs_wf`. -/
theorem nextJson_fuel (r : Reader) (hw : WF r) : (Reader.nextJson r).1 ≠ .error .outOfFuel := by
  refine nextValue_fuel _ r hw ?_
  have := μ_le_rest r
  omega

/-- Item 2 in the plain form, for the three leaf loops. -/
theorem eatWhitespace_fuel (fuel : Nat) (r : Reader) (hw : WF r) (hf : r.rest.length + 2 ≤ fuel) :
    (eatWhitespace fuel r).1 ≠ .error .outOfFuel := by
  refine (eatWhitespace_safeOn fuel).safe r ⟨hw, ?_⟩
  have := μ_le_rest r
  omega

theorem readDigits_fuel (fuel : Nat) (acc : List Byte) (r : Reader) (hw : WF r)
    (hf : r.rest.length + 2 ≤ fuel) : (readDigits fuel acc r).1 ≠ .error .outOfFuel := by
  refine (readDigits_safeOn fuel acc).safe r ⟨hw, ?_⟩
  have := μ_le_rest r
  omega

/-- `readStringLoop` starts with `next`, so it needs no invariant -/
theorem readStringLoop_fuel (fuel : Nat) (acc : List Byte) (r : Reader)
    (hf : r.rest.length + 2 ≤ fuel) : (readStringLoop fuel acc r).1 ≠ .error .outOfFuel := by
  by_cases hw : WF r
  · refine (readStringLoop_safeOn fuel acc).safe r ⟨hw, ?_⟩
    have := μ_le_rest r
    omega
  · have he : r.eof = true := by
      cases h : r.eof with
      | true => rfl
      | false => exact absurd (fun h' => by rw [h] at h'; cases h') hw
    obtain ⟨F, rfl⟩ : ∃ F, fuel = F + 1 := ⟨fuel - 1, by omega⟩
    simp [readStringLoop, Reader.next, he]

theorem readNumber_fuel (fuel : Nat) (r : Reader) (hw : WF r) (hf : r.rest.length + 2 ≤ fuel) :
    (readNumber fuel r).1 ≠ .error .outOfFuel := by
  refine (readNumber_safeOn fuel).safe r ⟨hw, ?_⟩
  have := μ_le_rest r
  omega

/-! ### The invariant `WF` is necessary

A reader with `eof = true` and a look-ahead byte cannot be produced by `next`; on such a reader `next`
returns `none` without clearing the look-ahead byte, and the loops spin until the fuel is gone. -/

theorem eatWhitespace_needs_wf (fuel : Nat) :
    (eatWhitespace fuel { rest := [], cur := some 32, eof := true }).1 = .error .outOfFuel := by
  induction fuel with
  | zero => rfl
  | succ fuel ih => simpa [eatWhitespace, Reader.peek, Reader.next, isWs] using ih

theorem readDigits_needs_wf (fuel : Nat) (acc : List Byte) :
    (readDigits fuel acc { rest := [], cur := some 49, eof := true }).1 = .error .outOfFuel := by
  induction fuel generalizing acc with
  | zero => rfl
  | succ fuel ih => simpa [readDigits, Reader.peek, Reader.next, isDigit] using ih _

theorem nextJson_fuel_needs_wf :
    (Reader.nextJson { rest := [], cur := some 91, eof := true }).1 = .error .outOfFuel := by rfl

/-- the bound `3 * μ r + 1` of `nextValue_fuel` is tight: on `[` at the end of input (`μ = 1`)
three units are not enough, four are -/
example : (nextValue 3 { rest := [], cur := some 91 }).1 = .error .outOfFuel := by rfl
example : (nextValue 4 { rest := [], cur := some 91 }).1
    = .error (.unexpectedEof { name := none, line := 1, col := 1 }) := by rfl

/-! ### Non-vacuity: the reader over `[1,` -/

example : WF (Reader.ofBytes [91, 49, 44]) := wf_ofBytes _ _
example : (Reader.nextJson (Reader.ofBytes [91, 49, 44])).1 ≠ .error .outOfFuel :=
  nextJson_fuel _ (wf_ofBytes _ _)
example : (Reader.nextJson (Reader.ofBytes [91, 49, 44])).1
    = .error (.unexpectedEof { name := none, line := 1, col := 4 }) := by rfl
example : μ (Reader.ofBytes [91, 49, 44]) = 4 ∧ μ (Reader.nextJson (Reader.ofBytes [91, 49, 44])).2 = 0 := by
  decide
example : (eatWhitespace 5 (Reader.ofBytes [32, 32, 49])).1 = .ok () := by rfl
example : (eatWhitespace 5 (Reader.ofBytes [32, 32, 49])).1 ≠ .error .outOfFuel :=
  eatWhitespace_fuel 5 _ (wf_ofBytes _ _) (by decide)

/-! ### Progress -/

theorem next_error_lt {r r' : Reader} {e : PErr} (h : Reader.next r = (.error e, r')) :
    M r' < M r ∧ μ r' < μ r := by
  cases r with
  | mk rest cur eof loc pulled =>
    cases eof with
    | true => simp [Reader.next] at h
    | false =>
      cases rest with
      | nil => simp [Reader.next] at h
      | cons it rest =>
        cases it with
        | err =>
          simp [Reader.next] at h
          obtain ⟨_, h⟩ := h
          subst h
          simp [M, μ, pending_length]
        | byte c => simp [Reader.next] at h

theorem peek_error_lt {r r' : Reader} {e : PErr} (h : Reader.peek r = (.error e, r')) :
    M r' < M r ∧ μ r' < μ r := by
  unfold Reader.peek at h
  split at h
  · cases h
  · exact next_error_lt h

/-- an error of `eatWhitespace` is out-of-fuel or an I/O error, which consumed the failing item -/
theorem eatWhitespace_error (F : Nat) (r : Reader) {e : PErr} {r' : Reader}
    (h : eatWhitespace F r = (.error e, r')) : e = .outOfFuel ∨ (M r' < M r ∧ μ r' < μ r) := by
  induction F generalizing r with
  | zero => cases h; exact .inl rfl
  | succ F ih =>
    unfold eatWhitespace at h
    rw [PM.bind_apply] at h
    cases hp : Reader.peek r with
    | mk res1 r1 =>
      rw [hp] at h
      have m1 := peek_pmono.of_eq hp
      cases res1 with
      | error e1 => cases h; exact .inr (peek_error_lt hp)
      | ok x =>
        cases x with
        | none => cases h
        | some b =>
          dsimp only at h
          split at h
          · rw [PM.bind_apply] at h
            cases hn : Reader.next r1 with
            | mk res2 r2 =>
              rw [hn] at h
              have m2 := next_pmono.of_eq hn
              have := m1.pend
              have := m1.μ_le
              cases res2 with
              | error e2 =>
                cases h
                have := next_error_lt hn
                exact .inr ⟨by omega, by omega⟩
              | ok y =>
                rcases ih r2 h with h' | h'
                · exact .inl h'
                · have := m2.pend
                  have := m2.μ_le
                  exact .inr ⟨by omega, by omega⟩
          · cases h
/-- an action that starts with an effective `next` consumed something, whatever happens afterwards -/
theorem next_bind_lt {β} {f : Option Byte → PM β} {r : Reader} (he : r.eof = false)
    (hf : ∀ a, PMono (f a)) : μ ((Reader.next >>= f) r).2 < μ r := by
  rw [PM.bind_apply]
  cases hn : Reader.next r with
  | mk res r1 =>
    have hlt := next_lt_of_eq he hn
    cases res with
    | error e => exact hlt
    | ok a =>
      have := ((hf a).mono r1).μ_le
      dsimp only
      omega

theorem bind_lt_left {α β} {m : PM α} {f : α → PM β} {r : Reader} (h : μ (m r).2 < μ r)
    (hf : ∀ a, PMono (f a)) : μ ((m >>= f) r).2 < μ r := by
  rw [PM.bind_apply]
  cases hn : m r with
  | mk res r1 =>
    rw [hn] at h
    cases res with
    | error e => exact h
    | ok a =>
      have := ((hf a).mono r1).μ_le
      dsimp only at h ⊢
      omega

theorem bind_lt_of_ok {α β} {m : PM α} {f : α → PM β} {r : Reader} {a : α} (h : m r = (.ok a, r))
    (hs : μ (f a r).2 < μ r) : μ ((m >>= f) r).2 < μ r := by
  rw [PM.bind_apply, h]; exact hs

/-- "ran out of fuel, or consumed something" survives a final `pure` -/
theorem oof_or_lt_bind_pure {α β} {m : PM α} {g : α → β} {r : Reader}
    (h : (m r).1 = .error .outOfFuel ∨ μ (m r).2 < μ r) :
    ((m >>= fun a => pure (g a)) r).1 = .error .outOfFuel ∨ μ ((m >>= fun a => pure (g a)) r).2 < μ r := by
  rw [PM.bind_apply]
  cases hn : m r with
  | mk res r1 =>
    rw [hn] at h
    cases res with
    | error e =>
      rcases h with h | h
      · left; dsimp only at h ⊢; cases h; rfl
      · right; exact h
    | ok a =>
      rcases h with h | h
      · cases h
      · right; exact h

theorem ne_none_bind_pure_some {α β} {m : PM α} {g : α → β} {r : Reader} :
    ((m >>= fun a => pure (some (g a))) r).1 ≠ .ok none := by
  rw [PM.bind_apply]
  cases m r with
  | mk res r1 =>
    cases res with
    | error e => intro h; cases h
    | ok a => intro h; cases h

theorem ne_none_bind_locErr {α β} {m : PM α} {mk : α → Loc → PErr} {r : Reader} :
    ((m >>= fun a => (locErr (mk a) : PM (Option β))) r).1 ≠ .ok none := by
  rw [PM.bind_apply]
  cases m r with
  | mk res r1 =>
    cases res with
    | error e => intro h; cases h
    | ok a => intro h; cases h

theorem readDigits_lt {F : Nat} {acc : List Byte} {r : Reader} {c : Byte} (hc : r.cur = some c)
    (he : r.eof = false) (hd : isDigit c = true) : μ (readDigits (F + 1) acc r).2 < μ r := by
  unfold readDigits
  refine bind_lt_of_ok (peek_of_cur r c hc) ?_
  dsimp only
  rw [if_pos hd]
  exact next_bind_lt he (fun _ => readDigits_pmono _ _)

theorem readNumber_lt {F : Nat} {r : Reader} {c : Byte} (hc : r.cur = some c) (he : r.eof = false)
    (hd : (decide (c = 45) || isDigit c) = true) : μ (readNumber (F + 1) r).2 < μ r := by
  unfold readNumber
  by_cases h45 : c = 45
  · refine bind_lt_left ?_ (fun _ => by pmono_all)
    refine bind_lt_of_ok (peek_of_cur r c hc) ?_
    rw [if_pos (by rw [h45])]
    exact next_bind_lt he (fun _ => by pmono_all)
  · have hd' : isDigit c = true := by simpa [h45] using hd
    refine bind_lt_of_ok (a := false) ?_ ?_
    · rw [PM.bind_apply, peek_of_cur r c hc]
      dsimp only
      rw [if_neg (by intro h; exact h45 (Option.some.inj h))]
      rfl
    · exact bind_lt_left (readDigits_lt hc he hd') (fun _ => by pmono_all)

/-- the part of `nextValue` after the first byte `c` of the value was seen -/
theorem valueTail_lt {F : Nat} {r : Reader} {c : Byte}
    {x : Except PErr (Option JV) × Reader}
    (hx : x = (if c = 116 then do
        readWordTail "true" [114, 117, 101]
        pure (some (JV.bool true))
      else if c = 102 then do
        readWordTail "false" [97, 108, 115, 101]
        pure (some (JV.bool false))
      else if c = 110 then do
        readWordTail "null" [117, 108, 108]
        pure (some JV.null)
      else if c = 34 then do
        let s ← readStringLoop (F + 1) []
        pure (some (JV.str s))
      else if (decide (c = 45) || isDigit c) = true then do
        let v ← readNumber (F + 1)
        pure (some v)
      else if c = 91 then do
        let v ← readArray F
        pure (some v)
      else if c = 123 then do
        let v ← readObject F
        pure (some v)
      else do
        let _ ← Reader.next
        locErr fun l => PErr.unexpectedChar l c valueExpected : PM (Option JV)) r) :
    x.1 ≠ .ok none ∧
      (r.cur = some c → r.eof = false → (x.1 = .error .outOfFuel ∨ μ x.2 < μ r)) := by
  subst hx
  refine ⟨by repeat' split
             all_goals first | exact ne_none_bind_pure_some | exact ne_none_bind_locErr, ?_⟩
  intro hc he
  split
  · refine oof_or_lt_bind_pure (.inr ?_)
    unfold readWordTail
    exact next_bind_lt he (fun _ => by pmono_all)
  split
  · refine oof_or_lt_bind_pure (.inr ?_)
    unfold readWordTail
    exact next_bind_lt he (fun _ => by pmono_all)
  split
  · refine oof_or_lt_bind_pure (.inr ?_)
    unfold readWordTail
    exact next_bind_lt he (fun _ => by pmono_all)
  split
  · refine oof_or_lt_bind_pure (.inr ?_)
    unfold readStringLoop
    exact next_bind_lt he (fun _ => by pmono_all)
  split
  · rename_i hd
    exact oof_or_lt_bind_pure (.inr (readNumber_lt hc he hd))
  split
  · refine oof_or_lt_bind_pure ?_
    cases F with
    | zero => left; rfl
    | succ F =>
      right
      unfold readArray
      exact next_bind_lt he (fun _ => by pmono_all)
  split
  · refine oof_or_lt_bind_pure ?_
    cases F with
    | zero => left; rfl
    | succ F =>
      right
      unfold readObject
      exact next_bind_lt he (fun _ => by pmono_all)
  · right
    exact next_bind_lt he (fun _ => by pmono_all)

/-- Item 4 for `nextValue` at any fuel: unless the input ended (`.ok none`) or the fuel ran out, the
reader shrank, in both measures. -/
theorem nextValue_progress (F : Nat) (r : Reader) (hw : WF r) {res : Except PErr (Option JV)}
    {r' : Reader} (h : nextValue F r = (res, r')) (h1 : res ≠ .ok none) (h2 : res ≠ .error .outOfFuel) :
    M r' < M r ∧ μ r' < μ r := by
  cases F with
  | zero => cases h; exact absurd rfl h2
  | succ F =>
    unfold nextValue at h
    rw [PM.bind_apply] at h
    cases hws : eatWhitespace (F + 1) r with
    | mk res1 r1 =>
      rw [hws] at h
      have m1 := (eatWhitespace_pmono _).of_eq hws
      cases res1 with
      | error e =>
        cases h
        rcases eatWhitespace_error _ _ hws with h' | h'
        · subst h'; exact absurd rfl h2
        · exact h'
      | ok u =>
        dsimp only at h
        rw [PM.bind_apply] at h
        cases hp : Reader.peek r1 with
        | mk res2 r2 =>
          rw [hp] at h
          have m2 := peek_pmono.of_eq hp
          have := m1.pend
          have := m1.μ_le
          cases res2 with
          | error e =>
            cases h
            have := peek_error_lt hp
            exact ⟨by omega, by omega⟩
          | ok x =>
            cases x with
            | none => cases h; exact absurd rfl h1
            | some c =>
              dsimp only at h
              have hc := peek_some (m1.wf hw) hp
              have := m2.pend
              have := m2.μ_le
              have hM := M_of_cur hc.1
              have := M_le_μ r'
              rcases (valueTail_lt (F := F) (x := (res, r')) h.symm).2 hc.1 hc.2 with h' | h'
              · exact absurd h' h2
              · dsimp only at h'
                exact ⟨by omega, by omega⟩

theorem next_none {r r' : Reader} (h : Reader.next r = (.ok none, r')) :
    r'.eof = true ∧ (r.cur = none → r'.cur = none) := by
  cases r with
  | mk rest cur eof loc pulled =>
    cases eof with
    | true => simp [Reader.next] at h; subst h; exact ⟨rfl, id⟩
    | false =>
      cases rest with
      | nil => simp [Reader.next] at h; subst h; exact ⟨rfl, fun _ => rfl⟩
      | cons it rest => cases it <;> simp [Reader.next] at h

theorem peek_none {r r' : Reader} (h : Reader.peek r = (.ok none, r')) :
    r'.eof = true ∧ r'.cur = none := by
  unfold Reader.peek at h
  split at h
  · cases h
  · rename_i hc
    have := next_none h
    exact ⟨this.1, this.2 hc⟩

/-- `.ok none` really is the end of input: the reader has seen the end and holds no byte -/
theorem nextValue_none (F : Nat) (r : Reader) {r' : Reader} (h : nextValue F r = (.ok none, r')) :
    r'.eof = true ∧ r'.cur = none := by
  cases F with
  | zero => cases h
  | succ F =>
    unfold nextValue at h
    rw [PM.bind_apply] at h
    cases hws : eatWhitespace (F + 1) r with
    | mk res1 r1 =>
      rw [hws] at h
      cases res1 with
      | error e => cases h
      | ok u =>
        dsimp only at h
        rw [PM.bind_apply] at h
        cases hp : Reader.peek r1 with
        | mk res2 r2 =>
          rw [hp] at h
          cases res2 with
          | error e => cases h
          | ok x =>
            cases x with
            | none => cases h; exact peek_none hp
            | some c =>
              dsimp only at h
              exact absurd rfl (valueTail_lt (F := F) (x := (.ok none, r')) h.symm).1

/-- Item 4: `nextJson` on a well-formed reader either reports the end of input (`.ok none`) or
returns a strictly smaller reader — in `M = pending.length + (if eof then 0 else 1)` and in
`μ = rest.length + (if eof then 0 else 1)`.  This holds for every other outcome: a value, a
recoverable error, an I/O error. -/
theorem nextJson_progress (r : Reader) (hw : WF r) {res : Except PErr (Option JV)} {r' : Reader}
    (h : Reader.nextJson r = (res, r')) (h1 : res ≠ .ok none) : M r' < M r ∧ μ r' < μ r := by
  refine nextValue_progress _ r hw h h1 ?_
  have := nextJson_fuel r hw
  rw [h] at this
  exact this

theorem nextJson_none (r : Reader) {r' : Reader} (h : Reader.nextJson r = (.ok none, r')) :
    r'.eof = true ∧ r'.cur = none := nextValue_none _ r h

/-- the reader over `[1,`: one call consumes everything (`μ` drops from 4 to 0) -/
example : M (Reader.nextJson (Reader.ofBytes [91, 49, 44])).2 < M (Reader.ofBytes [91, 49, 44]) := by
  have e : (Reader.nextJson (Reader.ofBytes [91, 49, 44])).1
      = .error (.unexpectedEof { name := none, line := 1, col := 4 }) := rfl
  refine (nextJson_progress (Reader.ofBytes [91, 49, 44]) (wf_ofBytes _ _)
    (res := (Reader.nextJson (Reader.ofBytes [91, 49, 44])).1)
    (r' := (Reader.nextJson (Reader.ofBytes [91, 49, 44])).2) rfl ?_).1
  rw [e]; intro h; cases h

/-- two values `1 2`: the first call returns `1` and leaves a smaller reader, which is well formed again -/
example : (Reader.nextJson (Reader.ofBytes [49, 32, 50])).1 = .ok (some (.num (.pos 1))) := by rfl
example : WF (Reader.nextJson (Reader.ofBytes [49, 32, 50])).2 :=
  (nextJson_mono _).wf (wf_ofBytes _ _)

/-! ### The read loop -/

/-- a failure kind that is not a JSON-parser error (in particular not out-of-fuel) -/
def NotJson (k : Fail) : Prop := ∀ e, k ≠ .json e

/-- every error this computation can return satisfies `P` -/
structure ErrOK {ε α} (P : ε → Prop) (x : Except ε α) : Prop where
  err : ∀ e, x = .error e → P e

theorem errOK_ok {ε α} {P : ε → Prop} (a : α) : ErrOK P (.ok a : Except ε α) := ⟨fun _ h => by cases h⟩
theorem errOK_pure {ε α} {P : ε → Prop} (a : α) : ErrOK P (pure a : Except ε α) := ⟨fun _ h => by cases h⟩
theorem errOK_error {ε α} {P : ε → Prop} {e : ε} (h : P e) : ErrOK P (.error e : Except ε α) :=
  ⟨fun _ h' => by cases h'; exact h⟩

theorem errOK_bind {ε α β} {P : ε → Prop} {x : Except ε α} {g : α → Except ε β}
    (hx : ErrOK P x) (hg : ∀ a, ErrOK P (g a)) : ErrOK P (x >>= g) := by
  constructor
  intro e h
  cases x with
  | error e' => cases h; exact hx.err _ rfl
  | ok a => exact (hg a).err e h

abbrev PF : Failure → Prop := fun f => NotJson f.kind

theorem notJson_io : NotJson .io := fun _ h => by cases h
theorem notJson_config (s : String) : NotJson (.config s) := fun _ h => by cases h
theorem notJson_abort (a : Abort) : NotJson (.abort a) := fun _ h => by cases h
theorem notJson_invalidInput : NotJson .invalidInput := fun _ h => by cases h

theorem wres_ok (w : Writer) : ErrOK PF (wres w) := by
  unfold wres; split
  · exact errOK_error notJson_io
  · exact errOK_ok _

theorem liftR_ok {α} (w : Writer) (r : Except Abort α) : ErrOK PF (liftR w r) := by
  unfold liftR; split
  · exact errOK_ok _
  · exact errOK_error (notJson_abort _)

theorem sinkProcess_ok (s : SinkCfg) (n : Nat) (w : Writer) (ctx : Ctx) : ErrOK PF (sinkProcess s n w ctx) := by
  unfold sinkProcess
  split
  · exact wres_ok _
  · split <;> exact wres_ok _

theorem evalE_ok (orc : Oracles) (w : Writer) (e : Expr) (ctx : Ctx) : ErrOK PF (evalE orc w e ctx) :=
  liftR_ok _ _

macro "errok_step" : tactic => `(tactic| first
  | with_reducible exact errOK_ok _
  | with_reducible exact errOK_pure _
  | with_reducible exact errOK_error notJson_io
  | with_reducible exact errOK_error (notJson_config _)
  | with_reducible exact errOK_error (notJson_abort _)
  | with_reducible exact errOK_error notJson_invalidInput
  | with_reducible exact wres_ok _
  | with_reducible exact evalE_ok _ _ _ _
  | with_reducible exact sinkProcess_ok _ _ _ _
  | with_reducible assumption
  | with_reducible apply errOK_bind
  | intro _
  | split)

syntax "errok" ("[" term,* "]")? : tactic
macro_rules
  | `(tactic| errok) => `(tactic| repeat' errok_step)
  | `(tactic| errok [$ts,*]) => `(tactic| repeat' (first | errok_step $[| with_reducible exact $ts]*))

theorem feedUntilBreak_ok (next : List StageSt → Writer → Ctx → Res (PState × Decision))
    (hn : ∀ sts w c, ErrOK PF (next sts w c)) (sts : List StageSt) (w : Writer) (l : List Ctx) :
    ErrOK PF (feedUntilBreak next sts w l) := by
  induction l generalizing sts w with
  | nil => unfold feedUntilBreak; errok
  | cons c cs ih => unfold feedUntilBreak; errok [hn _ _ _, ih _ _]

theorem feedAllIgnoring_ok (next : List StageSt → Writer → Ctx → Res (PState × Decision))
    (hn : ∀ sts w c, ErrOK PF (next sts w c)) (sts : List StageSt) (w : Writer) (l : List Ctx) :
    ErrOK PF (feedAllIgnoring next sts w l) := by
  induction l generalizing sts w with
  | nil => unfold feedAllIgnoring; errok
  | cons c cs ih => unfold feedAllIgnoring; errok [hn _ _ _, ih _ _]

theorem process_ok (orc : Oracles) (sink : SinkCfg) (sinkLen : Nat) (cfgs : List StageCfg)
    (sts : List StageSt) (w : Writer) (ctx : Ctx) : ErrOK PF (process orc sink sinkLen cfgs sts w ctx) := by
  induction cfgs generalizing sts w ctx with
  | nil => unfold process; errok
  | cons c cs ih =>
    cases sts with
    | nil => unfold process; errok
    | cons st sts =>
      unfold process
      dsimp only
      errok [ih _ _ _, feedUntilBreak_ok _ (fun _ _ _ => ih _ _ _) _ _ _]
theorem complete_ok (orc : Oracles) (sink : SinkCfg) (sinkLen : Nat) (cfgs : List StageCfg)
    (sts : List StageSt) (w : Writer) : ErrOK PF (complete orc sink sinkLen cfgs sts w) := by
  induction cfgs generalizing sts w with
  | nil => unfold complete; errok
  | cons c cs ih =>
    cases sts with
    | nil => unfold complete; errok
    | cons st sts =>
      unfold complete
      errok [ih _ _, process_ok _ _ _ _ _ _ _, feedAllIgnoring_ok _ (fun _ _ _ => process_ok _ _ _ _ _ _ _) _ _ _]

/-- a run did not end with the model-only error `outOfFuel` -/
abbrev PR : RunEnd → Prop := fun e => e.result ≠ .error (.json .outOfFuel)

theorem pr_io (s : RunState) : PR ⟨.error .io, s⟩ := by intro h; cases h

theorem pr_json {e : PErr} (he : e ≠ .outOfFuel) (s : RunState) : PR ⟨.error (.json e), s⟩ := by
  intro h; cases h; exact he rfl

theorem pr_notJson {k : Fail} (hk : NotJson k) (s : RunState) : PR ⟨.error k, s⟩ := by
  intro h; cases h; exact hk _ rfl

/-- Item 5: with one unit of fuel per remaining `next` plus one, `readLoop` never ends with the
out-of-fuel error — neither its own nor one of `nextJson` nor one from the pipeline. -/
theorem readLoop_ok (orc : Oracles) (c : Cfg) (p : Pipeline) (fuel : Nat) (r : Reader) (inFile : Nat)
    (s : RunState) (hw : WF r) (hf : μ r + 1 ≤ fuel) : ErrOK PR (readLoop orc c p fuel r inFile s) := by
  induction fuel generalizing r inFile s with
  | zero => omega
  | succ fuel ih =>
    unfold readLoop
    dsimp only
    have hm := nextJson_mono r
    have hsafe := nextJson_fuel r hw
    split
    · rename_i v r' heq
      rw [heq] at hm
      have hp := nextJson_progress r hw heq (by intro h; cases h)
      have ih' := fun inFile s => ih r' inFile s (hm.wf hw) (by omega)
      split
      · exact ih' _ _
      · split
        · rename_i f hf'
          exact errOK_error (pr_notJson ((process_ok _ _ _ _ _ _ _).err f hf') _)
        · exact errOK_ok _
        · exact ih' _ _
    · exact errOK_ok _
    · rename_i e r' heq
      rw [heq] at hm hsafe
      have hp := nextJson_progress r hw heq (by intro h; cases h)
      have ih' := fun inFile s => ih r' inFile s (hm.wf hw) (by omega)
      split
      · exact errOK_error (pr_io _)
      · split
        · exact ih' _ _
        · exact errOK_error (pr_json (fun h => hsafe (by rw [h])) _)
        · split
          · exact errOK_error (pr_io _)
          · exact ih' _ _
        · split
          · exact errOK_error (pr_io _)
          · exact ih' _ _

theorem μ_ofItems (items : List RItem) (name : Option Str) : μ (Reader.ofItems items name) = items.length + 1 := rfl

/-- Item 5 as stated: `pending.length + 2` units are enough (`rest.length + 2` already are). -/
theorem readLoop_fuel (orc : Oracles) (c : Cfg) (p : Pipeline) (fuel : Nat) (r : Reader) (inFile : Nat)
    (s : RunState) (hw : WF r) (hf : r.pending.length + 2 ≤ fuel) (st : RunState) :
    readLoop orc c p fuel r inFile s ≠ .error ⟨.error (.json .outOfFuel), st⟩ := by
  intro h
  have hμ : μ r + 1 ≤ fuel := by
    have := μ_le_rest r
    have := pending_length r
    omega
  exact (readLoop_ok orc c p fuel r inFile s hw hμ).err _ h rfl

/-- `readSources` gives each source `items.length + 2` units, which is `μ + 1` of a fresh reader -/
theorem readSources_ok (orc : Oracles) (c : Cfg) (p : Pipeline) (srcs : List Source) (s : RunState) :
    ErrOK PR (readSources orc c p srcs s) := by
  induction srcs generalizing s with
  | nil => unfold readSources; exact errOK_ok _
  | cons src rest ih =>
    unfold readSources
    dsimp only
    split
    · rename_i e heq
      exact errOK_error ((readLoop_ok orc c p _ _ _ _ (wf_ofItems _ _) (by rw [μ_ofItems]; omega)).err e heq)
    · split
      · exact errOK_ok _
      · exact ih _

theorem sinkStart_ok (s : SinkCfg) (titles : List Str) (w : Writer) : ErrOK PF (sinkStart s titles w) := by
  unfold sinkStart; errok

theorem cfgErr_ok {α} (r : Except String α) : ErrOK NotJson (cfgErr r) := by
  unfold cfgErr; errok

theorem mapRes_ok {α β} (f : α → Except Fail β) (hf : ∀ a, ErrOK NotJson (f a)) (l : List α) :
    ErrOK NotJson (mapRes f l) := by
  induction l with
  | nil => unfold mapRes; errok
  | cons x xs ih => unfold mapRes; errok [hf _]

theorem parsePreSet_ok (orc : Oracles) (s : Str) : ErrOK NotJson (parsePreSet orc s) := by
  unfold parsePreSet
  dsimp only
  errok

theorem collect_ok (vars : List (Str × JV)) (defs : List (Str × Expr)) (l : List (Str × PreSetVal)) :
    ErrOK NotJson (build.collect vars defs l) := by
  induction l generalizing vars defs with
  | nil => unfold build.collect; errok
  | cons x xs ih =>
    obtain ⟨k, v⟩ := x
    cases v <;> (unfold build.collect; errok [ih _ _])

theorem build_ok (orc : Oracles) (c : Cfg) : ErrOK NotJson (build orc c) := by
  unfold build
  errok [cfgErr_ok _, mapRes_ok _ (fun _ => cfgErr_ok _) _, mapRes_ok _ (parsePreSet_ok orc) _, collect_ok _ _ _]

/-- Consequently a whole run never reports the model-only error `outOfFuel`. -/
theorem run_no_outOfFuel (orc : Oracles) (c : Cfg) (sources : List Source) (wOut wErr : Writer) :
    (run orc c sources wOut wErr).result ≠ .error (.json .outOfFuel) := by
  unfold run
  split
  · rename_i f heq
    intro h
    exact (build_ok orc c).err f heq _ (Except.error.inj h)
  · split
    · rename_i f heq
      intro h
      exact (sinkStart_ok _ _ _).err f heq _ (Except.error.inj h)
    · dsimp only
      split
      · rename_i e heq
        exact (readSources_ok _ _ _ _ _).err e heq
      · split
        · rename_i f heq
          intro h
          exact (complete_ok _ _ _ _ _ _).err f heq _ (Except.error.inj h)
        · intro h; cases h

/-- non-vacuity of `readLoop_fuel`: the reader over `[1,` with 5 units (`pending.length + 2`) -/
example (orc : Oracles) (c : Cfg) (p : Pipeline) (s st : RunState) :
    readLoop orc c p 5 (Reader.ofBytes [91, 49, 44]) 0 s ≠ .error ⟨.error (.json .outOfFuel), st⟩ :=
  readLoop_fuel orc c p 5 _ 0 s (wf_ofBytes _ _) (by decide) st

/-
#print axioms nextJson_mono        -- [propext, Classical.choice, Quot.sound]
#print axioms nextJson_fuel        -- [propext, Classical.choice, Quot.sound]
#print axioms nextJson_progress    -- [propext, Classical.choice, Quot.sound]
#print axioms nextJson_none        -- [propext, Classical.choice, Quot.sound]
#print axioms readLoop_fuel        -- [propext, Classical.choice, Quot.sound]
#print axioms readSources_ok       -- [propext, Classical.choice, Quot.sound]
#print axioms run_no_outOfFuel     -- [propext, Classical.choice, Quot.sound]
-/

end Jawk.Fuel
