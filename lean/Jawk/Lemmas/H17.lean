/-
  H17: the 17-digit search of `Display for f64` (`F64.shortestDigits`) always succeeds on a canonical finite
  double, hence `F64.toDisplay?` is total there and `Ser.H17` is a theorem (`Ser.h17`).

  * `roundRat_of_scaleDiv`, `roundRat_nearest_up`, `roundRat_nearest_down`
        -- nearest rounding: a rational strictly within half an ulp of the canonical double `m·2^e` rounds to it
           (from below: not at the lower end of a binade, where the gap is only half as wide)
  * `ltPow10_iff`, `divPow10_spec`, `rd_val`, `toRat_val`, `scaleDiv_val`   -- the `Nat` computations in `ℚ`
  * `up_spec`, `down_spec`, `decExp_exact_of_est`, `est_table` (kernel-checked table over all 2100 binary
    exponents), `decExp_exact`  -- `decExp` returns the `k` with `10^(k-1) ≤ num/den < 10^k`
  * `grid17`, `step17`          -- at 17 digits the grid spacing is below `2^53/10^16 < 1` ulp
  * `go_isSome`                 -- the fuel of `shortestDigits.go` reaches `n = 17`
  * `F64.shortestDigits_isSome`, `F64.toDisplay?_isSome`, `Ser.h17`
-/
import Mathlib.Tactic.Ring
import Mathlib.Tactic.Linarith
import Mathlib.Data.Rat.Defs
import Mathlib.Tactic.FieldSimp
import Mathlib.Tactic.NormNum
import Mathlib.Tactic.Positivity
import Jawk.Model.F64
import Jawk.Lemmas.F64RoundTrip
import Jawk.Lemmas.ParseSer

namespace Jawk.H17
open Jawk Jawk.F64 Jawk.F64RT

/-! ## 1. `roundRat` from the scaled quotient at the target exponent (pure `Nat`) -/

/-- if the quotient at exponent `e` already looks like a canonical significand, `roundRat` works at exponent `e` -/
theorem clampE_e2Of_eq {n d : Nat} {e : Int} (hn : n ≠ 0) (hd : d ≠ 0) (he : -1074 ≤ e)
    (hq : Q n d e < 2 ^ 53) (hsub : Q n d e < 2 ^ 52 → e = -1074) : clampE (e2Of n d) = e := by
  obtain ⟨h1, h2⟩ := e2Of_spec hn hd
  by_cases hnorm : 2 ^ 52 ≤ Q n d e
  · have : e2Of n d = e := Q_unique h1 h2 hnorm hq
    rw [this]; unfold clampE; rw [if_neg (by omega)]
  · have he' : e = -1074 := hsub (by omega)
    subst he'
    have hlt : e2Of n d < -1074 := by
      apply Int.lt_of_not_ge
      intro hge
      have := Q_anti n d hge
      omega
    unfold clampE; rw [if_pos hlt]

/-- **nearest rounding, `Nat` form.**  If at the exponent `e` of the canonical double `m·2^e` the scaled quotient
of `n/d` is `m` with remainder below one half, or `m-1` with remainder above one half (and `m·2^e` is not the lower
end of a binade), then `n/d` rounds to `m·2^e`. -/
theorem roundRat_of_scaleDiv {n d m q r D : Nat} {e : Int} (hc : Canonical (fin false m e))
    (hn : n ≠ 0) (hd : d ≠ 0) (hsd : scaleDiv n d e = (q, r, D))
    (h : (q = m ∧ 2 * r < D) ∨ (q + 1 = m ∧ D < 2 * r ∧ (m = 2 ^ 52 → e = -1074))) :
    roundRat false n d = fin false m e := by
  obtain ⟨hm53, he1, he2, hsub⟩ := hc
  have hQ : Q n d e = q := by unfold Q; rw [hsd]
  have hcl : clampE (e2Of n d) = e := by
    apply clampE_e2Of_eq hn hd he1
    · rw [hQ]; rcases h with ⟨h, _⟩ | ⟨h, _, _⟩ <;> omega
    · rw [hQ]; intro hlt
      rcases h with ⟨h, _⟩ | ⟨h, _, h3⟩
      · exact hsub (by omega)
      · by_cases h52 : m = 2 ^ 52
        · exact h3 h52
        · exact hsub (by omega)
  rw [roundRat_eq, if_neg (by intro h; rcases h with h | h <;> contradiction), hcl, hsd]
  have hru : roundUp q r D = m := by
    unfold roundUp
    rcases h with ⟨rfl, h2⟩ | ⟨h1, h2, _⟩
    · have a1 : ¬ (2 * r > D) := by omega
      have a2 : ¬ (2 * r = D) := by omega
      simp [a1, a2]
    · have a1 : (2 * r > D) := by omega
      simp [a1, h1]
  have hf : finish false e (q, r, D) =
      if (if roundUp q r D = 2 ^ 53 then ((2 ^ 52 : Nat), e + 1) else (roundUp q r D, e)).2 > 971 then inf false
      else fin false (if roundUp q r D = 2 ^ 53 then ((2 ^ 52 : Nat), e + 1) else (roundUp q r D, e)).1
        (if roundUp q r D = 2 ^ 53 then ((2 ^ 52 : Nat), e + 1) else (roundUp q r D, e)).2 := rfl
  rw [hf, hru, if_neg (by omega : ¬ m = 2 ^ 53)]
  show (if e > 971 then inf false else fin false m e) = _
  rw [if_neg (by omega)]

/-! ## 2. rational values of the `Nat` computations -/

theorem zpow_nonneg_eq (b : ℚ) {e : ℤ} (h : 0 ≤ e) : b ^ e = b ^ e.toNat := by
  conv_lhs => rw [← Int.toNat_of_nonneg h]
  exact zpow_natCast b _

theorem zpow_neg_eq (b : ℚ) {e : ℤ} (h : e < 0) : b ^ e = (b ^ (-e).toNat)⁻¹ := by
  have : e = -((-e).toNat : ℤ) := by omega
  conv_lhs => rw [this]
  rw [zpow_neg, zpow_natCast]

theorem two_zpow_pos (z : ℤ) : (0 : ℚ) < (2 : ℚ) ^ z := zpow_pos (by norm_num) z
theorem ten_zpow_pos (z : ℤ) : (0 : ℚ) < (10 : ℚ) ^ z := zpow_pos (by norm_num) z

/-- the exact value of a finite double -/
theorem toRat_val (s : Bool) (m : Nat) (e : Int) :
    ((toRat (fin s m e)).1 : ℚ) / ((toRat (fin s m e)).2 : ℚ) = (m : ℚ) * (2 : ℚ) ^ e := by
  by_cases h : 0 ≤ e
  · simp only [toRat, h, if_true]
    rw [zpow_nonneg_eq 2 h]; push_cast; simp
  · simp only [toRat, h, if_false]
    rw [zpow_neg_eq 2 (by omega)]; push_cast; rw [div_eq_mul_inv]

/-- `scaleDiv n d e` is division with remainder of `(n/d) / 2^e` -/
theorem scaleDiv_val (n d : Nat) (e : Int) (hd : d ≠ 0) :
    0 < (scaleDiv n d e).2.2 ∧ (scaleDiv n d e).2.1 < (scaleDiv n d e).2.2 ∧
    ((scaleDiv n d e).1 : ℚ) + ((scaleDiv n d e).2.1 : ℚ) / ((scaleDiv n d e).2.2 : ℚ)
      = (n : ℚ) / (d : ℚ) / (2 : ℚ) ^ e := by
  obtain ⟨N, D, hD, e3, e4, e5, e6, e7⟩ := scaleDiv_spec n d e hd
  rw [e3]
  refine ⟨hD, e5, ?_⟩
  have hDq : (D : ℚ) ≠ 0 := by exact_mod_cast (Nat.ne_of_gt hD)
  have hdq : (d : ℚ) ≠ 0 := by exact_mod_cast hd
  have h1 : ((scaleDiv n d e).1 : ℚ) + ((scaleDiv n d e).2.1 : ℚ) / (D : ℚ) = (N : ℚ) / (D : ℚ) := by
    rw [e4]; push_cast; field_simp
  rw [h1]
  by_cases h : 0 ≤ e
  · rw [if_pos h] at e6 e7
    rw [e6, e7, zpow_nonneg_eq 2 h]; push_cast
    rw [div_div]
  · rw [if_neg h] at e6 e7
    rw [e6, e7, zpow_neg_eq 2 (by omega)]; push_cast
    rw [div_inv_eq_mul]; ring

/-! ## 3. nearest rounding: a rational strictly within half an ulp of a double rounds to it -/

/-- shape of the scaled quotient from the position of the scaled value -/
theorem quot_of_val {q r D m : Nat} {y : ℚ} (hD : 0 < D) (hr : r < D)
    (hv : (q : ℚ) + (r : ℚ) / (D : ℚ) = y) :
    ((m : ℚ) ≤ y → y < (m : ℚ) + 1 / 2 → q = m ∧ 2 * r < D) ∧
    ((m : ℚ) - 1 / 2 < y → y < (m : ℚ) → q + 1 = m ∧ D < 2 * r) := by
  have hDq : (0 : ℚ) < (D : ℚ) := by exact_mod_cast hD
  have hf0 : (0 : ℚ) ≤ (r : ℚ) / (D : ℚ) := by positivity
  have hf1 : (r : ℚ) / (D : ℚ) < 1 := by
    rw [div_lt_one hDq]; exact_mod_cast hr
  constructor
  · intro h1 h2
    have a : (q : ℚ) < (m : ℚ) + 1 := by linarith
    have b : (m : ℚ) < (q : ℚ) + 1 := by linarith
    have a' : q < m + 1 := by exact_mod_cast a
    have b' : m < q + 1 := by exact_mod_cast b
    have hqm : q = m := by omega
    subst hqm
    refine ⟨rfl, ?_⟩
    have : (r : ℚ) / (D : ℚ) < 1 / 2 := by linarith
    rw [div_lt_iff₀ hDq] at this
    have : (2 : ℚ) * (r : ℚ) < (D : ℚ) := by linarith
    exact_mod_cast this
  · intro h1 h2
    have a : (q : ℚ) < (m : ℚ) := by linarith
    have b : (m : ℚ) < (q : ℚ) + 1 + 1 := by linarith
    have a' : q < m := by exact_mod_cast a
    have b' : m < q + 1 + 1 := by exact_mod_cast b
    have hqm : q + 1 = m := by omega
    subst hqm
    refine ⟨rfl, ?_⟩
    have : 1 / 2 < (r : ℚ) / (D : ℚ) := by push_cast at h1; linarith
    rw [lt_div_iff₀ hDq] at this
    have : (D : ℚ) < (2 : ℚ) * (r : ℚ) := by linarith
    exact_mod_cast this

/-- **nearest rounding from above**: `m·2^e ≤ n/d < (m + 1/2)·2^e` rounds to the canonical double `m·2^e`. -/
theorem roundRat_nearest_up {n d m : Nat} {e : Int} (hc : Canonical (fin false m e)) (hd : d ≠ 0) (hm : m ≠ 0)
    (h1 : (m : ℚ) * (2 : ℚ) ^ e ≤ (n : ℚ) / (d : ℚ))
    (h2 : (n : ℚ) / (d : ℚ) < ((m : ℚ) + 1 / 2) * (2 : ℚ) ^ e) :
    roundRat false n d = fin false m e := by
  have hu := two_zpow_pos e
  have hn : n ≠ 0 := by
    rintro rfl
    have : (0 : ℚ) < (m : ℚ) * (2 : ℚ) ^ e := by
      have : (0 : ℚ) < (m : ℚ) := by exact_mod_cast Nat.pos_of_ne_zero hm
      positivity
    simp at h1; linarith
  obtain ⟨hD, hr, hv⟩ := scaleDiv_val n d e hd
  rcases hsd : scaleDiv n d e with ⟨q, r, D⟩
  rw [hsd] at hD hr hv
  simp only at hD hr hv
  have ha : (m : ℚ) ≤ (n : ℚ) / (d : ℚ) / (2 : ℚ) ^ e := by rw [le_div_iff₀ hu]; exact h1
  have hb : (n : ℚ) / (d : ℚ) / (2 : ℚ) ^ e < (m : ℚ) + 1 / 2 := by rw [div_lt_iff₀ hu]; exact h2
  exact roundRat_of_scaleDiv hc hn hd hsd (Or.inl ((quot_of_val hD hr hv).1 ha hb))

/-- **nearest rounding from below**: `(m - 1/2)·2^e < n/d < m·2^e` rounds to the canonical double `m·2^e`,
unless `m·2^e` is the lower end of a binade (where the gap below is only half as wide). -/
theorem roundRat_nearest_down {n d m : Nat} {e : Int} (hc : Canonical (fin false m e)) (hn : n ≠ 0) (hd : d ≠ 0)
    (hb52 : m = 2 ^ 52 → e = -1074)
    (h1 : ((m : ℚ) - 1 / 2) * (2 : ℚ) ^ e < (n : ℚ) / (d : ℚ))
    (h2 : (n : ℚ) / (d : ℚ) < (m : ℚ) * (2 : ℚ) ^ e) :
    roundRat false n d = fin false m e := by
  have hu := two_zpow_pos e
  obtain ⟨hD, hr, hv⟩ := scaleDiv_val n d e hd
  rcases hsd : scaleDiv n d e with ⟨q, r, D⟩
  rw [hsd] at hD hr hv
  simp only at hD hr hv
  have ha : (m : ℚ) - 1 / 2 < (n : ℚ) / (d : ℚ) / (2 : ℚ) ^ e := by rw [lt_div_iff₀ hu]; exact h1
  have hb : (n : ℚ) / (d : ℚ) / (2 : ℚ) ^ e < (m : ℚ) := by rw [div_lt_iff₀ hu]; exact h2
  obtain ⟨c1, c2⟩ := (quot_of_val hD hr hv).2 ha hb
  exact roundRat_of_scaleDiv hc hn hd hsd (Or.inr ⟨c1, c2, hb52⟩)

/-! ## 4. the decimal side: `ltPow10`, `divPow10`, the candidate of `roundTrips` -/

theorem ltPow10_iff (num den : Nat) (k : Int) (hd : den ≠ 0) :
    ltPow10 num den k = true ↔ (num : ℚ) / (den : ℚ) < (10 : ℚ) ^ k := by
  have hdq : (0 : ℚ) < (den : ℚ) := by exact_mod_cast Nat.pos_of_ne_zero hd
  unfold ltPow10
  by_cases h : 0 ≤ k
  · rw [if_pos h, zpow_nonneg_eq 10 h, div_lt_iff₀ hdq, decide_eq_true_iff]
    constructor
    · intro hlt
      have : ((num : ℕ) : ℚ) < ((den * 10 ^ k.toNat : ℕ) : ℚ) := by exact_mod_cast hlt
      push_cast at this; linarith
    · intro hlt
      have : ((num : ℕ) : ℚ) < ((den * 10 ^ k.toNat : ℕ) : ℚ) := by push_cast; linarith
      exact_mod_cast this
  · have hp : (0 : ℚ) < (10 : ℚ) ^ (-k).toNat := by positivity
    rw [if_neg h, zpow_neg_eq 10 (by omega), div_lt_iff₀ hdq, decide_eq_true_iff,
      ← div_eq_inv_mul, lt_div_iff₀ hp]
    constructor
    · intro hlt
      have : ((num * 10 ^ (-k).toNat : ℕ) : ℚ) < ((den : ℕ) : ℚ) := by exact_mod_cast hlt
      push_cast at this; linarith
    · intro hlt
      have : ((num * 10 ^ (-k).toNat : ℕ) : ℚ) < ((den : ℕ) : ℚ) := by push_cast; linarith
      exact_mod_cast this

/-- `⌊X / Y⌋` in `ℚ` -/
theorem nat_div_q (X Y : Nat) (hY : 0 < Y) :
    ((X / Y : ℕ) : ℚ) * (Y : ℚ) ≤ (X : ℚ) ∧ (X : ℚ) < (((X / Y : ℕ) : ℚ) + 1) * (Y : ℚ) := by
  have a := Nat.div_add_mod X Y
  have b := Nat.mod_lt X hY
  have a' : ((Y * (X / Y) + X % Y : ℕ) : ℚ) = (X : ℚ) := by rw [a]
  have b' : ((X % Y : ℕ) : ℚ) < (Y : ℚ) := by exact_mod_cast b
  have c' : (0 : ℚ) ≤ ((X % Y : ℕ) : ℚ) := by positivity
  push_cast at a'
  constructor <;> nlinarith

theorem divPow10_spec (num den : Nat) (p : Int) (hd : den ≠ 0) :
    ((divPow10 num den p : ℕ) : ℚ) * (10 : ℚ) ^ p ≤ (num : ℚ) / (den : ℚ) ∧
    (num : ℚ) / (den : ℚ) < (((divPow10 num den p : ℕ) : ℚ) + 1) * (10 : ℚ) ^ p := by
  have hdq : (0 : ℚ) < (den : ℚ) := by exact_mod_cast Nat.pos_of_ne_zero hd
  unfold divPow10
  by_cases h : 0 ≤ p
  · rw [if_pos h, zpow_nonneg_eq 10 h]
    have hY : 0 < den * 10 ^ p.toNat := Nat.mul_pos (Nat.pos_of_ne_zero hd) (Nat.pow_pos (by decide))
    obtain ⟨a, b⟩ := nat_div_q num (den * 10 ^ p.toNat) hY
    push_cast at a b
    rw [le_div_iff₀ hdq, div_lt_iff₀ hdq]
    constructor <;> linarith
  · rw [if_neg h, zpow_neg_eq 10 (by omega)]
    have hp : (0 : ℚ) < (10 : ℚ) ^ (-p).toNat := by positivity
    obtain ⟨a, b⟩ := nat_div_q (num * 10 ^ (-p).toNat) den (Nat.pos_of_ne_zero hd)
    push_cast at a b
    rw [le_div_iff₀ hdq, div_lt_iff₀ hdq, ← div_eq_mul_inv, ← div_eq_mul_inv, div_mul_eq_mul_div,
      div_mul_eq_mul_div, div_le_iff₀ hp, lt_div_iff₀ hp]
    exact ⟨a, b⟩

/-- the rational that `roundTrips` rounds: `digits × 10^p` -/
theorem rd_val (digits : Nat) (p : Int) :
    ∃ N D : Nat, D ≠ 0 ∧ rd false digits p = roundRat false N D ∧
      (N : ℚ) / (D : ℚ) = (digits : ℚ) * (10 : ℚ) ^ p := by
  unfold rd
  by_cases h : 0 ≤ p
  · refine ⟨digits * 10 ^ p.toNat, 1, by decide, by rw [if_pos h], ?_⟩
    rw [zpow_nonneg_eq 10 h]; push_cast; simp
  · refine ⟨digits, 10 ^ (-p).toNat, Nat.ne_of_gt (Nat.pow_pos (by decide)), by rw [if_neg h], ?_⟩
    rw [zpow_neg_eq 10 (by omega)]; push_cast; rw [div_eq_mul_inv]

theorem roundTrips_of_rd {s : Bool} {m : Nat} {e : Int} {d : Nat} {p : Int}
    (h : rd false d p = fin false m e) : roundTrips (fin s m e) d p = true := by
  have hg : roundTrips (fin s m e) d p =
      (match (fin s m e).abs, rd false d p with
        | fin _ m e, fin _ m' e' => m == m' && e == e'
        | _, _ => false) := rfl
  rw [hg, h]
  simp [F64.abs]

/-! ## 5. `decExp` is exact -/

theorem up_spec (num den : Nat) (hd : den ≠ 0) (fuel : Nat) (k : Int)
    (h : (num : ℚ) / (den : ℚ) < (10 : ℚ) ^ (k + fuel)) :
    (num : ℚ) / (den : ℚ) < (10 : ℚ) ^ (decExp.up num den fuel k) ∧
    (decExp.up num den fuel k = k ∨ (10 : ℚ) ^ (decExp.up num den fuel k - 1) ≤ (num : ℚ) / (den : ℚ)) := by
  induction fuel generalizing k with
  | zero =>
    have hu : decExp.up num den 0 k = k := rfl
    rw [hu]
    exact ⟨by simpa using h, Or.inl rfl⟩
  | succ f ih =>
    simp only [decExp.up]
    by_cases hk : ltPow10 num den k = true
    · rw [if_pos hk]
      exact ⟨(ltPow10_iff num den k hd).1 hk, Or.inl rfl⟩
    · rw [if_neg hk]
      have hge : (10 : ℚ) ^ k ≤ (num : ℚ) / (den : ℚ) := by
        rw [ltPow10_iff num den k hd] at hk; exact not_lt.1 hk
      have h' : (num : ℚ) / (den : ℚ) < (10 : ℚ) ^ (k + 1 + (f : ℤ)) := by
        have : k + ((f + 1 : ℕ) : ℤ) = k + 1 + (f : ℤ) := by push_cast; ring
        rwa [this] at h
      obtain ⟨a, b⟩ := ih (k + 1) h'
      refine ⟨a, Or.inr ?_⟩
      rcases b with b | b
      · rw [b]; simpa using hge
      · exact b

theorem down_spec (num den : Nat) (hd : den ≠ 0) (fuel : Nat) (k : Int)
    (h : (num : ℚ) / (den : ℚ) < (10 : ℚ) ^ k)
    (hlow : (10 : ℚ) ^ (k - fuel - 1) ≤ (num : ℚ) / (den : ℚ)) :
    (num : ℚ) / (den : ℚ) < (10 : ℚ) ^ (decExp.down num den fuel k) ∧
    (10 : ℚ) ^ (decExp.down num den fuel k - 1) ≤ (num : ℚ) / (den : ℚ) := by
  induction fuel generalizing k with
  | zero =>
    have hu : decExp.down num den 0 k = k := rfl
    rw [hu]
    exact ⟨h, by simpa using hlow⟩
  | succ f ih =>
    simp only [decExp.down]
    by_cases hk : ltPow10 num den (k - 1) = true
    · rw [if_pos hk]
      apply ih (k - 1) ((ltPow10_iff num den (k - 1) hd).1 hk)
      have : k - ((f + 1 : ℕ) : ℤ) - 1 = k - 1 - (f : ℤ) - 1 := by push_cast; ring
      rwa [this] at hlow
    · rw [if_neg hk]
      rw [ltPow10_iff num den (k - 1) hd] at hk
      exact ⟨h, not_lt.1 hk⟩

/-- if the logarithmic estimate `k0` is within reach (`10^(k0-9) ≤ x < 10^(k0+8)`), `decExp` is exact -/
theorem decExp_exact_of_est (num den : Nat) (hd : den ≠ 0)
    (hlo : (10 : ℚ) ^ (((Nat.log2 num : Int) - (Nat.log2 den : Int)) * 30103 / 100000 - 9) ≤ (num : ℚ) / (den : ℚ))
    (hhi : (num : ℚ) / (den : ℚ) < (10 : ℚ) ^ (((Nat.log2 num : Int) - (Nat.log2 den : Int)) * 30103 / 100000 + 8)) :
    (10 : ℚ) ^ (decExp num den - 1) ≤ (num : ℚ) / (den : ℚ) ∧ (num : ℚ) / (den : ℚ) < (10 : ℚ) ^ (decExp num den) := by
  have hdef : decExp num den = decExp.down num den 8
      (decExp.up num den 8 (((Nat.log2 num : Int) - (Nat.log2 den : Int)) * 30103 / 100000)) := rfl
  rw [hdef]
  generalize ((Nat.log2 num : Int) - (Nat.log2 den : Int)) * 30103 / 100000 = k0 at hlo hhi ⊢
  obtain ⟨a, b⟩ := up_spec num den hd 8 k0 (by simpa using hhi)
  have hlow : (10 : ℚ) ^ (decExp.up num den 8 k0 - ((8 : ℕ) : ℤ) - 1) ≤ (num : ℚ) / (den : ℚ) := by
    rcases b with b | b
    · rw [b]
      have : k0 - ((8 : ℕ) : ℤ) - 1 = k0 - 9 := by push_cast; ring
      rw [this]; exact hlo
    · refine le_trans ?_ b
      apply zpow_le_zpow_right₀ (by norm_num)
      push_cast; omega
  obtain ⟨c, d⟩ := down_spec num den hd 8 _ a hlow
  exact ⟨d, c⟩


/-! ### the logarithmic estimate is within reach: a finite table -/

/-- `b1^i ≤ b2^j` for integer exponents, cross-multiplied in `Nat` -/
def powLe (b1 : Nat) (i : Int) (b2 : Nat) (j : Int) : Bool :=
  decide (b1 ^ i.toNat * b2 ^ (-j).toNat ≤ b2 ^ j.toNat * b1 ^ (-i).toNat)

/-- for a value in `(2^(n-1), 2^(n+1))` the estimate `k0 = ⌊n·30103/100000⌋` satisfies `10^(k0-9) ≤ · < 10^(k0+8)` -/
def estOK (n : Int) : Bool :=
  powLe 10 (n * 30103 / 100000 - 9) 2 (n - 1) && powLe 2 (n + 1) 10 (n * 30103 / 100000 + 8)

/-- the table: all binary exponents a finite double (or a quotient of such magnitudes) can have -/
theorem est_table : (List.range 2100).all (fun t => estOK ((t : Int) - 1075)) = true := by decide +kernel

theorem zpow_split (b : ℚ) (i : ℤ) : b ^ i = b ^ i.toNat / b ^ (-i).toNat := by
  by_cases h : 0 ≤ i
  · have : (-i).toNat = 0 := by omega
    rw [this, zpow_nonneg_eq b h]; simp
  · have : i.toNat = 0 := by omega
    rw [this, zpow_neg_eq b (by omega)]; simp

theorem powLe_iff (b1 b2 : Nat) (h1 : 0 < b1) (h2 : 0 < b2) (i j : Int) :
    powLe b1 i b2 j = true ↔ ((b1 : ℚ)) ^ i ≤ ((b2 : ℚ)) ^ j := by
  have q1 : (0 : ℚ) < (b1 : ℚ) := by exact_mod_cast h1
  have q2 : (0 : ℚ) < (b2 : ℚ) := by exact_mod_cast h2
  unfold powLe
  rw [decide_eq_true_iff, zpow_split (b1 : ℚ) i, zpow_split (b2 : ℚ) j,
    div_le_div_iff₀ (by positivity) (by positivity)]
  constructor
  · intro h
    have : ((b1 ^ i.toNat * b2 ^ (-j).toNat : ℕ) : ℚ) ≤ ((b2 ^ j.toNat * b1 ^ (-i).toNat : ℕ) : ℚ) := by
      exact_mod_cast h
    push_cast at this; exact this
  · intro h
    have : ((b1 ^ i.toNat * b2 ^ (-j).toNat : ℕ) : ℚ) ≤ ((b2 ^ j.toNat * b1 ^ (-i).toNat : ℕ) : ℚ) := by
      push_cast; exact h
    exact_mod_cast this

theorem est_of_table (n : Int) (h1 : -1075 ≤ n) (h2 : n < 1025) :
    (10 : ℚ) ^ (n * 30103 / 100000 - 9) ≤ (2 : ℚ) ^ (n - 1) ∧
    (2 : ℚ) ^ (n + 1) ≤ (10 : ℚ) ^ (n * 30103 / 100000 + 8) := by
  have ht := est_table
  rw [List.all_eq_true] at ht
  have := ht (n + 1075).toNat (List.mem_range.2 (by omega))
  rw [show (((n + 1075).toNat : ℕ) : ℤ) - 1075 = n by omega] at this
  unfold estOK at this
  rw [Bool.and_eq_true] at this
  obtain ⟨a, b⟩ := this
  have a' := (powLe_iff 10 2 (by decide) (by decide) _ _).1 a
  have b' := (powLe_iff 2 10 (by decide) (by decide) _ _).1 b
  exact ⟨by exact_mod_cast a', by exact_mod_cast b'⟩

/-- the value lies strictly between the powers of two given by the bit lengths -/
theorem val_log2_bounds {num den : Nat} (hn : num ≠ 0) (hd : den ≠ 0) :
    (2 : ℚ) ^ ((Nat.log2 num : Int) - (Nat.log2 den : Int) - 1) < (num : ℚ) / (den : ℚ) ∧
    (num : ℚ) / (den : ℚ) < (2 : ℚ) ^ ((Nat.log2 num : Int) - (Nat.log2 den : Int) + 1) := by
  obtain ⟨ha, ha'⟩ := log2_bounds hn
  obtain ⟨hb, hb'⟩ := log2_bounds hd
  have two_ne : (2 : ℚ) ≠ 0 := by norm_num
  have hdq : (0 : ℚ) < (den : ℚ) := by exact_mod_cast Nat.pos_of_ne_zero hd
  have qa : ((2 : ℚ)) ^ num.log2 ≤ (num : ℚ) := by exact_mod_cast ha
  have qa' : (num : ℚ) < ((2 : ℚ)) ^ (num.log2 + 1) := by exact_mod_cast ha'
  have qb : ((2 : ℚ)) ^ den.log2 ≤ (den : ℚ) := by exact_mod_cast hb
  have qb' : (den : ℚ) < ((2 : ℚ)) ^ (den.log2 + 1) := by exact_mod_cast hb'
  have pA : (0 : ℚ) < (2 : ℚ) ^ num.log2 := by positivity
  have pB : (0 : ℚ) < (2 : ℚ) ^ den.log2 := by positivity
  constructor
  · rw [show (Nat.log2 num : Int) - (Nat.log2 den : Int) - 1 = (Nat.log2 num : Int) - ((den.log2 + 1 : ℕ) : ℤ) by
      push_cast; ring, zpow_sub₀ two_ne, zpow_natCast, zpow_natCast,
      div_lt_div_iff₀ (by positivity) hdq]
    calc (2 : ℚ) ^ num.log2 * (den : ℚ) < (2 : ℚ) ^ num.log2 * (2 : ℚ) ^ (den.log2 + 1) :=
          mul_lt_mul_of_pos_left qb' pA
      _ ≤ (num : ℚ) * (2 : ℚ) ^ (den.log2 + 1) := mul_le_mul_of_nonneg_right qa (by positivity)
  · rw [show (Nat.log2 num : Int) - (Nat.log2 den : Int) + 1 = ((num.log2 + 1 : ℕ) : ℤ) - (Nat.log2 den : Int) by
      push_cast; ring, zpow_sub₀ two_ne, zpow_natCast, zpow_natCast,
      div_lt_div_iff₀ hdq (by positivity)]
    calc (num : ℚ) * (2 : ℚ) ^ den.log2 < (2 : ℚ) ^ (num.log2 + 1) * (2 : ℚ) ^ den.log2 :=
          mul_lt_mul_of_pos_right qa' pB
      _ ≤ (2 : ℚ) ^ (num.log2 + 1) * (den : ℚ) := mul_le_mul_of_nonneg_left qb (by positivity)

set_option exponentiation.threshold 1100 in
/-- **`decExp` is exact** on every quotient of double-sized magnitudes: `10^(k-1) ≤ num/den < 10^k`. -/
theorem decExp_exact {num den : Nat} (hn : num ≠ 0) (hd : den ≠ 0) (hnum : num < 2 ^ 1024) (hden : den ≤ 2 ^ 1074) :
    (10 : ℚ) ^ (decExp num den - 1) ≤ (num : ℚ) / (den : ℚ) ∧ (num : ℚ) / (den : ℚ) < (10 : ℚ) ^ (decExp num den) := by
  have ha : num.log2 < 1024 := (Nat.log2_lt hn).2 hnum
  have hb : den.log2 < 1075 :=
    (Nat.log2_lt hd).2 (Nat.lt_of_le_of_lt hden (Nat.pow_lt_pow_right (by decide) (by decide)))
  obtain ⟨v1, v2⟩ := val_log2_bounds hn hd
  obtain ⟨t1, t2⟩ := est_of_table ((Nat.log2 num : Int) - (Nat.log2 den : Int)) (by omega) (by omega)
  exact decExp_exact_of_est num den hd (le_of_lt (lt_of_le_of_lt t1 v1)) (lt_of_lt_of_le v2 t2)


/-! ## 6. the candidates of the digit search and the 17-digit step -/

theorem cand_up {m c : Nat} {e p : Int} (hc : Canonical (fin false m e)) (hm : m ≠ 0)
    (h1 : (m : ℚ) * (2 : ℚ) ^ e ≤ (c : ℚ) * (10 : ℚ) ^ p)
    (h2 : (c : ℚ) * (10 : ℚ) ^ p < ((m : ℚ) + 1 / 2) * (2 : ℚ) ^ e) :
    rd false c p = fin false m e := by
  obtain ⟨N, D, hD, hrd, hv⟩ := rd_val c p
  rw [hrd]
  rw [← hv] at h1 h2
  exact roundRat_nearest_up hc hD hm h1 h2

theorem cand_down {m c : Nat} {e p : Int} (hc : Canonical (fin false m e)) (hm : m ≠ 0)
    (hb52 : m = 2 ^ 52 → e = -1074)
    (h1 : ((m : ℚ) - 1 / 2) * (2 : ℚ) ^ e < (c : ℚ) * (10 : ℚ) ^ p)
    (h2 : (c : ℚ) * (10 : ℚ) ^ p < (m : ℚ) * (2 : ℚ) ^ e) :
    rd false c p = fin false m e := by
  obtain ⟨N, D, hD, hrd, hv⟩ := rd_val c p
  rw [hrd]
  rw [← hv] at h1 h2
  have hN : N ≠ 0 := by
    rintro rfl
    have hu := two_zpow_pos e
    have : (1 : ℚ) ≤ (m : ℚ) := by exact_mod_cast Nat.pos_of_ne_zero hm
    have : (0 : ℚ) ≤ ((m : ℚ) - 1 / 2) * (2 : ℚ) ^ e := by
      apply mul_nonneg _ (le_of_lt hu); linarith
    simp at h1; linarith
  exact roundRat_nearest_down hc hN hD hb52 h1 h2

/-- the arithmetic heart: with a decimal grid of spacing `g ≤ x / 10^16` around `x = m·u`, `m < 2^53`, one of the two
grid neighbours `L ≤ x < L + g` lies strictly within `u/2` of `x`; at a binade boundary (`m = 2^52`) the upper one does. -/
theorem grid17 {m : Nat} {u g L : ℚ} (hm : m < 2 ^ 53) (hu : 0 < u) (hg : 0 < g)
    (hx : (10 : ℚ) ^ 16 * g ≤ (m : ℚ) * u) (hL1 : L ≤ (m : ℚ) * u) (hL2 : (m : ℚ) * u < L + g) :
    (m = 2 ^ 52 → L + g < ((m : ℚ) + 1 / 2) * u) ∧
    ((((m : ℚ) - 1 / 2) * u < L ∧ L < (m : ℚ) * u) ∨ L = (m : ℚ) * u ∨ L + g < ((m : ℚ) + 1 / 2) * u) := by
  have hmq : (m : ℚ) ≤ 2 ^ 53 - 1 := by
    have : m + 1 ≤ 2 ^ 53 := hm
    have : ((m + 1 : ℕ) : ℚ) ≤ ((2 ^ 53 : ℕ) : ℚ) := by exact_mod_cast this
    push_cast at this; linarith
  have hxu : (m : ℚ) * u ≤ (2 ^ 53 - 1) * u := mul_le_mul_of_nonneg_right hmq (le_of_lt hu)
  constructor
  · intro h52
    have : (m : ℚ) = 2 ^ 52 := by rw [h52]; norm_num
    rw [this] at hx hL1 hL2 ⊢
    norm_num at hx hL1 hL2 ⊢
    linarith
  · by_cases hlt : ((m : ℚ) - 1 / 2) * u < L
    · rcases lt_or_eq_of_le hL1 with h | h
      · exact Or.inl ⟨hlt, h⟩
      · exact Or.inr (Or.inl h)
    · refine Or.inr (Or.inr ?_)
      have := not_lt.1 hlt
      norm_num at hx hxu
      linarith


set_option exponentiation.threshold 1100 in
/-- the exact rational of a canonical double has a numerator below `2^1024` and a denominator at most `2^1074` -/
theorem toRat_bounds {m : Nat} {e : Int} (hc : Canonical (fin false m e)) :
    (toRat (fin false m e)).1 < 2 ^ 1024 ∧ (toRat (fin false m e)).2 ≤ 2 ^ 1074 := by
  obtain ⟨hm53, he1, he2, _⟩ := hc
  by_cases h : 0 ≤ e
  · simp only [toRat, h, if_true]
    refine ⟨?_, Nat.one_le_two_pow⟩
    have h1 : m * 2 ^ e.toNat < 2 ^ 53 * 2 ^ e.toNat := Nat.mul_lt_mul_of_pos_right hm53 (Nat.pow_pos (by decide))
    have h2 : 2 ^ 53 * 2 ^ e.toNat ≤ 2 ^ 53 * 2 ^ 971 :=
      Nat.mul_le_mul_left _ (Nat.pow_le_pow_right (by decide) (by omega))
    have h3 : 2 ^ 53 * 2 ^ 971 = 2 ^ 1024 := by rw [← Nat.pow_add]
    omega
  · simp only [toRat, h, if_false]
    refine ⟨Nat.lt_trans hm53 (Nat.pow_lt_pow_right (by decide) (by decide)), ?_⟩
    exact Nat.pow_le_pow_right (by decide) (by omega)

/-- **the 17-digit step**: one of the two 17-digit neighbours of a canonical non-zero double rounds back to it -/
theorem step17 {m : Nat} {e : Int} (hc : Canonical (fin false m e)) (hm : m ≠ 0) :
    (divPow10 (toRat (fin false m e)).1 (toRat (fin false m e)).2
        (decExp (toRat (fin false m e)).1 (toRat (fin false m e)).2 - 17) ≠ 0 ∧
      rd false (divPow10 (toRat (fin false m e)).1 (toRat (fin false m e)).2
        (decExp (toRat (fin false m e)).1 (toRat (fin false m e)).2 - 17))
        (decExp (toRat (fin false m e)).1 (toRat (fin false m e)).2 - 17) = fin false m e) ∨
    rd false (divPow10 (toRat (fin false m e)).1 (toRat (fin false m e)).2
        (decExp (toRat (fin false m e)).1 (toRat (fin false m e)).2 - 17) + 1)
        (decExp (toRat (fin false m e)).1 (toRat (fin false m e)).2 - 17) = fin false m e := by
  obtain ⟨hn, hd⟩ := toRat_ne_zero false e hm
  obtain ⟨hb1, hb2⟩ := toRat_bounds hc
  have hval := toRat_val false m e
  generalize (toRat (fin false m e)).1 = num at hn hb1 hval ⊢
  generalize (toRat (fin false m e)).2 = den at hd hb2 hval ⊢
  obtain ⟨k1, k2⟩ := decExp_exact hn hd hb1 hb2
  generalize decExp num den = k at k1 k2 ⊢
  obtain ⟨l1, l2⟩ := divPow10_spec num den (k - 17) hd
  generalize divPow10 num den (k - 17) = lo at l1 l2 ⊢
  rw [hval] at k1 k2 l1 l2
  have hu := two_zpow_pos e
  have hg := ten_zpow_pos (k - 17)
  have ten_ne : (10 : ℚ) ≠ 0 := by norm_num
  have hx : (10 : ℚ) ^ 16 * (10 : ℚ) ^ (k - 17) ≤ (m : ℚ) * (2 : ℚ) ^ e := by
    have : (10 : ℚ) ^ (k - 1) = (10 : ℚ) ^ 16 * (10 : ℚ) ^ (k - 17) := by
      rw [show k - 1 = ((16 : ℕ) : ℤ) + (k - 17) by push_cast; ring, zpow_add₀ ten_ne, zpow_natCast]
    rw [← this]; exact k1
  have hL2 : (m : ℚ) * (2 : ℚ) ^ e < (lo : ℚ) * (10 : ℚ) ^ (k - 17) + (10 : ℚ) ^ (k - 17) := by
    have : ((lo : ℚ) + 1) * (10 : ℚ) ^ (k - 17) = (lo : ℚ) * (10 : ℚ) ^ (k - 17) + (10 : ℚ) ^ (k - 17) := by ring
    rw [← this]; exact l2
  have hlo : lo ≠ 0 := by
    rintro rfl
    norm_num at hx hL2
    linarith
  obtain ⟨g1, g2⟩ := grid17 hc.1 hu hg hx l1 hL2
  have hhi : (lo : ℚ) * (10 : ℚ) ^ (k - 17) + (10 : ℚ) ^ (k - 17) = ((lo + 1 : ℕ) : ℚ) * (10 : ℚ) ^ (k - 17) := by
    push_cast; ring
  by_cases hb : m = 2 ^ 52
  · right
    apply cand_up hc hm
    · rw [← hhi]; exact le_of_lt hL2
    · rw [← hhi]; exact g1 hb
  · rcases g2 with ⟨a, b⟩ | a | a
    · left
      exact ⟨hlo, cand_down hc hm (fun h => absurd h hb) a b⟩
    · left
      refine ⟨hlo, cand_up hc hm (le_of_eq a.symm) ?_⟩
      rw [a]
      have : (0 : ℚ) < 1 / 2 * (2 : ℚ) ^ e := by positivity
      linarith
    · right
      apply cand_up hc hm
      · rw [← hhi]; exact le_of_lt hL2
      · rw [← hhi]; exact a


/-! ## 7. the search reaches `n = 17` (or stops earlier with an answer) -/

theorem go_isSome (f : F64) (num den : Nat) (k : Int) (fuel n : Nat) (hn : n ≤ 17) (hfuel : n + fuel = 18)
    (h17 : (divPow10 num den (k - 17) ≠ 0 ∧ roundTrips f (divPow10 num den (k - 17)) (k - 17) = true) ∨
      roundTrips f (divPow10 num den (k - 17) + 1) (k - 17) = true) :
    (shortestDigits.go f num den k fuel n).isSome = true := by
  induction fuel generalizing n with
  | zero => omega
  | succ fuel ih =>
    simp only [shortestDigits.go]
    split
    · split <;> rfl
    · split
      · rfl
      · split
        · rfl
        · rename_i h1 h2 h3
          by_cases hn17 : n = 17
          · exfalso
            subst hn17
            rw [show (k : Int) - ((17 : ℕ) : ℤ) = k - 17 by rfl] at h1 h2 h3
            rcases h17 with ⟨a, b⟩ | b
            · apply h2
              simp [a, b]
            · exact h3 b
          · exact ih (n + 1) (by omega) (by omega)

end Jawk.H17

namespace Jawk
open Jawk.F64 Jawk.F64RT Jawk.H17

/-- the digit search of `Display for f64` succeeds on every canonical finite double -/
theorem F64.shortestDigits_isSome (f : F64) (hc : f.Canonical) (hf : f.isFinite = true) :
    (F64.shortestDigits f).isSome = true := by
  cases f with
  | inf s => simp [F64.isFinite] at hf
  | nan => simp [F64.isFinite] at hf
  | fin s m e =>
    by_cases hm : m = 0
    · subst hm; rfl
    · have hc' : Canonical (fin false m e) := hc
      have hdef : shortestDigits (fin s m e) =
          shortestDigits.go (fin s m e) (toRat (fin false m e)).1 (toRat (fin false m e)).2
            (decExp (toRat (fin false m e)).1 (toRat (fin false m e)).2) 17 1 := by
        simp only [shortestDigits, F64.abs, hm, if_false]
      rw [hdef]
      apply go_isSome _ _ _ _ 17 1 (by decide) (by decide)
      rcases step17 hc' hm with ⟨a, b⟩ | b
      · exact Or.inl ⟨a, roundTrips_of_rd b⟩
      · exact Or.inr (roundTrips_of_rd b)

theorem F64.toDisplay?_isSome (f : F64) (hc : f.Canonical) (hf : f.isFinite = true) :
    (F64.toDisplay? f).isSome = true := by
  cases f with
  | inf s => rfl
  | nan => rfl
  | fin s m e =>
    have h := F64.shortestDigits_isSome (fin s m e) hc hf
    have hd : toDisplay? (fin s m e) = (match shortestDigits (fin s m e) with
        | some (d, p) => some (render s d p)
        | none => none) := rfl
    rw [hd]
    cases hsd : shortestDigits (fin s m e) with
    | none => rw [hsd] at h; simp at h
    | some dp => rfl

/-- `H17` holds: the last hypothesis of the C01/C02 theorems about floats is a theorem. -/
theorem Ser.h17 : Ser.H17 := fun f hc hf => F64.toDisplay?_isSome f hc hf

end Jawk

/-! ## Non-vacuity: instances of the hypotheses, and tests of the search on hard doubles -/

namespace Jawk.H17
open Jawk Jawk.F64 Jawk.F64RT

-- the main theorems instantiated (hypotheses `Canonical`, `isFinite` hold for concrete doubles)
example : (shortestDigits (fin false 1 (-1074))).isSome = true :=
  F64.shortestDigits_isSome _ (by decide) rfl
example : (toDisplay? (fin true (2 ^ 53 - 1) 971)).isSome = true :=
  F64.toDisplay?_isSome _ (by decide) rfl
example : Ser.H17 := Ser.h17

-- the nearest-rounding lemmas instantiated: 1/10 lies less than half an ulp below
-- 0x1999999999999A·2^-56 = 0.1000000000000000055…, so the lemma "from below" applies
example : roundRat false 1 10 = fin false 0x1999999999999A (-56) :=
  roundRat_nearest_down (by decide) (by decide) (by decide) (by decide) (by norm_num) (by norm_num)
-- 3 = 3·2^51·2^-51 exactly: the lemma "from above" with equality on the left
example : roundRat false 3 1 = fin false (3 * 2 ^ 51) (-51) :=
  roundRat_nearest_up (by decide) (by decide) (by decide) (by norm_num) (by norm_num)
-- `roundRat_of_scaleDiv`, first alternative
example : roundRat false 3 1 = fin false (3 * 2 ^ 51) (-51) :=
  roundRat_of_scaleDiv (q := 3 * 2 ^ 51) (r := 0) (D := 1) (by decide) (by decide) (by decide) (by decide +kernel)
    (Or.inl ⟨rfl, by decide⟩)
-- `decExp` is exact on the extreme magnitudes
example : decExp 1 (2 ^ 1074) = -323 := by decide +kernel
example : decExp ((2 ^ 53 - 1) * 2 ^ 971) 1 = 309 := by decide +kernel
example : (10 : ℚ) ^ (decExp 1 3 - 1) ≤ (1 : ℕ) / (3 : ℕ) ∧ ((1 : ℕ) : ℚ) / (3 : ℕ) < (10 : ℚ) ^ (decExp 1 3) :=
  decExp_exact (by decide) (by decide) (by decide +kernel) (by decide +kernel)
-- `step17` on 0.1
example := step17 (m := 0x1999999999999A) (e := -56) (by decide) (by decide)

/-! tests (labelled as tests): the search on hard doubles, evaluated by the kernel -/
-- 5e-324, the smallest subnormal
example : shortestDigits (fin false 1 (-1074)) = some (5, -324) := by decide +kernel
-- the largest subnormal and the smallest normal (binade boundary at the bottom)
example : shortestDigits (fin false (2 ^ 52 - 1) (-1074)) = some (2225073858507201, -323) := by decide +kernel
example : shortestDigits (fin false (2 ^ 52) (-1074)) = some (22250738585072014, -324) := by decide +kernel
-- binade boundaries `2^52·2^e`
example : shortestDigits (fin false (2 ^ 52) (-1073)) = some (4450147717014403, -323) := by decide +kernel
example : shortestDigits (fin false (2 ^ 52) (-52)) = some (1, 0) := by decide +kernel
example : shortestDigits (fin false (2 ^ 52) 971) = some (898846567431158, 293) := by decide +kernel
-- the largest double 1.7976931348623157e308
example : shortestDigits (fin false (2 ^ 53 - 1) 971) = some (17976931348623157, 292) := by decide +kernel
-- 0.1 and 0.30000000000000004 (17 digits needed)
example : shortestDigits (fin false 0x1999999999999A (-56)) = some (1, -1) := by decide +kernel
example : shortestDigits (fin true 0x13333333333334 (-54)) = some (30000000000000004, -17) := by decide +kernel
-- the neighbours of the unrepresentable 9007199254740993
example : shortestDigits (fin false (2 ^ 52) 1) = some (9007199254740992, 0) := by decide +kernel
example : shortestDigits (fin false (2 ^ 52 + 1) 1) = some (9007199254740994, 0) := by decide +kernel

end Jawk.H17

-- #print axioms Jawk.F64.shortestDigits_isSome   -- [propext, Classical.choice, Quot.sound]
-- #print axioms Jawk.F64.toDisplay?_isSome       -- [propext, Classical.choice, Quot.sound]
-- #print axioms Jawk.Ser.h17                     -- [propext, Classical.choice, Quot.sound]
