/-
  Property C10: `--unique` removes exactly the later duplicates, and on the
  interoperable domain `Hash` and `Eq` of `JsonValue` are coherent
  (`a == b → hash a = hash b`), so that the `HashSet` lookup of the
  duplication remover (`CtxKey.same`) coincides with `==` (`CtxKey.beq`).

  Outside the domain coherence fails; the three witnesses are theorems below.
-/
import Jawk.Model.Stages
namespace Jawk.HashEq
open Jawk

/-! ### The domain -/

/-- a number as the JSON reader / `From<f64>` produce it for a value in the interoperable
range: integers are integers (zero is `pos 0`), a float is finite, canonical and non-integral
(hence non-zero, hence not `-0`). -/
def NumKey : Num → Prop
  | .pos n => n < 2 ^ 53
  | .neg i => -(2 ^ 53 : Int) < i ∧ i < 0
  | .flt f => f.isFinite = true ∧ f.Canonical ∧ f.fractIsZero = false ∧ f ≠ F64.negZero

instance : DecidablePred NumKey := fun n => by
  cases n <;> unfold NumKey <;> infer_instance

mutual
/-- every number inside is normalised and interoperable, member names of every object are distinct -/
def Key : JV → Prop
  | .null => True
  | .bool _ => True
  | .str _ => True
  | .num n => NumKey n
  | .arr vs => KeyList vs
  | .obj kvs => (kvs.map (·.1)).Nodup ∧ KeyMembers kvs
def KeyList : List JV → Prop
  | [] => True
  | v :: vs => Key v ∧ KeyList vs
def KeyMembers : List (Str × JV) → Prop
  | [] => True
  | (_, v) :: kvs => Key v ∧ KeyMembers kvs
end

mutual
def decKey : (v : JV) → Decidable (Key v)
  | .null => by unfold Key; infer_instance
  | .bool _ => by unfold Key; infer_instance
  | .str _ => by unfold Key; infer_instance
  | .num n => by unfold Key; infer_instance
  | .arr vs => by unfold Key; exact decKeyList vs
  | .obj kvs => by
    unfold Key
    exact @instDecidableAnd _ _ inferInstance (decKeyMembers kvs)
def decKeyList : (vs : List JV) → Decidable (KeyList vs)
  | [] => by unfold KeyList; infer_instance
  | v :: vs => by
    unfold KeyList
    exact @instDecidableAnd _ _ (decKey v) (decKeyList vs)
def decKeyMembers : (kvs : List (Str × JV)) → Decidable (KeyMembers kvs)
  | [] => by unfold KeyMembers; infer_instance
  | (_, v) :: kvs => by
    unfold KeyMembers
    exact @instDecidableAnd _ _ (decKey v) (decKeyMembers kvs)
end

instance : DecidablePred Key := decKey
instance : DecidablePred KeyList := decKeyList
instance : DecidablePred KeyMembers := decKeyMembers

mutual
/-- the two values list the members of corresponding objects in the same order -/
def SameOrder : JV → JV → Prop
  | .arr a, .arr b => SameOrderList a b
  | .obj a, .obj b => a.map (·.1) = b.map (·.1) ∧ SameOrderMembers a b
  | _, _ => True
def SameOrderList : List JV → List JV → Prop
  | x :: xs, y :: ys => SameOrder x y ∧ SameOrderList xs ys
  | _, _ => True
def SameOrderMembers : List (Str × JV) → List (Str × JV) → Prop
  | (_, x) :: xs, (_, y) :: ys => SameOrder x y ∧ SameOrderMembers xs ys
  | _, _ => True
end

example : Key (JV.obj [("k".toList, JV.arr [JV.num (.pos 1), JV.str "x".toList])]) := by
  decide

example : Key (JV.num (.flt (.fin false 6755399441055744 (-52)))) := by decide   -- 1.5

/-! ### 1. Numbers -/

theorem F64.eq_of_eq_nonzero {s1 s2 : Bool} {m1 m2 : Nat} {e1 e2 : Int}
    (h1 : m1 ≠ 0) (h : F64.eq (.fin s1 m1 e1) (.fin s2 m2 e2) = true) :
    F64.fin s1 m1 e1 = F64.fin s2 m2 e2 := by
  simp only [F64.eq] at h
  split at h
  · rename_i hh; exact absurd hh.1 h1
  · simp only [Bool.and_eq_true, beq_iff_eq] at h
    obtain ⟨⟨rfl, rfl⟩, rfl⟩ := h
    rfl

theorem fract_ne_zero {s : Bool} {m : Nat} {e : Int}
    (h : F64.fractIsZero (.fin s m e) = false) : m ≠ 0 := by
  intro hm
  simp [F64.fractIsZero, hm] at h

/-- on the domain, `==` of numbers is syntactic equality -/
theorem num_coherent {a b : Num} (ha : NumKey a) (hb : NumKey b) (h : Num.beq a b = true) : a = b := by
  cases a with
  | pos n =>
    cases b with
    | pos m => simp only [Num.beq, beq_iff_eq] at h; rw [h]
    | neg j =>
      simp only [Num.beq, Bool.and_eq_true, beq_iff_eq] at h
      have := hb.2; omega
    | flt g => simp [Num.beq, hb.2.2.1] at h
  | neg i =>
    cases b with
    | pos m =>
      simp only [Num.beq, Bool.and_eq_true, beq_iff_eq] at h
      have := ha.2; omega
    | neg j => simp only [Num.beq, beq_iff_eq] at h; rw [h]
    | flt g => simp [Num.beq, hb.2.2.1] at h
  | flt f =>
    cases b with
    | pos m => simp [Num.beq, ha.2.2.1] at h
    | neg j => simp [Num.beq, ha.2.2.1] at h
    | flt g =>
      simp only [Num.beq] at h
      obtain ⟨hf, -, hz, -⟩ := ha
      obtain ⟨hg, -, -, -⟩ := hb
      cases f with
      | fin s1 m1 e1 =>
        cases g with
        | fin s2 m2 e2 => rw [F64.eq_of_eq_nonzero (fract_ne_zero hz) h]
        | inf _ => simp [F64.isFinite] at hg
        | nan => simp [F64.isFinite] at hg
      | inf _ => simp [F64.isFinite] at hf
      | nan => simp [F64.isFinite] at hf

theorem num_refl {a : Num} (ha : NumKey a) : Num.beq a a = true := by
  cases a with
  | pos n => simp [Num.beq]
  | neg i => simp [Num.beq]
  | flt f =>
    obtain ⟨hf, -, -, -⟩ := ha
    cases f with
    | fin s m e => simp [Num.beq, F64.eq]
    | inf _ => simp [F64.isFinite] at hf
    | nan => simp [F64.isFinite] at hf

/-! ### 3. Witnesses: coherence fails outside the domain -/

theorem incoherent_member_order :
    JV.beq (.obj [("a".toList, .num (.pos 1)), ("b".toList, .num (.pos 2))])
           (.obj [("b".toList, .num (.pos 2)), ("a".toList, .num (.pos 1))]) = true ∧
    JV.hashFeed (.obj [("a".toList, .num (.pos 1)), ("b".toList, .num (.pos 2))]) ≠
    JV.hashFeed (.obj [("b".toList, .num (.pos 2)), ("a".toList, .num (.pos 1))]) := by
  constructor
  · simp [JV.beq, JV.beqMembers, JV.beqLookup, Num.beq]
  · decide

theorem incoherent_neg_zero :
    JV.beq (.num (.pos 0)) (.num (.flt F64.negZero)) = true ∧
    JV.hashFeed (.num (.pos 0)) ≠ JV.hashFeed (.num (.flt F64.negZero)) := by
  constructor
  · simp only [JV.beq]; decide
  · decide

theorem incoherent_neg_int_zero :
    JV.beq (.num (.neg 0)) (.num (.pos 0)) = true ∧
    JV.hashFeed (.num (.neg 0)) ≠ JV.hashFeed (.num (.pos 0)) := by
  constructor
  · simp only [JV.beq]; decide
  · decide

/-! ### Object equality through `objGet?` -/

theorem beqLookup_iff (k : Str) (v : JV) (b : List (Str × JV)) :
    JV.beqLookup k v b = true ↔ ∃ w, objGet? b k = some w ∧ JV.beq v w = true := by
  induction b with
  | nil => simp [JV.beqLookup, objGet?]
  | cons kv rest ih =>
    obtain ⟨k', v'⟩ := kv
    simp only [JV.beqLookup, objGet?]
    split
    · simp
    · exact ih

theorem beqMembers_iff (a b : List (Str × JV)) :
    JV.beqMembers a b = true ↔ ∀ kv ∈ a, JV.beqLookup kv.1 kv.2 b = true := by
  induction a with
  | nil => simp [JV.beqMembers]
  | cons kv rest ih =>
    obtain ⟨k, v⟩ := kv
    simp [JV.beqMembers, ih]

theorem objGet?_mem {kvs : List (Str × JV)} {k : Str} {v : JV} (h : objGet? kvs k = some v) :
    (k, v) ∈ kvs := by
  induction kvs with
  | nil => simp [objGet?] at h
  | cons kv rest ih =>
    obtain ⟨k', v'⟩ := kv
    simp only [objGet?] at h
    split at h
    · rename_i hk; cases h; subst hk; exact List.mem_cons_self
    · exact List.mem_cons_of_mem _ (ih h)

theorem objGet?_of_mem {kvs : List (Str × JV)} {k : Str} {v : JV}
    (hn : (kvs.map (·.1)).Nodup) (h : (k, v) ∈ kvs) : objGet? kvs k = some v := by
  induction kvs with
  | nil => simp at h
  | cons kv rest ih =>
    obtain ⟨k', v'⟩ := kv
    simp only [List.map_cons, List.nodup_cons] at hn
    simp only [objGet?]
    rcases List.mem_cons.mp h with h | h
    · cases h; simp
    · have : k' ≠ k := by
        intro hk; subst hk
        exact hn.1 (List.mem_map.mpr ⟨(k', v), h, rfl⟩)
      simp only [this, if_false]
      exact ih hn.2 h

theorem mem_keys_of_objGet? {kvs : List (Str × JV)} {k : Str} {v : JV} (h : objGet? kvs k = some v) :
    k ∈ kvs.map (·.1) := List.mem_map.mpr ⟨(k, v), objGet?_mem h, rfl⟩

theorem KeyMembers_mem {kvs : List (Str × JV)} (h : KeyMembers kvs) {k : Str} {v : JV}
    (hm : (k, v) ∈ kvs) : Key v := by
  induction kvs with
  | nil => simp at hm
  | cons kv rest ih =>
    obtain ⟨k', v'⟩ := kv
    simp only [KeyMembers] at h
    rcases List.mem_cons.mp hm with hm | hm
    · cases hm; exact h.1
    · exact ih h.2 hm

/-- member-by-member comparison of two member lists in the listed order -/
def beqPointwise : List (Str × JV) → List (Str × JV) → Bool
  | [], [] => true
  | (_, v) :: as, (_, w) :: bs => JV.beq v w && beqPointwise as bs
  | _, _ => false

theorem beqMembers_cons_ne {k : Str} {w : JV} {as bs : List (Str × JV)}
    (h : k ∉ as.map (·.1)) : JV.beqMembers as ((k, w) :: bs) = JV.beqMembers as bs := by
  induction as with
  | nil => simp [JV.beqMembers]
  | cons kv rest ih =>
    obtain ⟨k', v'⟩ := kv
    simp only [List.map_cons, List.mem_cons, not_or] at h
    simp only [JV.beqMembers, JV.beqLookup, ih h.2]
    have : ¬ k = k' := h.1
    simp [this]

/-- with the same distinct names in the same order, `IndexMap` equality is member-by-member -/
theorem beqMembers_eq_pointwise {a b : List (Str × JV)} (hk : a.map (·.1) = b.map (·.1))
    (hn : (a.map (·.1)).Nodup) : JV.beqMembers a b = beqPointwise a b := by
  induction a generalizing b with
  | nil =>
    cases b with
    | nil => simp [JV.beqMembers, beqPointwise]
    | cons _ _ => simp at hk
  | cons kv rest ih =>
    obtain ⟨k, v⟩ := kv
    cases b with
    | nil => simp at hk
    | cons kw bs =>
      obtain ⟨k', w⟩ := kw
      simp only [List.map_cons, List.cons.injEq] at hk
      obtain ⟨rfl, hk⟩ := hk
      simp only [List.map_cons, List.nodup_cons] at hn
      simp only [JV.beqMembers, JV.beqLookup, beqPointwise, if_true, beqMembers_cons_ne hn.1,
        ih hk hn.2]

/-! ### 2. Coherence on the domain, same member order -/

mutual
/-- on the domain, two `==` values that list their members in the same order are identical -/
theorem beq_eq_of_sameOrder : (a b : JV) → Key a → Key b → SameOrder a b → JV.beq a b = true → a = b
  | .null, b, _, _, _, h => by cases b <;> simp [JV.beq] at h; rfl
  | .bool x, b, _, _, _, h => by
    cases b <;> simp [JV.beq] at h
    rw [h]
  | .str x, b, _, _, _, h => by
    cases b <;> simp [JV.beq] at h
    rw [h]
  | .num x, b, ha, hb, _, h => by
    cases b with
    | num y =>
      simp only [JV.beq] at h
      simp only [Key] at ha hb
      rw [num_coherent ha hb h]
    | _ => simp [JV.beq] at h
  | .arr xs, b, ha, hb, ho, h => by
    cases b with
    | arr ys =>
      simp only [JV.beq] at h
      simp only [Key] at ha hb
      simp only [SameOrder] at ho
      rw [beqList_eq_of_sameOrder xs ys ha hb ho h]
    | _ => simp [JV.beq] at h
  | .obj xs, b, ha, hb, ho, h => by
    cases b with
    | obj ys =>
      simp only [JV.beq, Bool.and_eq_true] at h
      simp only [Key] at ha hb
      simp only [SameOrder] at ho
      rw [beqMembers_eq_pointwise ho.1 ha.1] at h
      rw [beqPointwise_eq_of_sameOrder xs ys ha.2 hb.2 ho.2 ho.1 h.2]
    | _ => simp [JV.beq] at h
theorem beqList_eq_of_sameOrder : (a b : List JV) → KeyList a → KeyList b → SameOrderList a b →
    JV.beqList a b = true → a = b
  | [], b, _, _, _, h => by cases b <;> simp [JV.beqList] at h; rfl
  | x :: xs, b, ha, hb, ho, h => by
    cases b with
    | nil => simp [JV.beqList] at h
    | cons y ys =>
      simp only [JV.beqList, Bool.and_eq_true] at h
      simp only [KeyList] at ha hb
      simp only [SameOrderList] at ho
      rw [beq_eq_of_sameOrder x y ha.1 hb.1 ho.1 h.1, beqList_eq_of_sameOrder xs ys ha.2 hb.2 ho.2 h.2]
theorem beqPointwise_eq_of_sameOrder : (a b : List (Str × JV)) → KeyMembers a → KeyMembers b →
    SameOrderMembers a b → a.map (·.1) = b.map (·.1) → beqPointwise a b = true → a = b
  | [], b, _, _, _, _, h => by cases b <;> simp [beqPointwise] at h; rfl
  | (k, x) :: xs, b, ha, hb, ho, hk, h => by
    cases b with
    | nil => simp [beqPointwise] at h
    | cons ky ys =>
      obtain ⟨k', y⟩ := ky
      simp only [beqPointwise, Bool.and_eq_true] at h
      simp only [KeyMembers] at ha hb
      simp only [SameOrderMembers] at ho
      simp only [List.map_cons, List.cons.injEq] at hk
      rw [hk.1, beq_eq_of_sameOrder x y ha.1 hb.1 ho.1 h.1,
        beqPointwise_eq_of_sameOrder xs ys ha.2 hb.2 ho.2 hk.2 h.2]
end

/-- C10 (value level): on the domain and with the same member order, `==` implies the same hash feed -/
theorem beq_coherent_ordered {a b : JV} (ha : Key a) (hb : Key b) (ho : SameOrder a b)
    (h : JV.beq a b = true) : JV.hashFeed a = JV.hashFeed b := by
  rw [beq_eq_of_sameOrder a b ha hb ho h]

mutual
theorem SameOrder_refl : (a : JV) → SameOrder a a
  | .null => by simp [SameOrder]
  | .bool _ => by simp [SameOrder]
  | .str _ => by simp [SameOrder]
  | .num _ => by simp [SameOrder]
  | .arr xs => by simp only [SameOrder]; exact SameOrderList_refl xs
  | .obj xs => by simp only [SameOrder]; exact ⟨trivial, SameOrderMembers_refl xs⟩
theorem SameOrderList_refl : (a : List JV) → SameOrderList a a
  | [] => by simp [SameOrderList]
  | x :: xs => by simp only [SameOrderList]; exact ⟨SameOrder_refl x, SameOrderList_refl xs⟩
theorem SameOrderMembers_refl : (a : List (Str × JV)) → SameOrderMembers a a
  | [] => by simp [SameOrderMembers]
  | (_, x) :: xs => by
    simp only [SameOrderMembers]; exact ⟨SameOrder_refl x, SameOrderMembers_refl xs⟩
end

/-! ### 5. `==` is an equivalence relation on the domain -/

mutual
/-- reflexivity (false in general: `NaN`) -/
theorem beq_refl : (a : JV) → Key a → JV.beq a a = true
  | .null, _ => by simp [JV.beq]
  | .bool _, _ => by simp [JV.beq]
  | .str _, _ => by simp [JV.beq]
  | .num x, ha => by simp only [Key] at ha; simp only [JV.beq]; exact num_refl ha
  | .arr xs, ha => by simp only [Key] at ha; simp only [JV.beq]; exact beqList_refl xs ha
  | .obj xs, ha => by
    simp only [Key] at ha
    simp only [JV.beq, beqMembers_eq_pointwise rfl ha.1, beqPointwise_refl xs ha.2, beq_self_eq_true,
      Bool.and_self]
theorem beqList_refl : (a : List JV) → KeyList a → JV.beqList a a = true
  | [], _ => by simp [JV.beqList]
  | x :: xs, ha => by
    simp only [KeyList] at ha
    simp only [JV.beqList, beq_refl x ha.1, beqList_refl xs ha.2, Bool.and_self]
theorem beqPointwise_refl : (a : List (Str × JV)) → KeyMembers a → beqPointwise a a = true
  | [], _ => by simp [beqPointwise]
  | (_, x) :: xs, ha => by
    simp only [KeyMembers] at ha
    simp only [beqPointwise, beq_refl x ha.1, beqPointwise_refl xs ha.2, Bool.and_self]
end

/-- pigeonhole: a duplicate-free list contained in a list that is not longer contains it -/
theorem subset_of_nodup_subset_length {α} [DecidableEq α] {l₁ l₂ : List α} (hn : l₁.Nodup)
    (hs : ∀ x ∈ l₁, x ∈ l₂) (hl : l₂.length ≤ l₁.length) : ∀ y ∈ l₂, y ∈ l₁ := by
  induction l₁ generalizing l₂ with
  | nil =>
    intro y hy
    cases l₂ with
    | nil => simp at hy
    | cons _ _ => simp at hl
  | cons x xs ih =>
    simp only [List.nodup_cons] at hn
    have hx : x ∈ l₂ := hs x List.mem_cons_self
    have hs' : ∀ z ∈ xs, z ∈ l₂.erase x := by
      intro z hz
      have hne : z ≠ x := by intro h; subst h; exact hn.1 hz
      exact (List.mem_erase_of_ne hne).mpr (hs z (List.mem_cons_of_mem _ hz))
    have hl' : (l₂.erase x).length ≤ xs.length := by
      rw [List.length_erase_of_mem hx]
      simp only [List.length_cons] at hl
      omega
    intro y hy
    by_cases hyx : y = x
    · subst hyx; exact List.mem_cons_self
    · exact List.mem_cons_of_mem _ (ih hn.2 hs' hl' y ((List.mem_erase_of_ne hyx).mpr hy))

mutual
/-- symmetry -/
theorem beq_symm : (a b : JV) → Key a → Key b → JV.beq a b = true → JV.beq b a = true
  | .null, b, _, _, h => by cases b <;> simp [JV.beq] at h ⊢
  | .bool x, b, _, _, h => by
    cases b <;> simp [JV.beq] at h ⊢
    rw [h]
  | .str x, b, _, _, h => by
    cases b <;> simp [JV.beq] at h ⊢
    rw [h]
  | .num x, b, ha, hb, h => by
    cases b with
    | num y =>
      simp only [JV.beq] at h ⊢
      simp only [Key] at ha hb
      rw [num_coherent ha hb h]; exact num_refl hb
    | _ => simp [JV.beq] at h
  | .arr xs, b, ha, hb, h => by
    cases b with
    | arr ys =>
      simp only [JV.beq] at h ⊢
      simp only [Key] at ha hb
      exact beqList_symm xs ys ha hb h
    | _ => simp [JV.beq] at h
  | .obj xs, b, ha, hb, h => by
    cases b with
    | obj ys =>
      simp only [JV.beq, Bool.and_eq_true, beq_iff_eq] at h ⊢
      simp only [Key] at ha hb
      refine ⟨h.1.symm, ?_⟩
      have hm := (beqMembers_iff xs ys).mp h.2
      have hsub : ∀ k ∈ xs.map (·.1), k ∈ ys.map (·.1) := by
        intro k hk
        obtain ⟨⟨k', v⟩, hkv, rfl⟩ := List.mem_map.mp hk
        obtain ⟨w, hw, -⟩ := (beqLookup_iff _ _ _).mp (hm _ hkv)
        exact mem_keys_of_objGet? hw
      have hsup := subset_of_nodup_subset_length ha.1 hsub (by simp [h.1])
      refine (beqMembers_iff ys xs).mpr ?_
      rintro ⟨k, w⟩ hkw
      have hk : k ∈ xs.map (·.1) := hsup k (List.mem_map.mpr ⟨(k, w), hkw, rfl⟩)
      obtain ⟨⟨k', v⟩, hkv, hkk⟩ := List.mem_map.mp hk
      simp only at hkk; subst hkk
      obtain ⟨w', hw', hvw⟩ := (beqLookup_iff _ _ _).mp (hm _ hkv)
      rw [objGet?_of_mem hb.1 hkw] at hw'
      cases hw'
      exact (beqLookup_iff _ _ _).mpr
        ⟨v, objGet?_of_mem ha.1 hkv, beqMember_symm xs ha.2 k' v hkv w (KeyMembers_mem hb.2 hkw) hvw⟩
    | _ => simp [JV.beq] at h
theorem beqList_symm : (a b : List JV) → KeyList a → KeyList b → JV.beqList a b = true →
    JV.beqList b a = true
  | [], b, _, _, h => by cases b <;> simp [JV.beqList] at h ⊢
  | x :: xs, b, ha, hb, h => by
    cases b with
    | nil => simp [JV.beqList] at h
    | cons y ys =>
      simp only [JV.beqList, Bool.and_eq_true] at h ⊢
      simp only [KeyList] at ha hb
      exact ⟨beq_symm x y ha.1 hb.1 h.1, beqList_symm xs ys ha.2 hb.2 h.2⟩
theorem beqMember_symm : (a : List (Str × JV)) → KeyMembers a → ∀ k v, (k, v) ∈ a →
    ∀ w, Key w → JV.beq v w = true → JV.beq w v = true
  | [], _, _, _, hm, _, _, _ => by simp at hm
  | (k', x) :: xs, ha, k, v, hm, w, hw, h => by
    simp only [KeyMembers] at ha
    rcases List.mem_cons.mp hm with hm | hm
    · cases hm; exact beq_symm x w ha.1 hw h
    · exact beqMember_symm xs ha.2 k v hm w hw h
end

mutual
/-- transitivity (false in general: `pos (2^53+1) == flt 2^53 == pos (2^53)`) -/
theorem beq_trans : (a b c : JV) → Key a → Key b → Key c → JV.beq a b = true → JV.beq b c = true →
    JV.beq a c = true
  | .null, b, c, _, _, _, h1, h2 => by cases b <;> simp [JV.beq] at h1; exact h2
  | .bool x, b, c, _, _, _, h1, h2 => by
    cases b <;> simp [JV.beq] at h1
    rw [h1]; exact h2
  | .str x, b, c, _, _, _, h1, h2 => by
    cases b <;> simp [JV.beq] at h1
    rw [h1]; exact h2
  | .num x, b, c, ha, hb, _, h1, h2 => by
    cases b with
    | num y =>
      simp only [JV.beq] at h1
      simp only [Key] at ha hb
      rw [num_coherent ha hb h1]; exact h2
    | _ => simp [JV.beq] at h1
  | .arr xs, b, c, ha, hb, hc, h1, h2 => by
    cases b with
    | arr ys =>
      cases c with
      | arr zs =>
        simp only [JV.beq] at h1 h2 ⊢
        simp only [Key] at ha hb hc
        exact beqList_trans xs ys zs ha hb hc h1 h2
      | _ => simp [JV.beq] at h2
    | _ => simp [JV.beq] at h1
  | .obj xs, b, c, ha, hb, hc, h1, h2 => by
    cases b with
    | obj ys =>
      cases c with
      | obj zs =>
        simp only [JV.beq, Bool.and_eq_true, beq_iff_eq] at h1 h2 ⊢
        simp only [Key] at ha hb hc
        refine ⟨h1.1.trans h2.1, (beqMembers_iff xs zs).mpr ?_⟩
        rintro ⟨k, v⟩ hkv
        obtain ⟨w, hw, hvw⟩ := (beqLookup_iff _ _ _).mp ((beqMembers_iff xs ys).mp h1.2 _ hkv)
        have hkw := objGet?_mem hw
        obtain ⟨u, hu, hwu⟩ := (beqLookup_iff _ _ _).mp ((beqMembers_iff ys zs).mp h2.2 _ hkw)
        exact (beqLookup_iff _ _ _).mpr ⟨u, hu, beqMember_trans xs ha.2 k v hkv w u
          (KeyMembers_mem hb.2 hkw) (KeyMembers_mem hc.2 (objGet?_mem hu)) hvw hwu⟩
      | _ => simp [JV.beq] at h2
    | _ => simp [JV.beq] at h1
theorem beqList_trans : (a b c : List JV) → KeyList a → KeyList b → KeyList c →
    JV.beqList a b = true → JV.beqList b c = true → JV.beqList a c = true
  | [], b, c, _, _, _, h1, h2 => by cases b <;> simp [JV.beqList] at h1; exact h2
  | x :: xs, b, c, ha, hb, hc, h1, h2 => by
    cases b with
    | nil => simp [JV.beqList] at h1
    | cons y ys =>
      cases c with
      | nil => simp [JV.beqList] at h2
      | cons z zs =>
        simp only [JV.beqList, Bool.and_eq_true] at h1 h2 ⊢
        simp only [KeyList] at ha hb hc
        exact ⟨beq_trans x y z ha.1 hb.1 hc.1 h1.1 h2.1, beqList_trans xs ys zs ha.2 hb.2 hc.2 h1.2 h2.2⟩
theorem beqMember_trans : (a : List (Str × JV)) → KeyMembers a → ∀ k v, (k, v) ∈ a →
    ∀ w u, Key w → Key u → JV.beq v w = true → JV.beq w u = true → JV.beq v u = true
  | [], _, _, _, hm, _, _, _, _, _, _ => by simp at hm
  | (k', x) :: xs, ha, k, v, hm, w, u, hw, hu, h1, h2 => by
    simp only [KeyMembers] at ha
    rcases List.mem_cons.mp hm with hm | hm
    · cases hm; exact beq_trans x w u ha.1 hw hu h1 h2
    · exact beqMember_trans xs ha.2 k v hm w u hw hu h1 h2
end

/-- outside the domain `==` is not even transitive -/
theorem beq_not_transitive_outside :
    JV.beq (.num (.pos (2 ^ 53 + 1))) (.num (.flt (.fin false (2 ^ 52) 1))) = true ∧
    JV.beq (.num (.flt (.fin false (2 ^ 52) 1))) (.num (.pos (2 ^ 53))) = true ∧
    JV.beq (.num (.pos (2 ^ 53 + 1))) (.num (.pos (2 ^ 53))) = false := by
  refine ⟨?_, ?_, ?_⟩ <;> simp only [JV.beq] <;> decide +kernel

/-! ### The keys of the duplication remover -/

/-- the domain, for a `ContextKey` -/
def KeyC : CtxKey → Prop
  | .value v => Key v
  | .results rs => ∀ v, some v ∈ rs → Key v

def SameOrderOpts : List (Option JV) → List (Option JV) → Prop
  | some a :: as, some b :: bs => SameOrder a b ∧ SameOrderOpts as bs
  | _ :: as, _ :: bs => SameOrderOpts as bs
  | _, _ => True

def SameOrderC : CtxKey → CtxKey → Prop
  | .value a, .value b => SameOrder a b
  | .results a, .results b => SameOrderOpts a b
  | _, _ => True

theorem listOptBeq_eq_of_sameOrder {a b : List (Option JV)} (ha : ∀ v, some v ∈ a → Key v)
    (hb : ∀ v, some v ∈ b → Key v) (ho : SameOrderOpts a b) (h : listOptBeq a b = true) : a = b := by
  induction a generalizing b with
  | nil => cases b <;> simp [listOptBeq] at h; rfl
  | cons x xs ih =>
    cases b with
    | nil => simp [listOptBeq] at h
    | cons y ys =>
      simp only [listOptBeq, Bool.and_eq_true] at h
      have hxs : xs = ys := by
        apply ih (fun v hv => ha v (List.mem_cons_of_mem _ hv))
          (fun v hv => hb v (List.mem_cons_of_mem _ hv)) _ h.2
        cases x <;> cases y <;> simp only [SameOrderOpts] at ho <;> first | exact ho | exact ho.2
      have hxy : x = y := by
        cases x with
        | none => cases y <;> simp [optBeq] at h; rfl
        | some v =>
          cases y with
          | none => simp [optBeq] at h
          | some w =>
            simp only [SameOrderOpts] at ho
            simp only [optBeq] at h
            rw [beq_eq_of_sameOrder v w (ha v List.mem_cons_self) (hb w List.mem_cons_self) ho.1 h.1]
      rw [hxs, hxy]

/-- on the domain and with the same member order, `==` of keys is identity -/
theorem ctxkey_beq_eq {a b : CtxKey} (ha : KeyC a) (hb : KeyC b) (ho : SameOrderC a b)
    (h : CtxKey.beq a b = true) : a = b := by
  cases a with
  | value x =>
    cases b with
    | value y =>
      simp only [CtxKey.beq] at h
      rw [beq_eq_of_sameOrder x y ha hb ho h]
    | results _ => simp [CtxKey.beq] at h
  | results xs =>
    cases b with
    | value _ => simp [CtxKey.beq] at h
    | results ys =>
      simp only [CtxKey.beq] at h
      rw [listOptBeq_eq_of_sameOrder ha hb ho h]

/-- C10 (key level): `k1 == k2 → hash(k1) = hash(k2)` -/
theorem ctxkey_coherent {a b : CtxKey} (ha : KeyC a) (hb : KeyC b) (ho : SameOrderC a b)
    (h : CtxKey.beq a b = true) : a.feed = b.feed := by
  rw [ctxkey_beq_eq ha hb ho h]

/-- where coherence applies, the `HashSet` lookup is exactly `==` -/
theorem same_eq_beq {a b : CtxKey} (ha : KeyC a) (hb : KeyC b) (ho : SameOrderC a b) :
    CtxKey.same a b = CtxKey.beq a b := by
  unfold CtxKey.same
  cases h : CtxKey.beq a b with
  | false => simp
  | true => simp [ctxkey_coherent ha hb ho h]

/-- the value-level form of `same_eq_beq` -/
theorem same_value_eq_beq {a b : JV} (ha : Key a) (hb : Key b) (ho : SameOrder a b) :
    CtxKey.same (.value a) (.value b) = JV.beq a b :=
  same_eq_beq (a := .value a) (b := .value b) ha hb ho

example : KeyC (.results [some (.num (.pos 1)), none, some (.obj [("a".toList, .null)])]) ∧
    SameOrderC (.results [some (.num (.pos 1)), none, some (.obj [("a".toList, .null)])])
      (.results [some (.num (.pos 1)), none, some (.obj [("a".toList, .bool true)])]) := by
  constructor
  · intro v hv
    simp at hv
    rcases hv with rfl | rfl <;> decide
  · simp [SameOrderC, SameOrderOpts, SameOrder, SameOrderMembers]

/-- outside the domain the lookup misses an `==` element: `{"a":1,"b":2}` then `{"b":2,"a":1}` -/
theorem same_ne_beq_member_order :
    CtxKey.beq (.value (.obj [("a".toList, .num (.pos 1)), ("b".toList, .num (.pos 2))]))
      (.value (.obj [("b".toList, .num (.pos 2)), ("a".toList, .num (.pos 1))])) = true ∧
    CtxKey.same (.value (.obj [("a".toList, .num (.pos 1)), ("b".toList, .num (.pos 2))]))
      (.value (.obj [("b".toList, .num (.pos 2)), ("a".toList, .num (.pos 1))])) = false := by
  constructor
  · simp only [CtxKey.beq]; exact incoherent_member_order.1
  · have := incoherent_member_order.2
    simp only [CtxKey.same, CtxKey.feed, List.cons.injEq, true_and, Bool.and_eq_false_imp,
      decide_eq_true_eq]
    intro h; exact absurd h this

/-! ### 4. List-level specification of `--unique` -/

section Dedup
variable {α : Type} (same : α → α → Bool)

/-- the stage with its set `seen` spelled out: an element is dropped iff an element of `seen`
is `same` to it, otherwise it is emitted and remembered -/
def dedupAux : List α → List α → List α
  | _, [] => []
  | seen, x :: xs =>
    if seen.any (fun s => same s x) then dedupAux seen xs else x :: dedupAux (seen ++ [x]) xs

/-- keep an element iff no earlier kept element is `same` to it -/
def dedupFirst (l : List α) : List α := dedupAux same [] l

theorem dedupAux_sublist (seen l : List α) : (dedupAux same seen l).Sublist l := by
  induction l generalizing seen with
  | nil => simp [dedupAux]
  | cons x xs ih =>
    simp only [dedupAux]
    split
    · exact (ih seen).cons x
    · exact (ih _).cons_cons x

theorem dedupFirst_sublist (l : List α) : (dedupFirst same l).Sublist l := dedupAux_sublist same [] l

/-- the first element is always kept -/
theorem dedupFirst_head (x : α) (xs : List α) :
    dedupFirst same (x :: xs) = x :: dedupAux same [x] xs := by
  simp [dedupFirst, dedupAux]

theorem dedupFirst_head? (l : List α) : (dedupFirst same l).head? = l.head? := by
  cases l with
  | nil => simp [dedupFirst, dedupAux]
  | cons x xs => simp [dedupFirst_head]

/-- nothing emitted is `same` to a remembered element -/
theorem dedupAux_not_seen (seen l : List α) :
    ∀ s ∈ seen, ∀ y ∈ dedupAux same seen l, same s y = false := by
  induction l generalizing seen with
  | nil => simp [dedupAux]
  | cons x xs ih =>
    intro s hs y hy
    simp only [dedupAux] at hy
    split at hy
    · exact ih seen s hs y hy
    · rename_i hany
      rcases List.mem_cons.mp hy with rfl | hy
      · simp only [List.any_eq_true, not_exists, not_and, Bool.not_eq_true] at hany
        exact hany s hs
      · exact ih _ s (List.mem_append_left _ hs) y hy

theorem dedupAux_pairwise (seen l : List α) :
    (dedupAux same seen l).Pairwise (fun a b => same a b = false) := by
  induction l generalizing seen with
  | nil => simp [dedupAux]
  | cons x xs ih =>
    simp only [dedupAux]
    split
    · exact ih seen
    · refine List.pairwise_cons.mpr ⟨?_, ih _⟩
      intro y hy
      exact dedupAux_not_seen same (seen ++ [x]) xs x (by simp) y hy

/-- no kept element is `same` to an earlier kept element -/
theorem dedupFirst_no_dups (l : List α) :
    (dedupFirst same l).Pairwise (fun a b => same a b = false) := dedupAux_pairwise same [] l

/-- every input element is either kept itself or `same` to an element that was seen or kept -/
theorem dedupAux_complete (seen l : List α) (x : α) (hx : x ∈ l) :
    (∃ s ∈ seen, same s x = true) ∨ ∃ y ∈ dedupAux same seen l, same y x = true ∨ y = x := by
  induction l generalizing seen with
  | nil => simp at hx
  | cons z zs ih =>
    simp only [dedupAux]
    rcases List.mem_cons.mp hx with rfl | hx
    · split
      · rename_i hany
        exact .inl (by simpa using hany)
      · exact .inr ⟨x, List.mem_cons_self, .inr rfl⟩
    · split
      · exact ih seen hx
      · rcases ih (seen ++ [z]) hx with ⟨s, hs, hsx⟩ | ⟨y, hy, h⟩
        · rcases List.mem_append.mp hs with hs | hs
          · exact .inl ⟨s, hs, hsx⟩
          · simp only [List.mem_singleton] at hs; subst hs
            exact .inr ⟨s, List.mem_cons_self, .inl hsx⟩
        · exact .inr ⟨y, List.mem_cons_of_mem _ hy, h⟩

theorem dedupFirst_complete (l : List α) (x : α) (hx : x ∈ l) :
    ∃ y ∈ dedupFirst same l, same y x = true ∨ y = x := by
  rcases dedupAux_complete same [] l x hx with ⟨s, hs, _⟩ | h
  · simp at hs
  · exact h

/-- for a reflexive `same`: every input element is `same` to a kept one -/
theorem dedupFirst_complete_refl (hrefl : ∀ a, same a a = true) (l : List α) (x : α) (hx : x ∈ l) :
    ∃ y ∈ dedupFirst same l, same y x = true := by
  obtain ⟨y, hy, h | rfl⟩ := dedupFirst_complete same l x hx
  · exact ⟨y, hy, h⟩
  · exact ⟨y, hy, hrefl y⟩

/-- the set `seen` at any moment is the initial set plus what was emitted so far -/
theorem dedupAux_append (seen l₁ l₂ : List α) :
    dedupAux same seen (l₁ ++ l₂) =
      dedupAux same seen l₁ ++ dedupAux same (seen ++ dedupAux same seen l₁) l₂ := by
  induction l₁ generalizing seen with
  | nil => simp [dedupAux]
  | cons x xs ih =>
    simp only [List.cons_append, dedupAux]
    split
    · exact ih seen
    · simp [ih]

theorem dedupAux_snoc (seen l : List α) (x : α) :
    dedupAux same seen (l ++ [x]) =
      if (seen ++ dedupAux same seen l).any (fun s => same s x) then dedupAux same seen l
      else dedupAux same seen l ++ [x] := by
  rw [dedupAux_append]
  simp only [dedupAux]
  split <;> simp

/-- the exact rule: the element at any position is kept iff no element kept before it is `same`
to it (a dropped element therefore has an EARLIER kept element `same` to it) -/
theorem dedupFirst_snoc (l : List α) (x : α) :
    dedupFirst same (l ++ [x]) =
      if (dedupFirst same l).any (fun s => same s x) then dedupFirst same l
      else dedupFirst same l ++ [x] := by
  unfold dedupFirst
  rw [dedupAux_snoc]
  simp only [List.nil_append]

theorem dedupFirst_append (l₁ l₂ : List α) :
    dedupFirst same (l₁ ++ l₂) = dedupFirst same l₁ ++ dedupAux same (dedupFirst same l₁) l₂ := by
  simp [dedupFirst, dedupAux_append]

/-- a dropped occurrence has an earlier kept element that is `same` to it; a kept one has none -/
theorem dedupFirst_split (l₁ l₂ : List α) (x : α) :
    ((∃ y ∈ dedupFirst same l₁, same y x = true) ∧
      dedupFirst same (l₁ ++ x :: l₂) = dedupFirst same l₁ ++ dedupAux same (dedupFirst same l₁) l₂) ∨
    ((∀ y ∈ dedupFirst same l₁, same y x = false) ∧
      dedupFirst same (l₁ ++ x :: l₂) =
        dedupFirst same l₁ ++ x :: dedupAux same (dedupFirst same l₁ ++ [x]) l₂) := by
  rw [dedupFirst_append]
  simp only [dedupAux]
  by_cases h : (dedupFirst same l₁).any (fun s => same s x) = true
  · left
    rw [if_pos h]
    exact ⟨by simpa using h, rfl⟩
  · right
    rw [if_neg h]
    exact ⟨by simpa using h, rfl⟩

theorem dedupAux_eq_self (seen d : List α) (hs : ∀ s ∈ seen, ∀ y ∈ d, same s y = false)
    (hp : d.Pairwise (fun a b => same a b = false)) : dedupAux same seen d = d := by
  induction d generalizing seen with
  | nil => simp [dedupAux]
  | cons x xs ih =>
    have hany : ¬ (seen.any (fun s => same s x) = true) := by
      simp only [List.any_eq_true, not_exists, not_and, Bool.not_eq_true]
      intro s h; exact hs s h x List.mem_cons_self
    simp only [dedupAux]
    rw [if_neg hany, List.pairwise_cons] at *
    congr 1
    apply ih _ _ hp.2
    intro s h y hy
    rcases List.mem_append.mp h with h | h
    · exact hs s h y (List.mem_cons_of_mem _ hy)
    · simp only [List.mem_singleton] at h; subst h
      exact hp.1 y hy

/-- idempotent (no assumption on `same` is needed) -/
theorem dedupFirst_idempotent (l : List α) :
    dedupFirst same (dedupFirst same l) = dedupFirst same l :=
  dedupAux_eq_self same [] _ (by simp) (dedupFirst_no_dups same l)

theorem dedupAux_congr (same' : α → α → Bool) (seen l : List α)
    (h : ∀ a ∈ seen ++ l, ∀ b ∈ l, same a b = same' a b) :
    dedupAux same seen l = dedupAux same' seen l := by
  induction l generalizing seen with
  | nil => simp [dedupAux]
  | cons x xs ih =>
    have hany : seen.any (fun s => same s x) = seen.any (fun s => same' s x) := by
      rw [Bool.eq_iff_iff]
      simp only [List.any_eq_true]
      constructor
      · rintro ⟨s, hs, hh⟩
        exact ⟨s, hs, by rw [← h s (List.mem_append_left _ hs) x List.mem_cons_self]; exact hh⟩
      · rintro ⟨s, hs, hh⟩
        exact ⟨s, hs, by rw [h s (List.mem_append_left _ hs) x List.mem_cons_self]; exact hh⟩
    simp only [dedupAux, hany]
    split
    · apply ih
      intro a ha b hb
      refine h a ?_ b (List.mem_cons_of_mem _ hb)
      rcases List.mem_append.mp ha with ha | ha
      · exact List.mem_append_left _ ha
      · exact List.mem_append_right _ (List.mem_cons_of_mem _ ha)
    · congr 1
      apply ih
      intro a ha b hb
      refine h a ?_ b (List.mem_cons_of_mem _ hb)
      simp only [List.append_assoc, List.singleton_append] at ha
      exact ha

/-- two lookups that agree on the elements of the stream remove the same duplicates -/
theorem dedupFirst_congr (same' : α → α → Bool) (l : List α)
    (h : ∀ a ∈ l, ∀ b ∈ l, same a b = same' a b) : dedupFirst same l = dedupFirst same' l :=
  dedupAux_congr same same' [] l (by simpa using h)

/-- one step of the stage's set -/
def seenStep (seen : List α) (x : α) : List α :=
  if seen.any (fun s => same s x) then seen else seen ++ [x]

theorem foldl_seenStep (seen l : List α) :
    l.foldl (seenStep same) seen = seen ++ dedupAux same seen l := by
  induction l generalizing seen with
  | nil => simp [dedupAux]
  | cons x xs ih =>
    simp only [List.foldl_cons, ih, seenStep, dedupAux]
    split <;> simp

/-- the set after a stream of keys, starting empty, is `dedupFirst` of the stream -/
theorem foldl_seenStep_nil (l : List α) : l.foldl (seenStep same) [] = dedupFirst same l := by
  simp [foldl_seenStep, dedupFirst]

/-- `dedupAux` on rows `β` that are compared through a key -/
def dedupOnAux {β : Type} (key : β → α) : List α → List β → List β
  | _, [] => []
  | seen, x :: xs =>
    if seen.any (fun s => same s (key x)) then dedupOnAux key seen xs
    else x :: dedupOnAux key (seen ++ [key x]) xs

theorem dedupOnAux_map {β : Type} (key : β → α) (seen : List α) (l : List β) :
    (dedupOnAux same key seen l).map key = dedupAux same seen (l.map key) := by
  induction l generalizing seen with
  | nil => simp [dedupOnAux, dedupAux]
  | cons x xs ih =>
    simp only [dedupOnAux, List.map_cons, dedupAux]
    split
    · exact ih seen
    · simp [ih]

theorem dedupOnAux_sublist {β : Type} (key : β → α) (seen : List α) (l : List β) :
    (dedupOnAux same key seen l).Sublist l := by
  induction l generalizing seen with
  | nil => simp [dedupOnAux]
  | cons x xs ih =>
    simp only [dedupOnAux]
    split
    · exact (ih seen).cons x
    · exact (ih _).cons_cons x

end Dedup

/-! ### The stage is `dedupFirst` -/

section Stage
variable (orc : Oracles) (sink : SinkCfg) (sinkLen : Nat)

/-- a row whose key is found in the set is dropped: nothing reaches the rest of the chain -/
theorem process_unique_dup (cs : List StageCfg) (seen : List CtxKey) (sts : List StageSt) (w : Writer)
    (ctx : Ctx) (h : seen.any (fun s => CtxKey.same s ctx.key) = true) :
    process orc sink sinkLen (.unique :: cs) (.unique seen :: sts) w ctx =
      .ok (⟨.unique seen :: sts, w⟩, .cont) := by
  simp only [process, h, if_true]

/-- a row whose key is not found is forwarded unchanged and its key is remembered -/
theorem process_unique_new (cs : List StageCfg) (seen : List CtxKey) (sts : List StageSt) (w : Writer)
    (ctx : Ctx) (h : seen.any (fun s => CtxKey.same s ctx.key) = false) :
    process orc sink sinkLen (.unique :: cs) (.unique seen :: sts) w ctx =
      match process orc sink sinkLen cs sts w ctx with
      | .ok (p, d) => .ok (⟨.unique (seen ++ [ctx.key]) :: p.sts, p.w⟩, d)
      | .error e => .error e := by
  simp only [process, h]
  cases process orc sink sinkLen cs sts w ctx with
  | ok pd => rfl
  | error e => rfl

/-- a whole stream through the stage: downstream sees exactly the rows `dedupFirst` keeps, the set
ends as the initial set plus the kept keys -/
theorem feedAll_unique (cs : List StageCfg) (seen : List CtxKey) (sts : List StageSt) (w : Writer)
    (ctxs : List Ctx) :
    feedAllIgnoring (process orc sink sinkLen (.unique :: cs)) (.unique seen :: sts) w ctxs =
      match feedAllIgnoring (process orc sink sinkLen cs) sts w
          (dedupOnAux CtxKey.same Ctx.key seen ctxs) with
      | .ok p => .ok ⟨.unique (seen ++ dedupAux CtxKey.same seen (ctxs.map Ctx.key)) :: p.sts, p.w⟩
      | .error e => .error e := by
  induction ctxs generalizing seen sts w with
  | nil => simp [feedAllIgnoring, dedupOnAux, dedupAux]
  | cons c rest ih =>
    cases h : seen.any (fun s => CtxKey.same s c.key) with
    | true =>
      simp only [feedAllIgnoring, process_unique_dup orc sink sinkLen cs seen sts w c h, dedupOnAux,
        List.map_cons, dedupAux, h, if_true]
      exact ih seen sts w
    | false =>
      have e1 : dedupOnAux CtxKey.same Ctx.key seen (c :: rest) =
          c :: dedupOnAux CtxKey.same Ctx.key (seen ++ [c.key]) rest := by simp [dedupOnAux, h]
      have e2 : dedupAux CtxKey.same seen ((c :: rest).map Ctx.key) =
          c.key :: dedupAux CtxKey.same (seen ++ [c.key]) (rest.map Ctx.key) := by simp [dedupAux, h]
      rw [e1, e2]
      simp only [feedAllIgnoring, process_unique_new orc sink sinkLen cs seen sts w c h]
      cases process orc sink sinkLen cs sts w c with
      | error e => rfl
      | ok pd =>
        obtain ⟨p, d⟩ := pd
        simp only [bind, Except.bind]
        rw [ih (seen ++ [c.key]) p.sts p.w]
        simp

end Stage

/-! ### C10 assembled -/

theorem listOptBeq_refl {a : List (Option JV)} (ha : ∀ v, some v ∈ a → Key v) : listOptBeq a a = true := by
  induction a with
  | nil => simp [listOptBeq]
  | cons x xs ih =>
    simp only [listOptBeq, Bool.and_eq_true]
    refine ⟨?_, ih (fun v hv => ha v (List.mem_cons_of_mem _ hv))⟩
    cases x with
    | none => simp [optBeq]
    | some v => simp only [optBeq]; exact beq_refl v (ha v List.mem_cons_self)

theorem ctxkey_beq_refl {a : CtxKey} (ha : KeyC a) : CtxKey.beq a a = true := by
  cases a with
  | value v => simp only [CtxKey.beq]; exact beq_refl v ha
  | results rs => simp only [CtxKey.beq]; exact listOptBeq_refl ha

theorem ctxkey_same_refl {a : CtxKey} (ha : KeyC a) : CtxKey.same a a = true := by
  simp [CtxKey.same, ctxkey_beq_refl ha]

/-- C10: on a stream of keys inside the domain that list object members in the same order,
`--unique` (hash lookup, then `==`) keeps exactly the first element of every `==` class:
it is `dedupFirst` for `==` alone -/
theorem unique_dedup_by_eq (ks : List CtxKey) (hk : ∀ k ∈ ks, KeyC k)
    (ho : ∀ a ∈ ks, ∀ b ∈ ks, SameOrderC a b) :
    dedupFirst CtxKey.same ks = dedupFirst CtxKey.beq ks :=
  dedupFirst_congr _ _ ks (fun a ha b hb => same_eq_beq (hk a ha) (hk b hb) (ho a ha b hb))

/-- and then every dropped row is `==` to an earlier kept row, no two kept rows are `==` -/
theorem unique_spec (ks : List CtxKey) (hk : ∀ k ∈ ks, KeyC k)
    (ho : ∀ a ∈ ks, ∀ b ∈ ks, SameOrderC a b) :
    (dedupFirst CtxKey.same ks).Sublist ks ∧
    (dedupFirst CtxKey.same ks).Pairwise (fun a b => CtxKey.beq a b = false) ∧
    ∀ x ∈ ks, ∃ y ∈ dedupFirst CtxKey.same ks, CtxKey.beq y x = true := by
  refine ⟨dedupFirst_sublist _ ks, ?_, ?_⟩
  · rw [unique_dedup_by_eq ks hk ho]; exact dedupFirst_no_dups _ ks
  · intro x hx
    rw [unique_dedup_by_eq ks hk ho]
    obtain ⟨y, hy, h | rfl⟩ := dedupFirst_complete CtxKey.beq ks x hx
    · exact ⟨y, hy, h⟩
    · exact ⟨y, hy, ctxkey_beq_refl (hk y hx)⟩

/-! ### Non-vacuity of the hypotheses, and small sanity checks -/

example : dedupFirst (fun a b : Nat => a == b) [1, 2, 1, 3, 2, 1] = [1, 2, 3] := by decide

example : NumKey (.flt (.fin false 6755399441055744 (-52))) ∧
    Num.beq (.flt (.fin false 6755399441055744 (-52))) (.flt (.fin false 6755399441055744 (-52))) = true := by
  constructor <;> decide

/-- two different-looking inputs, `{"k":[1,"x"]}` twice, satisfy all hypotheses of `beq_coherent_ordered` -/
example : let a := JV.obj [("k".toList, JV.arr [JV.num (.pos 1), JV.str "x".toList])]
    Key a ∧ SameOrder a a ∧ JV.beq a a = true := by
  intro a
  have h : Key a := by decide
  exact ⟨h, SameOrder_refl a, beq_refl a h⟩

/-- a stream satisfying the hypotheses of `unique_dedup_by_eq` / `unique_spec` -/
example : let ks : List CtxKey := [.value (.num (.pos 1)), .value (.str "a".toList), .value (.num (.pos 1))]
    (∀ k ∈ ks, KeyC k) ∧ (∀ a ∈ ks, ∀ b ∈ ks, SameOrderC a b) := by
  intro ks
  constructor
  · intro k hk
    simp only [ks, List.mem_cons, List.not_mem_nil, or_false] at hk
    rcases hk with rfl | rfl | rfl <;> simp only [KeyC] <;> decide
  · intro a ha b hb
    simp only [ks, List.mem_cons, List.not_mem_nil, or_false] at ha hb
    rcases ha with rfl | rfl | rfl <;> rcases hb with rfl | rfl | rfl <;> simp [SameOrderC, SameOrder]

end Jawk.HashEq

/-
#print axioms Jawk.HashEq.num_coherent
#print axioms Jawk.HashEq.beq_eq_of_sameOrder
#print axioms Jawk.HashEq.beq_coherent_ordered
#print axioms Jawk.HashEq.ctxkey_coherent
#print axioms Jawk.HashEq.same_eq_beq
#print axioms Jawk.HashEq.incoherent_member_order
#print axioms Jawk.HashEq.incoherent_neg_zero
#print axioms Jawk.HashEq.incoherent_neg_int_zero
#print axioms Jawk.HashEq.beq_not_transitive_outside
#print axioms Jawk.HashEq.beq_refl
#print axioms Jawk.HashEq.beq_symm
#print axioms Jawk.HashEq.beq_trans
#print axioms Jawk.HashEq.dedupFirst_sublist
#print axioms Jawk.HashEq.dedupFirst_head
#print axioms Jawk.HashEq.dedupFirst_no_dups
#print axioms Jawk.HashEq.dedupFirst_complete
#print axioms Jawk.HashEq.dedupFirst_snoc
#print axioms Jawk.HashEq.dedupFirst_split
#print axioms Jawk.HashEq.dedupFirst_idempotent
#print axioms Jawk.HashEq.dedupFirst_congr
#print axioms Jawk.HashEq.process_unique_dup
#print axioms Jawk.HashEq.process_unique_new
#print axioms Jawk.HashEq.feedAll_unique
#print axioms Jawk.HashEq.unique_dedup_by_eq
#print axioms Jawk.HashEq.unique_spec
-- all ⊆ {propext, Classical.choice, Quot.sound}
-/
