/-
  The process boundary of standard output (C20 / C16, finding F25): `std::io::Stdout` is a `LineWriter` over a
  `BufWriter` of 1024 bytes.  Rows that end with a line feed are handed to the descriptor at once; whatever follows the
  last line feed stays in the buffer until the buffer fills, another line is completed, or the process ends.

  * `conservation`       as long as no write has failed, delivered ++ pending = everything written, in order
  * `flushed_main_delivers`  `main` WITH the final flush (c1efbf9): exit status 0 ⇒ every byte `go` wrote is on the descriptor
  * `unflushed_main_loses`   `main` WITHOUT it (before the repair): a run that exits 0 with its output lost (F25 witness)
-/
import Jawk.Model.Stages
namespace Jawk.LineBuffer
open Jawk

/-- the line-buffered writer: the descriptor behind it and the bytes not yet handed to it -/
structure LW where
  dev : Writer
  buf : List Byte := []
  deriving Inhabited

/-- everything accepted so far, in order: what the descriptor got, then what is pending -/
def LW.total (s : LW) : List Byte := s.dev.out ++ s.buf

/-- `BufWriter::flush_buf` -/
def flushBuf (s : LW) : LW := { dev := s.dev.put s.buf, buf := [] }

/-- a step that is only taken when nothing has failed so far (`?`) -/
def andThen (s1 : LW) (f : LW → LW) : LW := if s1.dev.failed then s1 else f s1

/-- the second half of `BufWriter::write_all`: a piece as large as the buffer goes straight through -/
def bufPush (cap : Nat) (s1 : LW) (bs : List Byte) : LW :=
  if bs.length ≥ cap then { s1 with dev := s1.dev.put bs } else { s1 with buf := s1.buf ++ bs }

/-- `BufWriter::write_all`: make room first -/
def bufPut (cap : Nat) (s : LW) (bs : List Byte) : LW :=
  andThen (if s.buf.length + bs.length > cap then flushBuf s else s) (fun s1 => bufPush cap s1 bs)

/-- index of the last line feed -/
def lastLF (bs : List Byte) : Option Nat :=
  let i := (bs.reverse.findIdx (· == 10))
  if i < bs.length then some (bs.length - 1 - i) else none

/-- `LineWriterShim::write_all` -/
def lwPut (cap : Nat) (s : LW) (bs : List Byte) : LW :=
  match lastLF bs with
  | none =>
    andThen (if s.buf.getLast? = some 10 then flushBuf s else s) (fun s1 => bufPut cap s1 bs)
  | some i =>
    andThen (if s.buf = [] then { s with dev := s.dev.put (bs.take (i + 1)) } else flushBuf (bufPut cap s (bs.take (i + 1))))
      (fun s1 => bufPut cap s1 (bs.drop (i + 1)))

/-- a run's writes, one after the other (a failed write ends the run: nothing is written after it, which the sticky
`failed` flag of `Writer` models) -/
def writes (cap : Nat) (s : LW) (ws : List (List Byte)) : LW := ws.foldl (lwPut cap) s

/-! ### the descriptor -/

theorem put_of_failed (w : Writer) (bs : List Byte) (h : w.failed = true) : w.put bs = w := by
  simp [Writer.put, h]

theorem put_ok (w : Writer) (bs : List Byte) (h : (w.put bs).failed = false) :
    (w.put bs).out = w.out ++ bs ∧ w.failed = false := by
  have hw : w.failed = false := by
    cases hf : w.failed with
    | false => rfl
    | true => rw [put_of_failed w bs hf] at h; rw [hf] at h; exact h
  refine ⟨?_, hw⟩
  unfold Writer.put at h ⊢
  rw [hw] at h ⊢
  simp only [Bool.false_eq_true, if_false] at h ⊢
  cases hr : w.room with
  | none => rfl
  | some k =>
    rw [hr] at h
    by_cases hk : bs.length ≤ k
    · simp only [hk, if_true]
    · simp only [hk, if_false] at h
      exact absurd h (by simp)

/-! ### conservation -/

theorem andThen_ok (s1 : LW) (f : LW → LW) (h : (andThen s1 f).dev.failed = false) :
    s1.dev.failed = false ∧ andThen s1 f = f s1 := by
  unfold andThen at h ⊢
  cases hf : s1.dev.failed with
  | true => rw [hf] at h; simp only [if_true] at h; rw [hf] at h; exact absurd h (by simp)
  | false => simp

theorem flushBuf_total (s : LW) (h : (flushBuf s).dev.failed = false) :
    (flushBuf s).total = s.total ∧ s.dev.failed = false := by
  have := put_ok s.dev s.buf h
  exact ⟨by simp only [flushBuf, LW.total, this.1, List.append_nil], this.2⟩

theorem bufPush_total (cap : Nat) (s1 : LW) (bs : List Byte) (hb : bs.length ≥ cap → s1.buf = [])
    (h : (bufPush cap s1 bs).dev.failed = false) :
    (bufPush cap s1 bs).total = s1.total ++ bs ∧ s1.dev.failed = false := by
  unfold bufPush at h ⊢
  by_cases hbig : bs.length ≥ cap
  · rw [if_pos hbig] at h ⊢
    have := put_ok s1.dev bs h
    refine ⟨?_, this.2⟩
    show (s1.dev.put bs).out ++ s1.buf = s1.total ++ bs
    rw [this.1, hb hbig]; simp only [LW.total, hb hbig, List.append_nil]
  · rw [if_neg hbig] at h ⊢
    exact ⟨by simp only [LW.total, List.append_assoc], h⟩

theorem bufPut_total (cap : Nat) (s : LW) (bs : List Byte) (h : (bufPut cap s bs).dev.failed = false) :
    (bufPut cap s bs).total = s.total ++ bs ∧ s.dev.failed = false := by
  unfold bufPut at h ⊢
  have ha := andThen_ok _ _ h
  rw [ha.2] at h ⊢
  by_cases hroom : s.buf.length + bs.length > cap
  · rw [if_pos hroom] at h ha ⊢
    have hfl := flushBuf_total s ha.1
    have := bufPush_total cap (flushBuf s) bs (fun _ => rfl) h
    exact ⟨by rw [this.1, hfl.1], hfl.2⟩
  · rw [if_neg hroom] at h ha ⊢
    exact bufPush_total cap s bs (fun hbig => List.length_eq_zero_iff.mp (by omega)) h

theorem take_drop_lines (bs : List Byte) (i : Nat) : bs.take (i + 1) ++ bs.drop (i + 1) = bs := List.take_append_drop _ _

theorem lwPut_total (cap : Nat) (s : LW) (bs : List Byte) (h : (lwPut cap s bs).dev.failed = false) :
    (lwPut cap s bs).total = s.total ++ bs ∧ s.dev.failed = false := by
  unfold lwPut at h ⊢
  cases hl : lastLF bs with
  | none =>
    simp only [hl] at h ⊢
    have ha := andThen_ok _ _ h
    rw [ha.2] at h ⊢
    by_cases hlf : s.buf.getLast? = some 10
    · rw [if_pos hlf] at h ha ⊢
      have h1 := bufPut_total cap (flushBuf s) bs h
      have h0 := flushBuf_total s ha.1
      exact ⟨by rw [h1.1, h0.1], h0.2⟩
    · rw [if_neg hlf] at h ha ⊢
      exact bufPut_total cap s bs h
  | some i =>
    simp only [hl] at h ⊢
    have ha := andThen_ok _ _ h
    rw [ha.2] at h ⊢
    by_cases he : s.buf = []
    · rw [if_pos he] at h ha ⊢
      have h0 := put_ok s.dev (bs.take (i + 1)) ha.1
      have h1 := bufPut_total cap { s with dev := s.dev.put (bs.take (i + 1)) } (bs.drop (i + 1)) h
      refine ⟨?_, h0.2⟩
      rw [h1.1]
      show ((s.dev.put (bs.take (i + 1))).out ++ s.buf) ++ bs.drop (i + 1) = s.total ++ bs
      rw [h0.1, he]
      simp only [LW.total, he, List.append_nil, List.append_assoc, take_drop_lines]
    · rw [if_neg he] at h ha ⊢
      have h2 := bufPut_total cap _ (bs.drop (i + 1)) h
      have h1 := flushBuf_total _ ha.1
      have h0 := bufPut_total cap s (bs.take (i + 1)) h1.2
      refine ⟨?_, h0.2⟩
      rw [h2.1, h1.1, h0.1, List.append_assoc, take_drop_lines]

/-- CONSERVATION: as long as no write has failed, what the descriptor got followed by what is pending is exactly what
was written, in order -/
theorem conservation (cap : Nat) (ws : List (List Byte)) (s : LW) (h : (writes cap s ws).dev.failed = false) :
    (writes cap s ws).total = s.total ++ ws.flatten ∧ s.dev.failed = false := by
  induction ws generalizing s with
  | nil => exact ⟨by simp [writes], h⟩
  | cons w ws ih =>
    have h' : (writes cap (lwPut cap s w) ws).dev.failed = false := h
    have h1 := ih (lwPut cap s w) h'
    have h0 := lwPut_total cap s w h1.2
    refine ⟨?_, h0.2⟩
    show (writes cap (lwPut cap s w) ws).total = _
    rw [h1.1, h0.1]; simp

/-! ### `main` with and without the final flush -/

/-- `main` after the repair: run, then flush; exit status 0 only if that flush succeeded too -/
def flushedMain (cap : Nat) (dev : Writer) (ws : List (List Byte)) : Nat × Writer :=
  let s := flushBuf (writes cap { dev := dev } ws)
  (if s.dev.failed then 255 else 0, s.dev)

/-- `main` before the repair: the runtime flushes at exit and IGNORES the result -/
def unflushedMain (cap : Nat) (dev : Writer) (ws : List (List Byte)) : Nat × Writer :=
  let s := writes cap { dev := dev } ws
  (if s.dev.failed then 255 else 0, (flushBuf s).dev)

/-- with the final flush, exit status 0 means every byte `go` wrote reached the descriptor, in order -/
theorem flushed_main_delivers (cap : Nat) (dev : Writer) (ws : List (List Byte))
    (h : (flushedMain cap dev ws).1 = 0) : (flushedMain cap dev ws).2.out = dev.out ++ ws.flatten := by
  unfold flushedMain at h ⊢
  simp only at h ⊢
  have hf : (flushBuf (writes cap { dev := dev } ws)).dev.failed = false := by
    by_cases hx : (flushBuf (writes cap { dev := dev } ws)).dev.failed = true
    · simp [hx] at h
    · simpa using hx
  have h1 := flushBuf_total _ hf
  have h0 := conservation cap ws { dev := dev } h1.2
  have : (flushBuf (writes cap { dev := dev } ws)).total = dev.out ++ ws.flatten := by
    rw [h1.1, h0.1]; simp [LW.total]
  simpa [LW.total, flushBuf] using this

/-- F25: without it, a run whose only row does not end with a line feed exits 0 on a full device with its output lost;
with it the same run exits 255 -/
theorem unflushed_main_loses :
    (unflushedMain 1024 { room := some 0 } [[49, 44]]).1 = 0 ∧ (unflushedMain 1024 { room := some 0 } [[49, 44]]).2.out = [] ∧
    (flushedMain 1024 { room := some 0 } [[49, 44]]).1 = 255 := by
  decide

/-- and with a line feed the failure always was reported: the row goes to the descriptor at once -/
example : (unflushedMain 1024 { room := some 0 } [[49, 10]]).1 = 255 := by decide

/-- non-vacuity of `flushed_main_delivers`: a healthy descriptor gets both rows, also the one without a line feed -/
example : (flushedMain 1024 {} [[49, 10], [50, 44]]).1 = 0 ∧ (flushedMain 1024 {} [[49, 10], [50, 44]]).2.out = [49, 10, 50, 44] := by
  decide

end Jawk.LineBuffer
