/-
  C14 / C16 / C17: the reader looks at most one byte ahead.

  1. prefix locality of every reader action (two readers that agree on the stream positions an action
     examines give the same result), fuel independence, and `pulled_counts`;
  2. `--take` stops reading (`take_stops`), `lookahead_bound`;
  3. read faults are fatal under every policy, the output logs only grow;
  4. line / column bookkeeping is exact, ranges tile.
-/
import Jawk.Lemmas.Fuel
import Jawk.Model.Run
import Jawk.Spec.Run
import Jawk.Props.C14Steps
import Jawk.Props.C16Steps
import Jawk.Props.C17Steps
namespace Jawk.Loc
open Jawk Reader Fuel

/-! ### 1. Stream positions and agreement

The underlying stream of a reader is its list of items followed by "end of input".  A reader has examined
`pulled` items, plus the end-of-input position once `eof` is set.  `pos` counts the positions examined. -/

def eofBit (r : Reader) : Nat := if r.eof then 1 else 0

/-- number of stream positions examined so far: items pulled, plus one once the end of input was seen -/
def pos (r : Reader) : Nat := r.pulled + eofBit r

/-- two readers are in the same state and their streams agree on every position below the absolute
position `N` (the end-of-input marker counts as a position: `take` of a list shorter than the bound is
the whole list, so agreement beyond the end of one stream means the other ends there too) -/
structure AgreeTo (N : Nat) (r₁ r₂ : Reader) : Prop where
  cur : r₁.cur = r₂.cur
  eof : r₁.eof = r₂.eof
  loc : r₁.loc = r₂.loc
  pulled : r₁.pulled = r₂.pulled
  rest : r₁.rest.take (N - pos r₁) = r₂.rest.take (N - pos r₁)

/-- relative form: same state, and the next `k` stream positions agree -/
def Agree (k : Nat) (r₁ r₂ : Reader) : Prop := AgreeTo (pos r₁ + k) r₁ r₂

theorem AgreeTo.pos_eq {N : Nat} {r₁ r₂ : Reader} (h : AgreeTo N r₁ r₂) : pos r₂ = pos r₁ := by
  simp only [pos, eofBit, h.eof, h.pulled]

theorem AgreeTo.refl (N : Nat) (r : Reader) : AgreeTo N r r := ⟨rfl, rfl, rfl, rfl, rfl⟩

theorem AgreeTo.symm {N : Nat} {r₁ r₂ : Reader} (h : AgreeTo N r₁ r₂) : AgreeTo N r₂ r₁ :=
  ⟨h.cur.symm, h.eof.symm, h.loc.symm, h.pulled.symm, by rw [h.pos_eq]; exact h.rest.symm⟩

theorem AgreeTo.trans {N : Nat} {a b c : Reader} (h1 : AgreeTo N a b) (h2 : AgreeTo N b c) : AgreeTo N a c :=
  ⟨h1.cur.trans h2.cur, h1.eof.trans h2.eof, h1.loc.trans h2.loc, h1.pulled.trans h2.pulled, by
    have := h2.rest; rw [h1.pos_eq] at this; exact h1.rest.trans this⟩

theorem take_eq_of_le {α} {l₁ l₂ : List α} {n m : Nat} (h : l₁.take n = l₂.take n) (hm : m ≤ n) :
    l₁.take m = l₂.take m := by
  have h1 : (l₁.take n).take m = (l₂.take n).take m := by rw [h]
  simpa [List.take_take, Nat.min_eq_left hm] using h1

theorem AgreeTo.weaken {N N' : Nat} {r₁ r₂ : Reader} (h : AgreeTo N r₁ r₂) (hn : N' ≤ N) : AgreeTo N' r₁ r₂ :=
  ⟨h.cur, h.eof, h.loc, h.pulled, take_eq_of_le h.rest (by omega)⟩

theorem AgreeTo.wf {N : Nat} {r₁ r₂ : Reader} (h : AgreeTo N r₁ r₂) (hw : WF r₁) : WF r₂ := by
  intro he; rw [← h.cur]; exact hw (by rw [h.eof]; exact he)

/-- the canonical instance: the same reader state over `p ++ t₁` and over `p ++ t₂` -/
theorem agree_of_common_prefix (r : Reader) (p t₁ t₂ : List RItem) :
    Agree p.length { r with rest := p ++ t₁ } { r with rest := p ++ t₂ } := by
  refine ⟨rfl, rfl, rfl, rfl, ?_⟩
  show List.take (pos { r with rest := p ++ t₁ } + p.length - pos { r with rest := p ++ t₁ }) (p ++ t₁) = _
  rw [Nat.add_sub_cancel_left]
  simp

/-! ### Simulation of one action by another

`Sim m m'`: on readers that agree up to position `N`, if `m` stays below `N` and does not run out of fuel,
`m'` does exactly the same.  With `m' = m` this is prefix locality; with `m = f F`, `m' = f F'`, `F ≤ F'` it
also gives independence of the fuel. -/

structure Sim {α} (m m' : PM α) : Prop where
  mono : ∀ r, pos r ≤ pos (m r).2
  loc : ∀ N r₁ r₂, AgreeTo N r₁ r₂ → pos (m r₁).2 ≤ N → (m r₁).1 ≠ .error .outOfFuel →
    (m' r₂).1 = (m r₁).1 ∧ AgreeTo N (m r₁).2 (m' r₂).2

theorem sim_pure {α} (a : α) : Sim (pure a : PM α) (pure a) :=
  ⟨fun _ => Nat.le_refl _, fun _ _ _ h _ _ => ⟨rfl, h⟩⟩

theorem sim_fail {α} (e : PErr) : Sim (PM.fail e : PM α) (PM.fail e) :=
  ⟨fun _ => Nat.le_refl _, fun _ _ _ h _ _ => ⟨rfl, h⟩⟩

/-- an action that is out of fuel is simulated by anything -/
theorem sim_oof {α} (m' : PM α) : Sim (PM.fail .outOfFuel : PM α) m' :=
  ⟨fun _ => Nat.le_refl _, fun _ _ _ _ _ h => absurd rfl h⟩

theorem sim_locErr {α} (mk : Loc → PErr) : Sim (locErr mk : PM α) (locErr mk) :=
  ⟨fun _ => Nat.le_refl _, fun _ _ _ h _ _ => ⟨by simp only [locErr_apply, h.loc], h⟩⟩

theorem Sim.bind {α β} {m m' : PM α} {f f' : α → PM β} (hm : Sim m m') (hf : ∀ a, Sim (f a) (f' a)) :
    Sim (m >>= f) (m' >>= f') := by
  constructor
  · intro r
    have h1 := hm.mono r
    simp only [PM.bind_apply]
    cases h : m r with
    | mk res r1 =>
      rw [h] at h1
      cases res with
      | error e => exact h1
      | ok a => exact Nat.le_trans h1 ((hf a).mono r1)
  · intro N r₁ r₂ hag hpos hoof
    simp only [PM.bind_apply] at hpos hoof ⊢
    have h1 := hm.loc N r₁ r₂ hag
    cases h : m r₁ with
    | mk res r1 =>
      rw [h] at h1 hpos hoof
      cases res with
      | error e =>
        dsimp only at hpos hoof h1 ⊢
        obtain ⟨e1, a1⟩ := h1 hpos (fun h => hoof (by cases h; rfl))
        cases h' : m' r₂ with
        | mk res' r1' =>
          rw [h'] at e1 a1
          dsimp only at e1 a1
          subst e1
          exact ⟨rfl, a1⟩
      | ok a =>
        dsimp only at hpos hoof h1 ⊢
        have hle := (hf a).mono r1
        obtain ⟨e1, a1⟩ := h1 (Nat.le_trans hle hpos) (by intro h; cases h)
        cases h' : m' r₂ with
        | mk res' r1' =>
          rw [h'] at e1 a1
          dsimp only at e1 a1
          subst e1
          exact (hf a).loc N r1 r1' a1 hpos hoof

theorem next_pos (r : Reader) : pos r ≤ pos (Reader.next r).2 := by
  cases r with
  | mk rest cur eof loc pulled =>
    cases eof with
    | true => exact Nat.le_refl _
    | false =>
      cases rest with
      | nil => simp [Reader.next, pos, eofBit]
      | cons it rest => cases it <;> simp [Reader.next, pos, eofBit]

theorem next_sim : Sim Reader.next Reader.next := by
  refine ⟨next_pos, ?_⟩
  intro N r₁ r₂ hag hpos _
  obtain ⟨rest₁, cur₁, eof₁, loc₁, pulled₁⟩ := r₁
  obtain ⟨rest₂, cur₂, eof₂, loc₂, pulled₂⟩ := r₂
  obtain ⟨hc, he, hl, hp, hr⟩ := hag
  dsimp only at hc he hl hp hr
  subst hc he hl hp
  cases eof₁ with
  | true => exact ⟨rfl, ⟨rfl, rfl, rfl, rfl, hr⟩⟩
  | false =>
    cases rest₁ with
    | nil =>
      have hN : 0 < N - pulled₁ := by
        simp [Reader.next, pos, eofBit] at hpos; omega
      simp only [pos, eofBit, Bool.false_eq_true, if_false, Nat.add_zero, List.take_nil] at hr
      have : rest₂ = [] := by
        cases rest₂ with
        | nil => rfl
        | cons x t =>
          obtain ⟨n, hn⟩ : ∃ n, N - pulled₁ = n + 1 := ⟨N - pulled₁ - 1, by omega⟩
          rw [hn] at hr; simp at hr
      subst this
      exact ⟨rfl, ⟨rfl, rfl, rfl, rfl, rfl⟩⟩
    | cons it rest₁ =>
      have hN : 0 < N - pulled₁ := by
        cases it <;> simp [Reader.next, pos, eofBit] at hpos <;> omega
      obtain ⟨n, hn⟩ : ∃ n, N - pulled₁ = n + 1 := ⟨N - pulled₁ - 1, by omega⟩
      simp only [pos, eofBit, Bool.false_eq_true, if_false, Nat.add_zero, hn, List.take_succ_cons] at hr
      cases rest₂ with
      | nil => simp at hr
      | cons x t =>
        simp only [List.take_succ_cons, List.cons.injEq] at hr
        obtain ⟨hx, ht⟩ := hr
        subst hx
        have hn' : N - (pulled₁ + 1) = n := by omega
        cases it with
        | err =>
          refine ⟨rfl, ⟨rfl, rfl, rfl, rfl, ?_⟩⟩
          simp only [Reader.next, Bool.false_eq_true, if_false, pos, eofBit, Nat.add_zero, hn']
          exact ht
        | byte b =>
          refine ⟨rfl, ⟨rfl, rfl, rfl, rfl, ?_⟩⟩
          simp only [Reader.next, Bool.false_eq_true, if_false, pos, eofBit, Nat.add_zero, hn']
          exact ht

theorem peek_sim : Sim Reader.peek Reader.peek := by
  constructor
  · intro r
    unfold Reader.peek
    split
    · exact Nat.le_refl _
    · exact next_pos r
  · intro N r₁ r₂ hag hpos hoof
    unfold Reader.peek at hpos hoof ⊢
    rw [← hag.cur]
    split
    · exact ⟨rfl, hag⟩
    · rename_i hc
      rw [hc] at hpos hoof
      exact next_sim.loc N r₁ r₂ hag hpos hoof

/-- one structural step of a simulation proof -/
macro "psim_step" : tactic => `(tactic| first
  | with_reducible exact sim_pure _
  | with_reducible exact sim_fail _
  | with_reducible exact sim_locErr _
  | with_reducible exact next_sim
  | with_reducible exact peek_sim
  | with_reducible assumption
  | with_reducible apply Sim.bind
  | intro _
  | split)

/-- structural simulation proof; the listed terms close the leaves (recursive calls, lemmas) -/
syntax "psim" ("[" term,* "]")? : tactic
macro_rules
  | `(tactic| psim) => `(tactic| repeat' psim_step)
  | `(tactic| psim [$ts,*]) =>
    `(tactic| repeat' (first | psim_step $[| with_reducible exact $ts]*))

theorem eatWhitespace_sim {F F' : Nat} (h : F ≤ F') : Sim (eatWhitespace F) (eatWhitespace F') := by
  induction F generalizing F' with
  | zero => exact sim_oof _
  | succ F ih =>
    obtain ⟨F', rfl⟩ : ∃ n, F' = n + 1 := ⟨F' - 1, by omega⟩
    have ih' := ih (F' := F') (by omega)
    unfold eatWhitespace; psim

theorem readDigits_sim {F F' : Nat} (h : F ≤ F') (acc : List Byte) :
    Sim (readDigits F acc) (readDigits F' acc) := by
  induction F generalizing F' acc with
  | zero => exact sim_oof _
  | succ F ih =>
    obtain ⟨F', rfl⟩ : ∃ n, F' = n + 1 := ⟨F' - 1, by omega⟩
    have ih' := fun acc => ih (F' := F') (by omega) acc
    unfold readDigits; psim [ih' _]

theorem readWordTail_sim (word : String) (es : List Byte) : Sim (readWordTail word es) (readWordTail word es) := by
  induction es with
  | nil => unfold readWordTail; psim
  | cons e es ih => unfold readWordTail; psim

theorem readHex4_sim (k acc : Nat) : Sim (readHex4 k acc) (readHex4 k acc) := by
  induction k generalizing acc with
  | zero => exact sim_pure _
  | succ k ih => unfold readHex4; psim [ih _]

theorem readStringLoop_sim {F F' : Nat} (h : F ≤ F') (acc : List Byte) :
    Sim (readStringLoop F acc) (readStringLoop F' acc) := by
  induction F generalizing F' acc with
  | zero => exact sim_oof _
  | succ F ih =>
    obtain ⟨F', rfl⟩ : ∃ n, F' = n + 1 := ⟨F' - 1, by omega⟩
    have ih' := fun acc => ih (F' := F') (by omega) acc
    unfold readStringLoop; psim [ih' _, readHex4_sim _ _]

theorem parseToDouble_sim (t : List Byte) : Sim (parseToDouble t) (parseToDouble t) := by
  unfold parseToDouble; psim

theorem readNumber_sim {F F' : Nat} (h : F ≤ F') : Sim (readNumber F) (readNumber F') := by
  unfold readNumber
  psim [readDigits_sim h _, parseToDouble_sim _]

/-- all five mutually recursive value readers at one pair of fuel levels -/
structure ValueSim (F F' : Nat) : Prop where
  value : Sim (nextValue F) (nextValue F')
  array : Sim (readArray F) (readArray F')
  arrayLoop : ∀ acc, Sim (readArrayLoop F acc) (readArrayLoop F' acc)
  object : Sim (readObject F) (readObject F')
  objectLoop : ∀ acc, Sim (readObjectLoop F acc) (readObjectLoop F' acc)

theorem valueSim {F F' : Nat} (h : F ≤ F') : ValueSim F F' := by
  induction F generalizing F' with
  | zero =>
    refine ⟨?_, ?_, fun _ => ?_, ?_, fun _ => ?_⟩
    · unfold nextValue; exact sim_oof _
    · unfold readArray; exact sim_oof _
    · unfold readArrayLoop; exact sim_oof _
    · unfold readObject; exact sim_oof _
    · unfold readObjectLoop; exact sim_oof _
  | succ F ih =>
    obtain ⟨F', rfl⟩ : ∃ n, F' = n + 1 := ⟨F' - 1, by omega⟩
    have ih' := ih (F' := F') (by omega)
    have hws := eatWhitespace_sim h
    refine ⟨?_, ?_, fun _ => ?_, ?_, fun _ => ?_⟩
    · unfold nextValue
      psim [hws, readWordTail_sim _ _, readStringLoop_sim h _, readNumber_sim h, ih'.array, ih'.object]
    · unfold readArray
      psim [hws, ih'.arrayLoop _]
    · unfold readArrayLoop
      psim [hws, ih'.arrayLoop _, ih'.value]
    · unfold readObject
      psim [hws, ih'.objectLoop _]
    · unfold readObjectLoop
      psim [hws, ih'.objectLoop _, ih'.value]

theorem nextValue_sim {F F' : Nat} (h : F ≤ F') : Sim (nextValue F) (nextValue F') := (valueSim h).value

/-! Prefix locality of each action, by name (`Sim m m`) -/
theorem next_local : Sim Reader.next Reader.next := next_sim
theorem peek_local : Sim Reader.peek Reader.peek := peek_sim
theorem eatWhitespace_local (F : Nat) : Sim (eatWhitespace F) (eatWhitespace F) := eatWhitespace_sim (Nat.le_refl _)
theorem readDigits_local (F : Nat) (acc : List Byte) : Sim (readDigits F acc) (readDigits F acc) :=
  readDigits_sim (Nat.le_refl _) _
theorem readWordTail_local (word : String) (es : List Byte) : Sim (readWordTail word es) (readWordTail word es) :=
  readWordTail_sim _ _
theorem readHex4_local (k acc : Nat) : Sim (readHex4 k acc) (readHex4 k acc) := readHex4_sim _ _
theorem readStringLoop_local (F : Nat) (acc : List Byte) : Sim (readStringLoop F acc) (readStringLoop F acc) :=
  readStringLoop_sim (Nat.le_refl _) _
theorem readNumber_local (F : Nat) : Sim (readNumber F) (readNumber F) := readNumber_sim (Nat.le_refl _)
theorem nextValue_local (F : Nat) : Sim (nextValue F) (nextValue F) := nextValue_sim (Nat.le_refl _)
theorem readArray_local (F : Nat) : Sim (readArray F) (readArray F) := (valueSim (Nat.le_refl F)).array
theorem readArrayLoop_local (F : Nat) (acc : List JV) : Sim (readArrayLoop F acc) (readArrayLoop F acc) :=
  (valueSim (Nat.le_refl F)).arrayLoop acc
theorem readObject_local (F : Nat) : Sim (readObject F) (readObject F) := (valueSim (Nat.le_refl F)).object
theorem readObjectLoop_local (F : Nat) (acc : List (Str × JV)) :
    Sim (readObjectLoop F acc) (readObjectLoop F acc) := (valueSim (Nat.le_refl F)).objectLoop acc

/-! ### Consequences of a simulation: fuel independence, relative forms -/

theorem eq_of_take_eq {α} {l₁ l₂ : List α} {k : Nat} (h : l₁.take k = l₂.take k) (hk : l₁.length < k) :
    l₁ = l₂ := by
  have h1 : l₁.take k = l₁ := List.take_of_length_le (by omega)
  have h2 : (l₂.take k).length = l₁.length := by rw [← h, h1]
  have h3 : l₂.length < k := by
    rw [List.length_take] at h2
    omega
  rw [h1, List.take_of_length_le (by omega)] at h
  exact h

/-- agreement beyond the end of the stream is equality -/
theorem AgreeTo.eq_of_large {N : Nat} {r₁ r₂ : Reader} (h : AgreeTo N r₁ r₂)
    (hN : pos r₁ + r₁.rest.length < N) : r₁ = r₂ := by
  obtain ⟨rest₁, cur₁, eof₁, loc₁, pulled₁⟩ := r₁
  obtain ⟨rest₂, cur₂, eof₂, loc₂, pulled₂⟩ := r₂
  obtain ⟨hc, he, hl, hp, hr⟩ := h
  dsimp only at hc he hl hp hr hN
  subst hc he hl hp
  have := eq_of_take_eq hr (by omega)
  subst this
  rfl

/-- more fuel does not change a result that was not "out of fuel" -/
theorem Sim.fuel_indep {α} {m m' : PM α} (hs : Sim m m') (r : Reader)
    (hoof : (m r).1 ≠ .error .outOfFuel) : m' r = m r := by
  have hm := hs.mono r
  obtain ⟨h1, h2⟩ := hs.loc (pos (m r).2 + (m r).2.rest.length + 1) r r (AgreeTo.refl _ _) (by omega) hoof
  have h3 := h2.eq_of_large (by omega)
  cases hm' : m' r with
  | mk res' r' =>
    cases hm0 : m r with
    | mk res r0 =>
      rw [hm', hm0] at h1
      rw [hm', hm0] at h3
      dsimp only at h1 h3
      rw [h1, h3]

theorem nextValue_fuel_indep {F F' : Nat} (h : F ≤ F') (r : Reader)
    (hoof : (nextValue F r).1 ≠ .error .outOfFuel) : nextValue F' r = nextValue F r :=
  (nextValue_sim h).fuel_indep r hoof

/-- on a well-formed reader `nextJson` is `nextValue` at ANY fuel that is at least the fuel it uses -/
theorem nextJson_eq_nextValue (r : Reader) (hw : WF r) {F : Nat} (hF : 4 * r.rest.length + 10 ≤ F) :
    nextValue F r = r.nextJson :=
  nextValue_fuel_indep hF r (nextJson_fuel r hw)

/-- PREFIX LOCALITY of `nextJson` (absolute form): two well-formed readers in the same state whose streams
agree on every position `nextJson` examines on the first give the same result and end in the same state,
still agreeing — although the two calls run with different amounts of fuel. -/
theorem nextJson_local {N : Nat} {r₁ r₂ : Reader} (hag : AgreeTo N r₁ r₂) (hw : WF r₁)
    (hpos : pos r₁.nextJson.2 ≤ N) :
    r₂.nextJson.1 = r₁.nextJson.1 ∧ AgreeTo N r₁.nextJson.2 r₂.nextJson.2 := by
  have hoof := nextJson_fuel r₁ hw
  have hw₂ := hag.wf hw
  have h1 := (nextValue_sim (Nat.le_refl (4 * r₁.rest.length + 10))).loc N r₁ r₂ hag hpos hoof
  have h2 : r₂.nextJson = nextValue (4 * r₁.rest.length + 10) r₂ := by
    rcases Nat.le_total (4 * r₁.rest.length + 10) (4 * r₂.rest.length + 10) with hle | hle
    · exact nextValue_fuel_indep hle r₂ (by rw [h1.1]; exact hoof)
    · exact (nextValue_fuel_indep hle r₂ (nextJson_fuel r₂ hw₂)).symm
  rw [h2]
  exact h1

/-! ### `pulled_counts`: every pull removes exactly one item -/

/-- `pulled + rest.length` is invariant under the action (in the `.ok` and in the `.error` outcome) -/
structure PCount {α} (m : PM α) : Prop where
  count : ∀ r, (m r).2.pulled + (m r).2.rest.length = r.pulled + r.rest.length

theorem pcount_pure {α} (a : α) : PCount (pure a : PM α) := ⟨fun _ => rfl⟩
theorem pcount_fail {α} (e : PErr) : PCount (PM.fail e : PM α) := ⟨fun _ => rfl⟩
theorem pcount_locErr {α} (mk : Loc → PErr) : PCount (locErr mk : PM α) := ⟨fun _ => rfl⟩

theorem pcount_bind {α β} {m : PM α} {f : α → PM β} (hm : PCount m) (hf : ∀ a, PCount (f a)) :
    PCount (m >>= f) := by
  constructor
  intro r
  have h1 := hm.count r
  simp only [PM.bind_apply]
  cases h : m r with
  | mk res r1 =>
    rw [h] at h1
    cases res with
    | error e => exact h1
    | ok a => exact ((hf a).count r1).trans h1

theorem next_pcount : PCount Reader.next := by
  constructor
  intro r
  cases r with
  | mk rest cur eof loc pulled =>
    cases eof with
    | true => rfl
    | false =>
      cases rest with
      | nil => rfl
      | cons it rest => cases it <;> simp [Reader.next] <;> omega

theorem peek_pcount : PCount Reader.peek := by
  constructor
  intro r
  unfold Reader.peek
  split
  · rfl
  · exact next_pcount.count r

macro "pcount_step" : tactic => `(tactic| first
  | with_reducible exact pcount_pure _
  | with_reducible exact pcount_fail _
  | with_reducible exact pcount_locErr _
  | with_reducible exact next_pcount
  | with_reducible exact peek_pcount
  | with_reducible assumption
  | with_reducible apply pcount_bind
  | intro _
  | split)

syntax "pcount" ("[" term,* "]")? : tactic
macro_rules
  | `(tactic| pcount) => `(tactic| repeat' pcount_step)
  | `(tactic| pcount [$ts,*]) =>
    `(tactic| repeat' (first | pcount_step $[| with_reducible exact $ts]*))

theorem eatWhitespace_pcount (fuel : Nat) : PCount (eatWhitespace fuel) := by
  induction fuel with
  | zero => exact pcount_fail _
  | succ fuel ih => unfold eatWhitespace; pcount

theorem readDigits_pcount (fuel : Nat) (acc : List Byte) : PCount (readDigits fuel acc) := by
  induction fuel generalizing acc with
  | zero => exact pcount_fail _
  | succ fuel ih => unfold readDigits; pcount [ih _]

theorem readWordTail_pcount (word : String) (es : List Byte) : PCount (readWordTail word es) := by
  induction es with
  | nil => unfold readWordTail; pcount
  | cons e es ih => unfold readWordTail; pcount

theorem readHex4_pcount (k acc : Nat) : PCount (readHex4 k acc) := by
  induction k generalizing acc with
  | zero => exact pcount_pure _
  | succ k ih => unfold readHex4; pcount [ih _]

theorem readStringLoop_pcount (fuel : Nat) (acc : List Byte) : PCount (readStringLoop fuel acc) := by
  induction fuel generalizing acc with
  | zero => exact pcount_fail _
  | succ fuel ih => unfold readStringLoop; pcount [ih _, readHex4_pcount _ _]

theorem parseToDouble_pcount (t : List Byte) : PCount (parseToDouble t) := by
  unfold parseToDouble; pcount

theorem readNumber_pcount (fuel : Nat) : PCount (readNumber fuel) := by
  unfold readNumber
  pcount [readDigits_pcount _ _, parseToDouble_pcount _]

structure ValueCount (fuel : Nat) : Prop where
  value : PCount (nextValue fuel)
  array : PCount (readArray fuel)
  arrayLoop : ∀ acc, PCount (readArrayLoop fuel acc)
  object : PCount (readObject fuel)
  objectLoop : ∀ acc, PCount (readObjectLoop fuel acc)

theorem valueCount (fuel : Nat) : ValueCount fuel := by
  induction fuel with
  | zero =>
    refine ⟨?_, ?_, fun _ => ?_, ?_, fun _ => ?_⟩
    · unfold nextValue; exact pcount_fail _
    · unfold readArray; exact pcount_fail _
    · unfold readArrayLoop; exact pcount_fail _
    · unfold readObject; exact pcount_fail _
    · unfold readObjectLoop; exact pcount_fail _
  | succ fuel ih =>
    refine ⟨?_, ?_, fun _ => ?_, ?_, fun _ => ?_⟩
    · unfold nextValue
      pcount [eatWhitespace_pcount _, readWordTail_pcount _ _, readStringLoop_pcount _ _, readNumber_pcount _,
        ih.array, ih.object]
    · unfold readArray
      pcount [eatWhitespace_pcount _, ih.arrayLoop _]
    · unfold readArrayLoop
      pcount [eatWhitespace_pcount _, ih.arrayLoop _, ih.value]
    · unfold readObject
      pcount [eatWhitespace_pcount _, ih.objectLoop _]
    · unfold readObjectLoop
      pcount [eatWhitespace_pcount _, ih.objectLoop _, ih.value]

theorem nextValue_pcount (fuel : Nat) : PCount (nextValue fuel) := (valueCount fuel).value
theorem readArray_pcount (fuel : Nat) : PCount (readArray fuel) := (valueCount fuel).array
theorem readArrayLoop_pcount (fuel : Nat) (acc : List JV) : PCount (readArrayLoop fuel acc) :=
  (valueCount fuel).arrayLoop acc
theorem readObject_pcount (fuel : Nat) : PCount (readObject fuel) := (valueCount fuel).object
theorem readObjectLoop_pcount (fuel : Nat) (acc : List (Str × JV)) : PCount (readObjectLoop fuel acc) :=
  (valueCount fuel).objectLoop acc

/-- `pulled_counts`, generic: for every action that is monotone and counts -/
theorem pulled_counts {α} {m : PM α} (hm : PMono m) (hc : PCount m) (r : Reader) :
    (m r).2.pulled = r.pulled + (r.rest.length - (m r).2.rest.length) := by
  have h1 := (hm.mono r).length_le
  have h2 := hc.count r
  omega

theorem drop_of_suffix {α} {l l' : List α} (h : l' <:+ l) : l' = l.drop (l.length - l'.length) := by
  obtain ⟨t, rfl⟩ := h
  simp

/-- what is left is the input minus exactly the items pulled -/
theorem rest_eq_drop {α} {m : PM α} (hm : PMono m) (hc : PCount m) (r : Reader) :
    (m r).2.rest = r.rest.drop ((m r).2.pulled - r.pulled) := by
  have h := drop_of_suffix (hm.mono r).suffix
  have h2 := pulled_counts hm hc r
  rw [show (m r).2.pulled - r.pulled = r.rest.length - (m r).2.rest.length by omega]
  exact h

/-- `pulled_counts` for `nextJson` -/
theorem nextJson_pulled_counts (r : Reader) :
    r.nextJson.2.pulled = r.pulled + (r.rest.length - r.nextJson.2.rest.length) :=
  pulled_counts (nextValue_pmono _) (nextValue_pcount _) r

theorem nextJson_rest_eq_drop (r : Reader) :
    r.nextJson.2.rest = r.rest.drop (r.nextJson.2.pulled - r.pulled) :=
  rest_eq_drop (nextValue_pmono _) (nextValue_pcount _) r

theorem nextJson_pos_mono (r : Reader) : pos r ≤ pos r.nextJson.2 := (nextValue_sim (Nat.le_refl _)).mono r

theorem pulled_le_pos (r : Reader) : r.pulled ≤ pos r := Nat.le_add_right _ _
theorem pos_le_pulled (r : Reader) : pos r ≤ r.pulled + 1 := by
  simp only [pos, eofBit]; split <;> omega
theorem pos_of_not_eof {r : Reader} (h : r.eof = false) : pos r = r.pulled := by
  simp [pos, eofBit, h]

/-! ### Relative forms -/

theorem Agree.weaken {k k' : Nat} {r₁ r₂ : Reader} (h : Agree k r₁ r₂) (hk : k' ≤ k) : Agree k' r₁ r₂ :=
  AgreeTo.weaken h (by omega)

/-- `Sim` in the relative form: if `m` examines at most `k` further stream positions, readers that `Agree k`
give the same result and still agree on the positions not yet examined -/
theorem Sim.agree {α} {m m' : PM α} (hs : Sim m m') {k : Nat} {r₁ r₂ : Reader} (hag : Agree k r₁ r₂)
    (hoof : (m r₁).1 ≠ .error .outOfFuel) (hpos : pos (m r₁).2 ≤ pos r₁ + k) :
    (m' r₂).1 = (m r₁).1 ∧ Agree (pos r₁ + k - pos (m r₁).2) (m r₁).2 (m' r₂).2 := by
  obtain ⟨h1, h2⟩ := hs.loc _ r₁ r₂ hag hpos hoof
  refine ⟨h1, ?_⟩
  unfold Agree
  rw [show pos (m r₁).2 + (pos r₁ + k - pos (m r₁).2) = pos r₁ + k by omega]
  exact h2

/-- the form asked for: `m` pulls `d` items on `r₁`; if `r₁ r₂` agree on `k` positions with `d < k` — or `d ≤ k`
and `m` did not see the end of input — then `m'` gives the same result on `r₂`, pulls `d`, and the readers
still agree on the remaining `k - d - 1` (resp. `k - d`) positions -/
theorem Sim.agree_pulled {α} {m m' : PM α} (hs : Sim m m') {k d : Nat} {r₁ r₂ : Reader} (hag : Agree k r₁ r₂)
    (hoof : (m r₁).1 ≠ .error .outOfFuel) (hd : (m r₁).2.pulled = r₁.pulled + d)
    (hk : d < k ∨ (d ≤ k ∧ (m r₁).2.eof = false)) :
    (m' r₂).1 = (m r₁).1 ∧ (m' r₂).2.pulled = r₂.pulled + d ∧
      Agree (k - d - 1) (m r₁).2 (m' r₂).2 ∧ ((m r₁).2.eof = false → Agree (k - d) (m r₁).2 (m' r₂).2) := by
  have hp1 := pulled_le_pos r₁
  have hp2 := pos_le_pulled (m r₁).2
  have hpos : pos (m r₁).2 ≤ pos r₁ + k := by
    rcases hk with hk | ⟨hk, he⟩
    · omega
    · rw [pos_of_not_eof he]; omega
  obtain ⟨h1, h2⟩ := hs.agree hag hoof hpos
  refine ⟨h1, ?_, h2.weaken (by omega), fun he => h2.weaken ?_⟩
  · rw [← h2.pulled, hd, hag.pulled]
  · rw [pos_of_not_eof he]; omega

/-- PREFIX LOCALITY of `nextJson`, relative form: `nextJson` pulls `d` items and its result is unchanged by
changing anything after the first `d + 1` items — after the first `d` items if it did not see the end of input -/
theorem nextJson_agree_pulled {k d : Nat} {r₁ r₂ : Reader} (hag : Agree k r₁ r₂) (hw : WF r₁)
    (hd : r₁.nextJson.2.pulled = r₁.pulled + d) (hk : d < k ∨ (d ≤ k ∧ r₁.nextJson.2.eof = false)) :
    r₂.nextJson.1 = r₁.nextJson.1 ∧ r₂.nextJson.2.pulled = r₂.pulled + d ∧
      Agree (k - d - 1) r₁.nextJson.2 r₂.nextJson.2 ∧
      (r₁.nextJson.2.eof = false → Agree (k - d) r₁.nextJson.2 r₂.nextJson.2) := by
  have hp1 := pulled_le_pos r₁
  have hp2 := pos_le_pulled r₁.nextJson.2
  have hpos : pos r₁.nextJson.2 ≤ pos r₁ + k := by
    rcases hk with hk | ⟨hk, he⟩
    · omega
    · rw [pos_of_not_eof he]; omega
  obtain ⟨h1, h2⟩ := nextJson_local hag hw hpos
  refine ⟨h1, ?_, AgreeTo.weaken h2 (by omega), fun he => AgreeTo.weaken h2 ?_⟩
  · rw [← h2.pulled, hd, hag.pulled]
  · rw [pos_of_not_eof he]; omega

/-- PREFIX LOCALITY in the form of the task: the same reader state over `p ++ t₁` and over `p ++ t₂`; if
`nextJson` on the first stops with `q ++ t₁` unread, `q` non-empty (it never reached the end of the common
prefix `p`), then on the second it gives the same result and stops with `q ++ t₂` unread, in the same state. -/
theorem nextJson_prefix_locality (r : Reader) (hw : WF r) (p t₁ t₂ q : List RItem)
    (res : Except PErr (Option JV)) (r₁' : Reader)
    (h : Reader.nextJson { r with rest := p ++ t₁ } = (res, r₁')) (hq : r₁'.rest = q ++ t₁) (hne : q ≠ []) :
    ∃ r₂', Reader.nextJson { r with rest := p ++ t₂ } = (res, r₂') ∧ r₂'.rest = q ++ t₂ ∧
      r₂'.cur = r₁'.cur ∧ r₂'.eof = r₁'.eof ∧ r₂'.loc = r₁'.loc ∧ r₂'.pulled = r₁'.pulled := by
  have hag := agree_of_common_prefix r p t₁ t₂
  have hcnt := nextJson_pulled_counts { r with rest := p ++ t₁ }
  have hdrop := nextJson_rest_eq_drop { r with rest := p ++ t₁ }
  have hlen := nextJson_rest_le { r with rest := p ++ t₁ }
  rw [h] at hcnt hdrop hlen
  dsimp only at hcnt hdrop hlen
  have hq0 : 0 < q.length := List.length_pos_iff.mpr hne
  rw [hq] at hlen hcnt
  simp only [List.length_append] at hlen hcnt
  have hd : r₁'.pulled = r.pulled + (p.length - q.length) := by omega
  have hp1 := pos_le_pulled r₁'
  have hp2 := pulled_le_pos { r with rest := p ++ t₁ }
  dsimp only at hp2
  obtain ⟨e1, e2⟩ := nextJson_local (N := pos { r with rest := p ++ t₁ } + p.length) hag (fun he => hw he)
    (by rw [h]; dsimp only; omega)
  rw [h] at e1 e2
  dsimp only at e1 e2
  have hdrop2 := nextJson_rest_eq_drop { r with rest := p ++ t₂ }
  rw [← e2.pulled] at hdrop2
  dsimp only at hdrop2
  have hle : p.length - q.length ≤ p.length := Nat.sub_le _ _
  rw [hd, Nat.add_sub_cancel_left, List.drop_append_of_le_length hle] at hdrop2
  rw [hq, hd, Nat.add_sub_cancel_left, List.drop_append_of_le_length hle] at hdrop
  have hqq : q = p.drop (p.length - q.length) := List.append_cancel_right hdrop
  refine ⟨(Reader.nextJson { r with rest := p ++ t₂ }).2, ?_, ?_, e2.cur.symm, e2.eof.symm, e2.loc.symm,
    e2.pulled.symm⟩
  · rw [← e1]
  · rw [hdrop2, ← hqq]

/-! ### Non-vacuity and the counter-example that fixes the formulation

`1` and `12` agree on the first item and `nextJson` pulls exactly one item on `1` — but it also saw the end of
input there, which is a second stream position: the results differ.  So "agree on the `d` items pulled" is not
enough in general; `d + 1` positions (or `d` and no end-of-input seen) are. -/

example : Agree 1 (Reader.ofBytes [49]) (Reader.ofBytes [49, 50]) := by
  refine ⟨rfl, rfl, rfl, rfl, ?_⟩; decide
example : (Reader.nextJson (Reader.ofBytes [49])).2.pulled = 1 := by decide
example : (Reader.nextJson (Reader.ofBytes [49])).1 = .ok (some (.num (.pos 1))) := by rfl
example : (Reader.nextJson (Reader.ofBytes [49, 50])).1 = .ok (some (.num (.pos 12))) := by rfl

/-- the readers over `[1] [2]` and `[1] [3,4]` agree on the first 4 items; `nextJson` pulls 4 of them -/
example : Agree 4 (Reader.ofBytes [91, 49, 93, 32, 91, 50, 93]) (Reader.ofBytes [91, 49, 93, 32, 91, 51, 44, 52, 93]) := by
  refine ⟨rfl, rfl, rfl, rfl, ?_⟩; decide
example : (Reader.nextJson (Reader.ofBytes [91, 49, 93, 32, 91, 50, 93])).2.pulled = 4
    ∧ (Reader.nextJson (Reader.ofBytes [91, 49, 93, 32, 91, 50, 93])).2.eof = false := by decide

example : (Reader.nextJson (Reader.ofBytes [91, 49, 93, 32, 91, 51, 44, 52, 93])).1
    = (Reader.nextJson (Reader.ofBytes [91, 49, 93, 32, 91, 50, 93])).1 :=
  (nextJson_agree_pulled (k := 4) (d := 4)
    (r₁ := Reader.ofBytes [91, 49, 93, 32, 91, 50, 93]) (r₂ := Reader.ofBytes [91, 49, 93, 32, 91, 51, 44, 52, 93])
    (by refine ⟨rfl, rfl, rfl, rfl, ?_⟩; decide) (wf_ofBytes _ _) (by decide) (.inr ⟨by decide, by decide⟩)).1

/-! ### `lookahead_bound`: one byte of look-ahead, held in `cur` -/

def curBit (r : Reader) : Nat := if r.cur.isSome then 1 else 0

/-- Items pulled = items consumed (no longer pending) + the look-ahead byte now held − the look-ahead byte held
before.  `pending` counts the look-ahead byte as unread, so this is exact bookkeeping for EVERY outcome. -/
theorem lookahead_count (r : Reader) :
    r.nextJson.2.pulled + r.nextJson.2.pending.length + curBit r
      = r.pulled + r.pending.length + curBit r.nextJson.2 := by
  have h := (nextValue_pcount (4 * r.rest.length + 10)).count r
  have h1 := pending_length r
  have h2 := pending_length r.nextJson.2
  unfold Reader.nextJson at h1 h2 ⊢
  simp only [curBit]
  omega

/-- `lookahead_bound`: `nextJson` pulls at most ONE item beyond what it consumed (removed from `pending`) -/
theorem lookahead_bound (r : Reader) :
    r.nextJson.2.pulled ≤ r.pulled + (r.pending.length - r.nextJson.2.pending.length) + 1 := by
  have h := lookahead_count r
  have h1 : curBit r.nextJson.2 ≤ 1 := by simp only [curBit]; split <;> omega
  omega

/-- what a successful action did to the look-ahead byte: either nothing was pulled (the stream is untouched
and `cur` is unchanged or was cleared at the end of input), or something was pulled and the byte held in `cur`,
if any, is the LAST item pulled -/
def LookStep (r r' : Reader) : Prop :=
  r'.rest <:+ r.rest ∧
  ((r'.pulled = r.pulled ∧ r'.rest = r.rest ∧ (r'.cur = r.cur ∨ r'.cur = none)) ∨
   (r.pulled < r'.pulled ∧ ∀ b, r'.cur = some b → ∃ pre, r.rest = pre ++ RItem.byte b :: r'.rest))

theorem LookStep.refl (r : Reader) : LookStep r r := ⟨List.suffix_refl _, .inl ⟨rfl, rfl, .inl rfl⟩⟩

theorem LookStep.trans {a b c : Reader} (h1 : LookStep a b) (h2 : LookStep b c) : LookStep a c := by
  obtain ⟨s1, h1⟩ := h1
  obtain ⟨s2, h2⟩ := h2
  refine ⟨s2.trans s1, ?_⟩
  rcases h1 with ⟨p1, r1, c1⟩ | ⟨p1, l1⟩
  · rcases h2 with ⟨p2, r2, c2⟩ | ⟨p2, l2⟩
    · refine .inl ⟨p2.trans p1, r2.trans r1, ?_⟩
      rcases c2 with c2 | c2
      · rcases c1 with c1 | c1
        · exact .inl (c2.trans c1)
        · exact .inr (c2.trans c1)
      · exact .inr c2
    · refine .inr ⟨by omega, fun x hx => ?_⟩
      rw [← r1]; exact l2 x hx
  · rcases h2 with ⟨p2, r2, c2⟩ | ⟨p2, l2⟩
    · refine .inr ⟨by omega, fun x hx => ?_⟩
      rcases c2 with c2 | c2
      · rw [r2]; exact l1 x (c2 ▸ hx)
      · rw [c2] at hx; cases hx
    · refine .inr ⟨by omega, fun x hx => ?_⟩
      obtain ⟨pre, hpre⟩ := l2 x hx
      obtain ⟨t, ht⟩ := s1
      exact ⟨t ++ pre, by rw [← ht, hpre, List.append_assoc]⟩

structure PLook {α} (m : PM α) : Prop where
  look : ∀ r a r', m r = (.ok a, r') → LookStep r r'

theorem plook_pure {α} (a : α) : PLook (pure a : PM α) :=
  ⟨fun r a' r' h => by cases h; exact LookStep.refl _⟩
theorem plook_fail {α} (e : PErr) : PLook (PM.fail e : PM α) := ⟨fun r a' r' h => by cases h⟩
theorem plook_locErr {α} (mk : Loc → PErr) : PLook (locErr mk : PM α) := ⟨fun r a' r' h => by cases h⟩

theorem plook_bind {α β} {m : PM α} {f : α → PM β} (hm : PLook m) (hf : ∀ a, PLook (f a)) :
    PLook (m >>= f) := by
  constructor
  intro r b r' h
  simp only [PM.bind_apply] at h
  cases h1 : m r with
  | mk res r1 =>
    rw [h1] at h
    cases res with
    | error e => cases h
    | ok a => exact (hm.look r a r1 h1).trans ((hf a).look r1 b r' h)

theorem next_plook : PLook Reader.next := by
  constructor
  intro r a r' h
  cases r with
  | mk rest cur eof loc pulled =>
    cases eof with
    | true => cases h; exact LookStep.refl _
    | false =>
      cases rest with
      | nil => cases h; exact ⟨List.suffix_refl _, .inl ⟨rfl, rfl, .inr rfl⟩⟩
      | cons it rest =>
        cases it with
        | err => cases h
        | byte b =>
          cases h
          refine ⟨List.suffix_cons _ _, .inr ⟨Nat.lt_succ_self _, fun x hx => ?_⟩⟩
          cases hx
          exact ⟨[], rfl⟩

theorem peek_plook : PLook Reader.peek := by
  constructor
  intro r a r' h
  unfold Reader.peek at h
  split at h
  · cases h; exact LookStep.refl _
  · exact next_plook.look r a r' h

macro "plook_step" : tactic => `(tactic| first
  | with_reducible exact plook_pure _
  | with_reducible exact plook_fail _
  | with_reducible exact plook_locErr _
  | with_reducible exact next_plook
  | with_reducible exact peek_plook
  | with_reducible assumption
  | with_reducible apply plook_bind
  | intro _
  | split)

syntax "plook" ("[" term,* "]")? : tactic
macro_rules
  | `(tactic| plook) => `(tactic| repeat' plook_step)
  | `(tactic| plook [$ts,*]) =>
    `(tactic| repeat' (first | plook_step $[| with_reducible exact $ts]*))

theorem eatWhitespace_plook (fuel : Nat) : PLook (eatWhitespace fuel) := by
  induction fuel with
  | zero => exact plook_fail _
  | succ fuel ih => unfold eatWhitespace; plook

theorem readDigits_plook (fuel : Nat) (acc : List Byte) : PLook (readDigits fuel acc) := by
  induction fuel generalizing acc with
  | zero => exact plook_fail _
  | succ fuel ih => unfold readDigits; plook [ih _]

theorem readWordTail_plook (word : String) (es : List Byte) : PLook (readWordTail word es) := by
  induction es with
  | nil => unfold readWordTail; plook
  | cons e es ih => unfold readWordTail; plook

theorem readHex4_plook (k acc : Nat) : PLook (readHex4 k acc) := by
  induction k generalizing acc with
  | zero => exact plook_pure _
  | succ k ih => unfold readHex4; plook [ih _]

theorem readStringLoop_plook (fuel : Nat) (acc : List Byte) : PLook (readStringLoop fuel acc) := by
  induction fuel generalizing acc with
  | zero => exact plook_fail _
  | succ fuel ih => unfold readStringLoop; plook [ih _, readHex4_plook _ _]

theorem parseToDouble_plook (t : List Byte) : PLook (parseToDouble t) := by
  unfold parseToDouble; plook

theorem readNumber_plook (fuel : Nat) : PLook (readNumber fuel) := by
  unfold readNumber
  plook [readDigits_plook _ _, parseToDouble_plook _]

structure ValueLook (fuel : Nat) : Prop where
  value : PLook (nextValue fuel)
  array : PLook (readArray fuel)
  arrayLoop : ∀ acc, PLook (readArrayLoop fuel acc)
  object : PLook (readObject fuel)
  objectLoop : ∀ acc, PLook (readObjectLoop fuel acc)

theorem valueLook (fuel : Nat) : ValueLook fuel := by
  induction fuel with
  | zero =>
    refine ⟨?_, ?_, fun _ => ?_, ?_, fun _ => ?_⟩
    · unfold nextValue; exact plook_fail _
    · unfold readArray; exact plook_fail _
    · unfold readArrayLoop; exact plook_fail _
    · unfold readObject; exact plook_fail _
    · unfold readObjectLoop; exact plook_fail _
  | succ fuel ih =>
    refine ⟨?_, ?_, fun _ => ?_, ?_, fun _ => ?_⟩
    · unfold nextValue
      plook [eatWhitespace_plook _, readWordTail_plook _ _, readStringLoop_plook _ _, readNumber_plook _,
        ih.array, ih.object]
    · unfold readArray
      plook [eatWhitespace_plook _, ih.arrayLoop _]
    · unfold readArrayLoop
      plook [eatWhitespace_plook _, ih.arrayLoop _, ih.value]
    · unfold readObject
      plook [eatWhitespace_plook _, ih.objectLoop _]
    · unfold readObjectLoop
      plook [eatWhitespace_plook _, ih.objectLoop _, ih.value]

/-- after a successful `nextJson` that pulled something, the look-ahead byte (if one is held) is the last item
pulled: every earlier item is consumed, and this one is still `pending` — it is what the next call starts from -/
theorem nextJson_lookahead (r : Reader) {x : Option JV} {r' : Reader} (h : r.nextJson = (.ok x, r')) :
    LookStep r r' := (valueLook _).value.look r x r' h

theorem nextJson_lookahead_last (r : Reader) {x : Option JV} {r' : Reader} {b : Byte}
    (h : r.nextJson = (.ok x, r')) (hp : r.pulled < r'.pulled) (hc : r'.cur = some b) :
    ∃ pre, r.rest = pre ++ RItem.byte b :: r'.rest ∧ r'.pending = RItem.byte b :: r'.rest := by
  obtain ⟨_, h1 | h1⟩ := nextJson_lookahead r h
  · omega
  · obtain ⟨pre, hpre⟩ := h1.2 b hc
    exact ⟨pre, hpre, by simp [Reader.pending, hc]⟩

/-- `[1] [2]`: the first call pulls `[1]` and the blank (4 items), the blank is held as look-ahead -/
example : (Reader.nextJson (Reader.ofBytes [91, 49, 93, 32, 91, 50, 93])).2.cur = some 32
    ∧ (Reader.nextJson (Reader.ofBytes [91, 49, 93, 32, 91, 50, 93])).2.pulled = 4
    ∧ (Reader.nextJson (Reader.ofBytes [91, 49, 93, 32, 91, 50, 93])).2.pending.length = 4 := by decide

/-! ### 2. (C14) `--take` stops reading -/

section Loop
variable (orc : Oracles) (c : Cfg) (p : Pipeline)

/-- any reflexive, transitive relation that every `nextJson` call respects relates the reader after the first
`nextJson` of a loop that ends normally to the final reader -/
theorem readLoop_first_rel (Q : Reader → Reader → Prop) (hrefl : ∀ r, Q r r)
    (htrans : ∀ a b c, Q a b → Q b c → Q a c) (hstep : ∀ r, Q r r.nextJson.2)
    (fuel : Nat) (r : Reader) (inFile : Nat) (s : RunState)
    {s' : RunState} {r' : Reader} {d : Decision}
    (h : readLoop orc c p (fuel + 1) r inFile s = .ok (s', r', d)) : Q r.nextJson.2 r' := by
  induction fuel generalizing r inFile s with
  | zero =>
    rw [readLoop] at h
    dsimp only at h
    split at h
    · rename_i v r1 heq
      rw [heq]
      split at h
      · simp [readLoop] at h
      · split at h
        · cases h
        · cases h; exact hrefl _
        · simp [readLoop] at h
    · rename_i r1 heq
      rw [heq]; cases h; exact hrefl _
    · split at h
      · cases h
      · split at h
        · simp [readLoop] at h
        · cases h
        · split at h
          · cases h
          · simp [readLoop] at h
        · split at h
          · cases h
          · simp [readLoop] at h
  | succ fuel ih =>
    rw [readLoop] at h
    dsimp only at h
    split at h
    · rename_i v r1 heq
      rw [heq]
      have hm := hstep r1
      split at h
      · exact htrans _ _ _ hm (ih _ _ _ h)
      · split at h
        · cases h
        · cases h; exact hrefl _
        · exact htrans _ _ _ hm (ih _ _ _ h)
    · rename_i r1 heq
      rw [heq]; cases h; exact hrefl _
    · rename_i e r1 heq
      rw [heq]
      have hm := hstep r1
      split at h
      · cases h
      · split at h
        · exact htrans _ _ _ hm (ih _ _ _ h)
        · cases h
        · split at h
          · cases h
          · exact htrans _ _ _ hm (ih _ _ _ h)
        · split at h
          · cases h
          · exact htrans _ _ _ hm (ih _ _ _ h)

theorem readLoop_rel (Q : Reader → Reader → Prop) (hrefl : ∀ r, Q r r)
    (htrans : ∀ a b c, Q a b → Q b c → Q a c) (hstep : ∀ r, Q r r.nextJson.2)
    (fuel : Nat) (r : Reader) (inFile : Nat) (s : RunState)
    {s' : RunState} {r' : Reader} {d : Decision}
    (h : readLoop orc c p fuel r inFile s = .ok (s', r', d)) : Q r r' := by
  cases fuel with
  | zero => simp [readLoop] at h
  | succ fuel => exact htrans _ _ _ (hstep r) (readLoop_first_rel orc c p Q hrefl htrans hstep fuel r inFile s h)

/-- the first `nextJson` of a loop that ends normally examined no position beyond the final reader's -/
theorem readLoop_first_pos (fuel : Nat) (r : Reader) (inFile : Nat) (s : RunState)
    {s' : RunState} {r' : Reader} {d : Decision}
    (h : readLoop orc c p (fuel + 1) r inFile s = .ok (s', r', d)) : pos r.nextJson.2 ≤ pos r' :=
  readLoop_first_rel orc c p (fun a b => pos a ≤ pos b) (fun _ => Nat.le_refl _)
    (fun _ _ _ => Nat.le_trans) nextJson_pos_mono fuel r inFile s h

theorem readLoop_pos_mono (fuel : Nat) (r : Reader) (inFile : Nat) (s : RunState)
    {s' : RunState} {r' : Reader} {d : Decision}
    (h : readLoop orc c p fuel r inFile s = .ok (s', r', d)) : pos r ≤ pos r' :=
  readLoop_rel orc c p (fun a b => pos a ≤ pos b) (fun _ => Nat.le_refl _)
    (fun _ _ _ => Nat.le_trans) nextJson_pos_mono fuel r inFile s h

/-- `pulled_counts` for the whole loop -/
theorem readLoop_count (fuel : Nat) (r : Reader) (inFile : Nat) (s : RunState)
    {s' : RunState} {r' : Reader} {d : Decision}
    (h : readLoop orc c p fuel r inFile s = .ok (s', r', d)) :
    r'.pulled + r'.rest.length = r.pulled + r.rest.length :=
  readLoop_rel orc c p (fun a b => b.pulled + b.rest.length = a.pulled + a.rest.length) (fun _ => rfl)
    (fun _ _ _ h1 h2 => h2.trans h1) (fun r => (nextValue_pcount _).count r) fuel r inFile s h

theorem readLoop_mono (fuel : Nat) (r : Reader) (inFile : Nat) (s : RunState)
    {s' : RunState} {r' : Reader} {d : Decision}
    (h : readLoop orc c p fuel r inFile s = .ok (s', r', d)) : Mono r r' :=
  readLoop_rel orc c p Mono Mono.refl (fun _ _ _ => Mono.trans) nextJson_mono fuel r inFile s h

/-- LOCALITY OF THE READ LOOP: if the loop over `r` ends normally (end of input, or `Break`) having examined
only stream positions below `N`, then over any reader `r₂` that agrees with `r` below `N` — and with any fuel that
is at least as large — it ends in the same state, with the same decision, having pulled the same number of items. -/
theorem readLoop_local {N : Nat} (fuel fuel₂ : Nat) (r r₂ : Reader) (inFile : Nat) (s : RunState)
    {s' : RunState} {r' : Reader} {d : Decision} (hw : WF r) (hag : AgreeTo N r r₂)
    (h : readLoop orc c p fuel r inFile s = .ok (s', r', d)) (hN : pos r' ≤ N) (hf : fuel ≤ fuel₂) :
    ∃ r₂', readLoop orc c p fuel₂ r₂ inFile s = .ok (s', r₂', d) ∧ AgreeTo N r' r₂' := by
  induction fuel generalizing fuel₂ r r₂ inFile s with
  | zero => simp [readLoop] at h
  | succ fuel ih =>
    obtain ⟨fuel₂, rfl⟩ : ∃ n, fuel₂ = n + 1 := ⟨fuel₂ - 1, by omega⟩
    have hfirst := readLoop_first_pos orc c p fuel r inFile s h
    obtain ⟨e1, a1⟩ := nextJson_local hag hw (Nat.le_trans hfirst hN)
    have hw1 : WF r.nextJson.2 := nextJson_wf r hw
    rcases hn : r.nextJson with ⟨res, r1⟩
    rcases hn₂ : r₂.nextJson with ⟨res₂, r1₂⟩
    rw [hn, hn₂] at e1 a1
    rw [hn] at hw1
    dsimp only at e1 a1 hw1
    subst e1
    have ih' := fun inFile s h => ih (fuel₂ := fuel₂) r1 r1₂ inFile s hw1 a1 h (by omega)
    rw [readLoop] at h ⊢
    simp only [hn, hn₂] at h ⊢
    rw [← hag.loc]
    cases res₂ with
    | error e =>
      dsimp only at h ⊢
      cases hrec : e.canRecover with
      | false => simp [hrec] at h
      | true =>
        simp only [hrec, Bool.not_true, Bool.false_eq_true, if_false] at h ⊢
        cases hpol : c.onError with
        | ignore => simp only [hpol] at h ⊢; exact ih' _ _ h
        | panic => simp [hpol] at h
        | stdout =>
          simp only [hpol] at h ⊢
          cases hfl : (s.out.put (reportBytes e)).failed with
          | true => simp [hfl] at h
          | false =>
            simp only [hfl, Bool.false_eq_true, if_false] at h ⊢
            exact ih' _ _ h
        | stderr =>
          simp only [hpol] at h ⊢
          cases hfl : (s.err.put (reportBytes e)).failed with
          | true => simp [hfl] at h
          | false =>
            simp only [hfl, Bool.false_eq_true, if_false] at h ⊢
            exact ih' _ _ h
    | ok o =>
      cases o with
      | none =>
        dsimp only at h ⊢
        cases h
        exact ⟨r1₂, rfl, a1⟩
      | some v =>
        dsimp only at h ⊢
        rw [← a1.loc]
        cases hk : (c.onlyObjectsAndArrays && !v.isObjOrArr) with
        | true =>
          simp only [hk, if_true] at h ⊢
          exact ih' _ _ h
        | false =>
          simp only [hk, Bool.false_eq_true, if_false] at h ⊢
          cases hp : process orc p.sink p.sinkLen p.cfgs s.sts s.out
              { input := v, ictx := some { startLoc := r.loc, endLoc := r1.loc, fileIndex := inFile, index := s.index } } with
          | error f => simp [hp] at h
          | ok x =>
            obtain ⟨ps, dec⟩ := x
            cases dec with
            | brk =>
              simp only [hp] at h ⊢
              cases h
              exact ⟨r1₂, rfl, a1⟩
            | cont =>
              simp only [hp] at h ⊢
              exact ih' _ _ h

/-- (C14) `take_stops`: the loop over `r` answered `Break` after pulling `d = r'.pulled - r.pulled` items.  Then over
ANY reader `r₂` in the same state whose stream agrees on the first `d + 1` positions — whatever follows, finite
or not — and with any larger fuel, the loop ends with the same state (same rows written, same stage states) and
has pulled exactly as many items. -/
theorem take_stops (fuel fuel₂ : Nat) (r r₂ : Reader) (inFile : Nat) (s : RunState)
    {s' : RunState} {r' : Reader} (hw : WF r)
    (h : readLoop orc c p fuel r inFile s = .ok (s', r', .brk))
    (hag : Agree (r'.pulled - r.pulled + 1) r r₂) (hf : fuel ≤ fuel₂) :
    ∃ r₂', readLoop orc c p fuel₂ r₂ inFile s = .ok (s', r₂', .brk) ∧ r₂'.pulled = r'.pulled := by
  have h1 := pos_le_pulled r'
  have h2 := pulled_le_pos r
  obtain ⟨r₂', e, a⟩ := readLoop_local orc c p fuel fuel₂ r r₂ inFile s hw hag h (by omega) hf
  exact ⟨r₂', e, a.pulled.symm⟩

/-- the same when the loop stopped without having seen the end of input: agreement on the `d` items pulled is
enough -/
theorem take_stops_no_eof (fuel fuel₂ : Nat) (r r₂ : Reader) (inFile : Nat) (s : RunState)
    {s' : RunState} {r' : Reader} (hw : WF r)
    (h : readLoop orc c p fuel r inFile s = .ok (s', r', .brk)) (he : r'.eof = false)
    (hag : Agree (r'.pulled - r.pulled) r r₂) (hf : fuel ≤ fuel₂) :
    ∃ r₂', readLoop orc c p fuel₂ r₂ inFile s = .ok (s', r₂', .brk) ∧ r₂'.pulled = r'.pulled := by
  have h1 := pos_of_not_eof he
  have h2 := pulled_le_pos r
  obtain ⟨r₂', e, a⟩ := readLoop_local orc c p fuel fuel₂ r r₂ inFile s hw hag h (by omega) hf
  exact ⟨r₂', e, a.pulled.symm⟩

theorem agree_ofItems_append (items cont : List RItem) (name : Option Str) :
    AgreeTo items.length (Reader.ofItems items name) (Reader.ofItems (items ++ cont) name) := by
  refine ⟨rfl, rfl, rfl, rfl, ?_⟩
  show List.take (items.length - 0) items = List.take (items.length - 0) (items ++ cont)
  simp

/-- the run on `items ++ cont` equals the run on `items`, for every continuation `cont`, when the loop over
`items` answered `Break` before it saw the end of `items` -/
theorem take_stops_append (items cont : List RItem) (name : Option Str) (fuel fuel₂ : Nat) (inFile : Nat)
    (s : RunState) {s' : RunState} {r' : Reader}
    (h : readLoop orc c p fuel (Reader.ofItems items name) inFile s = .ok (s', r', .brk)) (he : r'.eof = false)
    (hf : fuel ≤ fuel₂) :
    ∃ r₂', readLoop orc c p fuel₂ (Reader.ofItems (items ++ cont) name) inFile s = .ok (s', r₂', .brk)
      ∧ r₂'.pulled = r'.pulled := by
  have hcnt := readLoop_count orc c p _ _ _ _ h
  have hpos := pos_of_not_eof he
  have h0 : (Reader.ofItems items name).pulled = 0 := rfl
  have h1 : (Reader.ofItems items name).rest = items := rfl
  rw [h0, h1] at hcnt
  obtain ⟨r₂', e, a⟩ := readLoop_local orc c p fuel fuel₂ _ _ inFile s (wf_ofItems _ _)
    (agree_ofItems_append items cont name) h (by omega) hf
  exact ⟨r₂', e, a.pulled.symm⟩

/-- at the level of the file loop: later bytes of the file, and later files, are irrelevant -/
theorem take_stops_sources (items cont : List RItem) (name : Option Str) (rest rest₂ : List Source)
    (s : RunState) {s' : RunState} {r' : Reader}
    (h : readLoop orc c p (items.length + 2) (Reader.ofItems items name) 0 s = .ok (s', r', .brk))
    (he : r'.eof = false) :
    readSources orc c p (⟨name, items ++ cont⟩ :: rest₂) s = readSources orc c p (⟨name, items⟩ :: rest) s := by
  obtain ⟨r₂', e, a⟩ := take_stops_append orc c p items cont name _ ((items ++ cont).length + 2) 0 s h he
    (by simp)
  have e' : readLoop orc c p ((⟨name, items ++ cont⟩ : Source).items.length + 2)
      (Reader.ofItems (⟨name, items ++ cont⟩ : Source).items (⟨name, items ++ cont⟩ : Source).name) 0 s
      = .ok (s', r₂', .brk) := e
  have h' : readLoop orc c p ((⟨name, items⟩ : Source).items.length + 2)
      (Reader.ofItems (⟨name, items⟩ : Source).items (⟨name, items⟩ : Source).name) 0 s
      = .ok (s', r', .brk) := h
  rw [C14.files_after_break_not_opened orc c p _ rest₂ s s' r₂' e',
    C14.files_after_break_not_opened orc c p _ rest s s' r' h', a]

/-- (C14) at the level of a whole run: if the read loop over the first source answers `Break` before it saw the end
of `items`, the run (result, stdout, stderr, items pulled) does not depend on what follows `items` in that source
nor on the later sources -/
theorem take_stops_run (sources sources₂ : List Source) (items cont : List RItem) (name : Option Str)
    (wOut wErr w0 : Writer) {s' : RunState} {r' : Reader}
    (hb : build orc c = .ok p) (hs : sinkStart p.sink p.titles wOut = .ok w0)
    (h : readLoop orc c p (items.length + 2) (Reader.ofItems items name) 0
          { sts := p.sts, out := w0, err := wErr } = .ok (s', r', .brk))
    (he : r'.eof = false) :
    run orc c (⟨name, items ++ cont⟩ :: sources₂) wOut wErr = run orc c (⟨name, items⟩ :: sources) wOut wErr := by
  have := take_stops_sources orc c p items cont name sources sources₂ _ h he
  simp only [run, hb, hs, this]

end Loop

/-! Non-vacuity: `--take 1` over `[1] [2]` -/

def takeOne : Pipeline :=
  { cfgs := [.limit 0 (some 1)], sts := [.limit 0 0], sink := .json {} ['\n'], sinkLen := 0, titles := [] }

theorem build_takeOne (orc : Oracles) : build orc { take := some 1 } = .ok takeOne := rfl

/-- the loop over `[1] [2]` breaks after the first value, having pulled 4 items, the end of input not seen -/
theorem takeOne_breaks (orc : Oracles) :
    ∃ s' r', readLoop orc { take := some 1 } takeOne 9 (Reader.ofItems (cleanInput [91, 49, 93, 32, 91, 50, 93]) none) 0
      { sts := takeOne.sts, out := {}, err := {} } = .ok (s', r', .brk) ∧ r'.eof = false ∧ r'.pulled = 4 :=
  ⟨_, _, rfl, rfl, rfl⟩

/-- so whatever follows `[1] [2]` on stdin — including read faults — and whatever files follow, the run is the
same -/
example (orc : Oracles) (cont : List RItem) (more : List Source) :
    run orc { take := some 1 } (⟨none, cleanInput [91, 49, 93, 32, 91, 50, 93] ++ cont⟩ :: more) {} {}
      = run orc { take := some 1 } [⟨none, cleanInput [91, 49, 93, 32, 91, 50, 93]⟩] {} {} := by
  obtain ⟨s', r', h, he, _⟩ := takeOne_breaks orc
  exact take_stops_run orc _ takeOne [] more _ cont none {} {} {} (build_takeOne orc) rfl h he

/-! ### 3. (C16) read faults are fatal; the logs only grow -/

/-- `.err :: post` is a suffix of the unread stream: the reader has not yet pulled this fault.  After ANY action
either it still has not, or the action failed with the I/O error exactly at it (nothing after it was pulled). -/
structure PErrStop {α} (m : PM α) : Prop where
  stop : ∀ r post, (RItem.err :: post) <:+ r.rest →
    (RItem.err :: post) <:+ (m r).2.rest ∨ ((m r).1 = .error .io ∧ (m r).2.rest = post)

theorem perrstop_pure {α} (a : α) : PErrStop (pure a : PM α) := ⟨fun _ _ h => .inl h⟩
theorem perrstop_fail {α} (e : PErr) : PErrStop (PM.fail e : PM α) := ⟨fun _ _ h => .inl h⟩
theorem perrstop_locErr {α} (mk : Loc → PErr) : PErrStop (locErr mk : PM α) := ⟨fun _ _ h => .inl h⟩

theorem perrstop_bind {α β} {m : PM α} {f : α → PM β} (hm : PErrStop m) (hf : ∀ a, PErrStop (f a)) :
    PErrStop (m >>= f) := by
  constructor
  intro r post hs
  have h1 := hm.stop r post hs
  simp only [PM.bind_apply]
  cases h : m r with
  | mk res r1 =>
    rw [h] at h1
    cases res with
    | error e =>
      rcases h1 with h1 | ⟨h1, h2⟩
      · exact .inl h1
      · exact .inr ⟨by dsimp only at h1 ⊢; cases h1; rfl, h2⟩
    | ok a =>
      rcases h1 with h1 | ⟨h1, _⟩
      · exact (hf a).stop r1 post h1
      · cases h1

theorem next_perrstop : PErrStop Reader.next := by
  constructor
  intro r post hs
  cases r with
  | mk rest cur eof loc pulled =>
    cases eof with
    | true => exact .inl hs
    | false =>
      cases rest with
      | nil => exact .inl hs
      | cons it rest =>
        dsimp only at hs
        rcases List.suffix_cons_iff.mp hs with h | h
        · cases h; exact .inr ⟨rfl, rfl⟩
        · cases it with
          | err => exact .inl h
          | byte b => exact .inl h

theorem peek_perrstop : PErrStop Reader.peek := by
  constructor
  intro r post hs
  unfold Reader.peek
  split
  · exact .inl hs
  · exact next_perrstop.stop r post hs

macro "perrstop_step" : tactic => `(tactic| first
  | with_reducible exact perrstop_pure _
  | with_reducible exact perrstop_fail _
  | with_reducible exact perrstop_locErr _
  | with_reducible exact next_perrstop
  | with_reducible exact peek_perrstop
  | with_reducible assumption
  | with_reducible apply perrstop_bind
  | intro _
  | split)

syntax "perrstop" ("[" term,* "]")? : tactic
macro_rules
  | `(tactic| perrstop) => `(tactic| repeat' perrstop_step)
  | `(tactic| perrstop [$ts,*]) =>
    `(tactic| repeat' (first | perrstop_step $[| with_reducible exact $ts]*))

theorem eatWhitespace_perrstop (fuel : Nat) : PErrStop (eatWhitespace fuel) := by
  induction fuel with
  | zero => exact perrstop_fail _
  | succ fuel ih => unfold eatWhitespace; perrstop

theorem readDigits_perrstop (fuel : Nat) (acc : List Byte) : PErrStop (readDigits fuel acc) := by
  induction fuel generalizing acc with
  | zero => exact perrstop_fail _
  | succ fuel ih => unfold readDigits; perrstop [ih _]

theorem readWordTail_perrstop (word : String) (es : List Byte) : PErrStop (readWordTail word es) := by
  induction es with
  | nil => unfold readWordTail; perrstop
  | cons e es ih => unfold readWordTail; perrstop

theorem readHex4_perrstop (k acc : Nat) : PErrStop (readHex4 k acc) := by
  induction k generalizing acc with
  | zero => exact perrstop_pure _
  | succ k ih => unfold readHex4; perrstop [ih _]

theorem readStringLoop_perrstop (fuel : Nat) (acc : List Byte) : PErrStop (readStringLoop fuel acc) := by
  induction fuel generalizing acc with
  | zero => exact perrstop_fail _
  | succ fuel ih => unfold readStringLoop; perrstop [ih _, readHex4_perrstop _ _]

theorem parseToDouble_perrstop (t : List Byte) : PErrStop (parseToDouble t) := by
  unfold parseToDouble; perrstop

theorem readNumber_perrstop (fuel : Nat) : PErrStop (readNumber fuel) := by
  unfold readNumber
  perrstop [readDigits_perrstop _ _, parseToDouble_perrstop _]

structure ValueErrStop (fuel : Nat) : Prop where
  value : PErrStop (nextValue fuel)
  array : PErrStop (readArray fuel)
  arrayLoop : ∀ acc, PErrStop (readArrayLoop fuel acc)
  object : PErrStop (readObject fuel)
  objectLoop : ∀ acc, PErrStop (readObjectLoop fuel acc)

theorem valueErrStop (fuel : Nat) : ValueErrStop fuel := by
  induction fuel with
  | zero =>
    refine ⟨?_, ?_, fun _ => ?_, ?_, fun _ => ?_⟩
    · unfold nextValue; exact perrstop_fail _
    · unfold readArray; exact perrstop_fail _
    · unfold readArrayLoop; exact perrstop_fail _
    · unfold readObject; exact perrstop_fail _
    · unfold readObjectLoop; exact perrstop_fail _
  | succ fuel ih =>
    refine ⟨?_, ?_, fun _ => ?_, ?_, fun _ => ?_⟩
    · unfold nextValue
      perrstop [eatWhitespace_perrstop _, readWordTail_perrstop _ _, readStringLoop_perrstop _ _,
        readNumber_perrstop _, ih.array, ih.object]
    · unfold readArray
      perrstop [eatWhitespace_perrstop _, ih.arrayLoop _]
    · unfold readArrayLoop
      perrstop [eatWhitespace_perrstop _, ih.arrayLoop _, ih.value]
    · unfold readObject
      perrstop [eatWhitespace_perrstop _, ih.objectLoop _]
    · unfold readObjectLoop
      perrstop [eatWhitespace_perrstop _, ih.objectLoop _, ih.value]

/-- a pending read fault: after `nextJson` either it is still pending, or `nextJson` failed with the
unrecoverable I/O error, having pulled the fault and nothing after it -/
theorem nextJson_fault (r : Reader) (post : List RItem) (hs : (RItem.err :: post) <:+ r.rest) :
    (RItem.err :: post) <:+ r.nextJson.2.rest ∨ (r.nextJson.1 = .error .io ∧ r.nextJson.2.rest = post) :=
  (valueErrStop _).value.stop r post hs

/-- the fault is pulled exactly when fewer items are left than `.err :: post` has -/
theorem fault_pulled_iff {r' : Reader} {rest post : List RItem} (hs : (RItem.err :: post) <:+ rest)
    (hm : r'.rest <:+ rest) : ¬ (RItem.err :: post) <:+ r'.rest ↔ r'.rest.length ≤ post.length := by
  constructor
  · intro h
    apply Nat.le_of_not_lt
    intro hlt
    exact h ((List.suffix_of_suffix_length_le hs hm (by simp; omega)))
  · intro h hs'
    have := hs'.length_le
    simp at this
    omega

/-! #### The writers' logs only grow -/

/-- the writer carried by the outcome (the value's writer, or the failure's) extends `w` -/
def ResExt {α} (get : α → Writer) (w : Writer) : Res α → Prop
  | .ok a => w.out <+: (get a).out
  | .error f => w.out <+: f.w.out

theorem resExt_bind {α β} {get : α → Writer} {get' : β → Writer} {w : Writer} {x : Res α} {g : α → Res β}
    (hx : ResExt get w x) (hg : ∀ a, ResExt get' (get a) (g a)) : ResExt get' w (x >>= g) := by
  cases x with
  | error f => exact hx
  | ok a =>
    have h1 : w.out <+: (get a).out := hx
    have h2 := hg a
    show ResExt get' w (g a)
    cases hga : g a with
    | error f => rw [hga] at h2; exact h1.trans h2
    | ok b => rw [hga] at h2; exact h1.trans h2

theorem resExt_ok {α} {get : α → Writer} {w : Writer} (a : α) (h : w.out <+: (get a).out) :
    ResExt get w (.ok a) := h

theorem evalE_ext (orc : Oracles) (w : Writer) (e : Expr) (ctx : Ctx) :
    ResExt (fun _ => w) w (evalE orc w e ctx) := by
  unfold evalE liftR
  split
  · exact List.prefix_refl _
  · exact List.prefix_refl _

abbrev PW : PState × Decision → Writer := fun x => x.1.w

theorem wres_ext (w0 w : Writer) (h : w0.out <+: w.out) : ResExt id w0 (wres w) := by
  unfold wres; split <;> exact h

theorem sinkProcess_ext (s : SinkCfg) (n : Nat) (w : Writer) (ctx : Ctx) :
    ResExt id w (sinkProcess s n w ctx) := by
  unfold sinkProcess
  cases s with
  | json o sep => exact wres_ext _ _ (C16.putAll_prefix _ w)
  | text o sep =>
    dsimp only
    split <;> exact wres_ext _ _ (C16.putAll_prefix _ w)

theorem sinkStart_ext (s : SinkCfg) (titles : List Str) (w : Writer) : ResExt id w (sinkStart s titles w) := by
  unfold sinkStart
  cases s with
  | json o sep => exact List.prefix_refl _
  | text o sep =>
    dsimp only
    split
    · split
      · exact wres_ext _ _ (C16.putAll_prefix _ w)
      · exact List.prefix_refl _
    · exact List.prefix_refl _

macro "rext_step" : tactic => `(tactic| first
  | with_reducible exact evalE_ext _ _ _ _
  | with_reducible exact sinkProcess_ext _ _ _ _
  | (with_reducible refine resExt_ok _ ?_; exact List.prefix_refl _)
  | exact List.prefix_refl _
  | with_reducible assumption
  | with_reducible apply resExt_bind
  | intro _
  | split)

syntax "rext" ("[" term,* "]")? : tactic
macro_rules
  | `(tactic| rext) => `(tactic| repeat' rext_step)
  | `(tactic| rext [$ts,*]) => `(tactic| repeat' (first | rext_step $[| with_reducible exact $ts]*))

theorem feedUntilBreak_ext (next : List StageSt → Writer → Ctx → Res (PState × Decision))
    (hn : ∀ sts w c, ResExt PW w (next sts w c)) (sts : List StageSt) (w : Writer) (l : List Ctx) :
    ResExt PW w (feedUntilBreak next sts w l) := by
  induction l generalizing sts w with
  | nil => unfold feedUntilBreak; rext
  | cons c cs ih => unfold feedUntilBreak; rext [hn _ _ _, ih _ _]

theorem feedAllIgnoring_ext (next : List StageSt → Writer → Ctx → Res (PState × Decision))
    (hn : ∀ sts w c, ResExt PW w (next sts w c)) (sts : List StageSt) (w : Writer) (l : List Ctx) :
    ResExt PState.w w (feedAllIgnoring next sts w l) := by
  induction l generalizing sts w with
  | nil => unfold feedAllIgnoring; rext
  | cons c cs ih => unfold feedAllIgnoring; rext [hn _ _ _, ih _ _]

/-- `process` only appends to the output log — whether it succeeds or fails -/
theorem process_ext (orc : Oracles) (sink : SinkCfg) (sinkLen : Nat) (cfgs : List StageCfg)
    (sts : List StageSt) (w : Writer) (ctx : Ctx) : ResExt PW w (process orc sink sinkLen cfgs sts w ctx) := by
  induction cfgs generalizing sts w ctx with
  | nil => unfold process; rext
  | cons c cs ih =>
    cases sts with
    | nil => unfold process; rext
    | cons st sts =>
      unfold process
      dsimp only
      rext [ih _ _ _, feedUntilBreak_ext _ (fun _ _ _ => ih _ _ _) _ _ _]

theorem process_ext_ok {orc : Oracles} {sink : SinkCfg} {sinkLen : Nat} {cfgs : List StageCfg}
    {sts : List StageSt} {w : Writer} {ctx : Ctx} {ps : PState} {d : Decision}
    (h : process orc sink sinkLen cfgs sts w ctx = .ok (ps, d)) : w.out <+: ps.w.out := by
  have := process_ext orc sink sinkLen cfgs sts w ctx
  rw [h] at this; exact this

theorem process_ext_error {orc : Oracles} {sink : SinkCfg} {sinkLen : Nat} {cfgs : List StageCfg}
    {sts : List StageSt} {w : Writer} {ctx : Ctx} {f : Failure}
    (h : process orc sink sinkLen cfgs sts w ctx = .error f) : w.out <+: f.w.out := by
  have := process_ext orc sink sinkLen cfgs sts w ctx
  rw [h] at this; exact this

/-- `complete` only appends to the output log -/
theorem complete_ext (orc : Oracles) (sink : SinkCfg) (sinkLen : Nat) (cfgs : List StageCfg)
    (sts : List StageSt) (w : Writer) : ResExt id w (complete orc sink sinkLen cfgs sts w) := by
  induction cfgs generalizing sts w with
  | nil => unfold complete; rext
  | cons c cs ih =>
    cases sts with
    | nil => unfold complete; rext
    | cons st sts =>
      unfold complete
      rext [ih _ _, process_ext _ _ _ _ _ _ _, feedAllIgnoring_ext _ (fun _ _ _ => process_ext _ _ _ _ _ _ _) _ _ _]

/-! #### The read loop as a transition system -/

/-- a configuration of the read loop: the reader, the ordinal in the file, the run state -/
structure Conf where
  r : Reader
  inFile : Nat
  s : RunState

section Trace
variable (orc : Oracles) (c : Cfg) (p : Pipeline)

/-- the context `readLoop` hands to the pipeline for the value `v` read from `r`, leaving `r'` -/
def rowCtx (r r' : Reader) (v : JV) (inFile : Nat) (s : RunState) : Ctx :=
  { input := v, ictx := some { startLoc := r.loc, endLoc := r'.loc, fileIndex := inFile, index := s.index } }

/-- one iteration of `readLoop` that is followed by another one -/
inductive Iter : Conf → Conf → Prop
  | skip {k : Conf} {v : JV} {r' : Reader} : k.r.nextJson = (.ok (some v), r') →
      (c.onlyObjectsAndArrays && !v.isObjOrArr) = true → Iter k ⟨r', k.inFile, k.s⟩
  | row {k : Conf} {v : JV} {r' : Reader} {ps : PState} : k.r.nextJson = (.ok (some v), r') →
      (c.onlyObjectsAndArrays && !v.isObjOrArr) = false →
      process orc p.sink p.sinkLen p.cfgs k.s.sts k.s.out (rowCtx k.r r' v k.inFile k.s) = .ok (ps, .cont) →
      Iter k ⟨r', k.inFile + 1, { k.s with sts := ps.sts, out := ps.w, index := k.s.index + 1 }⟩
  | ignore {k : Conf} {e : PErr} {r' : Reader} : k.r.nextJson = (.error e, r') → e.canRecover = true →
      c.onError = .ignore → Iter k ⟨r', k.inFile, k.s⟩
  | stdout {k : Conf} {e : PErr} {r' : Reader} : k.r.nextJson = (.error e, r') → e.canRecover = true →
      c.onError = .stdout → (k.s.out.put (reportBytes e)).failed = false →
      Iter k ⟨r', k.inFile, { k.s with out := k.s.out.put (reportBytes e) }⟩
  | stderr {k : Conf} {e : PErr} {r' : Reader} : k.r.nextJson = (.error e, r') → e.canRecover = true →
      c.onError = .stderr → (k.s.err.put (reportBytes e)).failed = false →
      Iter k ⟨r', k.inFile, { k.s with err := k.s.err.put (reportBytes e) }⟩

/-- the last iteration of `readLoop`, and what the loop returns -/
inductive Final : Conf → Except RunEnd (RunState × Reader × Decision) → Prop
  | eof {k : Conf} {r' : Reader} : k.r.nextJson = (.ok none, r') → Final k (.ok (k.s, r', .cont))
  | brk {k : Conf} {v : JV} {r' : Reader} {ps : PState} : k.r.nextJson = (.ok (some v), r') →
      (c.onlyObjectsAndArrays && !v.isObjOrArr) = false →
      process orc p.sink p.sinkLen p.cfgs k.s.sts k.s.out (rowCtx k.r r' v k.inFile k.s) = .ok (ps, .brk) →
      Final k (.ok ({ k.s with sts := ps.sts, out := ps.w }, r', .brk))
  | stage {k : Conf} {v : JV} {r' : Reader} {f : Failure} : k.r.nextJson = (.ok (some v), r') →
      (c.onlyObjectsAndArrays && !v.isObjOrArr) = false →
      process orc p.sink p.sinkLen p.cfgs k.s.sts k.s.out (rowCtx k.r r' v k.inFile k.s) = .error f →
      Final k (.error ⟨.error f.kind, { k.s with out := f.w, pulled := k.s.pulled ++ [r'.pulled] }⟩)
  | fault {k : Conf} {e : PErr} {r' : Reader} : k.r.nextJson = (.error e, r') → e.canRecover = false →
      Final k (.error ⟨.error .io, { k.s with pulled := k.s.pulled ++ [r'.pulled] }⟩)
  | panic {k : Conf} {e : PErr} {r' : Reader} : k.r.nextJson = (.error e, r') → e.canRecover = true →
      c.onError = .panic →
      Final k (.error ⟨.error (.json e), { k.s with pulled := k.s.pulled ++ [r'.pulled] }⟩)
  | stdoutFail {k : Conf} {e : PErr} {r' : Reader} : k.r.nextJson = (.error e, r') → e.canRecover = true →
      c.onError = .stdout → (k.s.out.put (reportBytes e)).failed = true →
      Final k (.error ⟨.error .io, { k.s with out := k.s.out.put (reportBytes e),
                                               pulled := k.s.pulled ++ [r'.pulled] }⟩)
  | stderrFail {k : Conf} {e : PErr} {r' : Reader} : k.r.nextJson = (.error e, r') → e.canRecover = true →
      c.onError = .stderr → (k.s.err.put (reportBytes e)).failed = true →
      Final k (.error ⟨.error .io, { k.s with err := k.s.err.put (reportBytes e),
                                               pulled := k.s.pulled ++ [r'.pulled] }⟩)

/-- `n` iterations lead from the first configuration to the second -/
inductive ReachN : Nat → Conf → Conf → Prop
  | refl (k : Conf) : ReachN 0 k k
  | step {n : Nat} {a b d : Conf} : Iter orc c p a b → ReachN n b d → ReachN (n + 1) a d

/-- the second configuration is reachable from the first -/
def Reach (a b : Conf) : Prop := ∃ n, ReachN orc c p n a b

theorem iter_readLoop {a b : Conf} (h : Iter orc c p a b) (fuel : Nat) :
    readLoop orc c p (fuel + 1) a.r a.inFile a.s = readLoop orc c p fuel b.r b.inFile b.s := by
  rw [readLoop]
  cases h with
  | skip hn hk => simp only [hn, hk, if_true]
  | row hn hk hp =>
    simp only [rowCtx] at hp
    simp only [hn, hk, hp, Bool.false_eq_true, if_false]
  | ignore hn hr hpol => simp only [hn, hr, hpol, Bool.not_true, Bool.false_eq_true, if_false]
  | stdout hn hr hpol hf => simp only [hn, hr, hpol, hf, Bool.not_true, Bool.false_eq_true, if_false]
  | stderr hn hr hpol hf => simp only [hn, hr, hpol, hf, Bool.not_true, Bool.false_eq_true, if_false]

theorem final_readLoop {k : Conf} {res : Except RunEnd (RunState × Reader × Decision)}
    (h : Final orc c p k res) (fuel : Nat) : readLoop orc c p (fuel + 1) k.r k.inFile k.s = res := by
  rw [readLoop]
  cases h with
  | eof hn => simp only [hn]
  | brk hn hk hp =>
    simp only [rowCtx] at hp
    simp only [hn, hk, hp, Bool.false_eq_true, if_false]
  | stage hn hk hp =>
    simp only [rowCtx] at hp
    simp only [hn, hk, hp, Bool.false_eq_true, if_false]
  | fault hn hr => simp only [hn, hr, Bool.not_false, if_true]
  | panic hn hr hpol => simp only [hn, hr, hpol, Bool.not_true, Bool.false_eq_true, if_false]
  | stdoutFail hn hr hpol hf => simp only [hn, hr, hpol, hf, Bool.not_true, Bool.false_eq_true, if_false, if_true]
  | stderrFail hn hr hpol hf => simp only [hn, hr, hpol, hf, Bool.not_true, Bool.false_eq_true, if_false, if_true]

/-- every configuration either steps or is final -/
theorem iter_or_final (k : Conf) : (∃ b, Iter orc c p k b) ∨ (∃ res, Final orc c p k res) := by
  rcases hn : k.r.nextJson with ⟨res, r'⟩
  cases res with
  | error e =>
    cases hr : e.canRecover with
    | false => exact .inr ⟨_, .fault hn hr⟩
    | true =>
      cases hpol : c.onError with
      | ignore => exact .inl ⟨_, .ignore hn hr hpol⟩
      | panic => exact .inr ⟨_, .panic hn hr hpol⟩
      | stdout =>
        cases hf : (k.s.out.put (reportBytes e)).failed with
        | false => exact .inl ⟨_, .stdout hn hr hpol hf⟩
        | true => exact .inr ⟨_, .stdoutFail hn hr hpol hf⟩
      | stderr =>
        cases hf : (k.s.err.put (reportBytes e)).failed with
        | false => exact .inl ⟨_, .stderr hn hr hpol hf⟩
        | true => exact .inr ⟨_, .stderrFail hn hr hpol hf⟩
  | ok o =>
    cases o with
    | none => exact .inr ⟨_, .eof hn⟩
    | some v =>
      cases hk : (c.onlyObjectsAndArrays && !v.isObjOrArr) with
      | true => exact .inl ⟨_, .skip hn hk⟩
      | false =>
        cases hp : process orc p.sink p.sinkLen p.cfgs k.s.sts k.s.out (rowCtx k.r r' v k.inFile k.s) with
        | error f => exact .inr ⟨_, .stage hn hk hp⟩
        | ok x =>
          obtain ⟨ps, d⟩ := x
          cases d with
          | cont => exact .inl ⟨_, .row hn hk hp⟩
          | brk => exact .inr ⟨_, .brk hn hk hp⟩

theorem reachN_readLoop {n : Nat} {a b : Conf} (h : ReachN orc c p n a b) (fuel : Nat) :
    readLoop orc c p (fuel + n) a.r a.inFile a.s = readLoop orc c p fuel b.r b.inFile b.s := by
  induction h with
  | refl k => rfl
  | step hi _ ih => rw [← Nat.add_assoc, iter_readLoop orc c p hi, ih]

theorem ReachN.snoc {n : Nat} {a b d : Conf} (h : ReachN orc c p n a b) (hi : Iter orc c p b d) :
    ReachN orc c p (n + 1) a d := by
  induction h with
  | refl k => exact .step hi (.refl _)
  | step hi' _ ih => exact .step hi' (ih hi)

theorem Reach.refl (k : Conf) : Reach orc c p k k := ⟨0, .refl k⟩

theorem Reach.trans {a b d : Conf} (h1 : Reach orc c p a b) (h2 : Reach orc c p b d) : Reach orc c p a d := by
  obtain ⟨n, h1⟩ := h1
  obtain ⟨m, h2⟩ := h2
  induction h1 with
  | refl k => exact ⟨m, h2⟩
  | step hi _ ih =>
    obtain ⟨l, hl⟩ := ih h2
    exact ⟨l + 1, .step hi hl⟩

/-- THE TRACE OF A LOOP: `readLoop` runs `n` iterations to a reachable configuration `k'` and ends there — with
the final iteration described by `Final`, or (model only) because the fuel is used up -/
theorem readLoop_trace (fuel : Nat) (k : Conf) :
    ∃ n k', ReachN orc c p n k k' ∧
      ((n < fuel ∧ Final orc c p k' (readLoop orc c p fuel k.r k.inFile k.s)) ∨
       (n = fuel ∧ readLoop orc c p fuel k.r k.inFile k.s = .error ⟨.error (.json .outOfFuel), k'.s⟩)) := by
  induction fuel generalizing k with
  | zero => exact ⟨0, k, .refl k, .inr ⟨rfl, rfl⟩⟩
  | succ fuel ih =>
    rcases iter_or_final orc c p k with ⟨b, hb⟩ | ⟨res, hres⟩
    · obtain ⟨n, k', hr, h⟩ := ih b
      rw [iter_readLoop orc c p hb]
      refine ⟨n + 1, k', .step hb hr, ?_⟩
      rcases h with ⟨h1, h2⟩ | ⟨h1, h2⟩
      · exact .inl ⟨by omega, h2⟩
      · exact .inr ⟨by omega, h2⟩
    · rw [final_readLoop orc c p hres]
      exact ⟨0, k, .refl k, .inl ⟨by omega, hres⟩⟩

end Trace

section Fatal
variable (orc : Oracles) (c : Cfg) (p : Pipeline)

/-- what an iteration that is not the last one does: it is one `nextJson` call that did not fail with the I/O
error; the `pulled` record is untouched and both logs only grow -/
theorem Iter.props {a b : Conf} (h : Iter orc c p a b) :
    b.r = a.r.nextJson.2 ∧ a.r.nextJson.1 ≠ .error .io ∧ b.s.pulled = a.s.pulled ∧
      a.s.out.out <+: b.s.out.out ∧ a.s.err.out <+: b.s.err.out := by
  cases h with
  | skip hn hk =>
    rw [hn]; exact ⟨rfl, (by intro h; cases h), rfl, List.prefix_refl _, List.prefix_refl _⟩
  | row hn hk hp =>
    rw [hn]
    exact ⟨rfl, (by intro h; cases h), rfl, process_ext_ok hp, List.prefix_refl _⟩
  | ignore hn hr hpol =>
    rw [hn]; exact ⟨rfl, (by intro h; cases h; cases hr), rfl, List.prefix_refl _, List.prefix_refl _⟩
  | stdout hn hr hpol hf =>
    rw [hn]; exact ⟨rfl, (by intro h; cases h; cases hr), rfl, C16.put_prefix _ _, List.prefix_refl _⟩
  | stderr hn hr hpol hf =>
    rw [hn]; exact ⟨rfl, (by intro h; cases h; cases hr), rfl, List.prefix_refl _, C16.put_prefix _ _⟩

/-- (C16) `out_monotone`, between reachable configurations: what was written stays written, on both logs -/
theorem reachN_props {n : Nat} {a b : Conf} (h : ReachN orc c p n a b) :
    Mono a.r b.r ∧ b.r.pulled + b.r.rest.length = a.r.pulled + a.r.rest.length ∧ b.s.pulled = a.s.pulled ∧
      a.s.out.out <+: b.s.out.out ∧ a.s.err.out <+: b.s.err.out := by
  induction h with
  | refl k => exact ⟨Mono.refl _, rfl, rfl, List.prefix_refl _, List.prefix_refl _⟩
  | step hi _ ih =>
    obtain ⟨e, _, h1, h2, h3⟩ := Iter.props orc c p hi
    obtain ⟨m, cnt, i1, i2, i3⟩ := ih
    rw [e] at m cnt
    exact ⟨(nextJson_mono _).trans m, cnt.trans ((nextValue_pcount _).count _), i1.trans h1, h2.trans i2,
      h3.trans i3⟩

theorem reach_out_monotone {a b : Conf} (h : Reach orc c p a b) :
    a.s.out.out <+: b.s.out.out ∧ a.s.err.out <+: b.s.err.out := by
  obtain ⟨n, h⟩ := h
  exact (reachN_props orc c p h).2.2.2

/-- a pending read fault stays pending along iterations that are not the last one -/
theorem reachN_fault {n : Nat} {a b : Conf} (h : ReachN orc c p n a b) (post : List RItem)
    (hs : (RItem.err :: post) <:+ a.r.rest) : (RItem.err :: post) <:+ b.r.rest := by
  induction h with
  | refl k => exact hs
  | step hi _ ih =>
    obtain ⟨e, hne, _⟩ := Iter.props orc c p hi
    rcases nextJson_fault _ post hs with h | ⟨h, _⟩
    · exact ih (by rw [e]; exact h)
    · exact absurd h hne

/-- the state in which a loop ends -/
def endSt : Except RunEnd (RunState × Reader × Decision) → RunState
  | .ok (s', _, _) => s'
  | .error e => e.st

theorem final_out_monotone {k : Conf} {res : Except RunEnd (RunState × Reader × Decision)}
    (h : Final orc c p k res) : k.s.out.out <+: (endSt res).out.out ∧ k.s.err.out <+: (endSt res).err.out := by
  cases h with
  | eof hn => exact ⟨List.prefix_refl _, List.prefix_refl _⟩
  | brk hn hk hp => exact ⟨process_ext_ok hp, List.prefix_refl _⟩
  | stage hn hk hp => exact ⟨process_ext_error hp, List.prefix_refl _⟩
  | fault hn hr => exact ⟨List.prefix_refl _, List.prefix_refl _⟩
  | panic hn hr hpol => exact ⟨List.prefix_refl _, List.prefix_refl _⟩
  | stdoutFail hn hr hpol hf => exact ⟨C16.put_prefix _ _, List.prefix_refl _⟩
  | stderrFail hn hr hpol hf => exact ⟨List.prefix_refl _, C16.put_prefix _ _⟩

/-- (C16) `out_monotone`: however the loop ends — normally, with an error return, with an abort — stdout and stderr
at the end extend stdout and stderr at the start (bounded or unbounded writers alike) -/
theorem out_monotone (fuel : Nat) (r : Reader) (inFile : Nat) (s : RunState) :
    s.out.out <+: (endSt (readLoop orc c p fuel r inFile s)).out.out ∧
    s.err.out <+: (endSt (readLoop orc c p fuel r inFile s)).err.out := by
  obtain ⟨n, k', hr, h⟩ := readLoop_trace orc c p fuel ⟨r, inFile, s⟩
  obtain ⟨_, _, _, h1, h2⟩ := reachN_props orc c p hr
  rcases h with ⟨_, h⟩ | ⟨_, h⟩
  · obtain ⟨f1, f2⟩ := final_out_monotone orc c p h
    exact ⟨h1.trans f1, h2.trans f2⟩
  · dsimp only at h
    rw [h]
    exact ⟨h1, h2⟩

/-- the trace of a loop over a source with a pending read fault (`read_error_is_fatal_run` below, with the
number of iterations exposed) -/
theorem fault_trace (fuel : Nat) (k : Conf) (post : List RItem)
    (hs : (RItem.err :: post) <:+ k.r.rest) :
    ∃ n k', ReachN orc c p n k k' ∧ (RItem.err :: post) <:+ k'.r.rest ∧
      k.s.out.out <+: k'.s.out.out ∧ k.s.err.out <+: k'.s.err.out ∧
      ((n < fuel ∧ k'.r.nextJson.1 = .error .io ∧ k'.r.nextJson.2.rest = post ∧
          readLoop orc c p fuel k.r k.inFile k.s = .error ⟨.error .io,
            { k'.s with pulled := k.s.pulled ++ [k.r.pulled + (k.r.rest.length - post.length)] }⟩) ∨
       (∃ s' r' d, readLoop orc c p fuel k.r k.inFile k.s = .ok (s', r', d) ∧ (RItem.err :: post) <:+ r'.rest) ∨
       (∃ e, readLoop orc c p fuel k.r k.inFile k.s = .error e ∧
          (e.st.pulled = k.s.pulled ∨
           ∃ n, e.st.pulled = k.s.pulled ++ [n] ∧ n < k.r.pulled + (k.r.rest.length - post.length)))) := by
  obtain ⟨n, k', hr, h⟩ := readLoop_trace orc c p fuel k
  obtain ⟨hm, hcnt, hpl, h1, h2⟩ := reachN_props orc c p hr
  have hs' := reachN_fault orc c p hr post hs
  refine ⟨n, k', hr, hs', h1, h2, ?_⟩
  have hlen := hs.length_le
  simp only [List.length_cons] at hlen
  -- the `pulled` count of a reader `r'` reached from `k'.r` in which the fault is still pending
  have hpend : ∀ r' : Reader, r'.pulled + r'.rest.length = k'.r.pulled + k'.r.rest.length →
      (RItem.err :: post) <:+ r'.rest → r'.pulled < k.r.pulled + (k.r.rest.length - post.length) := by
    intro r' hc hsuf
    have := hsuf.length_le
    simp only [List.length_cons] at this
    omega
  have hcj : k'.r.nextJson.2.pulled + k'.r.nextJson.2.rest.length = k'.r.pulled + k'.r.rest.length :=
    (nextValue_pcount (4 * k'.r.rest.length + 10)).count k'.r
  rcases h with ⟨hnf, h⟩ | ⟨_, h⟩
  · rcases nextJson_fault k'.r post hs' with hf | ⟨hf1, hf2⟩
    · -- the fault is still pending after the last `nextJson`
      right
      generalize readLoop orc c p fuel k.r k.inFile k.s = res at h
      cases h with
      | eof hn => rw [hn] at hf; exact .inl ⟨_, _, _, rfl, hf⟩
      | brk hn hk hp => rw [hn] at hf; exact .inl ⟨_, _, _, rfl, hf⟩
      | stage hn hk hp =>
        rw [hn] at hf hcj
        exact .inr ⟨_, rfl, .inr ⟨_, by rw [hpl], hpend _ hcj hf⟩⟩
      | fault hn hr =>
        rw [hn] at hf hcj
        exact .inr ⟨_, rfl, .inr ⟨_, by rw [hpl], hpend _ hcj hf⟩⟩
      | panic hn hr hpol =>
        rw [hn] at hf hcj
        exact .inr ⟨_, rfl, .inr ⟨_, by rw [hpl], hpend _ hcj hf⟩⟩
      | stdoutFail hn hr hpol hfl =>
        rw [hn] at hf hcj
        exact .inr ⟨_, rfl, .inr ⟨_, by rw [hpl], hpend _ hcj hf⟩⟩
      | stderrFail hn hr hpol hfl =>
        rw [hn] at hf hcj
        exact .inr ⟨_, rfl, .inr ⟨_, by rw [hpl], hpend _ hcj hf⟩⟩
    · -- the last `nextJson` pulled the fault
      left
      refine ⟨hnf, hf1, hf2, ?_⟩
      rcases hn : k'.r.nextJson with ⟨res, r'⟩
      rw [hn] at hf1 hf2
      dsimp only at hf1 hf2
      subst hf1
      have hfin : Final orc c p k' _ := Final.fault hn rfl
      have e1 := final_readLoop orc c p hfin 0
      have e2 := final_readLoop orc c p h 0
      rw [e1] at e2
      rw [← e2]
      rw [hn] at hcj
      dsimp only at hcj
      rw [hf2] at hcj
      have : r'.pulled = k.r.pulled + (k.r.rest.length - post.length) := by omega
      rw [this, hpl]
  · right; right
    exact ⟨_, h, .inl (by rw [hpl])⟩

/-- (C16) `read_error_is_fatal_run`.  A read fault (`RItem.err`) is pending in the source, `post` being what follows
it.  The loop runs through reachable configurations to some `k'` — the fault still pending there, the logs only
grown — and then exactly one of three things happens:

* (fatal) the `nextJson` call at `k'` pulls the fault: the loop returns the I/O error UNDER EVERY `--on-error`
  POLICY (nothing here mentions the policy), the state returned is `k'.s` itself — no report line is written for
  the fault, rows already written stay written — and the `pulled` record says the fault was the last item pulled;
* the loop ended normally before pulling the fault (it is still pending in the final reader);
* the loop ended with an error before pulling the fault (its `pulled` record, if any, is smaller). -/
theorem read_error_is_fatal_run (fuel : Nat) (k : Conf) (post : List RItem)
    (hs : (RItem.err :: post) <:+ k.r.rest) :
    ∃ k', Reach orc c p k k' ∧ (RItem.err :: post) <:+ k'.r.rest ∧
      k.s.out.out <+: k'.s.out.out ∧ k.s.err.out <+: k'.s.err.out ∧
      ((k'.r.nextJson.1 = .error .io ∧ k'.r.nextJson.2.rest = post ∧
          readLoop orc c p fuel k.r k.inFile k.s = .error ⟨.error .io,
            { k'.s with pulled := k.s.pulled ++ [k.r.pulled + (k.r.rest.length - post.length)] }⟩) ∨
       (∃ s' r' d, readLoop orc c p fuel k.r k.inFile k.s = .ok (s', r', d) ∧ (RItem.err :: post) <:+ r'.rest) ∨
       (∃ e, readLoop orc c p fuel k.r k.inFile k.s = .error e ∧
          (e.st.pulled = k.s.pulled ∨
           ∃ n, e.st.pulled = k.s.pulled ++ [n] ∧ n < k.r.pulled + (k.r.rest.length - post.length)))) := by
  obtain ⟨n, k', hr, h1, h2, h3, h4⟩ := fault_trace orc c p fuel k post hs
  refine ⟨k', ⟨n, hr⟩, h1, h2, h3, ?_⟩
  rcases h4 with ⟨_, h4⟩ | h4 | h4
  · exact .inl h4
  · exact .inr (.inl h4)
  · exact .inr (.inr h4)

/-- "if the loop reaches it": when the `pulled` record of the run's end shows that the fault was pulled, the end is
the I/O error and the state is a reachable state of the loop (so its logs extend the initial ones and contain no
report for the fault) -/
theorem read_error_reached_is_fatal (fuel : Nat) (k : Conf) (post : List RItem)
    (hs : (RItem.err :: post) <:+ k.r.rest) (e : RunEnd)
    (h : readLoop orc c p fuel k.r k.inFile k.s = .error e)
    (hp : e.st.pulled = k.s.pulled ++ [k.r.pulled + (k.r.rest.length - post.length)]) :
    e.result = .error .io ∧ ∃ k', Reach orc c p k k' ∧ e.st.out = k'.s.out ∧ e.st.err = k'.s.err ∧
      e.st.sts = k'.s.sts ∧ k.s.out.out <+: e.st.out.out ∧ k.s.err.out <+: e.st.err.out := by
  obtain ⟨k', hr, _, h1, h2, h3 | ⟨_, _, _, h3, _⟩ | ⟨e', h3, h4⟩⟩ := read_error_is_fatal_run orc c p fuel k post hs
  · rw [h3.2.2] at h
    cases h
    exact ⟨rfl, k', hr, rfl, rfl, rfl, h1, h2⟩
  · rw [h3] at h; cases h
  · rw [h3] at h
    cases h
    rcases h4 with h4 | ⟨n, h4, hn⟩
    · rw [h4] at hp
      have := congrArg List.length hp
      simp at this
    · rw [h4] at hp
      have := List.append_cancel_left hp
      simp only [List.cons.injEq, and_true] at this
      omega

end Fatal

/-! #### Run level: the logs of a whole run extend the writers it was given -/

section RunLevel
variable (orc : Oracles) (c : Cfg) (p : Pipeline)

def endStS : Except RunEnd RunState → RunState
  | .ok s' => s'
  | .error e => e.st

theorem readSources_out_monotone (srcs : List Source) (s : RunState) :
    s.out.out <+: (endStS (readSources orc c p srcs s)).out.out ∧
    s.err.out <+: (endStS (readSources orc c p srcs s)).err.out := by
  induction srcs generalizing s with
  | nil => exact ⟨List.prefix_refl _, List.prefix_refl _⟩
  | cons src rest ih =>
    have hm := out_monotone orc c p (src.items.length + 2) (Reader.ofItems src.items src.name) 0 s
    unfold readSources
    dsimp only
    split
    · rename_i e heq
      rw [heq] at hm; exact hm
    · rename_i s' r' d heq
      rw [heq] at hm
      split
      · exact hm
      · have := ih { s' with pulled := s'.pulled ++ [r'.pulled] }
        exact ⟨hm.1.trans this.1, hm.2.trans this.2⟩

/-- (C16) whatever happens, what a run leaves on stdout / stderr extends what was there: nothing written is ever
lost or rewritten -/
theorem run_out_monotone (sources : List Source) (wOut wErr : Writer) :
    wOut.out <+: (run orc c sources wOut wErr).stdout ∧ wErr.out <+: (run orc c sources wOut wErr).stderr := by
  unfold run
  split
  · exact ⟨List.prefix_refl _, List.prefix_refl _⟩
  · rename_i p hb
    have h0 := sinkStart_ext p.sink p.titles wOut
    split
    · rename_i f hf
      rw [hf] at h0
      exact ⟨h0, List.prefix_refl _⟩
    · rename_i w0 hw0
      rw [hw0] at h0
      have h1 := readSources_out_monotone orc c p sources { sts := p.sts, out := w0, err := wErr }
      dsimp only
      split
      · rename_i e he
        rw [he] at h1
        exact ⟨h0.trans h1.1, h1.2⟩
      · rename_i s hs
        rw [hs] at h1
        have h2 := complete_ext orc p.sink p.sinkLen p.cfgs s.sts s.out
        split
        · rename_i f hf
          rw [hf] at h2
          exact ⟨(h0.trans h1.1).trans h2, h1.2⟩
        · rename_i w hw
          rw [hw] at h2
          exact ⟨(h0.trans h1.1).trans h2, h1.2⟩

end RunLevel

/-! Non-vacuity: `[1] [2` then a read fault, under every policy -/

def plain : Pipeline := { cfgs := [], sts := [], sink := .json {} ['\n'], sinkLen := 0, titles := [] }

theorem build_plain (orc : Oracles) (pol : OnError) : build orc { onError := pol } = .ok plain := rfl

def faulty : List RItem := cleanInput [91, 49, 93, 32, 91, 50] ++ [RItem.err, RItem.byte 93]

example : (RItem.err :: [RItem.byte 93]) <:+ (Reader.ofItems faulty none).rest := ⟨cleanInput [91, 49, 93, 32, 91, 50], rfl⟩

/-- the row `[1]` is written, then the fault ends the run with the I/O error — no report, whatever the policy; the
fault (item 7) is the last item pulled, the byte after it is never requested -/
example (orc : Oracles) (pol : OnError) :
    ∃ st, readLoop orc { onError := pol } plain 10 (Reader.ofItems faulty none) 0 { sts := [], out := {}, err := {} }
        = .error ⟨.error .io, st⟩ ∧ st.out.out = [91, 49, 93, 10] ∧ st.err.out = [] ∧ st.pulled = [7] := by
  cases pol <;> exact ⟨_, rfl, rfl, rfl, rfl⟩

/-! ### `streaming_prefix`: up to a read fault the run is the fault-free run -/

/-- the end of input is only ever seen on an empty stream (true of every reader made by `ofItems`) -/
def EofEmpty (r : Reader) : Prop := r.eof = true → r.rest = []

theorem eofEmpty_ofItems (items : List RItem) (name : Option Str) : EofEmpty (Reader.ofItems items name) := by
  intro h; cases h

structure PEofE {α} (m : PM α) : Prop where
  inv : ∀ r, EofEmpty r → EofEmpty (m r).2

theorem peofe_pure {α} (a : α) : PEofE (pure a : PM α) := ⟨fun _ h => h⟩
theorem peofe_fail {α} (e : PErr) : PEofE (PM.fail e : PM α) := ⟨fun _ h => h⟩
theorem peofe_locErr {α} (mk : Loc → PErr) : PEofE (locErr mk : PM α) := ⟨fun _ h => h⟩

theorem peofe_bind {α β} {m : PM α} {f : α → PM β} (hm : PEofE m) (hf : ∀ a, PEofE (f a)) :
    PEofE (m >>= f) := by
  constructor
  intro r h
  have h1 := hm.inv r h
  simp only [PM.bind_apply]
  cases hr : m r with
  | mk res r1 =>
    rw [hr] at h1
    cases res with
    | error e => exact h1
    | ok a => exact (hf a).inv r1 h1

theorem next_peofe : PEofE Reader.next := by
  constructor
  intro r h
  cases r with
  | mk rest cur eof loc pulled =>
    cases eof with
    | true => exact h
    | false =>
      cases rest with
      | nil => intro _; rfl
      | cons it rest => cases it <;> (intro h'; cases h')

theorem peek_peofe : PEofE Reader.peek := by
  constructor
  intro r h
  unfold Reader.peek
  split
  · exact h
  · exact next_peofe.inv r h

macro "peofe_step" : tactic => `(tactic| first
  | with_reducible exact peofe_pure _
  | with_reducible exact peofe_fail _
  | with_reducible exact peofe_locErr _
  | with_reducible exact next_peofe
  | with_reducible exact peek_peofe
  | with_reducible assumption
  | with_reducible apply peofe_bind
  | intro _
  | split)

syntax "peofe" ("[" term,* "]")? : tactic
macro_rules
  | `(tactic| peofe) => `(tactic| repeat' peofe_step)
  | `(tactic| peofe [$ts,*]) =>
    `(tactic| repeat' (first | peofe_step $[| with_reducible exact $ts]*))

theorem eatWhitespace_peofe (fuel : Nat) : PEofE (eatWhitespace fuel) := by
  induction fuel with
  | zero => exact peofe_fail _
  | succ fuel ih => unfold eatWhitespace; peofe

theorem readDigits_peofe (fuel : Nat) (acc : List Byte) : PEofE (readDigits fuel acc) := by
  induction fuel generalizing acc with
  | zero => exact peofe_fail _
  | succ fuel ih => unfold readDigits; peofe [ih _]

theorem readWordTail_peofe (word : String) (es : List Byte) : PEofE (readWordTail word es) := by
  induction es with
  | nil => unfold readWordTail; peofe
  | cons e es ih => unfold readWordTail; peofe

theorem readHex4_peofe (k acc : Nat) : PEofE (readHex4 k acc) := by
  induction k generalizing acc with
  | zero => exact peofe_pure _
  | succ k ih => unfold readHex4; peofe [ih _]

theorem readStringLoop_peofe (fuel : Nat) (acc : List Byte) : PEofE (readStringLoop fuel acc) := by
  induction fuel generalizing acc with
  | zero => exact peofe_fail _
  | succ fuel ih => unfold readStringLoop; peofe [ih _, readHex4_peofe _ _]

theorem parseToDouble_peofe (t : List Byte) : PEofE (parseToDouble t) := by
  unfold parseToDouble; peofe

theorem readNumber_peofe (fuel : Nat) : PEofE (readNumber fuel) := by
  unfold readNumber
  peofe [readDigits_peofe _ _, parseToDouble_peofe _]

structure ValueEofE (fuel : Nat) : Prop where
  value : PEofE (nextValue fuel)
  array : PEofE (readArray fuel)
  arrayLoop : ∀ acc, PEofE (readArrayLoop fuel acc)
  object : PEofE (readObject fuel)
  objectLoop : ∀ acc, PEofE (readObjectLoop fuel acc)

theorem valueEofE (fuel : Nat) : ValueEofE fuel := by
  induction fuel with
  | zero =>
    refine ⟨?_, ?_, fun _ => ?_, ?_, fun _ => ?_⟩
    · unfold nextValue; exact peofe_fail _
    · unfold readArray; exact peofe_fail _
    · unfold readArrayLoop; exact peofe_fail _
    · unfold readObject; exact peofe_fail _
    · unfold readObjectLoop; exact peofe_fail _
  | succ fuel ih =>
    refine ⟨?_, ?_, fun _ => ?_, ?_, fun _ => ?_⟩
    · unfold nextValue
      peofe [eatWhitespace_peofe _, readWordTail_peofe _ _, readStringLoop_peofe _ _,
        readNumber_peofe _, ih.array, ih.object]
    · unfold readArray
      peofe [eatWhitespace_peofe _, ih.arrayLoop _]
    · unfold readArrayLoop
      peofe [eatWhitespace_peofe _, ih.arrayLoop _, ih.value]
    · unfold readObject
      peofe [eatWhitespace_peofe _, ih.objectLoop _]
    · unfold readObjectLoop
      peofe [eatWhitespace_peofe _, ih.objectLoop _, ih.value]

theorem nextJson_eofEmpty {r : Reader} (h : EofEmpty r) : EofEmpty r.nextJson.2 := (valueEofE _).value.inv r h

section Streaming
variable (orc : Oracles) (c : Cfg) (p : Pipeline)

/-- an iteration over `a.r` is the same iteration over any reader that agrees with it on the positions examined -/
theorem iter_sim {N : Nat} {a b : Conf} (h : Iter orc c p a b) (r₂ : Reader) (hag : AgreeTo N a.r r₂)
    (hw : WF a.r) (hpos : pos b.r ≤ N) :
    Iter orc c p ⟨r₂, a.inFile, a.s⟩ ⟨r₂.nextJson.2, b.inFile, b.s⟩ ∧ AgreeTo N b.r r₂.nextJson.2 := by
  have hb := (Iter.props orc c p h).1
  rw [hb] at hpos
  obtain ⟨e1, a1⟩ := nextJson_local hag hw hpos
  rw [hb]
  refine ⟨?_, a1⟩
  rcases hn₂ : r₂.nextJson with ⟨res₂, r₂'⟩
  rw [hn₂] at e1 a1
  dsimp only at e1 a1
  cases h with
  | skip hn hk =>
    rw [hn] at e1 a1; dsimp only at e1; subst e1
    exact Iter.skip (k := ⟨r₂, a.inFile, a.s⟩) hn₂ hk
  | row hn hk hp =>
    rw [hn] at e1 a1; dsimp only at e1 a1; subst e1
    refine Iter.row (k := ⟨r₂, a.inFile, a.s⟩) hn₂ hk ?_
    simp only [rowCtx] at hp ⊢
    rw [← hag.loc, ← a1.loc]
    exact hp
  | ignore hn hr hpol =>
    rw [hn] at e1; dsimp only at e1; subst e1
    exact Iter.ignore (k := ⟨r₂, a.inFile, a.s⟩) hn₂ hr hpol
  | stdout hn hr hpol hf =>
    rw [hn] at e1; dsimp only at e1; subst e1
    exact Iter.stdout (k := ⟨r₂, a.inFile, a.s⟩) hn₂ hr hpol hf
  | stderr hn hr hpol hf =>
    rw [hn] at e1; dsimp only at e1; subst e1
    exact Iter.stderr (k := ⟨r₂, a.inFile, a.s⟩) hn₂ hr hpol hf

/-- along iterations: positions only grow, well-formedness and `EofEmpty` are kept, and every iteration consumes -/
theorem reachN_reader {n : Nat} {a b : Conf} (h : ReachN orc c p n a b) (hw : WF a.r) :
    pos a.r ≤ pos b.r ∧ WF b.r ∧ (EofEmpty a.r → EofEmpty b.r) ∧ μ b.r + n ≤ μ a.r := by
  induction h with
  | refl k => exact ⟨Nat.le_refl _, hw, id, Nat.le_refl _⟩
  | @step n a b d hi _ ih =>
    obtain ⟨e, hne, _⟩ := Iter.props orc c p hi
    have hw' : WF b.r := by rw [e]; exact nextJson_wf _ hw
    obtain ⟨i1, i2, i3, i4⟩ := ih hw'
    have hprog : μ b.r < μ a.r := by
      rw [e]
      refine (nextJson_progress a.r hw (res := a.r.nextJson.1) (r' := a.r.nextJson.2) rfl ?_).2
      cases hi with
      | skip hn hk => rw [hn]; intro h; cases h
      | row hn hk hp => rw [hn]; intro h; cases h
      | ignore hn hr hpol => rw [hn]; intro h; cases h
      | stdout hn hr hpol hf => rw [hn]; intro h; cases h
      | stderr hn hr hpol hf => rw [hn]; intro h; cases h
    refine ⟨Nat.le_trans (by rw [e]; exact nextJson_pos_mono _) i1, i2, fun h => i3 (by rw [e]; exact nextJson_eofEmpty h),
      by omega⟩

theorem reachN_sim {N n : Nat} {a b : Conf} (h : ReachN orc c p n a b) (r₂ : Reader) (hag : AgreeTo N a.r r₂)
    (hw : WF a.r) (hpos : pos b.r ≤ N) :
    ∃ r₂', ReachN orc c p n ⟨r₂, a.inFile, a.s⟩ ⟨r₂', b.inFile, b.s⟩ ∧ AgreeTo N b.r r₂' := by
  induction h generalizing r₂ with
  | refl k => exact ⟨r₂, .refl _, hag⟩
  | @step n a b d hi hr ih =>
    have hw' : WF b.r := by rw [(Iter.props orc c p hi).1]; exact nextJson_wf _ hw
    have hpb := (reachN_reader orc c p hr hw').1
    obtain ⟨hi₂, ag₂⟩ := iter_sim orc c p hi r₂ hag hw (Nat.le_trans hpb hpos)
    obtain ⟨r₂', hr₂, ag'⟩ := ih _ ag₂ hw' hpos
    exact ⟨r₂', .step hi₂ hr₂, ag'⟩

/-- `streaming_prefix`, at the level of the loop.  The source has a read fault after the items `pre`, and the run
pulled it (its `pulled` record says so).  Replace the fault and everything after it by ANY continuation `cont`:
the loop over the repaired source goes through the same states up to that point, hence (the logs only grow)
stdout and stderr of the faulty run are prefixes of stdout and stderr of the repaired run.  No hypothesis on the
chain is needed: with a whole-input stage the faulty run just has written less. -/
theorem streaming_prefix (fuel fuel₂ : Nat) (k : Conf) (pre post cont : List RItem)
    (hrest : k.r.rest = pre ++ RItem.err :: post) (hw : WF k.r) (hee : EofEmpty k.r) (e : RunEnd)
    (h : readLoop orc c p fuel k.r k.inFile k.s = .error e)
    (hp : e.st.pulled = k.s.pulled ++ [k.r.pulled + pre.length + 1]) (hf : pre.length ≤ fuel₂) :
    e.result = .error .io ∧
    e.st.out.out <+: (endSt (readLoop orc c p fuel₂ { k.r with rest := pre ++ cont } k.inFile k.s)).out.out ∧
    e.st.err.out <+: (endSt (readLoop orc c p fuel₂ { k.r with rest := pre ++ cont } k.inFile k.s)).err.out := by
  have hs : (RItem.err :: post) <:+ k.r.rest := ⟨pre, hrest.symm⟩
  have hlen : k.r.rest.length - post.length = pre.length + 1 := by rw [hrest]; simp; omega
  obtain ⟨n, k', hr, hs', _, _, h4⟩ := fault_trace orc c p fuel k post hs
  have hpulled : e.st.pulled = k.s.pulled ++ [k.r.pulled + (k.r.rest.length - post.length)] := by
    rw [hlen, hp, Nat.add_assoc]
  rcases h4 with ⟨_, _, _, h4⟩ | ⟨_, _, _, h4, _⟩ | ⟨e', h4, h5⟩
  · rw [h4] at h
    cases h
    refine ⟨rfl, ?_⟩
    obtain ⟨hpos, hw', hee', hμ⟩ := reachN_reader orc c p hr hw
    obtain ⟨_, hcnt, _, _, _⟩ := reachN_props orc c p hr
    have hne : k'.r.eof = false := by
      cases he : k'.r.eof with
      | false => rfl
      | true =>
        have := hee' hee he
        rw [this] at hs'
        have := hs'.length_le
        simp at this
    have hke : k.r.eof = false := by
      cases he : k.r.eof with
      | false => rfl
      | true => have := hee he; rw [hrest] at this; simp at this
    have hl' := hs'.length_le
    simp only [List.length_cons] at hl'
    rw [hrest] at hcnt
    simp only [List.length_append, List.length_cons] at hcnt
    have hposk' : pos k'.r ≤ pos k.r + pre.length := by
      rw [pos_of_not_eof hne, pos_of_not_eof hke]; omega
    have hag : AgreeTo (pos k.r + pre.length) k.r { k.r with rest := pre ++ cont } := by
      refine ⟨rfl, rfl, rfl, rfl, ?_⟩
      rw [Nat.add_sub_cancel_left, hrest]
      simp
    obtain ⟨r₂', hr₂, _⟩ := reachN_sim orc c p hr _ hag hw hposk'
    -- the number of iterations is at most `pre.length`
    have hn : n ≤ pre.length := by
      have h1 : μ k.r = pre.length + 1 + post.length + 1 := by
        simp [μ, hke, hrest]; omega
      have h2 : post.length + 1 + 1 ≤ μ k'.r := by
        simp only [μ, hne, Bool.false_eq_true, if_false]; omega
      omega
    obtain ⟨f, rfl⟩ : ∃ f, fuel₂ = f + n := ⟨fuel₂ - n, by omega⟩
    have := reachN_readLoop orc c p hr₂ f
    dsimp only at this
    rw [this]
    exact out_monotone orc c p f r₂' k'.inFile k'.s
  · rw [h4] at h; cases h
  · rw [h4] at h
    cases h
    rcases h5 with h5 | ⟨m, h5, hm⟩
    · rw [h5] at hpulled
      have := congrArg List.length hpulled
      simp at this
    · rw [h5] at hpulled
      have := List.append_cancel_left hpulled
      simp only [List.cons.injEq, and_true] at this
      omega

/-- the end of `run`, once the pipeline is built and started and the sources are read -/
def finishRun (x : Except RunEnd RunState) : RunResult :=
  match x with
  | .error e => e.toResult
  | .ok s =>
    match complete orc p.sink p.sinkLen p.cfgs s.sts s.out with
    | .error f => { result := .error f.kind, stdout := f.w.out, stderr := s.err.out, pulled := s.pulled }
    | .ok w => { result := .ok (), stdout := w.out, stderr := s.err.out, pulled := s.pulled }

theorem run_eq_finishRun (sources : List Source) (wOut wErr w0 : Writer)
    (hb : build orc c = .ok p) (hs : sinkStart p.sink p.titles wOut = .ok w0) :
    run orc c sources wOut wErr
      = finishRun orc p (readSources orc c p sources { sts := p.sts, out := w0, err := wErr }) := by
  simp only [run, hb, hs]; rfl

theorem finishRun_ext (x : Except RunEnd RunState) :
    (endStS x).out.out <+: (finishRun orc p x).stdout ∧ (endStS x).err.out <+: (finishRun orc p x).stderr := by
  cases x with
  | error e => exact ⟨List.prefix_refl _, List.prefix_refl _⟩
  | ok s =>
    have h2 := complete_ext orc p.sink p.sinkLen p.cfgs s.sts s.out
    simp only [finishRun, endStS]
    cases hc : complete orc p.sink p.sinkLen p.cfgs s.sts s.out with
    | error f => rw [hc] at h2; exact ⟨h2, List.prefix_refl _⟩
    | ok w => rw [hc] at h2; exact ⟨h2, List.prefix_refl _⟩

theorem readSources_extends_first_loop (src : Source) (rest : List Source) (s : RunState) :
    (endSt (readLoop orc c p (src.items.length + 2) (Reader.ofItems src.items src.name) 0 s)).out.out
        <+: (endStS (readSources orc c p (src :: rest) s)).out.out ∧
    (endSt (readLoop orc c p (src.items.length + 2) (Reader.ofItems src.items src.name) 0 s)).err.out
        <+: (endStS (readSources orc c p (src :: rest) s)).err.out := by
  unfold readSources
  dsimp only
  split
  · rename_i e heq
    rw [heq]; exact ⟨List.prefix_refl _, List.prefix_refl _⟩
  · rename_i s' r' d heq
    rw [heq]
    split
    · exact ⟨List.prefix_refl _, List.prefix_refl _⟩
    · exact readSources_out_monotone orc c p rest { s' with pulled := s'.pulled ++ [r'.pulled] }

/-- what the first source's loop leaves on the logs is a prefix of what the run leaves -/
theorem run_extends_first_loop (src : Source) (rest : List Source) (wOut wErr w0 : Writer)
    (hb : build orc c = .ok p) (hs : sinkStart p.sink p.titles wOut = .ok w0) :
    (endSt (readLoop orc c p (src.items.length + 2) (Reader.ofItems src.items src.name) 0
        { sts := p.sts, out := w0, err := wErr })).out.out <+: (run orc c (src :: rest) wOut wErr).stdout ∧
    (endSt (readLoop orc c p (src.items.length + 2) (Reader.ofItems src.items src.name) 0
        { sts := p.sts, out := w0, err := wErr })).err.out <+: (run orc c (src :: rest) wOut wErr).stderr := by
  rw [run_eq_finishRun orc c p _ wOut wErr w0 hb hs]
  have h1 := readSources_extends_first_loop orc c p src rest { sts := p.sts, out := w0, err := wErr }
  have h2 := finishRun_ext orc p (readSources orc c p (src :: rest) { sts := p.sts, out := w0, err := wErr })
  exact ⟨h1.1.trans h2.1, h1.2.trans h2.2⟩

/-- `streaming_prefix`, at the level of a run: a read fault in the first source, reached by the run.  The run ends
with the I/O error, and its stdout / stderr are prefixes of those of the run on the repaired source (the fault
and what follows replaced by any `cont`), whatever sources follow. -/
theorem streaming_prefix_run (name : Option Str) (pre post cont : List RItem) (rest rest₂ : List Source)
    (wOut wErr w0 : Writer) (e : RunEnd)
    (hb : build orc c = .ok p) (hs : sinkStart p.sink p.titles wOut = .ok w0)
    (h : readLoop orc c p ((pre ++ RItem.err :: post).length + 2) (Reader.ofItems (pre ++ RItem.err :: post) name) 0
          { sts := p.sts, out := w0, err := wErr } = .error e)
    (hp : e.st.pulled = [pre.length + 1]) :
    (run orc c (⟨name, pre ++ RItem.err :: post⟩ :: rest) wOut wErr).result = .error .io ∧
    (run orc c (⟨name, pre ++ RItem.err :: post⟩ :: rest) wOut wErr).stdout
      <+: (run orc c (⟨name, pre ++ cont⟩ :: rest₂) wOut wErr).stdout ∧
    (run orc c (⟨name, pre ++ RItem.err :: post⟩ :: rest) wOut wErr).stderr
      <+: (run orc c (⟨name, pre ++ cont⟩ :: rest₂) wOut wErr).stderr := by
  have hsp := streaming_prefix orc c p _ ((pre ++ cont).length + 2)
    ⟨Reader.ofItems (pre ++ RItem.err :: post) name, 0, { sts := p.sts, out := w0, err := wErr }⟩ pre post cont rfl
    (wf_ofItems _ _) (eofEmpty_ofItems _ _) e h
    (by rw [hp]; show [pre.length + 1] = [] ++ [0 + pre.length + 1]; simp) (by simp; omega)
  have hrun : run orc c (⟨name, pre ++ RItem.err :: post⟩ :: rest) wOut wErr = e.toResult := by
    simp only [run, hb, hs, readSources, h]
  have hext := run_extends_first_loop orc c p ⟨name, pre ++ cont⟩ rest₂ wOut wErr w0 hb hs
  rw [hrun]
  exact ⟨hsp.1, hsp.2.1.trans hext.1, hsp.2.2.trans hext.2⟩

end Streaming

/-- non-vacuity of `streaming_prefix_run`: `[1] [2`, a fault, `]` against the repaired `[1] [2]` — stdout `[1]⏎` of
the faulty run is a prefix of stdout `[1]⏎[2]⏎` of the repaired one -/
example (orc : Oracles) :
    (run orc {} [⟨none, faulty⟩] {} {}).result = .error .io ∧
    (run orc {} [⟨none, faulty⟩] {} {}).stdout
      <+: (run orc {} [⟨none, cleanInput [91, 49, 93, 32, 91, 50] ++ cleanInput [93]⟩] {} {}).stdout := by
  have h := streaming_prefix_run orc {} plain none (cleanInput [91, 49, 93, 32, 91, 50]) [RItem.byte 93]
    (cleanInput [93]) [] [] {} {} {} _ (build_plain orc .ignore) rfl rfl rfl
  exact ⟨h.1, h.2.1⟩

/-- (with the empty oracle table) -/
example : (run {} {} [⟨none, faulty⟩] {} {}).stdout = [91, 49, 93, 10]
    ∧ (run {} {} [⟨none, cleanInput [91, 49, 93, 32, 91, 50] ++ cleanInput [93]⟩] {} {}).stdout
        = [91, 49, 93, 10, 91, 50, 93, 10] := by decide +kernel

/-! ### 4. (C17) positions are exact -/

/-- the bytes among a list of items (a read fault carries no byte and does not move the position) -/
def itemBytes (l : List RItem) : List Byte :=
  l.filterMap (fun it => match it with | .byte b => some b | .err => none)

theorem itemBytes_append (a b : List RItem) : itemBytes (a ++ b) = itemBytes a ++ itemBytes b := by
  simp [itemBytes, List.filterMap_append]

theorem itemBytes_cleanInput (bs : List Byte) : itemBytes (cleanInput bs) = bs := by
  induction bs with
  | nil => rfl
  | cons b bs ih =>
    simp only [cleanInput, List.map_cons] at ih ⊢
    simp only [itemBytes, List.filterMap_cons] at ih ⊢
    rw [ih]

/-- the reader `r` works on the stream `items` of a source called `name`: `done` has been pulled, the rest is
unread, and the location is the line / column computed from the bytes pulled -/
def LocInv (items : List RItem) (name : Option Str) (r : Reader) : Prop :=
  ∃ done, items = done ++ r.rest ∧ done.length = r.pulled ∧ r.loc.name = name ∧
    C17.Tracks r (itemBytes done)

theorem locInv_ofItems (items : List RItem) (name : Option Str) : LocInv items name (Reader.ofItems items name) :=
  ⟨[], rfl, rfl, rfl, rfl⟩

structure PLocInv {α} (m : PM α) : Prop where
  inv : ∀ items name r, LocInv items name r → LocInv items name (m r).2

theorem plocinv_pure {α} (a : α) : PLocInv (pure a : PM α) := ⟨fun _ _ _ h => h⟩
theorem plocinv_fail {α} (e : PErr) : PLocInv (PM.fail e : PM α) := ⟨fun _ _ _ h => h⟩
theorem plocinv_locErr {α} (mk : Loc → PErr) : PLocInv (locErr mk : PM α) := ⟨fun _ _ _ h => h⟩

theorem plocinv_bind {α β} {m : PM α} {f : α → PM β} (hm : PLocInv m) (hf : ∀ a, PLocInv (f a)) :
    PLocInv (m >>= f) := by
  constructor
  intro items name r h
  have h1 := hm.inv items name r h
  simp only [PM.bind_apply]
  cases hr : m r with
  | mk res r1 =>
    rw [hr] at h1
    cases res with
    | error e => exact h1
    | ok a => exact (hf a).inv items name r1 h1

theorem next_plocinv : PLocInv Reader.next := by
  constructor
  intro items name r h
  obtain ⟨done, h1, h2, h3, h4⟩ := h
  rcases hn : Reader.next r with ⟨res, r'⟩
  have hname := C17.next_keeps_name r r' res hn
  cases res with
  | error e =>
    -- a fault: one item pulled, no byte, the location does not move
    cases r with
    | mk rest cur eof loc pulled =>
      cases eof with
      | true => simp [Reader.next] at hn
      | false =>
        cases rest with
        | nil => simp [Reader.next] at hn
        | cons it rest =>
          cases it with
          | byte b => simp [Reader.next] at hn
          | err =>
            simp only [Reader.next, Bool.false_eq_true, if_false, Prod.mk.injEq] at hn
            obtain ⟨_, rfl⟩ := hn
            refine ⟨done ++ [RItem.err], by simp [h1], by simp [h2], h3, ?_⟩
            rw [itemBytes_append]
            have : itemBytes [RItem.err] = [] := rfl
            rw [this, List.append_nil]
            exact h4
  | ok o =>
    cases o with
    | some b =>
      obtain ⟨hp, hr⟩ := C17.next_pulled r r' b hn
      refine ⟨done ++ [RItem.byte b], by rw [h1, hr]; simp, by simp [h2, hp], hname.trans h3, ?_⟩
      rw [itemBytes_append]
      exact C17.next_tracks r r' b _ h4 hn
    | none =>
      cases r with
      | mk rest cur eof loc pulled =>
        cases eof with
        | true =>
          simp only [Reader.next, if_true, Prod.mk.injEq] at hn
          obtain ⟨_, rfl⟩ := hn
          exact ⟨done, h1, h2, h3, h4⟩
        | false =>
          cases rest with
          | nil =>
            simp only [Reader.next, Bool.false_eq_true, if_false, Prod.mk.injEq] at hn
            obtain ⟨_, rfl⟩ := hn
            exact ⟨done, h1, h2, h3, h4⟩
          | cons it rest => cases it <;> simp [Reader.next] at hn

theorem peek_plocinv : PLocInv Reader.peek := by
  constructor
  intro items name r h
  unfold Reader.peek
  split
  · exact h
  · exact next_plocinv.inv items name r h

macro "plocinv_step" : tactic => `(tactic| first
  | with_reducible exact plocinv_pure _
  | with_reducible exact plocinv_fail _
  | with_reducible exact plocinv_locErr _
  | with_reducible exact next_plocinv
  | with_reducible exact peek_plocinv
  | with_reducible assumption
  | with_reducible apply plocinv_bind
  | intro _
  | split)

syntax "plocinv" ("[" term,* "]")? : tactic
macro_rules
  | `(tactic| plocinv) => `(tactic| repeat' plocinv_step)
  | `(tactic| plocinv [$ts,*]) =>
    `(tactic| repeat' (first | plocinv_step $[| with_reducible exact $ts]*))

theorem eatWhitespace_plocinv (fuel : Nat) : PLocInv (eatWhitespace fuel) := by
  induction fuel with
  | zero => exact plocinv_fail _
  | succ fuel ih => unfold eatWhitespace; plocinv

theorem readDigits_plocinv (fuel : Nat) (acc : List Byte) : PLocInv (readDigits fuel acc) := by
  induction fuel generalizing acc with
  | zero => exact plocinv_fail _
  | succ fuel ih => unfold readDigits; plocinv [ih _]

theorem readWordTail_plocinv (word : String) (es : List Byte) : PLocInv (readWordTail word es) := by
  induction es with
  | nil => unfold readWordTail; plocinv
  | cons e es ih => unfold readWordTail; plocinv

theorem readHex4_plocinv (k acc : Nat) : PLocInv (readHex4 k acc) := by
  induction k generalizing acc with
  | zero => exact plocinv_pure _
  | succ k ih => unfold readHex4; plocinv [ih _]

theorem readStringLoop_plocinv (fuel : Nat) (acc : List Byte) : PLocInv (readStringLoop fuel acc) := by
  induction fuel generalizing acc with
  | zero => exact plocinv_fail _
  | succ fuel ih => unfold readStringLoop; plocinv [ih _, readHex4_plocinv _ _]

theorem parseToDouble_plocinv (t : List Byte) : PLocInv (parseToDouble t) := by
  unfold parseToDouble; plocinv

theorem readNumber_plocinv (fuel : Nat) : PLocInv (readNumber fuel) := by
  unfold readNumber
  plocinv [readDigits_plocinv _ _, parseToDouble_plocinv _]

structure ValueLocInv (fuel : Nat) : Prop where
  value : PLocInv (nextValue fuel)
  array : PLocInv (readArray fuel)
  arrayLoop : ∀ acc, PLocInv (readArrayLoop fuel acc)
  object : PLocInv (readObject fuel)
  objectLoop : ∀ acc, PLocInv (readObjectLoop fuel acc)

theorem valueLocInv (fuel : Nat) : ValueLocInv fuel := by
  induction fuel with
  | zero =>
    refine ⟨?_, ?_, fun _ => ?_, ?_, fun _ => ?_⟩
    · unfold nextValue; exact plocinv_fail _
    · unfold readArray; exact plocinv_fail _
    · unfold readArrayLoop; exact plocinv_fail _
    · unfold readObject; exact plocinv_fail _
    · unfold readObjectLoop; exact plocinv_fail _
  | succ fuel ih =>
    refine ⟨?_, ?_, fun _ => ?_, ?_, fun _ => ?_⟩
    · unfold nextValue
      plocinv [eatWhitespace_plocinv _, readWordTail_plocinv _ _, readStringLoop_plocinv _ _,
        readNumber_plocinv _, ih.array, ih.object]
    · unfold readArray
      plocinv [eatWhitespace_plocinv _, ih.arrayLoop _]
    · unfold readArrayLoop
      plocinv [eatWhitespace_plocinv _, ih.arrayLoop _, ih.value]
    · unfold readObject
      plocinv [eatWhitespace_plocinv _, ih.objectLoop _]
    · unfold readObjectLoop
      plocinv [eatWhitespace_plocinv _, ih.objectLoop _, ih.value]

theorem nextJson_locInv {items : List RItem} {name : Option Str} {r : Reader} (h : LocInv items name r) :
    LocInv items name r.nextJson.2 := (valueLocInv _).value.inv items name r h

/-- line = 1 + number of LF; column = 1 + number of bytes after the last LF -/
theorem lineCol_reverse (l : List Byte) :
    C17.lineCol l.reverse = (1 + l.count 10, 1 + (l.takeWhile (· ≠ 10)).length) := by
  induction l with
  | nil => rfl
  | cons x l ih =>
    rw [List.reverse_cons]
    unfold C17.lineCol at ih ⊢
    rw [List.foldl_append, ih]
    simp only [List.foldl_cons, List.foldl_nil, C17.lineColStep]
    by_cases hx : x = 10
    · subst hx
      simp
      omega
    · have hx' : (x == 10) = false := by simpa using hx
      simp [hx]
      omega

theorem lineCol_closed (bs : List Byte) :
    C17.lineCol bs = (1 + bs.count 10, 1 + (bs.reverse.takeWhile (· ≠ 10)).length) := by
  have := lineCol_reverse bs.reverse
  rw [List.reverse_reverse] at this
  rw [this, List.count_reverse]

/-- (C17) `location_is_lineCol`: a reader on the stream `items` that has pulled `n` items stands at line
`1 + (number of LF among the bytes pulled)`, column `1 + (number of bytes pulled after the last LF)`; its name is
the source's name; what is unread is `items` minus the first `n` items. -/
theorem location_is_lineCol {items : List RItem} {name : Option Str} {r : Reader} (h : LocInv items name r) :
    r.rest = items.drop r.pulled ∧ r.pulled ≤ items.length ∧ r.loc.name = name ∧
    r.loc.line = 1 + (itemBytes (items.take r.pulled)).count 10 ∧
    r.loc.col = 1 + ((itemBytes (items.take r.pulled)).reverse.takeWhile (· ≠ 10)).length := by
  obtain ⟨done, h1, h2, h3, h4⟩ := h
  have ht : items.take r.pulled = done := by rw [h1, ← h2]; simp
  have hd : items.drop r.pulled = r.rest := by rw [h1, ← h2]; simp
  rw [ht, hd]
  unfold C17.Tracks at h4
  rw [lineCol_closed] at h4
  simp only [Prod.mk.injEq] at h4
  refine ⟨rfl, ?_, h3, h4.1, h4.2⟩
  rw [h1, ← h2]; simp

/-- the form of the task: after pulling exactly the bytes `bs` of a clean input -/
theorem location_after_bytes {bs tail : List Byte} {name : Option Str} {r : Reader}
    (h : LocInv (cleanInput (bs ++ tail)) name r) (hp : r.pulled = bs.length) :
    r.loc.line = 1 + bs.count 10 ∧ r.loc.col = 1 + (bs.reverse.takeWhile (· ≠ 10)).length ∧
    r.rest = cleanInput tail := by
  obtain ⟨h1, _, _, h4, h5⟩ := location_is_lineCol h
  have ht : (cleanInput (bs ++ tail)).take r.pulled = cleanInput bs := by
    rw [hp]; simp [cleanInput, List.map_append]
  have hd : (cleanInput (bs ++ tail)).drop r.pulled = cleanInput tail := by
    rw [hp]; simp [cleanInput, List.map_append]
  rw [ht, itemBytes_cleanInput] at h4 h5
  exact ⟨h4, h5, by rw [h1, hd]⟩

/-! #### Ranges tile -/

/-- every call of `nextJson` made by `ctxsOf` yields a row (no malformed region skipped, no scalar dropped by
`--only-objects-and-arrays`), until the input ends or a read fault stops the loop — as a computable test -/
def allRowsB (c : Cfg) : Nat → Reader → Bool
  | 0, _ => true
  | fuel + 1, r =>
    match r.nextJson with
    | (.ok (some v), r') => !(c.onlyObjectsAndArrays && !v.isObjOrArr) && allRowsB c fuel r'
    | (.ok none, _) => true
    | (.error e, _) => !e.canRecover

def AllRows (c : Cfg) (fuel : Nat) (r : Reader) : Prop := allRowsB c fuel r = true

instance (c : Cfg) (fuel : Nat) (r : Reader) : Decidable (AllRows c fuel r) := by
  unfold AllRows; infer_instance

/-- the rows' ranges tile, starting at `l`: each row starts where the previous one ended -/
def TilesFrom : Loc → List Ctx → Prop
  | _, [] => True
  | l, ctx :: rest => ∃ ic, ctx.ictx = some ic ∧ ic.startLoc = l ∧ TilesFrom ic.endLoc rest

/-- (C17) `ranges_tile`: when no recoverable error and no dropped scalar lies between them, consecutive rows have
`ended k = started (k + 1)`, and the first row starts at the reader's location (`1:1` for a fresh reader) -/
theorem ranges_tile (c : Cfg) (fuel : Nat) (r : Reader) (inFile idx : Nat) (h : AllRows c fuel r) :
    TilesFrom r.loc (RunSpec.ctxsOf c fuel r inFile idx) := by
  induction fuel generalizing r inFile idx with
  | zero => exact True.intro
  | succ fuel ih =>
    unfold AllRows allRowsB at h
    unfold RunSpec.ctxsOf
    rcases hn : r.nextJson with ⟨res, r'⟩
    rw [hn] at h
    cases res with
    | error e =>
      dsimp only at h ⊢
      have : e.canRecover = false := by simpa using h
      rw [this]
      exact True.intro
    | ok o =>
      cases o with
      | none => exact True.intro
      | some v =>
        dsimp only at h ⊢
        rw [Bool.and_eq_true, Bool.not_eq_true'] at h
        rw [h.1]
        exact ⟨_, rfl, rfl, ih r' _ _ h.2⟩

theorem tilesFrom_get {l : Loc} {cs : List Ctx} (h : TilesFrom l cs) (k : Nat) (hk : k + 1 < cs.length) :
    ∃ a b, cs[k].ictx = some a ∧ cs[k + 1].ictx = some b ∧ a.endLoc = b.startLoc := by
  induction cs generalizing l k with
  | nil => simp at hk
  | cons x xs ih =>
    obtain ⟨ic, h1, h2, h3⟩ := h
    cases k with
    | zero =>
      cases xs with
      | nil => simp at hk
      | cons y ys =>
        obtain ⟨ic', h1', h2', _⟩ := h3
        exact ⟨ic, ic', h1, h1', h2'.symm⟩
    | succ k => exact ih h3 k (by simpa using hk)

theorem tilesFrom_head {l : Loc} {cs : List Ctx} (h : TilesFrom l cs) (hk : 0 < cs.length) :
    ∃ a, cs[0].ictx = some a ∧ a.startLoc = l := by
  cases cs with
  | nil => simp at hk
  | cons x xs =>
    obtain ⟨ic, h1, h2, _⟩ := h
    exact ⟨ic, h1, h2⟩

/-- in index form, over a whole source: `ended k = started (k+1)` and `started 0 = name:1:1` -/
theorem ranges_tile_source (c : Cfg) (src : Source) (idx : Nat)
    (h : AllRows c (src.items.length + 2) (Reader.ofItems src.items src.name)) :
    let cs := RunSpec.ctxsOf c (src.items.length + 2) (Reader.ofItems src.items src.name) 0 idx
    (∀ k (hk : k + 1 < cs.length), ∃ a b, cs[k].ictx = some a ∧ cs[k + 1].ictx = some b ∧ a.endLoc = b.startLoc) ∧
    (∀ hk : 0 < cs.length, ∃ a, cs[0].ictx = some a ∧ a.startLoc = { name := src.name, line := 1, col := 1 }) := by
  intro cs
  have ht := ranges_tile c _ _ 0 idx h
  exact ⟨fun k hk => tilesFrom_get ht k hk, fun hk => tilesFrom_head ht hk⟩

/-! #### What lies between `started` and `ended` (finding F11) -/

/-- the look-ahead byte as an item list -/
def curItems (r : Reader) : List RItem := match r.cur with | some b => [RItem.byte b] | none => []

theorem pending_eq (r : Reader) : r.pending = curItems r ++ r.rest := rfl

/-- `range_contains_text`, the precise general statement.  A successful `nextJson` consumes a prefix `consumed` of
the pending stream (leading white space and the value's text).  The items it PULLS — the bytes that lie between
`started` and `ended`, by `location_is_lineCol` — are not `consumed` in general:
`(look-ahead held at entry) ++ pulled = consumed ++ (look-ahead held at exit)`.
So when a look-ahead byte is held at entry (it was pulled, and counted, by the PREVIOUS call) the range of this
value misses the first byte of `consumed`; and it always includes the one byte after the value. -/
theorem range_contains_text_general (r : Reader) {x : Option JV} {r' : Reader} (h : r.nextJson = (.ok x, r')) :
    ∃ consumed, r.pending = consumed ++ r'.pending ∧
      curItems r ++ r.rest.take (r'.pulled - r.pulled) = consumed ++ curItems r' := by
  have hdrop := nextJson_rest_eq_drop r
  have hcnt := (nextValue_pcount (4 * r.rest.length + 10)).count r
  change r.nextJson.2.pulled + r.nextJson.2.rest.length = _ at hcnt
  rw [h] at hdrop hcnt
  dsimp only at hdrop hcnt
  obtain ⟨hsuf, hl | hl⟩ := nextJson_lookahead r h
  · obtain ⟨hp, hr, hc | hc⟩ := hl
    · refine ⟨[], ?_, ?_⟩
      · simp [Reader.pending, hr, hc]
      · have e : curItems r' = curItems r := by simp [curItems, hc]
        rw [e, hp, Nat.sub_self, List.take_zero, List.append_nil, List.nil_append]
    · refine ⟨curItems r, ?_, ?_⟩
      · have e : curItems r' = [] := by simp [curItems, hc]
        rw [pending_eq, pending_eq r', e, hr, List.nil_append]
      · have e : curItems r' = [] := by simp [curItems, hc]
        rw [e, hp, Nat.sub_self, List.take_zero]
  · obtain ⟨hp, hl⟩ := hl
    cases hc : r'.cur with
    | none =>
      refine ⟨curItems r ++ r.rest.take (r'.pulled - r.pulled), ?_, by simp [curItems, hc]⟩
      rw [pending_eq, pending_eq r', List.append_assoc]
      simp only [curItems, hc, List.nil_append]
      rw [hdrop, List.take_append_drop]
    | some b =>
      obtain ⟨pre, hpre⟩ := hl b hc
      have hlen : r'.pulled - r.pulled = pre.length + 1 := by
        have := congrArg List.length hpre
        simp at this
        omega
      refine ⟨curItems r ++ pre, ?_, ?_⟩
      · rw [pending_eq, pending_eq r', List.append_assoc]
        simp only [curItems, hc]
        rw [hpre]; simp
      · have e : curItems r' = [RItem.byte b] := by simp [curItems, hc]
        have e2 : pre ++ RItem.byte b :: r'.rest = (pre ++ [RItem.byte b]) ++ r'.rest := by simp
        rw [e, hlen, hpre, e2, List.take_left' (by simp), List.append_assoc]

/-- (C17) `range_contains_text`, the clean case: no look-ahead byte is held at entry (the first value of a source,
or a value after one that ended at the end of input).  Then the items pulled between `started` and `ended` are
exactly what the call consumed — leading white space and the whole text of the value — followed by the single
look-ahead byte, if one is held at exit. -/
theorem range_contains_text (r : Reader) (hc : r.cur = none) {x : Option JV} {r' : Reader}
    (h : r.nextJson = (.ok x, r')) :
    ∃ consumed, r.rest = consumed ++ r'.pending ∧
      r.rest.take (r'.pulled - r.pulled) = consumed ++ curItems r' := by
  obtain ⟨consumed, h1, h2⟩ := range_contains_text_general r h
  have : curItems r = [] := by simp [curItems, hc]
  rw [pending_eq, this, List.nil_append] at h1
  rw [this, List.nil_append] at h2
  exact ⟨consumed, h1, h2⟩

/-- F11, concretely: in `[1][2]` the second value starts at column 4, but its range starts at `1:5`, because `[`
was pulled as the look-ahead of the first call; in `[1] [2]` the blank is the look-ahead and both ranges are
exact up to that blank. -/
example : (RunSpec.ctxsOf {} 8 (Reader.ofBytes [91, 49, 93, 91, 50, 93]) 0 0).map (fun c => c.ictx.map (fun i =>
    ((i.startLoc.line, i.startLoc.col), (i.endLoc.line, i.endLoc.col))))
    = [some ((1, 1), (1, 5)), some ((1, 5), (1, 7))] := by decide +kernel

example : (RunSpec.ctxsOf {} 9 (Reader.ofBytes [91, 49, 93, 32, 91, 50, 93]) 0 0).map (fun c => c.ictx.map (fun i =>
    ((i.startLoc.line, i.startLoc.col), (i.endLoc.line, i.endLoc.col))))
    = [some ((1, 1), (1, 5)), some ((1, 5), (1, 8))] := by decide +kernel

example : AllRows {} 9 (Reader.ofBytes [91, 49, 93, 32, 91, 50, 93]) := by decide +kernel

/-- `location_is_lineCol` on `[1]\n[2]`: after the first call 4 bytes are pulled, one of them LF: line 2, column 1 -/
example : (Reader.nextJson (Reader.ofBytes [91, 49, 93, 10, 91, 50, 93])).2.loc.line = 2
    ∧ (Reader.nextJson (Reader.ofBytes [91, 49, 93, 10, 91, 50, 93])).2.loc.col = 1 := by
  have h := location_after_bytes (bs := [91, 49, 93, 10]) (tail := [91, 50, 93]) (name := none)
    (nextJson_locInv (locInv_ofItems _ _)) (by decide)
  exact ⟨h.1, h.2.1⟩

/-
#print axioms nextJson_local              -- [propext, Classical.choice, Quot.sound]
#print axioms nextJson_prefix_locality
#print axioms nextJson_agree_pulled
#print axioms nextValue_fuel_indep
#print axioms nextJson_pulled_counts
#print axioms lookahead_bound
#print axioms nextJson_lookahead_last
#print axioms readLoop_local
#print axioms take_stops
#print axioms take_stops_run
#print axioms readLoop_trace
#print axioms out_monotone
#print axioms run_out_monotone
#print axioms read_error_is_fatal_run
#print axioms read_error_reached_is_fatal
#print axioms streaming_prefix
#print axioms streaming_prefix_run
#print axioms location_is_lineCol
#print axioms location_after_bytes
#print axioms ranges_tile
#print axioms ranges_tile_source
#print axioms range_contains_text_general
#print axioms range_contains_text
-/

end Jawk.Loc
