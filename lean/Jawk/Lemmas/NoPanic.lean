/-
  Property C05: no expression can make the (modelled) evaluator panic.

  `eval` can abort in two ways: `overflow` (depth fuel exhausted) and `panic site`.
  `panic` has exactly two sources in `Jawk/Model/Eval.lean`: `Oracles.ask`
  (`"oracle-miss:…"`, a modelling artefact) and the fall-through of `callFn`
  (`"unmodelled-function:…"`).  This file proves that the second source is only
  reachable for the three names `exec`, `trigger`, `now`, and that every function body
  merely propagates the aborts of its argument evaluations.
-/
import Jawk.Model.Eval
import Jawk.Model.Expr
namespace Jawk.NoPanic
open Jawk

/-- every abort of `r` satisfies `G` -/
structure NP {α} (G : Abort → Prop) (r : Except Abort α) : Prop where
  h : ∀ a, r = .error a → G a

theorem NP.ok {α} {G} (x : α) : NP G (Except.ok x : Except Abort α) := ⟨by
  intro a h; cases h⟩
theorem NP.pure {α} {G} (x : α) : NP G (pure x : Except Abort α) := ⟨by
  intro a h; cases h⟩
theorem NP.bind {α β} {G} {m : Except Abort α} {f : α → Except Abort β}
    (hm : NP G m) (hf : ∀ a, NP G (f a)) : NP G (m >>= f) := ⟨by
  intro a h
  cases m with
  | error e => cases h; exact hm.h _ rfl
  | ok x => exact (hf x).h a h⟩

theorem foldArgs_np {σ} {G} {ev : Ev} {ctx : Ctx} {step : σ → Option JV → Except Abort (Sum (Option JV) σ)}
    {fin : σ → Option JV} (args : List Expr) (s : σ)
    (hev : ∀ e ∈ args, NP G (ev e ctx)) (hstep : ∀ s v, NP G (step s v)) :
    NP G (foldArgs ev ctx step fin args s) := by
  induction args generalizing s with
  | nil => exact NP.ok _
  | cons e es ih =>
    unfold foldArgs
    apply NP.bind (hev e (by simp))
    intro v
    apply NP.bind (hstep s v)
    intro r
    split
    · exact NP.ok _
    · exact ih _ (fun e he => hev e (by simp [he]))

theorem applyArg_np {G} {ev : Ev} {args : List Expr} {c : Ctx} (i : Nat)
    (hev : ∀ e ∈ args, NP G (ev e c)) : NP G (applyArg ev args c i) := by
  unfold applyArg
  split
  · next e h => exact hev e (List.mem_of_getElem? h)
  · exact NP.ok _

theorem mapM'_np {α β} {G} {f : α → Except Abort β} (l : List α) (hf : ∀ x ∈ l, NP G (f x)) :
    NP G (mapM' f l) := by
  induction l with
  | nil => exact NP.ok _
  | cons x xs ih =>
    unfold mapM'
    apply NP.bind (hf x (by simp))
    intro y
    apply NP.bind (ih (fun x hx => hf x (by simp [hx])))
    intro ys
    exact NP.ok _

def inTable (n : String) : Bool := Generated.functionTable.any (fun e => e.1 == n)

mutual
def allCalls (p : String → Bool) : Expr → Bool
  | .call fn args => p fn && allCallsList p args
  | _ => true
def allCallsList (p : String → Bool) : List Expr → Bool
  | [] => true
  | e :: es => allCalls p e && allCallsList p es
end

theorem allCallsList_iff (p : String → Bool) (l : List Expr) :
    allCallsList p l = true ↔ ∀ e ∈ l, allCalls p e = true := by
  induction l with
  | nil => simp [allCallsList]
  | cons x xs ih => simp [allCallsList, ih]

theorem allCallsList_append (p : String → Bool) (l₁ l₂ : List Expr) :
    allCallsList p (l₁ ++ l₂) = (allCallsList p l₁ && allCallsList p l₂) := by
  induction l₁ with
  | nil => simp [allCallsList]
  | cons x xs ih => simp [allCallsList, ih, Bool.and_assoc]

/-- every successful result of a parser action satisfies `P` -/
structure EP {α} (P : α → Prop) (m : EM α) : Prop where
  h : ∀ r a r', m r = (.ok a, r') → P a

theorem EP.pure {α} {P : α → Prop} {a : α} (h : P a) : EP P (pure a : EM α) :=
  ⟨by intro r b r' hb; cases hb; exact h⟩
theorem EP.fail {α} {P : α → Prop} (e : ExprErr) : EP P (EM.fail e : EM α) :=
  ⟨by intro r b r' hb; cases hb⟩
theorem EP.bind {α β} {P : β → Prop} (Q : α → Prop) {m : EM α} {f : α → EM β}
    (hm : EP Q m) (hf : ∀ a, Q a → EP P (f a)) : EP P (m >>= f) := ⟨by
  intro r b r' hb
  change (match m r with
      | (.ok a, r') => f a r'
      | (.error e, r') => (.error e, r')) = _ at hb
  split at hb
  · next a r1 h1 => exact (hf a (hm.h _ _ _ h1)).h _ _ _ hb
  · cases hb⟩
theorem EP.triv {α} (m : EM α) : EP (fun _ => True) m := ⟨fun _ _ _ _ => True.intro⟩
theorem EP.bind' {α β} {P : β → Prop} {m : EM α} {f : α → EM β}
    (hf : ∀ a, EP P (f a)) : EP P (m >>= f) := EP.bind _ (EP.triv m) (fun a _ => hf a)

theorem findFunction_inTable {n : String} {sig : FnSig} (h : findFunction n = some sig) :
    inTable sig.name = true := by
  unfold findFunction at h
  cases hf : Generated.functionTable.find? (fun (name, aliases, _, _) => name == n || aliases.contains n) with
  | none => rw [hf] at h; cases h
  | some x =>
    rw [hf] at h
    have hx := List.mem_of_find?_eq_some hf
    cases h
    unfold inTable
    rw [List.any_eq_true]
    exact ⟨x, hx, by simp⟩

macro "ep_step" : tactic => `(tactic| first
  | exact EP.fail _
  | (apply EP.pure; first | rfl | assumption | (split <;> rfl))
  | assumption
  | (apply EP.pure; simp only [allCalls, Bool.and_eq_true]; exact ⟨findFunction_inTable ‹_›, ‹_›⟩)
  | (refine ‹∀ acc, _ → EP _ (parseArgs _ acc)› _ ?_;
     simp only [allCallsList_append, allCallsList, Bool.and_eq_true]; exact ⟨‹_›, ‹_›, trivial⟩)
  | exact ‹∀ acc, _ → EP _ (parseArgs _ acc)› _ ‹_›
  | (have h := ‹_ = (_, _)›; split at h <;> cases h <;> rfl)
  | (refine EP.bind _ ‹EP _ (readGetter _)› ?_)
  | (refine EP.bind _ (‹∀ acc, _ → EP _ (parseArgs _ acc)› _ ?_) ?_)
  | (apply EP.bind')
  | intro _
  | split
  | dsimp only
  )

theorem parser_inTable : ∀ fuel,
    EP (fun e => allCalls inTable e = true) (readGetter fuel) ∧
    EP (fun e => allCalls inTable e = true) (parseFunction fuel) ∧
    ∀ acc, allCallsList inTable acc = true → EP (fun l => allCallsList inTable l = true) (parseArgs fuel acc) := by
  intro fuel
  induction fuel with
  | zero =>
    refine ⟨?_, ?_, ?_⟩
    · unfold readGetter; exact EP.fail _
    · unfold parseFunction; exact EP.fail _
    · intro acc _; unfold parseArgs; exact EP.fail _
  | succ fuel ih =>
    obtain ⟨ih1, ih2, ih3⟩ := ih
    refine ⟨?_, ?_, ?_⟩
    · unfold readGetter
      repeat' ep_step
    · unfold parseFunction
      repeat' ep_step
    · intro acc hacc; unfold parseArgs
      repeat' ep_step

theorem EP.fst {α} {P : α → Prop} {m : EM α} (h : EP P m) {r : Reader} {a : α}
    (hh : (m r).fst = .ok a) : P a :=
  h.h r a (m r).2 (Prod.ext hh rfl)

macro "ep_step'" : tactic => `(tactic| first
  | (refine EP.bind _ (parser_inTable _).1 ?_)
  | ep_step)

/-- the functions answered by the library oracle -/
def oracleFns : List String :=
  ["match", "extract_regex_group", "base63_decode", "env", "format_time", "parse_time",
   "parse_time_with_zone", "\"/\""]

/-- local hypotheses about the evaluator handed to a function body -/
structure Hyp (G : Abort → Prop) (ev : Ev) (orc : Oracles) (fn : String) (args : List Expr) (ctx : Ctx) : Prop where
  arg : ∀ e ∈ args, ∀ c, c.defs = ctx.defs → NP G (ev e c)
  defn : fn = "define" → ∀ e ∈ args, ∀ n, ∀ d ∈ args, NP G (ev e (ctx.withDefinition n d))
  mac : fn = "@" → ∀ n d, ctx.getDefinition n = some d → NP G (ev d ctx)
  parsed : fn = "parse_selection" → ∀ e, allCalls inTable e = true → NP G (ev e ctx)
  orc : fn ∈ oracleFns → ∀ f a, NP G (orc.ask f a)

theorem pipeGo_np {G ev orc fn args ctx} (H : Hyp G ev orc fn args ctx) :
    ∀ (es : List Expr), (∀ e ∈ es, e ∈ args) → ∀ c : Ctx, c.defs = ctx.defs → NP G (callBasic.go ev c es) := by
  intro es
  induction es with
  | nil => intro _ c _; unfold callBasic.go; exact NP.ok _
  | cons e es ih =>
    intro hsub c hc
    unfold callBasic.go
    apply NP.bind (H.arg e (hsub e (by simp)) c hc)
    intro v
    split
    · exact ih (fun e he => hsub e (by simp [he])) _ (by simpa [Ctx.withInput] using hc)
    · exact NP.ok _

theorem foldGo_np {G ev orc fn args ctx} (H : Hyp G ev orc fn args ctx) {f : Expr}
    (hf : (if args.length > 2 then args[2]? else args[1]?) = some f) :
    ∀ (l : List JV) (cur : Option JV) (idx : Nat), NP G (callList.foldGo ev ctx f cur idx l) := by
  have hmem : f ∈ args := by
    split at hf <;> exact List.mem_of_getElem? hf
  intro l
  induction l with
  | nil => intro cur idx; unfold callList.foldGo; exact NP.ok _
  | cons v vs ih =>
    intro cur idx
    unfold callList.foldGo
    dsimp only
    refine NP.bind (H.arg f hmem _ ?_) ?_
    · rfl
    · intro next
      exact ih _ _

macro "np_step" : tactic => `(tactic| first
  | exact NP.ok _
  | exact NP.pure _
  | exact Hyp.orc ‹_› (by decide) _ _
  | exact Hyp.mac ‹_› rfl _ _ ‹_›
  | (refine Hyp.parsed ‹_› rfl _ (EP.fst (P := fun e => allCalls inTable e = true) ?_ ‹_›); repeat' ep_step')
  | (apply applyArg_np; intro e he;
     first
     | (refine Hyp.arg ‹_› e he _ ?_; rfl)
     | exact Hyp.defn ‹_› rfl e he _ _ (List.mem_of_getElem? ‹_›))
  | (apply foldArgs_np (hev := fun e he => Hyp.arg ‹_› e he _ rfl))
  | (apply mapM'_np; intro _ _; try dsimp only)
  | exact foldGo_np ‹_› ‹_› _ _ _
  | (refine Hyp.arg ‹_› _ (List.mem_of_mem_drop ‹_›) _ ?_; rfl)
  | (refine Hyp.arg ‹_› _ ‹_› _ ?_; rfl)
  | (apply NP.bind)
  | (refine pipeGo_np ‹_› _ (fun _ h => h) _ ?_; rfl)
  | intro _
  | split
  | dsimp only
  )



theorem callBasic_np {G ev orc fn args ctx} (H : Hyp G ev orc fn args ctx) :
    ∀ r, callBasic ev fn args ctx = some r → NP G r := by
  intro r h
  unfold callBasic at h
  split at h
  all_goals first | cases h | skip
  all_goals repeat' np_step

theorem callList_np {G ev orc fn args ctx} (H : Hyp G ev orc fn args ctx) :
    ∀ r, callList ev fn args ctx = some r → NP G r := by
  intro r h
  unfold callList at h
  split at h
  all_goals first | cases h | skip
  all_goals repeat' np_step

theorem callObject_np {G ev orc fn args ctx} (H : Hyp G ev orc fn args ctx) :
    ∀ r, callObject ev fn args ctx = some r → NP G r := by
  intro r h
  unfold callObject at h
  split at h
  all_goals first | cases h | skip
  all_goals repeat' np_step

theorem callNumber_np {G ev orc fn args ctx} (H : Hyp G ev orc fn args ctx) :
    ∀ r, callNumber ev fn args ctx = some r → NP G r := by
  intro r h
  unfold callNumber at h
  split at h
  all_goals first | cases h | skip
  all_goals repeat' np_step

theorem callString_np {G ev orc fn args ctx} (H : Hyp G ev orc fn args ctx) :
    ∀ r, callString ev orc fn args ctx = some r → NP G r := by
  intro r h
  unfold callString at h
  split at h
  all_goals first | cases h | skip
  all_goals repeat' np_step

theorem callNas_np {G ev orc fn args ctx} (H : Hyp G ev orc fn args ctx) :
    ∀ r, callNas ev orc fn args ctx = some r → NP G r := by
  intro r h
  unfold callNas at h
  split at h
  all_goals first | cases h | skip
  all_goals repeat' np_step

theorem callBasic_isSome (ev fn args ctx) (ev' args' ctx') :
    (callBasic ev fn args ctx).isSome = (callBasic ev' fn args' ctx').isSome := by
  unfold callBasic
  dsimp only
  split <;> first | rfl | (split <;> first | rfl | contradiction)

theorem callList_isSome (ev fn args ctx) (ev' args' ctx') :
    (callList ev fn args ctx).isSome = (callList ev' fn args' ctx').isSome := by
  unfold callList
  dsimp only
  split <;> first | rfl | (split <;> first | rfl | contradiction)

theorem callObject_isSome (ev fn args ctx) (ev' args' ctx') :
    (callObject ev fn args ctx).isSome = (callObject ev' fn args' ctx').isSome := by
  unfold callObject
  dsimp only
  split <;> first | rfl | (split <;> first | rfl | contradiction)

theorem callNumber_isSome (ev fn args ctx) (ev' args' ctx') :
    (callNumber ev fn args ctx).isSome = (callNumber ev' fn args' ctx').isSome := by
  unfold callNumber
  dsimp only
  split <;> first | rfl | (split <;> first | rfl | contradiction)

theorem callString_isSome (ev orc orc' fn args ctx) (ev' args' ctx') :
    (callString ev orc fn args ctx).isSome = (callString ev' orc' fn args' ctx').isSome := by
  unfold callString
  dsimp only
  split <;> first | rfl | (split <;> first | rfl | contradiction)

theorem callNas_isSome (ev orc orc' fn args ctx) (ev' args' ctx') :
    (callNas ev orc fn args ctx).isSome = (callNas ev' orc' fn args' ctx').isSome := by
  unfold callNas
  dsimp only
  split <;> first | rfl | (split <;> first | rfl | contradiction)

/-! ## The dispatcher does not fall through for the modelled names -/

def dummyEv : Ev := fun _ _ => .ok none

/-- `fn` is handled by one of the six groups of function equations (the answer depends on the
name only, see `callBasic_isSome` …) -/
def modelled (n : String) : Bool :=
  (callBasic dummyEv n [] {}).isSome || (callList dummyEv n [] {}).isSome ||
  (callObject dummyEv n [] {}).isSome || (callNumber dummyEv n [] {}).isSome ||
  (callString dummyEv {} n [] {}).isSome || (callNas dummyEv {} n [] {}).isSome

/-- the three functions of the table that the model leaves out (side effects / clock) -/
def unmodelledNames : List String := ["exec", "trigger", "now"]

/-- every canonical name of the regenerated function table except `exec`, `trigger`, `now`
has an equation in the model -/
theorem callFn_modelled :
    ∀ e ∈ Generated.functionTable, e.1 ∉ unmodelledNames → modelled e.1 = true := by
  decide +kernel

/-- for a modelled name `callFn` is the body chosen by one of the groups: it never reaches
its last branch -/
theorem callFn_modelled_ne (ev : Ev) (orc : Oracles) (fn : String) (args : List Expr) (ctx : Ctx)
    (hm : modelled fn = true) :
    (∃ r, callBasic ev fn args ctx = some r ∧ callFn ev orc fn args ctx = r) ∨
    (∃ r, callList ev fn args ctx = some r ∧ callFn ev orc fn args ctx = r) ∨
    (∃ r, callObject ev fn args ctx = some r ∧ callFn ev orc fn args ctx = r) ∨
    (∃ r, callNumber ev fn args ctx = some r ∧ callFn ev orc fn args ctx = r) ∨
    (∃ r, callString ev orc fn args ctx = some r ∧ callFn ev orc fn args ctx = r) ∨
    (∃ r, callNas ev orc fn args ctx = some r ∧ callFn ev orc fn args ctx = r) := by
  unfold modelled at hm
  rw [callBasic_isSome dummyEv fn [] {} ev args ctx, callList_isSome dummyEv fn [] {} ev args ctx,
    callObject_isSome dummyEv fn [] {} ev args ctx, callNumber_isSome dummyEv fn [] {} ev args ctx,
    callString_isSome dummyEv {} orc fn [] {} ev args ctx,
    callNas_isSome dummyEv {} orc fn [] {} ev args ctx] at hm
  unfold callFn
  cases h1 : callBasic ev fn args ctx with
  | some r => exact Or.inl ⟨r, rfl, rfl⟩
  | none =>
  cases h2 : callList ev fn args ctx with
  | some r => exact Or.inr (Or.inl ⟨r, rfl, rfl⟩)
  | none =>
  cases h3 : callObject ev fn args ctx with
  | some r => exact Or.inr (Or.inr (Or.inl ⟨r, rfl, rfl⟩))
  | none =>
  cases h4 : callNumber ev fn args ctx with
  | some r => exact Or.inr (Or.inr (Or.inr (Or.inl ⟨r, rfl, rfl⟩)))
  | none =>
  cases h5 : callString ev orc fn args ctx with
  | some r => exact Or.inr (Or.inr (Or.inr (Or.inr (Or.inl ⟨r, rfl, rfl⟩))))
  | none =>
  cases h6 : callNas ev orc fn args ctx with
  | some r => exact Or.inr (Or.inr (Or.inr (Or.inr (Or.inr ⟨r, rfl, rfl⟩))))
  | none => simp [h1, h2, h3, h4, h5, h6] at hm

/-- a function call only propagates the aborts of its arguments (and of the oracle), except
for the fall-through of an unmodelled name -/
theorem callFn_np {G ev orc fn args ctx} (H : Hyp G ev orc fn args ctx)
    (hm : modelled fn = true ∨ G (.panic ("unmodelled-function:" ++ fn))) :
    NP G (callFn ev orc fn args ctx) := by
  by_cases hmod : modelled fn = true
  · rcases callFn_modelled_ne ev orc fn args ctx hmod with
      ⟨r, h, e⟩ | ⟨r, h, e⟩ | ⟨r, h, e⟩ | ⟨r, h, e⟩ | ⟨r, h, e⟩ | ⟨r, h, e⟩
    · rw [e]; exact callBasic_np H r h
    · rw [e]; exact callList_np H r h
    · rw [e]; exact callObject_np H r h
    · rw [e]; exact callNumber_np H r h
    · rw [e]; exact callString_np H r h
    · rw [e]; exact callNas_np H r h
  · have hg : G (.panic ("unmodelled-function:" ++ fn)) := hm.resolve_left hmod
    unfold callFn
    split; · exact callBasic_np H _ ‹_›
    split; · exact callList_np H _ ‹_›
    split; · exact callObject_np H _ ‹_›
    split; · exact callNumber_np H _ ‹_›
    split; · exact callString_np H _ ‹_›
    split; · exact callNas_np H _ ‹_›
    exact ⟨fun a h => by cases h; exact hg⟩

/-! ## Expressions -/

theorem allCalls_mono {p q : String → Bool} (hpq : ∀ n, p n = true → q n = true) :
    (∀ e, allCalls p e = true → allCalls q e = true) ∧
    (∀ l, allCallsList p l = true → allCallsList q l = true) := by
  have key : ∀ e : Expr, allCalls p e = true → allCalls q e = true := by
    intro e
    induction e using Expr.rec (motive_2 := fun l => allCallsList p l = true → allCallsList q l = true) with
    | call fn args ih =>
      intro h
      simp only [allCalls, Bool.and_eq_true] at h ⊢
      exact ⟨hpq _ h.1, ih h.2⟩
    | nil => rfl
    | cons e es ihe ihes =>
      rename_i h
      simp only [allCallsList, Bool.and_eq_true] at h ⊢
      exact ⟨ihe h.1, ihes h.2⟩
    | _ => intro _; rfl
  refine ⟨key, ?_⟩
  intro l h
  rw [allCallsList_iff] at h ⊢
  exact fun e he => key e (h e he)

theorem lookup_mem {α} {l : List (Str × α)} {k : Str} {v : α} (h : Ctx.lookup l k = some v) :
    (k, v) ∈ l := by
  induction l with
  | nil => cases h
  | cons x xs ih =>
    obtain ⟨k', v'⟩ := x
    unfold Ctx.lookup at h
    split at h
    · next hk => cases h; subst hk; simp
    · exact List.mem_cons_of_mem _ (ih h)

theorem ask_error {orc : Oracles} {fn : String} {args : List JV} {a : Abort}
    (h : orc.ask fn args = .error a) : a = .panic ("oracle-miss:" ++ fn) := by
  unfold Oracles.ask at h
  dsimp only at h
  split at h
  · cases h
  · cases h; rfl

/-- Generic form.  `allow` is the set of function names that may occur (in the expression and
in the macro definitions of the context), `G` the set of permitted aborts. -/
theorem eval_np (G : Abort → Prop) (orc : Oracles) (allow : String → Bool)
    (hov : G .overflow)
    (hallow : ∀ fn, allow fn = true → modelled fn = true ∨ G (.panic ("unmodelled-function:" ++ fn)))
    (hps : allow "parse_selection" = true → ∀ fn, inTable fn = true → allow fn = true)
    (horc : ∀ fn, fn ∈ oracleFns → allow fn = true → ∀ f, G (.panic ("oracle-miss:" ++ f))) :
    ∀ fuel e ctx, allCalls allow e = true →
      (∀ n d, (n, d) ∈ ctx.defs → allCalls allow d = true) → NP G (eval orc fuel e ctx) := by
  intro fuel
  induction fuel with
  | zero => intro e ctx _ _; exact ⟨fun a h => by cases h; exact hov⟩
  | succ fuel ih =>
    intro e ctx he hd
    unfold eval
    cases e with
    | «macro» n =>
      dsimp only
      split
      · next d hdef => exact ih d ctx (hd n d (lookup_mem hdef)) hd
      · exact NP.ok _
    | call fn args =>
      dsimp only
      simp only [allCalls, Bool.and_eq_true] at he
      have hargs := (allCallsList_iff allow args).1 he.2
      apply callFn_np _ (hallow fn he.1)
      refine ⟨?_, ?_, ?_, ?_, ?_⟩
      · intro e hmem c hc
        exact ih e c (hargs e hmem) (by rw [hc]; exact hd)
      · intro _ e hmem n d hdm
        refine ih e _ (hargs e hmem) ?_
        intro n' d' hmem'
        simp only [Ctx.withDefinition, List.mem_cons, Prod.mk.injEq] at hmem'
        rcases hmem' with ⟨_, rfl⟩ | h
        · exact hargs _ hdm
        · exact hd _ _ h
      · intro _ n d hdef
        exact ih d ctx (hd n d (lookup_mem hdef)) hd
      · intro hfn e hpe
        subst hfn
        exact ih e ctx ((allCalls_mono (hps he.1)).1 e hpe) hd
      · intro hfn f a
        exact ⟨fun x hx => by rw [ask_error hx]; exact horc fn hfn he.1 f⟩
    | _ => exact NP.ok _

theorem allCalls_and (p q : String → Bool) :
    (∀ e, allCalls (fun n => p n && q n) e = (allCalls p e && allCalls q e)) := by
  intro e
  induction e using Expr.rec (motive_2 := fun l =>
      allCallsList (fun n => p n && q n) l = (allCallsList p l && allCallsList q l)) with
  | call fn args ih =>
    simp only [allCalls, ih]
    cases p fn <;> cases q fn <;> cases allCallsList p args <;> cases allCallsList q args <;> rfl
  | nil => rfl
  | cons e es ihe ihes =>
    simp only [allCallsList, ihe, ihes]
    cases allCalls p e <;> cases allCalls q e <;> cases allCallsList p es <;> cases allCallsList q es <;> rfl
  | _ => rfl

/-! ## Statements -/

/-- every function name in `e` has an equation in the model -/
def AllModelled (e : Expr) : Prop := allCalls modelled e = true
/-- every function name in `e` is a canonical name of the regenerated function table
(all the expression parser can produce, see `readGetter_allTable`) -/
def AllTable (e : Expr) : Prop := allCalls inTable e = true
/-- modelled or in the table -/
def AllKnown (e : Expr) : Prop := allCalls (fun n => modelled n || inTable n) e = true
/-- no `parse_selection` (which parses and evaluates an expression at run time) -/
def NoParseSelection (e : Expr) : Prop := allCalls (fun n => n != "parse_selection") e = true
/-- no library-backed function -/
def NoOracleCalls (e : Expr) : Prop := allCalls (fun n => !oracleFns.contains n) e = true

instance (e : Expr) : Decidable (AllModelled e) := inferInstanceAs (Decidable (_ = true))
instance (e : Expr) : Decidable (AllTable e) := inferInstanceAs (Decidable (_ = true))
instance (e : Expr) : Decidable (AllKnown e) := inferInstanceAs (Decidable (_ = true))
instance (e : Expr) : Decidable (NoParseSelection e) := inferInstanceAs (Decidable (_ = true))
instance (e : Expr) : Decidable (NoOracleCalls e) := inferInstanceAs (Decidable (_ = true))

def NoPanic (r : R) : Prop := ∀ s, r ≠ .error (.panic s)

/-- the panic sites of the three functions the model leaves out -/
def unmodelledSites : List String :=
  ["unmodelled-function:exec", "unmodelled-function:trigger", "unmodelled-function:now"]

theorem AllModelled.known {e} (h : AllModelled e) : AllKnown e :=
  (allCalls_mono (fun n hn => by simp [hn])).1 e h
theorem AllTable.known {e} (h : AllTable e) : AllKnown e :=
  (allCalls_mono (fun n hn => by simp [hn])).1 e h

/-- `readGetter_modelled`: the expression parser only produces table names -/
theorem readGetter_allTable {fuel : Nat} {r r' : Reader} {e : Expr}
    (h : readGetter fuel r = (.ok e, r')) : AllTable e :=
  (parser_inTable fuel).1.h r e r' h

/-- every expression accepted by `Filter/Splitter/Grouper::from_str` only has table names -/
theorem parseWholeExpr_allTable {s : Str} {e : Expr} (h : parseWholeExpr s = .ok e) : AllTable e := by
  unfold parseWholeExpr at h
  dsimp only at h
  refine EP.fst (P := fun e => allCalls inTable e = true) ?_ h
  repeat' ep_step'

theorem oracleMiss_startsWith (f : String) : ("oracle-miss:" ++ f).startsWith "oracle-miss:" = true := by
  rw [String.startsWith_string_iff]
  simp [String.toList_append]

theorem known_cases (fn : String) (h : (modelled fn || inTable fn) = true) :
    modelled fn = true ∨ "unmodelled-function:" ++ fn ∈ unmodelledSites := by
  by_cases hm : modelled fn = true
  · exact Or.inl hm
  · simp only [hm, Bool.false_or] at h
    unfold inTable at h
    rw [List.any_eq_true] at h
    obtain ⟨e, he, hfn⟩ := h
    have hfn' : e.1 = fn := by simpa using hfn
    subst hfn'
    by_cases hu : e.1 ∈ unmodelledNames
    · right
      simp only [unmodelledNames, List.mem_cons, List.not_mem_nil, or_false] at hu
      rcases hu with h | h | h <;> rw [h] <;> decide
    · exact Or.inl (callFn_modelled e he hu)

/-- **C05, all expressions.**  For every expression whose function names are modelled or in
the function table (in particular: everything the parser accepts), with macro definitions of
the same kind, a panic of the evaluator is either a missing oracle answer (a harness artefact)
or the call of one of the three unmodelled functions `exec`, `trigger`, `now`. -/
theorem eval_panic_sites (orc : Oracles) (fuel : Nat) (e : Expr) (ctx : Ctx) (s : String)
    (he : AllKnown e) (hd : ∀ n d, (n, d) ∈ ctx.defs → AllKnown d)
    (h : eval orc fuel e ctx = .error (.panic s)) :
    s.startsWith "oracle-miss:" = true ∨ s ∈ unmodelledSites := by
  refine (eval_np (fun a => ∀ s, a = .panic s → s.startsWith "oracle-miss:" = true ∨ s ∈ unmodelledSites)
    orc (fun n => modelled n || inTable n) ?_ ?_ ?_ ?_ fuel e ctx he hd).h _ h s rfl
  · intro s h; cases h
  · intro fn hfn
    rcases known_cases fn hfn with h | h
    · exact Or.inl h
    · right; intro s hs; cases hs; exact Or.inr h
  · intro _ fn hfn; simp [hfn]
  · intro _ _ _ f s hs; cases hs; exact Or.inl (oracleMiss_startsWith f)

/-- **C05, main theorem (no oracle hypothesis).**  If every function name in `e` and in the
macro definitions of the context is modelled and `parse_selection` does not occur, then the
only panic `eval` can return is a missing oracle answer: no site of the evaluator panics. -/
theorem eval_no_panic (orc : Oracles) (fuel : Nat) (e : Expr) (ctx : Ctx) (s : String)
    (he : AllModelled e) (hp : NoParseSelection e)
    (hd : ∀ n d, (n, d) ∈ ctx.defs → AllModelled d ∧ NoParseSelection d)
    (h : eval orc fuel e ctx = .error (.panic s)) :
    s.startsWith "oracle-miss:" = true := by
  refine (eval_np (fun a => ∀ s, a = .panic s → s.startsWith "oracle-miss:" = true)
    orc (fun n => modelled n && n != "parse_selection") ?_ ?_ ?_ ?_ fuel e ctx ?_ ?_).h _ h s rfl
  · intro s h; cases h
  · intro fn hfn
    simp only [Bool.and_eq_true] at hfn
    exact Or.inl hfn.1
  · intro h; simp at h
  · intro _ _ _ f s hs; cases hs; exact oracleMiss_startsWith f
  · rw [allCalls_and]; simp only [Bool.and_eq_true]; exact ⟨he, hp⟩
  · intro n d hnd; rw [allCalls_and]; simp only [Bool.and_eq_true]; exact hd n d hnd

/-- the form of the task statement (`AllModelled` only): `parse_selection` can reach the three
unmodelled names at run time, so their sites have to be allowed (see the counter-example below) -/
theorem eval_no_panic_partial (orc : Oracles) (fuel : Nat) (e : Expr) (ctx : Ctx) (s : String)
    (he : AllModelled e) (hd : ∀ n d, (n, d) ∈ ctx.defs → AllModelled d)
    (h : eval orc fuel e ctx = .error (.panic s)) :
    s.startsWith "oracle-miss:" = true ∨ s ∈ unmodelledSites :=
  eval_panic_sites orc fuel e ctx s he.known (fun n d hnd => (hd n d hnd).known) h

/-- without library-backed functions there is no panic at all -/
theorem eval_no_panic_pure (orc : Oracles) (fuel : Nat) (e : Expr) (ctx : Ctx)
    (he : AllModelled e) (hp : NoParseSelection e) (ho : NoOracleCalls e)
    (hd : ∀ n d, (n, d) ∈ ctx.defs → AllModelled d ∧ NoParseSelection d ∧ NoOracleCalls d) :
    NoPanic (eval orc fuel e ctx) := by
  intro s h
  refine (eval_np (fun a => ∀ s, a ≠ .panic s)
    orc (fun n => modelled n && (n != "parse_selection" && !oracleFns.contains n))
    ?_ ?_ ?_ ?_ fuel e ctx ?_ ?_).h _ h s rfl
  · intro s h; cases h
  · intro fn hfn
    simp only [Bool.and_eq_true] at hfn
    exact Or.inl hfn.1
  · intro h; simp at h
  · intro fn hmem hfn
    simp only [Bool.and_eq_true, Bool.not_eq_true', List.contains_eq_mem, decide_eq_false_iff_not] at hfn
    exact absurd hmem hfn.2.2
  · rw [allCalls_and, allCalls_and]; simp only [Bool.and_eq_true]; exact ⟨he, hp, ho⟩
  · intro n d hnd; rw [allCalls_and, allCalls_and]; simp only [Bool.and_eq_true]; exact hd n d hnd

/-! ### Non-vacuity and the counter-example -/

def isPanicAt (r : R) (s : String) : Bool :=
  match r with
  | .error (.panic t) => t == s
  | _ => false

theorem isPanicAt_eq {r : R} {s : String} (h : isPanicAt r s = true) : r = .error (.panic s) := by
  unfold isPanicAt at h
  split at h
  · simp only [beq_iff_eq] at h; rw [h]
  · cases h


example : AllModelled (.call "take" [.const (.arr []), .const (.num (.pos 0))]) := by decide +kernel
example : NoParseSelection (.call "take" [.const (.arr []), .const (.num (.pos 0))]) := by decide +kernel
example : NoOracleCalls (.call "take" [.const (.arr []), .const (.num (.pos 0))]) := by decide +kernel
/-- a context with a macro definition satisfying the hypotheses -/
example : ∀ n d, (n, d) ∈ ({ defs := [("m".toList, .call "+" [.extract 0 [], .const (.num (.pos 1))])] } : Ctx).defs →
    AllModelled d ∧ NoParseSelection d ∧ NoOracleCalls d := by
  intro n d h
  simp only [List.mem_singleton, Prod.mk.injEq] at h
  obtain ⟨_, rfl⟩ := h
  decide +kernel

/-- `(parse_selection "(now)")` is `AllModelled` … -/
example : AllModelled (.call "parse_selection" [.const (.str "(now)".toList)]) := by decide +kernel
/-- … and panics at a site that is not an oracle miss: `AllModelled` alone is not enough -/
theorem parse_selection_counterexample :
    eval {} 2 (.call "parse_selection" [.const (.str "(now)".toList)]) {} =
      .error (.panic "unmodelled-function:now") :=
  isPanicAt_eq (by decide +kernel)

/-! ## Overflow only comes from the depth fuel -/

end Jawk.NoPanic

namespace Jawk
mutual
/-- nesting depth of function calls -/
def Expr.depth : Expr → Nat
  | .call _ args => Expr.depthList args + 1
  | _ => 0
def Expr.depthList : List Expr → Nat
  | [] => 0
  | e :: es => max (Expr.depth e) (Expr.depthList es)
end

mutual
/-- no macro call and no function that installs a definition or parses an expression at run time -/
def Expr.macroFree : Expr → Bool
  | .macro _ => false
  | .call fn args => fn != "define" && fn != "parse_selection" && Expr.macroFreeList args
  | _ => true
def Expr.macroFreeList : List Expr → Bool
  | [] => true
  | e :: es => Expr.macroFree e && Expr.macroFreeList es
end
end Jawk

namespace Jawk.NoPanic

/-- `MacroFree e`: no `.macro` node, no `define`, no `parse_selection` -/
def MacroFree (e : Expr) : Prop := e.macroFree = true
instance (e : Expr) : Decidable (MacroFree e) := inferInstanceAs (Decidable (_ = true))

theorem depth_le_depthList {e : Expr} {l : List Expr} (h : e ∈ l) : e.depth ≤ Expr.depthList l := by
  induction l with
  | nil => cases h
  | cons x xs ih =>
    simp only [Expr.depthList]
    rcases List.mem_cons.1 h with rfl | h
    · exact Nat.le_max_left _ _
    · exact Nat.le_trans (ih h) (Nat.le_max_right _ _)

theorem macroFreeList_iff (l : List Expr) :
    Expr.macroFreeList l = true ↔ ∀ e ∈ l, e.macroFree = true := by
  induction l with
  | nil => simp [Expr.macroFreeList]
  | cons x xs ih => simp [Expr.macroFreeList, ih]

/-- **Overflow only by depth.**  In a context without macro definitions, an expression without
macro calls, `define` and `parse_selection` never overflows once the fuel exceeds its nesting
depth: the fuel only matters for (self-referential) macros. -/
theorem eval_overflow_only_by_depth (orc : Oracles) :
    ∀ (fuel : Nat) (e : Expr) (ctx : Ctx), ctx.defs = [] → MacroFree e → fuel ≥ e.depth + 1 →
      eval orc fuel e ctx ≠ .error .overflow := by
  suffices H : ∀ (fuel : Nat) (e : Expr) (ctx : Ctx), ctx.defs = [] → MacroFree e → fuel ≥ e.depth + 1 →
      NP (fun a => a ≠ .overflow) (eval orc fuel e ctx) from
    fun fuel e ctx hd hm hf h => (H fuel e ctx hd hm hf).h _ h rfl
  intro fuel
  induction fuel with
  | zero => intro e ctx _ _ hf; omega
  | succ fuel ih =>
    intro e ctx hd hm hf
    unfold eval
    cases e with
    | «macro» n => cases hm
    | call fn args =>
      dsimp only
      simp only [MacroFree, Expr.macroFree, Bool.and_eq_true, bne_iff_ne, ne_eq] at hm
      obtain ⟨⟨hdef, hps⟩, hargs⟩ := hm
      have hargs := (macroFreeList_iff args).1 hargs
      simp only [Expr.depth] at hf
      apply callFn_np _ (Or.inr (by intro h; cases h))
      refine ⟨?_, ?_, ?_, ?_, ?_⟩
      · intro e hmem c hc
        have := depth_le_depthList hmem
        exact ih e c (by rw [hc]; exact hd) (hargs e hmem) (by omega)
      · intro h; exact absurd h hdef
      · intro _ n d hdef
        simp [Ctx.getDefinition, hd, Ctx.lookup] at hdef
      · intro h; exact absurd h hps
      · intro _ f a
        exact ⟨fun x hx => by rw [ask_error hx]; intro h; cases h⟩
    | _ => exact NP.ok _

/-- the pipeline's `evalFuel = 2000` is never the limit for macro-free expressions of depth < 2000 -/
theorem evalFuel_enough (orc : Oracles) (e : Expr) (ctx : Ctx) (hd : ctx.defs = []) (hm : MacroFree e)
    (hdepth : e.depth < evalFuel) : eval orc evalFuel e ctx ≠ .error .overflow :=
  eval_overflow_only_by_depth orc evalFuel e ctx hd hm (by omega)

/-- non-vacuity: a macro-free expression of depth 2 … -/
example : MacroFree (.call "not" [.call "=" [.extract 0 [], .const .null]]) ∧
    (Expr.call "not" [.call "=" [.extract 0 [], .const .null]]).depth = 2 := by decide +kernel
/-- … and the bound is sharp: with fuel equal to the depth the evaluation overflows -/
example : eval {} 2 (.call "not" [.call "=" [.extract 0 [], .const .null]]) {} = .error .overflow := by
  rfl
/-- the fuel does matter for a self-referential macro -/
example : eval {} 50 (.macro "m".toList) { defs := [("m".toList, .macro "m".toList)] } = .error .overflow := by
  rfl

-- #print axioms callFn_modelled               -- [propext, Classical.choice, Quot.sound]
-- #print axioms eval_panic_sites              -- [propext, Classical.choice, Quot.sound]
-- #print axioms eval_no_panic                 -- [propext, Classical.choice, Quot.sound]
-- #print axioms eval_no_panic_partial         -- [propext, Classical.choice, Quot.sound]
-- #print axioms eval_no_panic_pure            -- [propext, Classical.choice, Quot.sound]
-- #print axioms parse_selection_counterexample
-- #print axioms eval_overflow_only_by_depth   -- [propext, Classical.choice, Quot.sound]

end Jawk.NoPanic
