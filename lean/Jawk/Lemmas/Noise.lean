/-
  C06 — noise between values never changes them; `--on-error=panic`; clean streams produce no report.

  Bytes that cannot start a JSON value (`Garbage`), placed between values in white-space delimited
  tokens, are skipped by the read loop one byte at a time, each costing exactly one recoverable
  `unexpectedChar` error; the values read (and hence the rows fed to the pipeline) are those of the
  stream with the garbage removed.
-/
import Jawk.Lemmas.RunSpec
import Jawk.Lemmas.RoundTrip
import Jawk.Props.C06
namespace Jawk.Noise
open Jawk Jawk.Pipe Jawk.Fuel Jawk.RunSpec Jawk.RT Jawk.C06 Reader

/-! ### 1. one garbage byte, a run of garbage bytes -/

theorem dispatch_garbage (fuel : Nat) (b : Byte) (hg : Garbage b = true) :
    dispatch fuel b = (do let _ ← next; locErr (fun l => .unexpectedChar l b valueExpected)) := by
  simp only [Garbage, Bool.and_eq_true, Bool.not_eq_true', bne_iff_ne, ne_eq] at hg
  obtain ⟨⟨⟨⟨⟨⟨⟨⟨hws, hd⟩, ht⟩, hf⟩, hn⟩, hq⟩, hm⟩, hb⟩, ho⟩ := hg
  have hd' : (b = 45 || isDigit b) = false := by simp [hm, hd]
  unfold dispatch
  simp only [ht, hf, hn, hq, hd', hb, ho, if_false, Bool.false_eq_true]

theorem garbage_not_ws {b : Byte} (hg : Garbage b = true) : isWs b = false := by
  simp only [Garbage, Bool.and_eq_true, Bool.not_eq_true'] at hg
  exact hg.1.1.1.1.1.1.1.1

/-- One `nextJson` call on `ws ++ b :: rest` (`ws` white space, `b` garbage): the white space and exactly
the byte `b` are consumed; the result is the recoverable error `unexpectedChar` located after `b`. -/
theorem garbage_one (ws : List Byte) (hws : ∀ b ∈ ws, isWs b = true) (b : Byte) (hg : Garbage b = true)
    (rest : List Byte) (r : Reader) (hr : Ready r (ws ++ b :: rest)) :
    ∃ r', r.nextJson = (.error (.unexpectedChar r'.loc b valueExpected), r') ∧ Ready r' rest := by
  have hl := ready_length hr
  simp only [List.length_append, List.length_cons] at hl
  obtain ⟨r1, hat, hnv⟩ := nextValue_dispatch ws hws b rest (garbage_not_ws hg) r hr
    (4 * r.rest.length + 9) (by omega)
  obtain ⟨x, r', hn, hr'⟩ := next_at_ready hat
  refine ⟨r', ?_, hr'⟩
  rw [Reader.nextJson, show 4 * r.rest.length + 10 = 4 * r.rest.length + 9 + 1 from rfl, hnv,
    dispatch_garbage _ _ hg, PM.bind_ok hn]
  rfl

/-- successive `nextJson` calls that all return recoverable errors: the errors, the final reader -/
inductive Skips : Reader → List PErr → Reader → Prop
  | nil (r : Reader) : Skips r [] r
  | cons {r r1 r' : Reader} {e : PErr} {es : List PErr} :
      r.nextJson = (.error e, r1) → e.canRecover = true → Skips r1 es r' → Skips r (e :: es) r'

theorem Skips.append {r r1 r2 : Reader} {es fs : List PErr} (h1 : Skips r es r1) (h2 : Skips r1 fs r2) :
    Skips r (es ++ fs) r2 := by
  induction h1 with
  | nil r => exact h2
  | cons hn hrec _ ih => exact Skips.cons hn hrec (ih h2)

theorem Skips.canRecover {r r' : Reader} {es : List PErr} (h : Skips r es r') :
    ∀ e ∈ es, e.canRecover = true := by
  induction h with
  | nil r => intro e he; cases he
  | cons hn hrec _ ih =>
    intro e he
    rcases List.mem_cons.mp he with rfl | he
    · exact hrec
    · exact ih e he

/-- **garbage_run.** `ws ++ g ++ rest` with `ws` white space and `g` a non-empty run of garbage bytes:
`|g|` successive `nextJson` calls each return a recoverable error, and the reader then stands before `rest`. -/
theorem garbage_run (ws : List Byte) (hws : ∀ b ∈ ws, isWs b = true) (g : List Byte)
    (hg : ∀ b ∈ g, Garbage b = true) (hne : g ≠ []) (rest : List Byte) (r : Reader)
    (hr : Ready r (ws ++ (g ++ rest))) :
    ∃ es r', Skips r es r' ∧ es.length = g.length ∧ Ready r' rest := by
  induction g generalizing ws r with
  | nil => exact absurd rfl hne
  | cons b g ih =>
    obtain ⟨r1, h1, hr1⟩ := garbage_one ws hws b (hg b (by simp)) (g ++ rest) r (by simpa using hr)
    cases g with
    | nil => exact ⟨[_], r1, Skips.cons h1 rfl (Skips.nil _), rfl, by simpa using hr1⟩
    | cons b' g =>
      obtain ⟨es, r', h2, hlen, hr'⟩ := ih [] (by simp) (fun x hx => hg x (by simp [hx])) (by simp) r1
        (by simpa using hr1)
      exact ⟨_ :: es, r', Skips.cons h1 rfl h2, by simp [hlen], hr'⟩

/-! ### fuel independence of the pure read functions -/

theorem ready_wf {r : Reader} {bs : List Byte} (h : Ready r bs) : WF r := by
  intro he
  have hb := h.2 he
  subst hb
  have hp := h.1
  cases hc : r.cur with
  | none => rfl
  | some b => simp [Reader.pending, hc, cleanInput] at hp

/-- above `μ r + 1` the fuel of `ctxsOf` does not matter -/
theorem ctxsOf_fuel (c : Cfg) (f₁ f₂ : Nat) (r : Reader) (i k : Nat) (hw : WF r)
    (h1 : μ r + 1 ≤ f₁) (h2 : μ r + 1 ≤ f₂) : ctxsOf c f₁ r i k = ctxsOf c f₂ r i k := by
  induction f₁ generalizing f₂ r i k with
  | zero => omega
  | succ f₁ ih =>
    obtain ⟨f₂, rfl⟩ : ∃ m, f₂ = m + 1 := ⟨f₂ - 1, by omega⟩
    have hm := nextJson_mono r
    rcases hn : r.nextJson with ⟨res, r'⟩
    rw [hn] at hm
    have hw' := hm.wf hw
    cases res with
    | error e =>
      have hp := (nextJson_progress r hw hn (by intro h; cases h)).2
      simp only [ctxsOf, hn]
      split
      · exact ih f₂ r' i k hw' (by omega) (by omega)
      · rfl
    | ok o =>
      cases o with
      | none => simp only [ctxsOf, hn]
      | some v =>
        have hp := (nextJson_progress r hw hn (by intro h; cases h)).2
        simp only [ctxsOf, hn]
        split
        · exact ih f₂ r' i k hw' (by omega) (by omega)
        · rw [ih f₂ r' (i + 1) (k + 1) hw' (by omega) (by omega)]

/-- the same for `errsOf` -/
theorem errsOf_fuel (ev : Expr → Ctx → Option JV) (c : Cfg) (cfgs : List StageCfg) (f₁ f₂ : Nat) (r : Reader)
    (i k : Nat) (sts : List StageSt) (hw : WF r) (h1 : μ r + 1 ≤ f₁) (h2 : μ r + 1 ≤ f₂) :
    errsOf ev c cfgs f₁ r i k sts = errsOf ev c cfgs f₂ r i k sts := by
  induction f₁ generalizing f₂ r i k sts with
  | zero => omega
  | succ f₁ ih =>
    obtain ⟨f₂, rfl⟩ : ∃ m, f₂ = m + 1 := ⟨f₂ - 1, by omega⟩
    have hm := nextJson_mono r
    rcases hn : r.nextJson with ⟨res, r'⟩
    rw [hn] at hm
    have hw' := hm.wf hw
    cases res with
    | error e =>
      have hp := (nextJson_progress r hw hn (by intro h; cases h)).2
      simp only [errsOf, hn]
      split
      · rw [ih f₂ r' i k sts hw' (by omega) (by omega)]
      · rfl
    | ok o =>
      cases o with
      | none => simp only [errsOf, hn]
      | some v =>
        have hp := (nextJson_progress r hw hn (by intro h; cases h)).2
        simp only [errsOf, hn]
        split
        · exact ih f₂ r' i k sts hw' (by omega) (by omega)
        · split
          · rfl
          · exact ih f₂ r' (i + 1) (k + 1) _ hw' (by omega) (by omega)

/-- the recoverable errors a reader meets up to the end of its input (or an I/O error), whatever the
pipeline does: what `errsOf` lists when the chain never answers `Break` -/
def perrsOf : Nat → Reader → List PErr
  | 0, _ => []
  | fuel + 1, r =>
    match r.nextJson with
    | (.ok (some _), r') => perrsOf fuel r'
    | (.ok none, _) => []
    | (.error e, r') => if e.canRecover then e :: perrsOf fuel r' else []

theorem perrsOf_fuel (f₁ f₂ : Nat) (r : Reader) (hw : WF r)
    (h1 : μ r + 1 ≤ f₁) (h2 : μ r + 1 ≤ f₂) : perrsOf f₁ r = perrsOf f₂ r := by
  induction f₁ generalizing f₂ r with
  | zero => omega
  | succ f₁ ih =>
    obtain ⟨f₂, rfl⟩ : ∃ m, f₂ = m + 1 := ⟨f₂ - 1, by omega⟩
    have hm := nextJson_mono r
    rcases hn : r.nextJson with ⟨res, r'⟩
    rw [hn] at hm
    have hw' := hm.wf hw
    cases res with
    | error e =>
      have hp := (nextJson_progress r hw hn (by intro h; cases h)).2
      simp only [perrsOf, hn]
      split
      · rw [ih f₂ r' hw' (by omega) (by omega)]
      · rfl
    | ok o =>
      cases o with
      | none => simp only [perrsOf, hn]
      | some v =>
        have hp := (nextJson_progress r hw hn (by intro h; cases h)).2
        simp only [perrsOf, hn]
        exact ih f₂ r' hw' (by omega) (by omega)

/-- `errsOf` lists a prefix of the errors in the input: it stops early only when the chain answers `Break` -/
theorem errsOf_prefix (ev : Expr → Ctx → Option JV) (c : Cfg) (cfgs : List StageCfg) (fuel : Nat) (r : Reader)
    (i k : Nat) (sts : List StageSt) : errsOf ev c cfgs fuel r i k sts <+: perrsOf fuel r := by
  induction fuel generalizing r i k sts with
  | zero => exact List.prefix_refl _
  | succ fuel ih =>
    rcases hn : r.nextJson with ⟨res, r'⟩
    cases res with
    | error e =>
      simp only [errsOf, perrsOf, hn]
      split
      · exact List.cons_prefix_cons.mpr ⟨rfl, ih _ _ _ _⟩
      · exact List.prefix_refl _
    | ok o =>
      cases o with
      | none => simp only [errsOf, perrsOf, hn]; exact List.prefix_refl _
      | some v =>
        simp only [errsOf, perrsOf, hn]
        split
        · exact ih _ _ _ _
        · split
          · exact List.nil_prefix
          · exact ih _ _ _ _

/-- when the chain never answers `Break` on the rows read, `errsOf` lists every error in the input -/
theorem errsOf_eq_perrsOf (ev : Expr → Ctx → Option JV) (c : Cfg) (cfgs : List StageCfg) (fuel : Nat) (r : Reader)
    (i k : Nat) (sts : List StageSt)
    (h : (feedBrk (processP ev cfgs) sts (ctxsOf c fuel r i k)).2.2 = .cont) :
    errsOf ev c cfgs fuel r i k sts = perrsOf fuel r := by
  induction fuel generalizing r i k sts with
  | zero => rfl
  | succ fuel ih =>
    rcases hn : r.nextJson with ⟨res, r'⟩
    cases res with
    | error e =>
      simp only [errsOf, perrsOf, ctxsOf, hn] at h ⊢
      split
      · rename_i hrec
        simp only [hrec, if_true] at h
        rw [ih _ _ _ _ h]
      · rfl
    | ok o =>
      cases o with
      | none => simp only [errsOf, perrsOf, hn]
      | some v =>
        simp only [errsOf, perrsOf, ctxsOf, hn] at h ⊢
        split
        · rename_i hsk
          simp only [hsk, if_true] at h
          exact ih _ _ _ _ h
        · rename_i hsk
          simp only [hsk, Bool.false_eq_true, if_false] at h
          rcases hP : processP ev cfgs sts
            { input := v, ictx := some { startLoc := r.loc, endLoc := r'.loc, fileIndex := i, index := k } }
            with ⟨s1, o1, d⟩
          cases d with
          | brk => rw [feedBrk_cons_brk hP] at h; cases h
          | cont =>
            rw [feedBrk_cons_cont hP] at h
            exact ih _ _ _ _ h

/-- with no stage at all the chain never answers `Break` -/
theorem feedBrk_nil_chain (sts : List StageSt) (rows : List Ctx) :
    (feedBrk (processP ev []) sts rows).2.2 = .cont := by
  induction rows generalizing sts with
  | nil => rfl
  | cons x rows ih =>
    have hP : processP ev [] sts x = ([], [x], .cont) := by simp [processP]
    rw [feedBrk_cons_cont hP]
    exact ih _

/-! ### the pure read functions at their canonical fuel, one step at a time -/

/-- the rows of the rest of the input behind reader `r` -/
def rowsAt (c : Cfg) (r : Reader) (i k : Nat) : List Ctx := ctxsOf c (μ r + 1) r i k

/-- the recoverable errors in the rest of the input behind reader `r` -/
def perrsAt (r : Reader) : List PErr := perrsOf (μ r + 1) r

theorem ctxsOf_eq_rowsAt (c : Cfg) (f : Nat) (r : Reader) (i k : Nat) (hw : WF r) (hf : μ r + 1 ≤ f) :
    ctxsOf c f r i k = rowsAt c r i k := ctxsOf_fuel c f _ r i k hw hf (Nat.le_refl _)

theorem perrsOf_eq_perrsAt (f : Nat) (r : Reader) (hw : WF r) (hf : μ r + 1 ≤ f) :
    perrsOf f r = perrsAt r := perrsOf_fuel f _ r hw hf (Nat.le_refl _)

theorem step_facts {r r' : Reader} {res : Except PErr (Option JV)} (hw : WF r)
    (hn : r.nextJson = (res, r')) (h : res ≠ .ok none) : WF r' ∧ μ r' + 1 ≤ μ r := by
  have hm := nextJson_mono r
  rw [hn] at hm
  have hp := (nextJson_progress r hw hn h).2
  exact ⟨hm.wf hw, by omega⟩

theorem rowsAt_error (c : Cfg) {r r' : Reader} {e : PErr} (i k : Nat) (hw : WF r)
    (hn : r.nextJson = (.error e, r')) (hrec : e.canRecover = true) : rowsAt c r i k = rowsAt c r' i k := by
  obtain ⟨hw', hμ⟩ := step_facts hw hn (by intro h; cases h)
  rw [rowsAt, ctxsOf]
  simp only [hn, hrec, if_true]
  exact ctxsOf_eq_rowsAt c _ r' i k hw' hμ

theorem rowsAt_value (c : Cfg) {r r' : Reader} {v : JV} (i k : Nat) (hw : WF r)
    (hn : r.nextJson = (.ok (some v), r')) :
    rowsAt c r i k =
      if c.onlyObjectsAndArrays && !v.isObjOrArr then rowsAt c r' i k
      else { input := v, ictx := some { startLoc := r.loc, endLoc := r'.loc, fileIndex := i, index := k } }
        :: rowsAt c r' (i + 1) (k + 1) := by
  obtain ⟨hw', hμ⟩ := step_facts hw hn (by intro h; cases h)
  rw [rowsAt, ctxsOf]
  simp only [hn]
  rw [ctxsOf_eq_rowsAt c _ r' i k hw' hμ, ctxsOf_eq_rowsAt c _ r' (i + 1) (k + 1) hw' hμ]

theorem rowsAt_end (c : Cfg) {r r' : Reader} (i k : Nat) (hn : r.nextJson = (.ok none, r')) :
    rowsAt c r i k = [] := by
  rw [rowsAt, ctxsOf]
  simp only [hn]

theorem perrsAt_error {r r' : Reader} {e : PErr} (hw : WF r)
    (hn : r.nextJson = (.error e, r')) (hrec : e.canRecover = true) : perrsAt r = e :: perrsAt r' := by
  obtain ⟨hw', hμ⟩ := step_facts hw hn (by intro h; cases h)
  rw [perrsAt, perrsOf]
  simp only [hn, hrec, if_true]
  rw [perrsOf_eq_perrsAt _ r' hw' hμ]

theorem perrsAt_value {r r' : Reader} {v : JV} (hw : WF r)
    (hn : r.nextJson = (.ok (some v), r')) : perrsAt r = perrsAt r' := by
  obtain ⟨hw', hμ⟩ := step_facts hw hn (by intro h; cases h)
  rw [perrsAt, perrsOf]
  simp only [hn]
  exact perrsOf_eq_perrsAt _ r' hw' hμ

theorem perrsAt_end {r r' : Reader} (hn : r.nextJson = (.ok none, r')) : perrsAt r = [] := by
  rw [perrsAt, perrsOf]
  simp only [hn]

theorem Skips.wf {r r' : Reader} {es : List PErr} (h : Skips r es r') (hw : WF r) : WF r' := by
  induction h with
  | nil r => exact hw
  | cons hn hrec _ ih => exact ih (step_facts hw hn (by intro h; cases h)).1

/-- skipped errors do not show in the rows: the rows behind `r` are the rows behind `r'`
(same contexts, locations included; the index is not advanced) -/
theorem Skips.rowsAt (c : Cfg) {r r' : Reader} {es : List PErr} (h : Skips r es r') (hw : WF r) (i k : Nat) :
    rowsAt c r i k = rowsAt c r' i k := by
  induction h with
  | nil r => rfl
  | cons hn hrec _ ih =>
    rw [rowsAt_error c i k hw hn hrec]
    exact ih (step_facts hw hn (by intro h; cases h)).1

/-- … and are exactly what is added to the error list -/
theorem Skips.perrsAt {r r' : Reader} {es : List PErr} (h : Skips r es r') (hw : WF r) :
    perrsAt r = es ++ perrsAt r' := by
  induction h with
  | nil r => rfl
  | cons hn hrec _ ih =>
    rw [perrsAt_error hw hn hrec, ih (step_facts hw hn (by intro h; cases h)).1]
    rfl

/-- Item 1, consequence for `ctxsOf`: over `ws ++ g ++ rest` (`g` a non-empty garbage run) the rows are the
rows behind a reader `r'` standing before `rest` — for every sufficient fuel on either side — and the list of
errors in the input is `|g|` entries longer. -/
theorem garbage_run_ctxsOf (c : Cfg) (ws : List Byte) (hws : ∀ b ∈ ws, isWs b = true) (g : List Byte)
    (hg : ∀ b ∈ g, Garbage b = true) (hne : g ≠ []) (rest : List Byte) (r : Reader)
    (hr : Ready r (ws ++ (g ++ rest))) :
    ∃ es r', Ready r' rest ∧ es.length = g.length ∧ (∀ e ∈ es, e.canRecover = true) ∧
      ∀ (fuel fuel' : Nat), μ r + 1 ≤ fuel → μ r' + 1 ≤ fuel' →
        (∀ i k, ctxsOf c fuel r i k = ctxsOf c fuel' r' i k) ∧
        perrsOf fuel r = es ++ perrsOf fuel' r' := by
  obtain ⟨es, r', hs, hlen, hr'⟩ := garbage_run ws hws g hg hne rest r hr
  refine ⟨es, r', hr', hlen, hs.canRecover, fun fuel fuel' hf hf' => ⟨fun i k => ?_, ?_⟩⟩
  · rw [ctxsOf_eq_rowsAt c fuel r i k (ready_wf hr) hf, ctxsOf_eq_rowsAt c fuel' r' i k (ready_wf hr') hf',
      hs.rowsAt c (ready_wf hr)]
  · rw [perrsOf_eq_perrsAt fuel r (ready_wf hr) hf, perrsOf_eq_perrsAt fuel' r' (ready_wf hr') hf', hs.perrsAt (ready_wf hr)]

/-! ### 2. noisy streams

A stream is `gap₀ text(v₁) gap₁ … text(vₙ) gapₙ`.  A gap is a white-space run followed by garbage tokens,
each token a non-empty run of garbage bytes followed by a white-space run. -/

/-- what stands between two values: white space `ws`, then tokens `(garbage, white space)` -/
structure Gap where
  ws : List Byte := []
  toks : List (List Byte × List Byte) := []
  deriving Inhabited

def toksBytes (toks : List (List Byte × List Byte)) : List Byte := toks.flatMap (fun t => t.1 ++ t.2)

def Gap.bytes (g : Gap) : List Byte := g.ws ++ toksBytes g.toks

/-- the number of garbage bytes in the gap -/
def Gap.garbage (g : Gap) : Nat := (g.toks.map (fun t => t.1.length)).sum

/-- the gap with its garbage bytes deleted (all white space kept) -/
def Gap.strip (g : Gap) : Gap := { ws := g.ws ++ g.toks.flatMap (·.2), toks := [] }

/-- `ws` is white space; every token is a non-empty run of garbage bytes followed by white space -/
def Gap.OK (g : Gap) : Prop :=
  (∀ b ∈ g.ws, isWs b = true) ∧
  ∀ t ∈ g.toks, t.1 ≠ [] ∧ (∀ b ∈ t.1, Garbage b = true) ∧ (∀ b ∈ t.2, isWs b = true)

/-- the bytes of the stream: first gap, then every value (printed with options `o`) followed by its gap -/
def stream (o : JsonOpts) (g0 : Gap) (items : List (JV × Gap)) : List Byte :=
  g0.bytes ++ items.flatMap (fun x => utf8 (printJson o x.1) ++ x.2.bytes)

/-- every value is printable, every gap well formed; the gap after a value starts with white space
(garbage never touches a value) unless it is empty and ends the stream -/
def ItemsOK (o : JsonOpts) : List (JV × Gap) → Prop
  | [] => True
  | (v, g) :: rest =>
    Printable o v ∧ g.OK ∧ (g.ws ≠ [] ∨ (g.toks = [] ∧ rest = [])) ∧ ItemsOK o rest

/-- the clean twin: same values, same white space, no garbage -/
def stripItems (items : List (JV × Gap)) : List (JV × Gap) := items.map (fun x => (x.1, x.2.strip))

/-- total number of garbage bytes -/
def garbageCount (g0 : Gap) (items : List (JV × Gap)) : Nat :=
  g0.garbage + (items.map (fun x => x.2.garbage)).sum

/-- number of gaps that contain garbage (the "malformed regions") -/
def noisyGaps (g0 : Gap) (items : List (JV × Gap)) : Nat :=
  ((g0 :: items.map (·.2)).filter (fun g => !g.toks.isEmpty)).length

/-- top-level scalars are dropped under `--only-objects-and-arrays` -/
def applyOnlyObj (c : Cfg) (vs : List JV) : List JV :=
  vs.filter (fun v => !(c.onlyObjectsAndArrays && !v.isObjOrArr))

theorem applyOnlyObj_off (c : Cfg) (h : c.onlyObjectsAndArrays = false) (vs : List JV) :
    applyOnlyObj c vs = vs := by
  simp [applyOnlyObj, h]

theorem applyOnlyObj_on (c : Cfg) (h : c.onlyObjectsAndArrays = true) (vs : List JV) :
    applyOnlyObj c vs = vs.filter (·.isObjOrArr) := by
  simp [applyOnlyObj, h]

theorem Gap.strip_OK {g : Gap} (h : g.OK) : g.strip.OK := by
  refine ⟨?_, fun t ht => by cases ht⟩
  intro b hb
  simp only [Gap.strip, List.mem_append, List.mem_flatMap] at hb
  rcases hb with hb | ⟨t, ht, hb⟩
  · exact h.1 b hb
  · exact (h.2 t ht).2.2 b hb

theorem Gap.strip_garbage (g : Gap) : g.strip.garbage = 0 := rfl

theorem stripItems_OK (o : JsonOpts) (items : List (JV × Gap)) (h : ItemsOK o items) :
    ItemsOK o (stripItems items) := by
  induction items with
  | nil => trivial
  | cons x rest ih =>
    obtain ⟨v, g⟩ := x
    obtain ⟨hv, hg, hsep, hrest⟩ := h
    refine ⟨hv, Gap.strip_OK hg, ?_, ih hrest⟩
    rcases hsep with hsep | ⟨h1, h2⟩
    · left
      simp only [Gap.strip]
      intro h
      exact hsep (List.append_eq_nil_iff.mp h).1
    · right
      subst h2
      exact ⟨rfl, rfl⟩

theorem stripItems_values (items : List (JV × Gap)) : (stripItems items).map (·.1) = items.map (·.1) := by
  simp [stripItems, Function.comp_def]

theorem garbageCount_strip (g0 : Gap) (items : List (JV × Gap)) :
    garbageCount g0.strip (stripItems items) = 0 := by
  simp only [garbageCount, Gap.strip_garbage, stripItems, List.map_map, Nat.zero_add]
  induction items with
  | nil => rfl
  | cons x rest ih => simpa [Gap.strip_garbage] using ih

/-- a gap that contains garbage contains at least one garbage byte -/
theorem Gap.garbage_pos {g : Gap} (h : g.OK) (hne : g.toks.isEmpty = false) : 1 ≤ g.garbage := by
  obtain ⟨ws, toks⟩ := g
  cases toks with
  | nil => cases hne
  | cons t toks =>
    have := (h.2 t (by simp)).1
    have hl : 1 ≤ t.1.length := List.length_pos_iff.mpr this
    simp only [Gap.garbage, List.map_cons, List.sum_cons]
    omega

theorem ItemsOK.gaps {o : JsonOpts} {items : List (JV × Gap)} (h : ItemsOK o items) :
    ∀ x ∈ items, x.2.OK := by
  induction items with
  | nil => intro x hx; cases hx
  | cons y rest ih =>
    obtain ⟨v, g⟩ := y
    obtain ⟨_, hg, _, hrest⟩ := h
    intro x hx
    rcases List.mem_cons.mp hx with rfl | hx
    · exact hg
    · exact ih hrest x hx

/-- every malformed region holds at least one garbage byte: regions ≤ garbage bytes -/
theorem noisyGaps_le (o : JsonOpts) (g0 : Gap) (items : List (JV × Gap)) (h0 : g0.OK) (h : ItemsOK o items) :
    noisyGaps g0 items ≤ garbageCount g0 items := by
  have key : ∀ (gs : List Gap), (∀ g ∈ gs, g.OK) →
      (gs.filter (fun g => !g.toks.isEmpty)).length ≤ (gs.map Gap.garbage).sum := by
    intro gs hgs
    induction gs with
    | nil => simp
    | cons g gs ih =>
      have ih' := ih (fun x hx => hgs x (by simp [hx]))
      simp only [List.filter_cons, List.map_cons, List.sum_cons]
      cases hne : g.toks.isEmpty with
      | true => simp only [Bool.not_true, Bool.false_eq_true, if_false]; omega
      | false =>
        have := Gap.garbage_pos (hgs g (by simp)) hne
        simp only [Bool.not_false, if_true, List.length_cons]
        omega
  have := key (g0 :: items.map (·.2)) (by
    intro g hg
    rcases List.mem_cons.mp hg with rfl | hg
    · exact h0
    · obtain ⟨x, hx, rfl⟩ := List.mem_map.mp hg
      exact h.gaps x hx)
  simpa [noisyGaps, garbageCount, List.map_map, Function.comp_def] using this

/-! ### reading a noisy stream -/

theorem toks_skips (toks : List (List Byte × List Byte))
    (htoks : ∀ t ∈ toks, t.1 ≠ [] ∧ (∀ b ∈ t.1, Garbage b = true) ∧ (∀ b ∈ t.2, isWs b = true))
    (w : List Byte) (hw : ∀ b ∈ w, isWs b = true) (rest : List Byte) (r : Reader)
    (hr : Ready r (w ++ (toksBytes toks ++ rest))) :
    ∃ es r' w', Skips r es r' ∧ es.length = (toks.map (fun t => t.1.length)).sum ∧
      (∀ b ∈ w', isWs b = true) ∧ Ready r' (w' ++ rest) := by
  induction toks generalizing w r with
  | nil => exact ⟨[], r, w, Skips.nil r, rfl, hw, by simpa [toksBytes] using hr⟩
  | cons t toks ih =>
    obtain ⟨hne, hg, hws⟩ := htoks t (by simp)
    have hr1 : Ready r (w ++ (t.1 ++ (t.2 ++ (toksBytes toks ++ rest)))) := by
      simpa [toksBytes, List.append_assoc] using hr
    obtain ⟨es1, r1, hs1, hlen1, hr1'⟩ := garbage_run w hw t.1 hg hne _ r hr1
    obtain ⟨es2, r2, w', hs2, hlen2, hw', hr2⟩ :=
      ih (fun x hx => htoks x (by simp [hx])) t.2 hws r1 hr1'
    exact ⟨es1 ++ es2, r2, w', hs1.append hs2, by simp [hlen1, hlen2], hw', hr2⟩

/-- a gap (after any white space `w`): its garbage bytes are skipped one error each; the reader then stands
before some white space and what follows the gap -/
theorem gap_skips (g : Gap) (hg : g.OK) (w : List Byte) (hw : ∀ b ∈ w, isWs b = true) (rest : List Byte)
    (r : Reader) (hr : Ready r (w ++ (g.bytes ++ rest))) :
    ∃ es r' w', Skips r es r' ∧ es.length = g.garbage ∧ (∀ b ∈ w', isWs b = true) ∧ Ready r' (w' ++ rest) := by
  have hr1 : Ready r ((w ++ g.ws) ++ (toksBytes g.toks ++ rest)) := by
    simpa [Gap.bytes, List.append_assoc] using hr
  exact toks_skips g.toks hg.2 (w ++ g.ws) (ws_append hw hg.1) rest r hr1

theorem stream_cons (o : JsonOpts) (g0 : Gap) (v : JV) (g : Gap) (rest : List (JV × Gap)) :
    stream o g0 ((v, g) :: rest) = g0.bytes ++ (utf8 (printJson o v) ++ stream o g rest) := by
  simp [stream, List.append_assoc]

theorem delim_stream (o : JsonOpts) (v : JV) (g : Gap) (rest : List (JV × Gap)) (hg : g.OK)
    (hsep : g.ws ≠ [] ∨ (g.toks = [] ∧ rest = [])) : Delim v (stream o g rest) := by
  apply Delim.of_numDelim
  obtain ⟨ws, toks⟩ := g
  cases ws with
  | nil =>
    rcases hsep with h | ⟨h1, h2⟩
    · exact absurd rfl h
    · simp only at h1
      subst h1 h2
      exact numDelim_nil
  | cons b ws =>
    simp only [stream, Gap.bytes, List.cons_append]
    exact numDelim_cons b _ (isWs_numDelim (hg.1 b (by simp)))

/-- the values read from a noisy stream, and the errors met, from any reader standing before it -/
theorem stream_read (c : Cfg) (o : JsonOpts) (items : List (JV × Gap)) (hit : ItemsOK o items)
    (g0 : Gap) (h0 : g0.OK) (w : List Byte) (hw : ∀ b ∈ w, isWs b = true) (r : Reader)
    (hr : Ready r (w ++ stream o g0 items)) (i k : Nat) :
    (rowsAt c r i k).map (·.input) = applyOnlyObj c (items.map (fun x => norm x.1)) ∧
    (perrsAt r).length = garbageCount g0 items := by
  induction items generalizing g0 w r i k with
  | nil =>
    obtain ⟨es, r1, w', hs, hlen, hw', hr1⟩ := gap_skips g0 h0 w hw [] r (by simpa [stream] using hr)
    obtain ⟨r2, hend, _⟩ := nextJson_end w' hw' r1 (by simpa using hr1)
    have hwf := ready_wf hr
    rw [hs.rowsAt c hwf, hs.perrsAt hwf, rowsAt_end c i k hend, perrsAt_end hend]
    exact ⟨rfl, by simp [hlen, garbageCount]⟩
  | cons x rest ih =>
    obtain ⟨v, g⟩ := x
    obtain ⟨hv, hg, hsep, hrest⟩ := hit
    rw [stream_cons] at hr
    obtain ⟨es, r1, w', hs, hlen, hw', hr1⟩ := gap_skips g0 h0 w hw _ r hr
    obtain ⟨r2, hval, hr2⟩ := nextJson_print o v hv w' hw' _ (delim_stream o v g rest hg hsep) r1 hr1
    have hwf := ready_wf hr
    have hwf1 := ready_wf hr1
    have hr2' : Ready r2 ([] ++ stream o g rest) := by simpa using hr2
    rw [hs.rowsAt c hwf, hs.perrsAt hwf, rowsAt_value c i k hwf1 hval, perrsAt_value hwf1 hval]
    constructor
    · simp only [applyOnlyObj, List.map_cons, List.filter_cons]
      cases hb : (c.onlyObjectsAndArrays && !(norm v).isObjOrArr) with
      | true =>
        simp only [if_true, Bool.not_true, Bool.false_eq_true, if_false]
        exact (ih hrest g hg [] (by simp) r2 hr2' i k).1
      | false =>
        simp only [Bool.false_eq_true, if_false, Bool.not_false, if_true, List.map_cons]
        rw [(ih hrest g hg [] (by simp) r2 hr2' (i + 1) (k + 1)).1]
        rfl
    · rw [List.length_append, hlen, (ih hrest g hg [] (by simp) r2 hr2' i k).2]
      simp only [garbageCount, List.map_cons, List.sum_cons]

/-! ### MAIN: noise is transparent -/

/-- a row without its locations: the value, the ordinal in the file, the ordinal in the run -/
def posFree (x : Ctx) : JV × Option (Nat × Nat) := (x.input, x.ictx.map (fun ic => (ic.fileIndex, ic.index)))

/-- values numbered from `(i, k)` on -/
def number : Nat → Nat → List JV → List (JV × Option (Nat × Nat))
  | _, _, [] => []
  | i, k, v :: vs => (v, some (i, k)) :: number (i + 1) (k + 1) vs

/-- the ordinals of the rows are determined by the values read -/
theorem ctxsOf_posFree (c : Cfg) (fuel : Nat) (r : Reader) (i k : Nat) :
    (ctxsOf c fuel r i k).map posFree = number i k ((ctxsOf c fuel r i k).map (·.input)) := by
  induction fuel generalizing r i k with
  | zero => rfl
  | succ fuel ih =>
    rcases hn : r.nextJson with ⟨res, r'⟩
    cases res with
    | error e =>
      simp only [ctxsOf, hn]
      split
      · exact ih _ _ _
      · rfl
    | ok o =>
      cases o with
      | none => simp only [ctxsOf, hn]; rfl
      | some v =>
        simp only [ctxsOf, hn]
        split
        · exact ih _ _ _
        · simp only [List.map_cons, number, ih]
          rfl

theorem μ_ofBytes (bs : List Byte) (name : Option Str) : μ (Reader.ofBytes bs name) = bs.length + 1 := by
  simp [Reader.ofBytes, μ_ofItems, cleanInput]

/-- **Rows of a noisy stream.**  Whatever the gaps hold, the values handed to the pipeline are the (normal forms
of the) values of the stream, in order, scalars dropped under `--only-objects-and-arrays`; their ordinals
count values only. -/
theorem noisy_rows (c : Cfg) (o : JsonOpts) (g0 : Gap) (items : List (JV × Gap)) (h0 : g0.OK)
    (hit : ItemsOK o items) (name : Option Str) (fuel : Nat) (hf : (stream o g0 items).length + 2 ≤ fuel)
    (i k : Nat) :
    (ctxsOf c fuel (Reader.ofBytes (stream o g0 items) name) i k).map (·.input)
        = applyOnlyObj c ((items.map (·.1)).map norm) ∧
    (ctxsOf c fuel (Reader.ofBytes (stream o g0 items) name) i k).map posFree
        = number i k (applyOnlyObj c ((items.map (·.1)).map norm)) := by
  have hr : Ready (Reader.ofBytes (stream o g0 items) name) ([] ++ stream o g0 items) := by
    simpa using ready_ofBytes _ name
  have h := (stream_read c o items hit g0 h0 [] (by simp) _ hr i k).1
  rw [← ctxsOf_eq_rowsAt c fuel _ i k (wf_ofBytes _ _) (by rw [μ_ofBytes]; omega)] at h
  rw [ctxsOf_posFree, h]
  simp [List.map_map, Function.comp_def]

/-- **Errors of a noisy stream.**  The recoverable errors in the stream are as many as its garbage bytes (one
`unexpectedChar` per byte), at least one per malformed region. -/
theorem noisy_errors (o : JsonOpts) (g0 : Gap) (items : List (JV × Gap)) (h0 : g0.OK)
    (hit : ItemsOK o items) (name : Option Str) (fuel : Nat) (hf : (stream o g0 items).length + 2 ≤ fuel) :
    (perrsOf fuel (Reader.ofBytes (stream o g0 items) name)).length = garbageCount g0 items ∧
    noisyGaps g0 items ≤ garbageCount g0 items := by
  have hr : Ready (Reader.ofBytes (stream o g0 items) name) ([] ++ stream o g0 items) := by
    simpa using ready_ofBytes _ name
  have h := (stream_read {} o items hit g0 h0 [] (by simp) _ hr 0 0).2
  rw [← perrsOf_eq_perrsAt fuel _ (wf_ofBytes _ _) (by rw [μ_ofBytes]; omega)] at h
  exact ⟨h, noisyGaps_le o g0 items h0 hit⟩

/-- the errors the run reports (`errsOf`, which stops when the chain answers `Break`) are at most the garbage
bytes, and exactly as many when the chain does not answer `Break` -/
theorem noisy_errsOf (ev : Expr → Ctx → Option JV) (c : Cfg) (cfgs : List StageCfg) (sts : List StageSt)
    (o : JsonOpts) (g0 : Gap) (items : List (JV × Gap)) (h0 : g0.OK)
    (hit : ItemsOK o items) (name : Option Str) (fuel : Nat) (hf : (stream o g0 items).length + 2 ≤ fuel)
    (i k : Nat) :
    (errsOf ev c cfgs fuel (Reader.ofBytes (stream o g0 items) name) i k sts).length ≤ garbageCount g0 items ∧
    ((feedBrk (processP ev cfgs) sts (ctxsOf c fuel (Reader.ofBytes (stream o g0 items) name) i k)).2.2 = .cont →
      (errsOf ev c cfgs fuel (Reader.ofBytes (stream o g0 items) name) i k sts).length = garbageCount g0 items) := by
  have h := (noisy_errors o g0 items h0 hit name fuel hf).1
  refine ⟨?_, fun hc => ?_⟩
  · rw [← h]
    exact (errsOf_prefix ev c cfgs fuel _ i k sts).length_le
  · rw [errsOf_eq_perrsOf ev c cfgs fuel _ i k sts hc, h]

/-- a clean stream (no garbage in any gap) holds no error -/
theorem clean_errors (ev : Expr → Ctx → Option JV) (c : Cfg) (cfgs : List StageCfg) (sts : List StageSt)
    (o : JsonOpts) (g0 : Gap) (items : List (JV × Gap)) (h0 : g0.OK)
    (hit : ItemsOK o items) (hclean : garbageCount g0 items = 0)
    (name : Option Str) (fuel : Nat) (hf : (stream o g0 items).length + 2 ≤ fuel) (i k : Nat) :
    perrsOf fuel (Reader.ofBytes (stream o g0 items) name) = [] ∧
    errsOf ev c cfgs fuel (Reader.ofBytes (stream o g0 items) name) i k sts = [] := by
  have h := (noisy_errors o g0 items h0 hit name fuel hf).1
  rw [hclean] at h
  have h1 := List.eq_nil_of_length_eq_zero h
  refine ⟨h1, ?_⟩
  have := errsOf_prefix ev c cfgs fuel (Reader.ofBytes (stream o g0 items) name) i k sts
  rw [h1] at this
  exact List.prefix_nil.mp this

/-- **MAIN `noise_transparent`.**  A noisy stream and its clean twin (the same bytes with the garbage deleted):
both hand the pipeline the same values with the same ordinals — `norm` of the values of the stream, scalars
dropped under `--only-objects-and-arrays`; the rows differ in their locations only.  The noisy stream holds
exactly one recoverable error per garbage byte, hence at least one per malformed region; the clean one none. -/
theorem noise_transparent (ev : Expr → Ctx → Option JV) (c : Cfg) (cfgs : List StageCfg) (sts : List StageSt)
    (o : JsonOpts) (g0 : Gap) (items : List (JV × Gap)) (h0 : g0.OK) (hit : ItemsOK o items)
    (name : Option Str) (fuel fuel' : Nat)
    (hf : (stream o g0 items).length + 2 ≤ fuel)
    (hf' : (stream o g0.strip (stripItems items)).length + 2 ≤ fuel') (i k : Nat) :
    let noisy := Reader.ofBytes (stream o g0 items) name
    let clean := Reader.ofBytes (stream o g0.strip (stripItems items)) name
    (ctxsOf c fuel noisy i k).map (·.input) = applyOnlyObj c ((items.map (·.1)).map norm)
    ∧ (ctxsOf c fuel' clean i k).map (·.input) = applyOnlyObj c ((items.map (·.1)).map norm)
    ∧ (ctxsOf c fuel noisy i k).map posFree = (ctxsOf c fuel' clean i k).map posFree
    ∧ (perrsOf fuel noisy).length = garbageCount g0 items
    ∧ noisyGaps g0 items ≤ garbageCount g0 items
    ∧ (errsOf ev c cfgs fuel noisy i k sts).length ≤ garbageCount g0 items
    ∧ ((feedBrk (processP ev cfgs) sts (ctxsOf c fuel noisy i k)).2.2 = .cont →
        (errsOf ev c cfgs fuel noisy i k sts).length = garbageCount g0 items)
    ∧ perrsOf fuel' clean = []
    ∧ errsOf ev c cfgs fuel' clean i k sts = [] := by
  intro noisy clean
  have hN := noisy_rows c o g0 items h0 hit name fuel hf i k
  have hC := noisy_rows c o g0.strip (stripItems items) (Gap.strip_OK h0) (stripItems_OK o items hit) name
    fuel' hf' i k
  rw [stripItems_values] at hC
  have hE := noisy_errors o g0 items h0 hit name fuel hf
  have hE' := noisy_errsOf ev c cfgs sts o g0 items h0 hit name fuel hf i k
  have hCE := clean_errors ev c cfgs sts o g0.strip (stripItems items) (Gap.strip_OK h0)
    (stripItems_OK o items hit) (garbageCount_strip g0 items) name fuel' hf' i k
  exact ⟨hN.1, hC.1, by rw [hN.2, hC.2], hE.1, hE.2, hE'.1, hE'.2, hCE.1, hCE.2⟩

/-! non-vacuity: the stream `1 x 2\n` -/

example : Garbage 120 = true := by decide

/-- `1 x 2\n`: values `1`, `2`; the gap after `1` is `" x "`, the gap after `2` is `"\n"` -/
def exItems : List (JV × Gap) :=
  [(.num (.pos 1), { ws := [32], toks := [([120], [32])] }), (.num (.pos 2), { ws := [10] })]

example : stream {} {} exItems = [49, 32, 120, 32, 50, 10] := by decide
example : stream {} ({} : Gap).strip (stripItems exItems) = [49, 32, 32, 50, 10] := by decide
example : garbageCount {} exItems = 1 ∧ noisyGaps {} exItems = 1 := by decide

theorem emptyGap_ok : ({} : Gap).OK := by
  constructor
  · intro b hb; cases hb
  · intro t ht; cases ht

theorem exItems_ok : ItemsOK {} exItems := by
  refine ⟨?_, ⟨?_, ?_⟩, .inl (by simp), ?_, ⟨?_, ?_⟩, .inl (by simp), trivial⟩
  · show (1 : Nat) < 2 ^ 64
    decide
  · intro b hb; simp at hb; subst hb; rfl
  · intro t ht
    simp only [List.mem_singleton] at ht
    subst ht
    refine ⟨by simp, ?_, ?_⟩ <;> intro b hb <;> simp at hb <;> subst hb <;> decide
  · show (2 : Nat) < 2 ^ 64
    decide
  · intro b hb; simp at hb; subst hb; rfl
  · intro t ht; cases ht

/-- `1 x 2\n` and `1  2\n` both yield the values `1`, `2`; the first holds exactly one error -/
example (c : Cfg) (hc : c.onlyObjectsAndArrays = false) :
    (ctxsOf c 8 (Reader.ofBytes [49, 32, 120, 32, 50, 10] none) 0 0).map (·.input)
        = [.num (.pos 1), .num (.pos 2)] ∧
    (ctxsOf c 7 (Reader.ofBytes [49, 32, 32, 50, 10] none) 0 0).map (·.input)
        = [.num (.pos 1), .num (.pos 2)] ∧
    (perrsOf 8 (Reader.ofBytes [49, 32, 120, 32, 50, 10] none)).length = 1 ∧
    perrsOf 7 (Reader.ofBytes [49, 32, 32, 50, 10] none) = [] := by
  have h := noise_transparent (fun _ _ => none) c [] [] {} {} exItems emptyGap_ok exItems_ok none 8 7
    (by decide) (by decide) 0 0
  have e1 : stream {} {} exItems = [49, 32, 120, 32, 50, 10] := by decide
  have e2 : stream {} ({} : Gap).strip (stripItems exItems) = [49, 32, 32, 50, 10] := by decide
  simp only [e1, e2, applyOnlyObj_off c hc] at h
  exact ⟨h.1, h.2.1, h.2.2.2.1, h.2.2.2.2.2.2.2.1⟩
