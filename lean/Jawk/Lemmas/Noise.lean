/-
  C06 — noise between values never changes them; `--on-error=panic`; clean streams produce no report.

  Bytes that cannot start a JSON value (`Garbage`), placed between values in white-space delimited
  tokens, are skipped by the read loop one byte at a time, each costing exactly one recoverable
  `unexpectedChar` error; the values read (and hence the rows fed to the pipeline) are those of the
  stream with the garbage removed.
-/
import Jawk.Lemmas.RunSpec
import Jawk.Lemmas.RoundTrip
import Jawk.Props.C06Steps
namespace Jawk.Noise
open Jawk Jawk.Pipe Jawk.Fuel Jawk.RunSpec Jawk.RT Jawk.C06 Reader

/-! ### 1. one garbage byte, a run of garbage bytes -/

theorem dispatch_garbage (fuel : Nat) (b : Byte) (hg : Garbage b = true) :
    dispatch fuel b = (do let _ ← next; locErr (fun l => .unexpectedChar l b valueExpected)) := by
  simp only [Garbage, Bool.and_eq_true, Bool.not_eq_true', bne_iff_ne, ne_eq] at hg
  obtain ⟨⟨⟨⟨⟨⟨⟨⟨hws, hd⟩, ht⟩, hf⟩, hn⟩, hq⟩, hm⟩, hb⟩, ho⟩ := hg
  have hd' : (b = 45 || isDigit b) = false := by simp [hm, hd]
  unfold dispatch
  simp only [ht, hf, hn, hq, hd', hb, ho, if_false, Bool.false_eq_true]

theorem garbage_not_ws {b : Byte} (hg : Garbage b = true) : isWs b = false := by
  simp only [Garbage, Bool.and_eq_true, Bool.not_eq_true'] at hg
  exact hg.1.1.1.1.1.1.1.1

/-- One `nextJson` call on `ws ++ b :: rest` (`ws` white space, `b` garbage): the white space and exactly
the byte `b` are consumed; the result is the recoverable error `unexpectedChar` located after `b`. -/
theorem garbage_one (ws : List Byte) (hws : ∀ b ∈ ws, isWs b = true) (b : Byte) (hg : Garbage b = true)
    (rest : List Byte) (r : Reader) (hr : Ready r (ws ++ b :: rest)) :
    ∃ r', r.nextJson = (.error (.unexpectedChar r'.loc b valueExpected), r') ∧ Ready r' rest := by
  have hl := ready_length hr
  simp only [List.length_append, List.length_cons] at hl
  obtain ⟨r1, hat, hnv⟩ := nextValue_dispatch ws hws b rest (garbage_not_ws hg) r hr
    (4 * r.rest.length + 9) (by omega)
  obtain ⟨x, r', hn, hr'⟩ := next_at_ready hat
  refine ⟨r', ?_, hr'⟩
  rw [Reader.nextJson, show 4 * r.rest.length + 10 = 4 * r.rest.length + 9 + 1 from rfl, hnv,
    dispatch_garbage _ _ hg, PM.bind_ok hn]
  rfl

/-- successive `nextJson` calls that all return recoverable errors: the errors, the final reader -/
inductive Skips : Reader → List PErr → Reader → Prop
  | nil (r : Reader) : Skips r [] r
  | cons {r r1 r' : Reader} {e : PErr} {es : List PErr} :
      r.nextJson = (.error e, r1) → e.canRecover = true → Skips r1 es r' → Skips r (e :: es) r'

theorem Skips.append {r r1 r2 : Reader} {es fs : List PErr} (h1 : Skips r es r1) (h2 : Skips r1 fs r2) :
    Skips r (es ++ fs) r2 := by
  induction h1 with
  | nil r => exact h2
  | cons hn hrec _ ih => exact Skips.cons hn hrec (ih h2)

theorem Skips.canRecover {r r' : Reader} {es : List PErr} (h : Skips r es r') :
    ∀ e ∈ es, e.canRecover = true := by
  induction h with
  | nil r => intro e he; cases he
  | cons hn hrec _ ih =>
    intro e he
    rcases List.mem_cons.mp he with rfl | he
    · exact hrec
    · exact ih e he

/-- **garbage_run.** `ws ++ g ++ rest` with `ws` white space and `g` a non-empty run of garbage bytes:
`|g|` successive `nextJson` calls each return a recoverable error, and the reader then stands before `rest`. -/
theorem garbage_run (ws : List Byte) (hws : ∀ b ∈ ws, isWs b = true) (g : List Byte)
    (hg : ∀ b ∈ g, Garbage b = true) (hne : g ≠ []) (rest : List Byte) (r : Reader)
    (hr : Ready r (ws ++ (g ++ rest))) :
    ∃ es r', Skips r es r' ∧ es.length = g.length ∧ Ready r' rest := by
  induction g generalizing ws r with
  | nil => exact absurd rfl hne
  | cons b g ih =>
    obtain ⟨r1, h1, hr1⟩ := garbage_one ws hws b (hg b (by simp)) (g ++ rest) r (by simpa using hr)
    cases g with
    | nil => exact ⟨[_], r1, Skips.cons h1 rfl (Skips.nil _), rfl, by simpa using hr1⟩
    | cons b' g =>
      obtain ⟨es, r', h2, hlen, hr'⟩ := ih [] (by simp) (fun x hx => hg x (by simp [hx])) (by simp) r1
        (by simpa using hr1)
      exact ⟨_ :: es, r', Skips.cons h1 rfl h2, by simp [hlen], hr'⟩

/-! ### fuel independence of the pure read functions -/

theorem ready_wf {r : Reader} {bs : List Byte} (h : Ready r bs) : WF r := by
  intro he
  have hb := h.2 he
  subst hb
  have hp := h.1
  cases hc : r.cur with
  | none => rfl
  | some b => simp [Reader.pending, hc, cleanInput] at hp

/-- above `μ r + 1` the fuel of `ctxsOf` does not matter -/
theorem ctxsOf_fuel (c : Cfg) (f₁ f₂ : Nat) (r : Reader) (i k : Nat) (hw : WF r)
    (h1 : μ r + 1 ≤ f₁) (h2 : μ r + 1 ≤ f₂) : ctxsOf c f₁ r i k = ctxsOf c f₂ r i k := by
  induction f₁ generalizing f₂ r i k with
  | zero => omega
  | succ f₁ ih =>
    obtain ⟨f₂, rfl⟩ : ∃ m, f₂ = m + 1 := ⟨f₂ - 1, by omega⟩
    have hm := nextJson_mono r
    rcases hn : r.nextJson with ⟨res, r'⟩
    rw [hn] at hm
    have hw' := hm.wf hw
    cases res with
    | error e =>
      have hp := (nextJson_progress r hw hn (by intro h; cases h)).2
      simp only [ctxsOf, hn]
      split
      · exact ih f₂ r' i k hw' (by omega) (by omega)
      · rfl
    | ok o =>
      cases o with
      | none => simp only [ctxsOf, hn]
      | some v =>
        have hp := (nextJson_progress r hw hn (by intro h; cases h)).2
        simp only [ctxsOf, hn]
        split
        · exact ih f₂ r' i k hw' (by omega) (by omega)
        · rw [ih f₂ r' (i + 1) (k + 1) hw' (by omega) (by omega)]

/-- the same for `errsOf` -/
theorem errsOf_fuel (ev : Expr → Ctx → Option JV) (c : Cfg) (cfgs : List StageCfg) (f₁ f₂ : Nat) (r : Reader)
    (i k : Nat) (sts : List StageSt) (hw : WF r) (h1 : μ r + 1 ≤ f₁) (h2 : μ r + 1 ≤ f₂) :
    errsOf ev c cfgs f₁ r i k sts = errsOf ev c cfgs f₂ r i k sts := by
  induction f₁ generalizing f₂ r i k sts with
  | zero => omega
  | succ f₁ ih =>
    obtain ⟨f₂, rfl⟩ : ∃ m, f₂ = m + 1 := ⟨f₂ - 1, by omega⟩
    have hm := nextJson_mono r
    rcases hn : r.nextJson with ⟨res, r'⟩
    rw [hn] at hm
    have hw' := hm.wf hw
    cases res with
    | error e =>
      have hp := (nextJson_progress r hw hn (by intro h; cases h)).2
      simp only [errsOf, hn]
      split
      · rw [ih f₂ r' i k sts hw' (by omega) (by omega)]
      · rfl
    | ok o =>
      cases o with
      | none => simp only [errsOf, hn]
      | some v =>
        have hp := (nextJson_progress r hw hn (by intro h; cases h)).2
        simp only [errsOf, hn]
        split
        · exact ih f₂ r' i k sts hw' (by omega) (by omega)
        · split
          · rfl
          · exact ih f₂ r' (i + 1) (k + 1) _ hw' (by omega) (by omega)

/-- the recoverable errors a reader meets up to the end of its input (or an I/O error), whatever the
pipeline does: what `errsOf` lists when the chain never answers `Break` -/
def perrsOf : Nat → Reader → List PErr
  | 0, _ => []
  | fuel + 1, r =>
    match r.nextJson with
    | (.ok (some _), r') => perrsOf fuel r'
    | (.ok none, _) => []
    | (.error e, r') => if e.canRecover then e :: perrsOf fuel r' else []

theorem perrsOf_fuel (f₁ f₂ : Nat) (r : Reader) (hw : WF r)
    (h1 : μ r + 1 ≤ f₁) (h2 : μ r + 1 ≤ f₂) : perrsOf f₁ r = perrsOf f₂ r := by
  induction f₁ generalizing f₂ r with
  | zero => omega
  | succ f₁ ih =>
    obtain ⟨f₂, rfl⟩ : ∃ m, f₂ = m + 1 := ⟨f₂ - 1, by omega⟩
    have hm := nextJson_mono r
    rcases hn : r.nextJson with ⟨res, r'⟩
    rw [hn] at hm
    have hw' := hm.wf hw
    cases res with
    | error e =>
      have hp := (nextJson_progress r hw hn (by intro h; cases h)).2
      simp only [perrsOf, hn]
      split
      · rw [ih f₂ r' hw' (by omega) (by omega)]
      · rfl
    | ok o =>
      cases o with
      | none => simp only [perrsOf, hn]
      | some v =>
        have hp := (nextJson_progress r hw hn (by intro h; cases h)).2
        simp only [perrsOf, hn]
        exact ih f₂ r' hw' (by omega) (by omega)

/-- `errsOf` lists a prefix of the errors in the input: it stops early only when the chain answers `Break` -/
theorem errsOf_prefix (ev : Expr → Ctx → Option JV) (c : Cfg) (cfgs : List StageCfg) (fuel : Nat) (r : Reader)
    (i k : Nat) (sts : List StageSt) : errsOf ev c cfgs fuel r i k sts <+: perrsOf fuel r := by
  induction fuel generalizing r i k sts with
  | zero => exact List.prefix_refl _
  | succ fuel ih =>
    rcases hn : r.nextJson with ⟨res, r'⟩
    cases res with
    | error e =>
      simp only [errsOf, perrsOf, hn]
      split
      · exact List.cons_prefix_cons.mpr ⟨rfl, ih _ _ _ _⟩
      · exact List.prefix_refl _
    | ok o =>
      cases o with
      | none => simp only [errsOf, perrsOf, hn]; exact List.prefix_refl _
      | some v =>
        simp only [errsOf, perrsOf, hn]
        split
        · exact ih _ _ _ _
        · split
          · exact List.nil_prefix
          · exact ih _ _ _ _

/-- when the chain never answers `Break` on the rows read, `errsOf` lists every error in the input -/
theorem errsOf_eq_perrsOf (ev : Expr → Ctx → Option JV) (c : Cfg) (cfgs : List StageCfg) (fuel : Nat) (r : Reader)
    (i k : Nat) (sts : List StageSt)
    (h : (feedBrk (processP ev cfgs) sts (ctxsOf c fuel r i k)).2.2 = .cont) :
    errsOf ev c cfgs fuel r i k sts = perrsOf fuel r := by
  induction fuel generalizing r i k sts with
  | zero => rfl
  | succ fuel ih =>
    rcases hn : r.nextJson with ⟨res, r'⟩
    cases res with
    | error e =>
      simp only [errsOf, perrsOf, ctxsOf, hn] at h ⊢
      split
      · rename_i hrec
        simp only [hrec, if_true] at h
        rw [ih _ _ _ _ h]
      · rfl
    | ok o =>
      cases o with
      | none => simp only [errsOf, perrsOf, hn]
      | some v =>
        simp only [errsOf, perrsOf, ctxsOf, hn] at h ⊢
        split
        · rename_i hsk
          simp only [hsk, if_true] at h
          exact ih _ _ _ _ h
        · rename_i hsk
          simp only [hsk, Bool.false_eq_true, if_false] at h
          rcases hP : processP ev cfgs sts
            { input := v, ictx := some { startLoc := r.loc, endLoc := r'.loc, fileIndex := i, index := k } }
            with ⟨s1, o1, d⟩
          cases d with
          | brk => rw [feedBrk_cons_brk hP] at h; cases h
          | cont =>
            rw [feedBrk_cons_cont hP] at h
            exact ih _ _ _ _ h

/-- with no stage at all the chain never answers `Break` -/
theorem feedBrk_nil_chain (sts : List StageSt) (rows : List Ctx) :
    (feedBrk (processP ev []) sts rows).2.2 = .cont := by
  induction rows generalizing sts with
  | nil => rfl
  | cons x rows ih =>
    have hP : processP ev [] sts x = ([], [x], .cont) := by simp [processP]
    rw [feedBrk_cons_cont hP]
    exact ih _

/-! ### the pure read functions at their canonical fuel, one step at a time -/

/-- the rows of the rest of the input behind reader `r` -/
def rowsAt (c : Cfg) (r : Reader) (i k : Nat) : List Ctx := ctxsOf c (μ r + 1) r i k

/-- the recoverable errors in the rest of the input behind reader `r` -/
def perrsAt (r : Reader) : List PErr := perrsOf (μ r + 1) r

theorem ctxsOf_eq_rowsAt (c : Cfg) (f : Nat) (r : Reader) (i k : Nat) (hw : WF r) (hf : μ r + 1 ≤ f) :
    ctxsOf c f r i k = rowsAt c r i k := ctxsOf_fuel c f _ r i k hw hf (Nat.le_refl _)

theorem perrsOf_eq_perrsAt (f : Nat) (r : Reader) (hw : WF r) (hf : μ r + 1 ≤ f) :
    perrsOf f r = perrsAt r := perrsOf_fuel f _ r hw hf (Nat.le_refl _)

theorem step_facts {r r' : Reader} {res : Except PErr (Option JV)} (hw : WF r)
    (hn : r.nextJson = (res, r')) (h : res ≠ .ok none) : WF r' ∧ μ r' + 1 ≤ μ r := by
  have hm := nextJson_mono r
  rw [hn] at hm
  have hp := (nextJson_progress r hw hn h).2
  exact ⟨hm.wf hw, by omega⟩

theorem rowsAt_error (c : Cfg) {r r' : Reader} {e : PErr} (i k : Nat) (hw : WF r)
    (hn : r.nextJson = (.error e, r')) (hrec : e.canRecover = true) : rowsAt c r i k = rowsAt c r' i k := by
  obtain ⟨hw', hμ⟩ := step_facts hw hn (by intro h; cases h)
  rw [rowsAt, ctxsOf]
  simp only [hn, hrec, if_true]
  exact ctxsOf_eq_rowsAt c _ r' i k hw' hμ

theorem rowsAt_value (c : Cfg) {r r' : Reader} {v : JV} (i k : Nat) (hw : WF r)
    (hn : r.nextJson = (.ok (some v), r')) :
    rowsAt c r i k =
      if c.onlyObjectsAndArrays && !v.isObjOrArr then rowsAt c r' i k
      else { input := v, ictx := some { startLoc := r.loc, endLoc := r'.loc, fileIndex := i, index := k } }
        :: rowsAt c r' (i + 1) (k + 1) := by
  obtain ⟨hw', hμ⟩ := step_facts hw hn (by intro h; cases h)
  rw [rowsAt, ctxsOf]
  simp only [hn]
  rw [ctxsOf_eq_rowsAt c _ r' i k hw' hμ, ctxsOf_eq_rowsAt c _ r' (i + 1) (k + 1) hw' hμ]

theorem rowsAt_end (c : Cfg) {r r' : Reader} (i k : Nat) (hn : r.nextJson = (.ok none, r')) :
    rowsAt c r i k = [] := by
  rw [rowsAt, ctxsOf]
  simp only [hn]

theorem perrsAt_error {r r' : Reader} {e : PErr} (hw : WF r)
    (hn : r.nextJson = (.error e, r')) (hrec : e.canRecover = true) : perrsAt r = e :: perrsAt r' := by
  obtain ⟨hw', hμ⟩ := step_facts hw hn (by intro h; cases h)
  rw [perrsAt, perrsOf]
  simp only [hn, hrec, if_true]
  rw [perrsOf_eq_perrsAt _ r' hw' hμ]

theorem perrsAt_value {r r' : Reader} {v : JV} (hw : WF r)
    (hn : r.nextJson = (.ok (some v), r')) : perrsAt r = perrsAt r' := by
  obtain ⟨hw', hμ⟩ := step_facts hw hn (by intro h; cases h)
  rw [perrsAt, perrsOf]
  simp only [hn]
  exact perrsOf_eq_perrsAt _ r' hw' hμ

theorem perrsAt_end {r r' : Reader} (hn : r.nextJson = (.ok none, r')) : perrsAt r = [] := by
  rw [perrsAt, perrsOf]
  simp only [hn]

theorem Skips.wf {r r' : Reader} {es : List PErr} (h : Skips r es r') (hw : WF r) : WF r' := by
  induction h with
  | nil r => exact hw
  | cons hn hrec _ ih => exact ih (step_facts hw hn (by intro h; cases h)).1

/-- skipped errors do not show in the rows: the rows behind `r` are the rows behind `r'`
(same contexts, locations included; the index is not advanced) -/
theorem Skips.rowsAt (c : Cfg) {r r' : Reader} {es : List PErr} (h : Skips r es r') (hw : WF r) (i k : Nat) :
    rowsAt c r i k = rowsAt c r' i k := by
  induction h with
  | nil r => rfl
  | cons hn hrec _ ih =>
    rw [rowsAt_error c i k hw hn hrec]
    exact ih (step_facts hw hn (by intro h; cases h)).1

/-- … and are exactly what is added to the error list -/
theorem Skips.perrsAt {r r' : Reader} {es : List PErr} (h : Skips r es r') (hw : WF r) :
    perrsAt r = es ++ perrsAt r' := by
  induction h with
  | nil r => rfl
  | cons hn hrec _ ih =>
    rw [perrsAt_error hw hn hrec, ih (step_facts hw hn (by intro h; cases h)).1]
    rfl

/-- Item 1, consequence for `ctxsOf`: over `ws ++ g ++ rest` (`g` a non-empty garbage run) the rows are the
rows behind a reader `r'` standing before `rest` — for every sufficient fuel on either side — and the list of
errors in the input is `|g|` entries longer. -/
theorem garbage_run_ctxsOf (c : Cfg) (ws : List Byte) (hws : ∀ b ∈ ws, isWs b = true) (g : List Byte)
    (hg : ∀ b ∈ g, Garbage b = true) (hne : g ≠ []) (rest : List Byte) (r : Reader)
    (hr : Ready r (ws ++ (g ++ rest))) :
    ∃ es r', Ready r' rest ∧ es.length = g.length ∧ (∀ e ∈ es, e.canRecover = true) ∧
      ∀ (fuel fuel' : Nat), μ r + 1 ≤ fuel → μ r' + 1 ≤ fuel' →
        (∀ i k, ctxsOf c fuel r i k = ctxsOf c fuel' r' i k) ∧
        perrsOf fuel r = es ++ perrsOf fuel' r' := by
  obtain ⟨es, r', hs, hlen, hr'⟩ := garbage_run ws hws g hg hne rest r hr
  refine ⟨es, r', hr', hlen, hs.canRecover, fun fuel fuel' hf hf' => ⟨fun i k => ?_, ?_⟩⟩
  · rw [ctxsOf_eq_rowsAt c fuel r i k (ready_wf hr) hf, ctxsOf_eq_rowsAt c fuel' r' i k (ready_wf hr') hf',
      hs.rowsAt c (ready_wf hr)]
  · rw [perrsOf_eq_perrsAt fuel r (ready_wf hr) hf, perrsOf_eq_perrsAt fuel' r' (ready_wf hr') hf', hs.perrsAt (ready_wf hr)]

/-! ### 2. noisy streams

A stream is `gap₀ text(v₁) gap₁ … text(vₙ) gapₙ`.  A gap is a white-space run followed by garbage tokens,
each token a non-empty run of garbage bytes followed by a white-space run. -/

/-- what stands between two values: white space `ws`, then tokens `(garbage, white space)` -/
structure Gap where
  ws : List Byte := []
  toks : List (List Byte × List Byte) := []
  deriving Inhabited

def toksBytes (toks : List (List Byte × List Byte)) : List Byte := toks.flatMap (fun t => t.1 ++ t.2)

def Gap.bytes (g : Gap) : List Byte := g.ws ++ toksBytes g.toks

/-- the number of garbage bytes in the gap -/
def Gap.garbage (g : Gap) : Nat := (g.toks.map (fun t => t.1.length)).sum

/-- the gap with its garbage bytes deleted (all white space kept) -/
def Gap.strip (g : Gap) : Gap := { ws := g.ws ++ g.toks.flatMap (·.2), toks := [] }

/-- `ws` is white space; every token is a non-empty run of garbage bytes followed by white space -/
def Gap.OK (g : Gap) : Prop :=
  (∀ b ∈ g.ws, isWs b = true) ∧
  ∀ t ∈ g.toks, t.1 ≠ [] ∧ (∀ b ∈ t.1, Garbage b = true) ∧ (∀ b ∈ t.2, isWs b = true)

/-- the bytes of the stream: first gap, then every value (printed with options `o`) followed by its gap -/
def stream (o : JsonOpts) (g0 : Gap) (items : List (JV × Gap)) : List Byte :=
  g0.bytes ++ items.flatMap (fun x => utf8 (printJson o x.1) ++ x.2.bytes)

/-- every value is printable, every gap well formed; the gap after a value starts with white space
(garbage never touches a value) unless it is empty and ends the stream -/
def ItemsOK (o : JsonOpts) : List (JV × Gap) → Prop
  | [] => True
  | (v, g) :: rest =>
    Printable o v ∧ g.OK ∧ (g.ws ≠ [] ∨ (g.toks = [] ∧ rest = [])) ∧ ItemsOK o rest

/-- the clean twin: same values, same white space, no garbage -/
def stripItems (items : List (JV × Gap)) : List (JV × Gap) := items.map (fun x => (x.1, x.2.strip))

/-- total number of garbage bytes -/
def garbageCount (g0 : Gap) (items : List (JV × Gap)) : Nat :=
  g0.garbage + (items.map (fun x => x.2.garbage)).sum

/-- number of gaps that contain garbage (the "malformed regions") -/
def noisyGaps (g0 : Gap) (items : List (JV × Gap)) : Nat :=
  ((g0 :: items.map (·.2)).filter (fun g => !g.toks.isEmpty)).length

/-- top-level scalars are dropped under `--only-objects-and-arrays` -/
def applyOnlyObj (c : Cfg) (vs : List JV) : List JV :=
  vs.filter (fun v => !(c.onlyObjectsAndArrays && !v.isObjOrArr))

theorem applyOnlyObj_off (c : Cfg) (h : c.onlyObjectsAndArrays = false) (vs : List JV) :
    applyOnlyObj c vs = vs := by
  simp [applyOnlyObj, h]

theorem applyOnlyObj_on (c : Cfg) (h : c.onlyObjectsAndArrays = true) (vs : List JV) :
    applyOnlyObj c vs = vs.filter (·.isObjOrArr) := by
  simp [applyOnlyObj, h]

theorem Gap.strip_OK {g : Gap} (h : g.OK) : g.strip.OK := by
  refine ⟨?_, fun t ht => by cases ht⟩
  intro b hb
  simp only [Gap.strip, List.mem_append, List.mem_flatMap] at hb
  rcases hb with hb | ⟨t, ht, hb⟩
  · exact h.1 b hb
  · exact (h.2 t ht).2.2 b hb

theorem Gap.strip_garbage (g : Gap) : g.strip.garbage = 0 := rfl

theorem stripItems_OK (o : JsonOpts) (items : List (JV × Gap)) (h : ItemsOK o items) :
    ItemsOK o (stripItems items) := by
  induction items with
  | nil => trivial
  | cons x rest ih =>
    obtain ⟨v, g⟩ := x
    obtain ⟨hv, hg, hsep, hrest⟩ := h
    refine ⟨hv, Gap.strip_OK hg, ?_, ih hrest⟩
    rcases hsep with hsep | ⟨h1, h2⟩
    · left
      simp only [Gap.strip]
      intro h
      exact hsep (List.append_eq_nil_iff.mp h).1
    · right
      subst h2
      exact ⟨rfl, rfl⟩

theorem stripItems_values (items : List (JV × Gap)) : (stripItems items).map (·.1) = items.map (·.1) := by
  simp [stripItems, Function.comp_def]

theorem garbageCount_strip (g0 : Gap) (items : List (JV × Gap)) :
    garbageCount g0.strip (stripItems items) = 0 := by
  simp only [garbageCount, Gap.strip_garbage, stripItems, List.map_map, Nat.zero_add]
  induction items with
  | nil => rfl
  | cons x rest ih => simpa [Gap.strip_garbage] using ih

/-- a gap that contains garbage contains at least one garbage byte -/
theorem Gap.garbage_pos {g : Gap} (h : g.OK) (hne : g.toks.isEmpty = false) : 1 ≤ g.garbage := by
  obtain ⟨ws, toks⟩ := g
  cases toks with
  | nil => cases hne
  | cons t toks =>
    have := (h.2 t (by simp)).1
    have hl : 1 ≤ t.1.length := List.length_pos_iff.mpr this
    simp only [Gap.garbage, List.map_cons, List.sum_cons]
    omega

theorem ItemsOK.gaps {o : JsonOpts} {items : List (JV × Gap)} (h : ItemsOK o items) :
    ∀ x ∈ items, x.2.OK := by
  induction items with
  | nil => intro x hx; cases hx
  | cons y rest ih =>
    obtain ⟨v, g⟩ := y
    obtain ⟨_, hg, _, hrest⟩ := h
    intro x hx
    rcases List.mem_cons.mp hx with rfl | hx
    · exact hg
    · exact ih hrest x hx

/-- every malformed region holds at least one garbage byte: regions ≤ garbage bytes -/
theorem noisyGaps_le (o : JsonOpts) (g0 : Gap) (items : List (JV × Gap)) (h0 : g0.OK) (h : ItemsOK o items) :
    noisyGaps g0 items ≤ garbageCount g0 items := by
  have key : ∀ (gs : List Gap), (∀ g ∈ gs, g.OK) →
      (gs.filter (fun g => !g.toks.isEmpty)).length ≤ (gs.map Gap.garbage).sum := by
    intro gs hgs
    induction gs with
    | nil => simp
    | cons g gs ih =>
      have ih' := ih (fun x hx => hgs x (by simp [hx]))
      simp only [List.filter_cons, List.map_cons, List.sum_cons]
      cases hne : g.toks.isEmpty with
      | true => simp only [Bool.not_true, Bool.false_eq_true, if_false]; omega
      | false =>
        have := Gap.garbage_pos (hgs g (by simp)) hne
        simp only [Bool.not_false, if_true, List.length_cons]
        omega
  have := key (g0 :: items.map (·.2)) (by
    intro g hg
    rcases List.mem_cons.mp hg with rfl | hg
    · exact h0
    · obtain ⟨x, hx, rfl⟩ := List.mem_map.mp hg
      exact h.gaps x hx)
  simpa [noisyGaps, garbageCount, List.map_map, Function.comp_def] using this

/-! ### reading a noisy stream -/

theorem toks_skips (toks : List (List Byte × List Byte))
    (htoks : ∀ t ∈ toks, t.1 ≠ [] ∧ (∀ b ∈ t.1, Garbage b = true) ∧ (∀ b ∈ t.2, isWs b = true))
    (w : List Byte) (hw : ∀ b ∈ w, isWs b = true) (rest : List Byte) (r : Reader)
    (hr : Ready r (w ++ (toksBytes toks ++ rest))) :
    ∃ es r' w', Skips r es r' ∧ es.length = (toks.map (fun t => t.1.length)).sum ∧
      (∀ b ∈ w', isWs b = true) ∧ Ready r' (w' ++ rest) := by
  induction toks generalizing w r with
  | nil => exact ⟨[], r, w, Skips.nil r, rfl, hw, by simpa [toksBytes] using hr⟩
  | cons t toks ih =>
    obtain ⟨hne, hg, hws⟩ := htoks t (by simp)
    have hr1 : Ready r (w ++ (t.1 ++ (t.2 ++ (toksBytes toks ++ rest)))) := by
      simpa [toksBytes, List.append_assoc] using hr
    obtain ⟨es1, r1, hs1, hlen1, hr1'⟩ := garbage_run w hw t.1 hg hne _ r hr1
    obtain ⟨es2, r2, w', hs2, hlen2, hw', hr2⟩ :=
      ih (fun x hx => htoks x (by simp [hx])) t.2 hws r1 hr1'
    exact ⟨es1 ++ es2, r2, w', hs1.append hs2, by simp [hlen1, hlen2], hw', hr2⟩

/-- a gap (after any white space `w`): its garbage bytes are skipped one error each; the reader then stands
before some white space and what follows the gap -/
theorem gap_skips (g : Gap) (hg : g.OK) (w : List Byte) (hw : ∀ b ∈ w, isWs b = true) (rest : List Byte)
    (r : Reader) (hr : Ready r (w ++ (g.bytes ++ rest))) :
    ∃ es r' w', Skips r es r' ∧ es.length = g.garbage ∧ (∀ b ∈ w', isWs b = true) ∧ Ready r' (w' ++ rest) := by
  have hr1 : Ready r ((w ++ g.ws) ++ (toksBytes g.toks ++ rest)) := by
    simpa [Gap.bytes, List.append_assoc] using hr
  exact toks_skips g.toks hg.2 (w ++ g.ws) (ws_append hw hg.1) rest r hr1

theorem stream_cons (o : JsonOpts) (g0 : Gap) (v : JV) (g : Gap) (rest : List (JV × Gap)) :
    stream o g0 ((v, g) :: rest) = g0.bytes ++ (utf8 (printJson o v) ++ stream o g rest) := by
  simp [stream, List.append_assoc]

theorem delim_stream (o : JsonOpts) (v : JV) (g : Gap) (rest : List (JV × Gap)) (hg : g.OK)
    (hsep : g.ws ≠ [] ∨ (g.toks = [] ∧ rest = [])) : Delim v (stream o g rest) := by
  apply Delim.of_numDelim
  obtain ⟨ws, toks⟩ := g
  cases ws with
  | nil =>
    rcases hsep with h | ⟨h1, h2⟩
    · exact absurd rfl h
    · simp only at h1
      subst h1 h2
      exact numDelim_nil
  | cons b ws =>
    simp only [stream, Gap.bytes, List.cons_append]
    exact numDelim_cons b _ (isWs_numDelim (hg.1 b (by simp)))

/-- the values read from a noisy stream, and the errors met, from any reader standing before it -/
theorem stream_read (c : Cfg) (o : JsonOpts) (items : List (JV × Gap)) (hit : ItemsOK o items)
    (g0 : Gap) (h0 : g0.OK) (w : List Byte) (hw : ∀ b ∈ w, isWs b = true) (r : Reader)
    (hr : Ready r (w ++ stream o g0 items)) (i k : Nat) :
    (rowsAt c r i k).map (·.input) = applyOnlyObj c (items.map (fun x => norm x.1)) ∧
    (perrsAt r).length = garbageCount g0 items := by
  induction items generalizing g0 w r i k with
  | nil =>
    obtain ⟨es, r1, w', hs, hlen, hw', hr1⟩ := gap_skips g0 h0 w hw [] r (by simpa [stream] using hr)
    obtain ⟨r2, hend, _⟩ := nextJson_end w' hw' r1 (by simpa using hr1)
    have hwf := ready_wf hr
    rw [hs.rowsAt c hwf, hs.perrsAt hwf, rowsAt_end c i k hend, perrsAt_end hend]
    exact ⟨rfl, by simp [hlen, garbageCount]⟩
  | cons x rest ih =>
    obtain ⟨v, g⟩ := x
    obtain ⟨hv, hg, hsep, hrest⟩ := hit
    rw [stream_cons] at hr
    obtain ⟨es, r1, w', hs, hlen, hw', hr1⟩ := gap_skips g0 h0 w hw _ r hr
    obtain ⟨r2, hval, hr2⟩ := nextJson_print o v hv w' hw' _ (delim_stream o v g rest hg hsep) r1 hr1
    have hwf := ready_wf hr
    have hwf1 := ready_wf hr1
    have hr2' : Ready r2 ([] ++ stream o g rest) := by simpa using hr2
    rw [hs.rowsAt c hwf, hs.perrsAt hwf, rowsAt_value c i k hwf1 hval, perrsAt_value hwf1 hval]
    constructor
    · simp only [applyOnlyObj, List.map_cons, List.filter_cons]
      cases hb : (c.onlyObjectsAndArrays && !(norm v).isObjOrArr) with
      | true =>
        simp only [if_true, Bool.not_true, Bool.false_eq_true, if_false]
        exact (ih hrest g hg [] (by simp) r2 hr2' i k).1
      | false =>
        simp only [Bool.false_eq_true, if_false, Bool.not_false, if_true, List.map_cons]
        rw [(ih hrest g hg [] (by simp) r2 hr2' (i + 1) (k + 1)).1]
        rfl
    · rw [List.length_append, hlen, (ih hrest g hg [] (by simp) r2 hr2' i k).2]
      simp only [garbageCount, List.map_cons, List.sum_cons]

/-! ### MAIN: noise is transparent -/

/-- a row without its locations: the value, the ordinal in the file, the ordinal in the run -/
def posFree (x : Ctx) : JV × Option (Nat × Nat) := (x.input, x.ictx.map (fun ic => (ic.fileIndex, ic.index)))

/-- values numbered from `(i, k)` on -/
def number : Nat → Nat → List JV → List (JV × Option (Nat × Nat))
  | _, _, [] => []
  | i, k, v :: vs => (v, some (i, k)) :: number (i + 1) (k + 1) vs

/-- the ordinals of the rows are determined by the values read -/
theorem ctxsOf_posFree (c : Cfg) (fuel : Nat) (r : Reader) (i k : Nat) :
    (ctxsOf c fuel r i k).map posFree = number i k ((ctxsOf c fuel r i k).map (·.input)) := by
  induction fuel generalizing r i k with
  | zero => rfl
  | succ fuel ih =>
    rcases hn : r.nextJson with ⟨res, r'⟩
    cases res with
    | error e =>
      simp only [ctxsOf, hn]
      split
      · exact ih _ _ _
      · rfl
    | ok o =>
      cases o with
      | none => simp only [ctxsOf, hn]; rfl
      | some v =>
        simp only [ctxsOf, hn]
        split
        · exact ih _ _ _
        · simp only [List.map_cons, number, ih]
          rfl

theorem μ_ofBytes (bs : List Byte) (name : Option Str) : μ (Reader.ofBytes bs name) = bs.length + 1 := by
  simp [Reader.ofBytes, μ_ofItems, cleanInput]

/-- **Rows of a noisy stream.**  Whatever the gaps hold, the values handed to the pipeline are the (normal forms
of the) values of the stream, in order, scalars dropped under `--only-objects-and-arrays`; their ordinals
count values only. -/
theorem noisy_rows (c : Cfg) (o : JsonOpts) (g0 : Gap) (items : List (JV × Gap)) (h0 : g0.OK)
    (hit : ItemsOK o items) (name : Option Str) (fuel : Nat) (hf : (stream o g0 items).length + 2 ≤ fuel)
    (i k : Nat) :
    (ctxsOf c fuel (Reader.ofBytes (stream o g0 items) name) i k).map (·.input)
        = applyOnlyObj c ((items.map (·.1)).map norm) ∧
    (ctxsOf c fuel (Reader.ofBytes (stream o g0 items) name) i k).map posFree
        = number i k (applyOnlyObj c ((items.map (·.1)).map norm)) := by
  have hr : Ready (Reader.ofBytes (stream o g0 items) name) ([] ++ stream o g0 items) := by
    simpa using ready_ofBytes _ name
  have h := (stream_read c o items hit g0 h0 [] (by simp) _ hr i k).1
  rw [← ctxsOf_eq_rowsAt c fuel _ i k (wf_ofBytes _ _) (by rw [μ_ofBytes]; omega)] at h
  rw [ctxsOf_posFree, h]
  simp [List.map_map, Function.comp_def]

/-- **Errors of a noisy stream.**  The recoverable errors in the stream are as many as its garbage bytes (one
`unexpectedChar` per byte), at least one per malformed region. -/
theorem noisy_errors (o : JsonOpts) (g0 : Gap) (items : List (JV × Gap)) (h0 : g0.OK)
    (hit : ItemsOK o items) (name : Option Str) (fuel : Nat) (hf : (stream o g0 items).length + 2 ≤ fuel) :
    (perrsOf fuel (Reader.ofBytes (stream o g0 items) name)).length = garbageCount g0 items ∧
    noisyGaps g0 items ≤ garbageCount g0 items := by
  have hr : Ready (Reader.ofBytes (stream o g0 items) name) ([] ++ stream o g0 items) := by
    simpa using ready_ofBytes _ name
  have h := (stream_read {} o items hit g0 h0 [] (by simp) _ hr 0 0).2
  rw [← perrsOf_eq_perrsAt fuel _ (wf_ofBytes _ _) (by rw [μ_ofBytes]; omega)] at h
  exact ⟨h, noisyGaps_le o g0 items h0 hit⟩

/-- the errors the run reports (`errsOf`, which stops when the chain answers `Break`) are at most the garbage
bytes, and exactly as many when the chain does not answer `Break` -/
theorem noisy_errsOf (ev : Expr → Ctx → Option JV) (c : Cfg) (cfgs : List StageCfg) (sts : List StageSt)
    (o : JsonOpts) (g0 : Gap) (items : List (JV × Gap)) (h0 : g0.OK)
    (hit : ItemsOK o items) (name : Option Str) (fuel : Nat) (hf : (stream o g0 items).length + 2 ≤ fuel)
    (i k : Nat) :
    (errsOf ev c cfgs fuel (Reader.ofBytes (stream o g0 items) name) i k sts).length ≤ garbageCount g0 items ∧
    ((feedBrk (processP ev cfgs) sts (ctxsOf c fuel (Reader.ofBytes (stream o g0 items) name) i k)).2.2 = .cont →
      (errsOf ev c cfgs fuel (Reader.ofBytes (stream o g0 items) name) i k sts).length = garbageCount g0 items) := by
  have h := (noisy_errors o g0 items h0 hit name fuel hf).1
  refine ⟨?_, fun hc => ?_⟩
  · rw [← h]
    exact (errsOf_prefix ev c cfgs fuel _ i k sts).length_le
  · rw [errsOf_eq_perrsOf ev c cfgs fuel _ i k sts hc, h]

/-- a clean stream (no garbage in any gap) holds no error -/
theorem clean_errors (ev : Expr → Ctx → Option JV) (c : Cfg) (cfgs : List StageCfg) (sts : List StageSt)
    (o : JsonOpts) (g0 : Gap) (items : List (JV × Gap)) (h0 : g0.OK)
    (hit : ItemsOK o items) (hclean : garbageCount g0 items = 0)
    (name : Option Str) (fuel : Nat) (hf : (stream o g0 items).length + 2 ≤ fuel) (i k : Nat) :
    perrsOf fuel (Reader.ofBytes (stream o g0 items) name) = [] ∧
    errsOf ev c cfgs fuel (Reader.ofBytes (stream o g0 items) name) i k sts = [] := by
  have h := (noisy_errors o g0 items h0 hit name fuel hf).1
  rw [hclean] at h
  have h1 := List.eq_nil_of_length_eq_zero h
  refine ⟨h1, ?_⟩
  have := errsOf_prefix ev c cfgs fuel (Reader.ofBytes (stream o g0 items) name) i k sts
  rw [h1] at this
  exact List.prefix_nil.mp this

/-- **MAIN `noise_transparent`.**  A noisy stream and its clean twin (the same bytes with the garbage deleted):
both hand the pipeline the same values with the same ordinals — `norm` of the values of the stream, scalars
dropped under `--only-objects-and-arrays`; the rows differ in their locations only.  The noisy stream holds
exactly one recoverable error per garbage byte, hence at least one per malformed region; the clean one none. -/
theorem noise_transparent (ev : Expr → Ctx → Option JV) (c : Cfg) (cfgs : List StageCfg) (sts : List StageSt)
    (o : JsonOpts) (g0 : Gap) (items : List (JV × Gap)) (h0 : g0.OK) (hit : ItemsOK o items)
    (name : Option Str) (fuel fuel' : Nat)
    (hf : (stream o g0 items).length + 2 ≤ fuel)
    (hf' : (stream o g0.strip (stripItems items)).length + 2 ≤ fuel') (i k : Nat) :
    let noisy := Reader.ofBytes (stream o g0 items) name
    let clean := Reader.ofBytes (stream o g0.strip (stripItems items)) name
    (ctxsOf c fuel noisy i k).map (·.input) = applyOnlyObj c ((items.map (·.1)).map norm)
    ∧ (ctxsOf c fuel' clean i k).map (·.input) = applyOnlyObj c ((items.map (·.1)).map norm)
    ∧ (ctxsOf c fuel noisy i k).map posFree = (ctxsOf c fuel' clean i k).map posFree
    ∧ (perrsOf fuel noisy).length = garbageCount g0 items
    ∧ noisyGaps g0 items ≤ garbageCount g0 items
    ∧ (errsOf ev c cfgs fuel noisy i k sts).length ≤ garbageCount g0 items
    ∧ ((feedBrk (processP ev cfgs) sts (ctxsOf c fuel noisy i k)).2.2 = .cont →
        (errsOf ev c cfgs fuel noisy i k sts).length = garbageCount g0 items)
    ∧ perrsOf fuel' clean = []
    ∧ errsOf ev c cfgs fuel' clean i k sts = [] := by
  intro noisy clean
  have hN := noisy_rows c o g0 items h0 hit name fuel hf i k
  have hC := noisy_rows c o g0.strip (stripItems items) (Gap.strip_OK h0) (stripItems_OK o items hit) name
    fuel' hf' i k
  rw [stripItems_values] at hC
  have hE := noisy_errors o g0 items h0 hit name fuel hf
  have hE' := noisy_errsOf ev c cfgs sts o g0 items h0 hit name fuel hf i k
  have hCE := clean_errors ev c cfgs sts o g0.strip (stripItems items) (Gap.strip_OK h0)
    (stripItems_OK o items hit) (garbageCount_strip g0 items) name fuel' hf' i k
  exact ⟨hN.1, hC.1, by rw [hN.2, hC.2], hE.1, hE.2, hE'.1, hE'.2, hCE.1, hCE.2⟩

/-! non-vacuity: the stream `1 x 2\n` -/

example : Garbage 120 = true := by decide

/-- `1 x 2\n`: values `1`, `2`; the gap after `1` is `" x "`, the gap after `2` is `"\n"` -/
def exItems : List (JV × Gap) :=
  [(.num (.pos 1), { ws := [32], toks := [([120], [32])] }), (.num (.pos 2), { ws := [10] })]

example : stream {} {} exItems = [49, 32, 120, 32, 50, 10] := by decide
example : stream {} ({} : Gap).strip (stripItems exItems) = [49, 32, 32, 50, 10] := by decide
example : garbageCount {} exItems = 1 ∧ noisyGaps {} exItems = 1 := by decide

theorem emptyGap_ok : ({} : Gap).OK := by
  constructor
  · intro b hb; cases hb
  · intro t ht; cases ht

theorem exItems_ok : ItemsOK {} exItems := by
  refine ⟨?_, ⟨?_, ?_⟩, .inl (by simp), ?_, ⟨?_, ?_⟩, .inl (by simp), trivial⟩
  · show (1 : Nat) < 2 ^ 64
    decide
  · intro b hb; simp at hb; subst hb; rfl
  · intro t ht
    simp only [List.mem_singleton] at ht
    subst ht
    refine ⟨by simp, ?_, ?_⟩ <;> intro b hb <;> simp at hb <;> subst hb <;> decide
  · show (2 : Nat) < 2 ^ 64
    decide
  · intro b hb; simp at hb; subst hb; rfl
  · intro t ht; cases ht

/-- `1 x 2\n` and `1  2\n` both yield the values `1`, `2`; the first holds exactly one error -/
example (c : Cfg) (hc : c.onlyObjectsAndArrays = false) :
    (ctxsOf c 8 (Reader.ofBytes [49, 32, 120, 32, 50, 10] none) 0 0).map (·.input)
        = [.num (.pos 1), .num (.pos 2)] ∧
    (ctxsOf c 7 (Reader.ofBytes [49, 32, 32, 50, 10] none) 0 0).map (·.input)
        = [.num (.pos 1), .num (.pos 2)] ∧
    (perrsOf 8 (Reader.ofBytes [49, 32, 120, 32, 50, 10] none)).length = 1 ∧
    perrsOf 7 (Reader.ofBytes [49, 32, 32, 50, 10] none) = [] := by
  have h := noise_transparent (fun _ _ => none) c [] [] {} {} exItems emptyGap_ok exItems_ok none 8 7
    (by decide) (by decide) 0 0
  have e1 : stream {} {} exItems = [49, 32, 120, 32, 50, 10] := by decide
  have e2 : stream {} ({} : Gap).strip (stripItems exItems) = [49, 32, 32, 50, 10] := by decide
  simp only [e1, e2, applyOnlyObj_off c hc] at h
  exact ⟨h.1, h.2.1, h.2.2.2.1, h.2.2.2.2.2.2.2.1⟩

/-! ### 3. run level: the default configuration prints the same bytes for a noisy stream and its clean twin -/

/-- a stream as an input source -/
def streamSource (name : Option Str) (o : JsonOpts) (g0 : Gap) (items : List (JV × Gap)) : Source :=
  ⟨name, cleanInput (stream o g0 items)⟩

theorem streamSource_reader (name : Option Str) (o : JsonOpts) (g0 : Gap) (items : List (JV × Gap)) :
    Reader.ofItems (streamSource name o g0 items).items (streamSource name o g0 items).name
      = Reader.ofBytes (stream o g0 items) name := rfl

theorem streamSource_fuel (name : Option Str) (o : JsonOpts) (g0 : Gap) (items : List (JV × Gap)) :
    (streamSource name o g0 items).items.length + 2 = (stream o g0 items).length + 2 := by
  simp [streamSource, cleanInput]

theorem cleanIO_streams (l : List Source) (h : ∀ s ∈ l, ∃ bs, s.items = cleanInput bs) : CleanIO l := by
  intro s hs
  obtain ⟨bs, hbs⟩ := h s hs
  rw [hbs]
  exact cleanInput_clean bs

theorem flatMap_input {β} (f : JV → List β) (l : List Ctx) :
    l.flatMap (fun ctx => f ctx.input) = (l.map (·.input)).flatMap f := by
  induction l with
  | nil => rfl
  | cons x l ih => simp [ih]

/-- the rows of a run over one stream -/
theorem ctxsOfSources_stream (c : Cfg) (name : Option Str) (o : JsonOpts) (g0 : Gap) (items : List (JV × Gap))
    (k : Nat) :
    ctxsOfSources c [streamSource name o g0 items] k
      = ctxsOf c ((stream o g0 items).length + 2) (Reader.ofBytes (stream o g0 items) name) 0 k := by
  simp only [ctxsOfSources, streamSource_reader, streamSource_fuel, List.append_nil]

/-- **noise_default_same_output.**  Without options, a noisy stream (on stdin or in a named file) and its clean
twin make `jawk` print exactly the same bytes: one one-line JSON row per value of the stream, in order. -/
theorem noise_default_same_output (orc : Oracles) (o : JsonOpts) (g0 : Gap) (items : List (JV × Gap))
    (h0 : g0.OK) (hit : ItemsOK o items) (name : Option Str) (wOut wErr : Writer) (hw : Unbounded wOut) :
    let noisy := streamSource name o g0 items
    let clean := streamSource name o g0.strip (stripItems items)
    (run orc {} [noisy] wOut wErr).result = .ok ()
    ∧ (run orc {} [clean] wOut wErr).result = .ok ()
    ∧ (run orc {} [noisy] wOut wErr).stdout
        = wOut.out ++ ((items.map (·.1)).map norm).flatMap (fun v => utf8 (printJson {} v) ++ [10])
    ∧ (run orc {} [clean] wOut wErr).stdout = (run orc {} [noisy] wOut wErr).stdout
    ∧ (run orc {} [noisy] wOut wErr).stderr = wErr.out
    ∧ (run orc {} [clean] wOut wErr).stderr = wErr.out := by
  intro noisy clean
  have hclN : CleanIO [noisy] := cleanIO_streams _ (by
    intro s hs; simp only [List.mem_singleton] at hs; subst hs; exact ⟨_, rfl⟩)
  have hclC : CleanIO [clean] := cleanIO_streams _ (by
    intro s hs; simp only [List.mem_singleton] at hs; subst hs; exact ⟨_, rfl⟩)
  obtain ⟨n1, n2, n3⟩ := default_rows orc [noisy] wOut wErr hw hclN
  obtain ⟨c1, c2, c3⟩ := default_rows orc [clean] wOut wErr hw hclC
  have hN := (noisy_rows {} o g0 items h0 hit name _ (Nat.le_refl _) 0 0).1
  have hC := (noisy_rows {} o g0.strip (stripItems items) (Gap.strip_OK h0) (stripItems_OK o items hit) name _
    (Nat.le_refl _) 0 0).1
  rw [stripItems_values] at hC
  rw [applyOnlyObj_off _ rfl] at hN hC
  have eN : (run orc {} [noisy] wOut wErr).stdout
      = wOut.out ++ ((items.map (·.1)).map norm).flatMap (fun v => utf8 (printJson {} v) ++ [10]) := by
    rw [n2, ctxsOfSources_stream, flatMap_input (fun v => utf8 (printJson {} v) ++ [10]), hN]
  have eC : (run orc {} [clean] wOut wErr).stdout
      = wOut.out ++ ((items.map (·.1)).map norm).flatMap (fun v => utf8 (printJson {} v) ++ [10]) := by
    rw [c2, ctxsOfSources_stream, flatMap_input (fun v => utf8 (printJson {} v) ++ [10]), hC]
  exact ⟨n1, c1, eN, by rw [eC, eN], n3, c3⟩

/-- `1 x 2\n` on stdin: the default run prints `1\n2\n` -/
example (orc : Oracles) :
    (run orc {} [⟨none, cleanInput [49, 32, 120, 32, 50, 10]⟩] {} {}).stdout = [49, 10, 50, 10] := by
  have h := (noise_default_same_output orc {} {} exItems emptyGap_ok exItems_ok none {} {} ⟨rfl, rfl⟩).2.2.1
  have e1 : stream {} {} exItems = [49, 32, 120, 32, 50, 10] := by decide
  simp only [streamSource, e1] at h
  rw [h]
  decide

/-! ### 4. `--on-error=panic` -/

/-- how the run fails on a parser error under `panic`: with that error, or with `io` when the stream itself
failed -/
def failOf (e : PErr) : Fail := if e.canRecover then .json e else .io

/-- the rows read before the first error of any kind, and that error, if there is one -/
def ctxsUntilError (c : Cfg) : Nat → Reader → Nat → Nat → List Ctx × Option PErr
  | 0, _, _, _ => ([], none)
  | fuel + 1, r, inFile, idx =>
    match r.nextJson with
    | (.ok (some v), r') =>
      if c.onlyObjectsAndArrays && !v.isObjOrArr then ctxsUntilError c fuel r' inFile idx
      else
        ({ input := v, ictx := some { startLoc := r.loc, endLoc := r'.loc, fileIndex := inFile, index := idx } }
            :: (ctxsUntilError c fuel r' (inFile + 1) (idx + 1)).1,
          (ctxsUntilError c fuel r' (inFile + 1) (idx + 1)).2)
    | (.ok none, _) => ([], none)
    | (.error e, _) => ([], some e)

/-- what the chain does with the rows read before the first error -/
abbrev panicRes (orc : Oracles) (c : Cfg) (p : Pipeline) (fuel : Nat) (r : Reader) (inFile : Nat)
    (s : RunState) : Pipe.Step :=
  feedBrk (processP (evalT orc) p.cfgs) s.sts (ctxsUntilError c fuel r inFile s.index).1

/-- **readLoop_panic.**  Under `--on-error=panic` the read loop feeds the chain the rows that precede the first
error.  If the chain has not answered `Break` by then, the loop fails with that error, having written exactly
the rows the chain delivered for that prefix; otherwise (no error, or `Break` first) it ends normally. -/
theorem readLoop_panic (orc : Oracles) (c : Cfg) (p : Pipeline)
    (hpol : c.onError = .panic) (hna : NoAbort orc p.cfgs)
    (fuel : Nat) (r : Reader) (inFile : Nat) (s : RunState)
    (hw : Unbounded s.out) (hs : Shape p.cfgs s.sts) (hwf : WF r) (hf : μ r + 1 ≤ fuel) :
    (∀ e, (ctxsUntilError c fuel r inFile s.index).2 = some e →
        (panicRes orc c p fuel r inFile s).2.2 = .cont →
      ∃ s', readLoop orc c p fuel r inFile s = .error ⟨.error (failOf e), s'⟩
        ∧ s'.sts = (panicRes orc c p fuel r inFile s).1
        ∧ s'.out = wappend s.out ((panicRes orc c p fuel r inFile s).2.1.flatMap (sinkBytes p.sink p.sinkLen))
        ∧ s'.err = s.err)
    ∧ (((ctxsUntilError c fuel r inFile s.index).2 = none ∨ (panicRes orc c p fuel r inFile s).2.2 = .brk) →
      ∃ s' r', readLoop orc c p fuel r inFile s = .ok (s', r', (panicRes orc c p fuel r inFile s).2.2)
        ∧ s'.sts = (panicRes orc c p fuel r inFile s).1
        ∧ s'.out = wappend s.out ((panicRes orc c p fuel r inFile s).2.1.flatMap (sinkBytes p.sink p.sinkLen))
        ∧ s'.err = s.err
        ∧ ((panicRes orc c p fuel r inFile s).2.2 = .cont →
            s'.index = s.index + (ctxsUntilError c fuel r inFile s.index).1.length)
        ∧ Shape p.cfgs s'.sts) := by
  induction fuel generalizing r inFile s with
  | zero => omega
  | succ fuel ih =>
    have hm := nextJson_mono r
    rcases hn : r.nextJson with ⟨res, r'⟩
    rw [hn] at hm
    cases res with
    | error e =>
      simp only [panicRes, readLoop, ctxsUntilError, hn, feedBrk]
      constructor
      · intro e' he' _
        cases he'
        refine ⟨{ s with pulled := s.pulled ++ [r'.pulled] }, ?_, rfl, by simp [wappend_nil], rfl⟩
        unfold failOf
        cases hrec : e.canRecover <;> simp [hpol]
      · rintro (h | h) <;> cases h
    | ok o =>
      cases o with
      | none =>
        simp only [panicRes, readLoop, ctxsUntilError, hn, feedBrk]
        constructor
        · intro e he; cases he
        · intro _
          exact ⟨s, r', rfl, rfl, by simp [wappend_nil], rfl, fun _ => rfl, hs⟩
      | some v =>
        have hp := nextJson_progress r hwf hn (by intro h; cases h)
        simp only [panicRes, readLoop, ctxsUntilError, hn]
        split
        · exact ih r' inFile s hw hs (hm.wf hwf) (by omega)
        · obtain ⟨p1, p2⟩ := process_pure orc p.sink p.sinkLen p.cfgs s.sts s.out
            { input := v, ictx := some { startLoc := r.loc, endLoc := r'.loc, fileIndex := inFile, index := s.index } }
            hna hw hs
          rcases hP : processP (evalT orc) p.cfgs s.sts
            { input := v, ictx := some { startLoc := r.loc, endLoc := r'.loc, fileIndex := inFile, index := s.index } }
            with ⟨s1, o1, d⟩
          rw [hP] at p1 p2
          cases d with
          | brk =>
            rw [feedBrk_cons_brk hP]
            simp only [p1]
            constructor
            · intro e _ h; cases h
            · intro _
              exact ⟨_, r', rfl, rfl, rfl, rfl, (fun h => by cases h), p2⟩
          | cont =>
            rw [feedBrk_cons_cont hP]
            simp only [p1]
            obtain ⟨ihE, ihO⟩ :=
              ih r' (inFile + 1) { s with sts := s1, out := wappend s.out (o1.flatMap (sinkBytes p.sink p.sinkLen)),
                                          index := s.index + 1 }
                (hw.wappend _) p2 (hm.wf hwf) (by omega)
            constructor
            · intro e he hc
              obtain ⟨s', h1, h2, h3, h4⟩ := ihE e he hc
              refine ⟨s', h1, h2, ?_, h4⟩
              rw [h3, wappend_wappend, List.flatMap_append]
            · intro hc
              obtain ⟨s', r'', h1, h2, h3, h4, h5, h6⟩ := ihO hc
              refine ⟨s', r'', h1, h2, ?_, h4, ?_, h6⟩
              · rw [h3, wappend_wappend, List.flatMap_append]
              · intro hd
                rw [h5 hd]
                simp only [List.length_cons]
                omega

/-- the rows of a list of sources before the first error, and that error -/
def ctxsUntilErrorSources (c : Cfg) : List Source → Nat → List Ctx × Option PErr
  | [], _ => ([], none)
  | src :: rest, idx =>
    match (ctxsUntilError c (src.items.length + 2) (Reader.ofItems src.items src.name) 0 idx).2 with
    | some e => ((ctxsUntilError c (src.items.length + 2) (Reader.ofItems src.items src.name) 0 idx).1, some e)
    | none =>
      ((ctxsUntilError c (src.items.length + 2) (Reader.ofItems src.items src.name) 0 idx).1 ++
        (ctxsUntilErrorSources c rest
          (idx + (ctxsUntilError c (src.items.length + 2) (Reader.ofItems src.items src.name) 0 idx).1.length)).1,
       (ctxsUntilErrorSources c rest
          (idx + (ctxsUntilError c (src.items.length + 2) (Reader.ofItems src.items src.name) 0 idx).1.length)).2)

abbrev panicSrcRes (orc : Oracles) (c : Cfg) (p : Pipeline) (sources : List Source) (s : RunState) : Pipe.Step :=
  feedBrk (processP (evalT orc) p.cfgs) s.sts (ctxsUntilErrorSources c sources s.index).1

/-- the file loop under `panic` -/
theorem readSources_panic (orc : Oracles) (c : Cfg) (p : Pipeline)
    (hpol : c.onError = .panic) (hna : NoAbort orc p.cfgs)
    (sources : List Source) (s : RunState) (hw : Unbounded s.out) (hs : Shape p.cfgs s.sts) :
    (∀ e, (ctxsUntilErrorSources c sources s.index).2 = some e →
        (panicSrcRes orc c p sources s).2.2 = .cont →
      ∃ s', readSources orc c p sources s = .error ⟨.error (failOf e), s'⟩
        ∧ s'.sts = (panicSrcRes orc c p sources s).1
        ∧ s'.out = wappend s.out ((panicSrcRes orc c p sources s).2.1.flatMap (sinkBytes p.sink p.sinkLen))
        ∧ s'.err = s.err)
    ∧ (((ctxsUntilErrorSources c sources s.index).2 = none ∨ (panicSrcRes orc c p sources s).2.2 = .brk) →
      ∃ s', readSources orc c p sources s = .ok s'
        ∧ s'.sts = (panicSrcRes orc c p sources s).1
        ∧ s'.out = wappend s.out ((panicSrcRes orc c p sources s).2.1.flatMap (sinkBytes p.sink p.sinkLen))
        ∧ s'.err = s.err
        ∧ Shape p.cfgs s'.sts) := by
  induction sources generalizing s with
  | nil =>
    simp only [panicSrcRes, ctxsUntilErrorSources, readSources, feedBrk]
    constructor
    · intro e he; cases he
    · intro _
      exact ⟨s, rfl, rfl, by simp [wappend_nil], rfl, hs⟩
  | cons src rest ih =>
    obtain ⟨hE, hO⟩ := readLoop_panic orc c p hpol hna (src.items.length + 2)
      (Reader.ofItems src.items src.name) 0 s hw hs (wf_ofItems _ _) (by rw [μ_ofItems]; omega)
    simp only [panicRes] at hE hO
    simp only [panicSrcRes, readSources, ctxsUntilErrorSources]
    rcases ht : (ctxsUntilError c (src.items.length + 2) (Reader.ofItems src.items src.name) 0 s.index).2
      with _ | e
    · -- no error in this source
      simp only []
      obtain ⟨s1, r1, h1, h2, h3, h4, h5, h6⟩ := hO (.inl ht)
      rw [h1]
      rcases hd : (feedBrk (processP (evalT orc) p.cfgs) s.sts
          (ctxsUntilError c (src.items.length + 2) (Reader.ofItems src.items src.name) 0 s.index).1).2.2
        with _ | _
      · -- `.cont`: next source
        have hw1 : Unbounded s1.out := by rw [h3]; exact hw.wappend _
        obtain ⟨gE, gO⟩ := ih { s1 with pulled := s1.pulled ++ [r1.pulled] } hw1 h6
        simp only [panicSrcRes] at gE gO
        have hidx := h5 hd
        rw [feedBrk_append_cont _ _ _ _ hd]
        simp only [show (Decision.cont = Decision.brk) = False from by simp, if_false]
        rw [← h2, ← hidx]
        constructor
        · intro e he hc
          obtain ⟨s', g1, g2, g3, g4⟩ := gE e he hc
          refine ⟨s', g1, g2, ?_, by rw [g4, h4]⟩
          rw [g3, h3, wappend_wappend, List.flatMap_append]
        · intro hc
          obtain ⟨s', g1, g2, g3, g4, g5⟩ := gO hc
          refine ⟨s', g1, g2, ?_, by rw [g4, h4], g5⟩
          rw [g3, h3, wappend_wappend, List.flatMap_append]
      · -- `.brk`: the remaining sources are not opened
        rw [feedBrk_append_brk _ _ _ _ hd]
        simp only [if_true]
        constructor
        · intro e _ hc; rw [hd] at hc; cases hc
        · intro _
          exact ⟨_, rfl, h2, h3, h4, h6⟩
    · -- this source holds the first error
      simp only []
      constructor
      · intro e' he' hc
        cases he'
        obtain ⟨s', h1, h2, h3, h4⟩ := hE e ht hc
        rw [h1]
        exact ⟨s', rfl, h2, h3, h4⟩
      · rintro (h | h)
        · cases h
        · obtain ⟨s1, r1, h1, h2, h3, h4, h5, h6⟩ := hO (.inr h)
          rw [h1, h]
          simp only [if_true]
          exact ⟨_, rfl, h2, h3, h4, h6⟩

/-- a chain without whole-input stage: no sorter, grouper or merger -/
def Streaming : List StageCfg → Prop
  | [] => True
  | .sort _ _ :: _ => False
  | .group _ :: _ => False
  | .merge :: _ => False
  | _ :: cs => Streaming cs

/-- a streaming chain holds nothing back: `complete` delivers no row -/
theorem completeP_streaming (ev : Expr → Ctx → Option JV) (cfgs : List StageCfg) (sts : List StageSt)
    (h : Streaming cfgs) : completeP ev cfgs sts = [] := by
  induction cfgs generalizing sts with
  | nil => simp [completeP]
  | cons c cs ih =>
    cases sts with
    | nil => simp [completeP]
    | cons st sts =>
      cases c <;> first
        | exact h.elim
        | (cases st <;> simp only [completeP] <;> exact ih sts h)

/-- for a streaming chain what has been delivered when the feeding stops is the documented composition
applied to the rows fed -/
theorem feedBrk_streaming_spec (ev : Expr → Ctx → Option JV) {cfgs : List StageCfg} {sts : List StageSt}
    (hi : Initial cfgs sts) (hg : GroupLast cfgs) (hst : Streaming cfgs) (rows : List Ctx) :
    (feedBrk (processP ev cfgs) sts rows).2.1 = specRows ev cfgs sts rows := by
  rw [← runP_eq_spec ev hi hg rows, runP, completeP_streaming ev cfgs _ hst, List.append_nil]

/-- **run_panic_spec.**  Under `--on-error=panic`, with a configuration that builds, expressions that never
abort and a standard output that never fails: let `pre` be the rows read before the first error.
* If there is such an error and the chain has not answered `Break` on `pre`, the run fails with that error;
  standard output holds the header and the rows the chain delivered while being fed `pre` — `complete` is not
  run — and for a streaming chain these are exactly `specRows pre`.  Nothing is written to standard error
  by the run itself.
* Otherwise the run succeeds and writes exactly what it writes under `ignore`: `specRows pre`. -/
theorem run_panic_spec (orc : Oracles) (c : Cfg) (sources : List Source) (wOut wErr : Writer) (p : Pipeline)
    (hpol : c.onError = .panic) (hb : build orc c = .ok p)
    (hna : NoAbort orc p.cfgs) (hw : Unbounded wOut) (hh : ¬ HeaderMissing p) :
    (∀ e, (ctxsUntilErrorSources c sources 0).2 = some e →
        (feedBrk (processP (evalT orc) p.cfgs) p.sts (ctxsUntilErrorSources c sources 0).1).2.2 = .cont →
      (run orc c sources wOut wErr).result = .error (failOf e)
      ∧ (run orc c sources wOut wErr).stdout
          = wOut.out ++ headerBytes p ++
            (feedBrk (processP (evalT orc) p.cfgs) p.sts (ctxsUntilErrorSources c sources 0).1).2.1.flatMap
              (sinkBytes p.sink p.sinkLen)
      ∧ (Streaming p.cfgs →
          (run orc c sources wOut wErr).stdout
            = wOut.out ++ headerBytes p ++
              (specRows (evalT orc) p.cfgs p.sts (ctxsUntilErrorSources c sources 0).1).flatMap
                (sinkBytes p.sink p.sinkLen))
      ∧ (run orc c sources wOut wErr).stderr = wErr.out)
    ∧ (((ctxsUntilErrorSources c sources 0).2 = none ∨
        (feedBrk (processP (evalT orc) p.cfgs) p.sts (ctxsUntilErrorSources c sources 0).1).2.2 = .brk) →
      (run orc c sources wOut wErr).result = .ok ()
      ∧ (run orc c sources wOut wErr).stdout
          = wOut.out ++ headerBytes p ++
            (specRows (evalT orc) p.cfgs p.sts (ctxsUntilErrorSources c sources 0).1).flatMap
              (sinkBytes p.sink p.sinkLen)
      ∧ (run orc c sources wOut wErr).stderr = wErr.out) := by
  obtain ⟨hi, hg, -, -⟩ := build_initial orc c p hb
  obtain ⟨hE, hO⟩ := readSources_panic orc c p hpol hna sources
    { sts := p.sts, out := wappend wOut (headerBytes p), err := wErr } (hw.wappend _) hi.shape
  simp only [panicSrcRes] at hE hO
  constructor
  · intro e he hc
    obtain ⟨s', g1, g2, g3, g4⟩ := hE e he hc
    have hout : (run orc c sources wOut wErr).stdout
          = wOut.out ++ headerBytes p ++
            (feedBrk (processP (evalT orc) p.cfgs) p.sts (ctxsUntilErrorSources c sources 0).1).2.1.flatMap
              (sinkBytes p.sink p.sinkLen) := by
      simp only [run, hb, sinkStart_unbounded p hw hh, g1, RunEnd.toResult, g3, wappend_out]
    refine ⟨?_, hout, ?_, ?_⟩
    · simp only [run, hb, sinkStart_unbounded p hw hh, g1, RunEnd.toResult]
    · intro hst
      rw [hout, feedBrk_streaming_spec (evalT orc) hi hg hst]
    · simp only [run, hb, sinkStart_unbounded p hw hh, g1, RunEnd.toResult, g4]
  · intro hc
    obtain ⟨s', g1, g2, g3, g4, g5⟩ := hO hc
    have hw' : Unbounded s'.out := by rw [g3]; exact (hw.wappend _).wappend _
    have hcp := complete_pure orc p.sink p.sinkLen p.cfgs s'.sts s'.out hna hw' g5
    have hspec := runP_eq_spec (evalT orc) hi hg (ctxsUntilErrorSources c sources 0).1
    simp only [run, hb, sinkStart_unbounded p hw hh, g1, hcp]
    refine ⟨trivial, ?_, by rw [g4]⟩
    simp only [wappend_out, g3, g2]
    rw [← hspec, runP, List.flatMap_append]
    simp [List.append_assoc]

/-! ### `panic` on a noisy stream: the run stops at the first garbage byte -/

theorem ctxsUntilError_fuel (c : Cfg) (f₁ f₂ : Nat) (r : Reader) (i k : Nat) (hw : WF r)
    (h1 : μ r + 1 ≤ f₁) (h2 : μ r + 1 ≤ f₂) : ctxsUntilError c f₁ r i k = ctxsUntilError c f₂ r i k := by
  induction f₁ generalizing f₂ r i k with
  | zero => omega
  | succ f₁ ih =>
    obtain ⟨f₂, rfl⟩ : ∃ m, f₂ = m + 1 := ⟨f₂ - 1, by omega⟩
    rcases hn : r.nextJson with ⟨res, r'⟩
    cases res with
    | error e => simp only [ctxsUntilError, hn]
    | ok o =>
      cases o with
      | none => simp only [ctxsUntilError, hn]
      | some v =>
        obtain ⟨hw', hμ⟩ := step_facts hw hn (by intro h; cases h)
        simp only [ctxsUntilError, hn]
        split
        · exact ih f₂ r' i k hw' (by omega) (by omega)
        · rw [ih f₂ r' (i + 1) (k + 1) hw' (by omega) (by omega)]

/-- the rows before the first error behind reader `r`, and that error -/
def untilAt (c : Cfg) (r : Reader) (i k : Nat) : List Ctx × Option PErr := ctxsUntilError c (μ r + 1) r i k

theorem ctxsUntilError_eq_untilAt (c : Cfg) (f : Nat) (r : Reader) (i k : Nat) (hw : WF r) (hf : μ r + 1 ≤ f) :
    ctxsUntilError c f r i k = untilAt c r i k := ctxsUntilError_fuel c f _ r i k hw hf (Nat.le_refl _)

theorem untilAt_error (c : Cfg) {r r' : Reader} {e : PErr} (i k : Nat)
    (hn : r.nextJson = (.error e, r')) : untilAt c r i k = ([], some e) := by
  rw [untilAt, ctxsUntilError]
  simp only [hn]

theorem untilAt_end (c : Cfg) {r r' : Reader} (i k : Nat)
    (hn : r.nextJson = (.ok none, r')) : untilAt c r i k = ([], none) := by
  rw [untilAt, ctxsUntilError]
  simp only [hn]

theorem untilAt_value (c : Cfg) {r r' : Reader} {v : JV} (i k : Nat) (hw : WF r)
    (hn : r.nextJson = (.ok (some v), r')) :
    untilAt c r i k =
      if c.onlyObjectsAndArrays && !v.isObjOrArr then untilAt c r' i k
      else ({ input := v, ictx := some { startLoc := r.loc, endLoc := r'.loc, fileIndex := i, index := k } }
              :: (untilAt c r' (i + 1) (k + 1)).1, (untilAt c r' (i + 1) (k + 1)).2) := by
  obtain ⟨hw', hμ⟩ := step_facts hw hn (by intro h; cases h)
  rw [untilAt, ctxsUntilError]
  simp only [hn]
  rw [ctxsUntilError_eq_untilAt c _ r' i k hw' hμ, ctxsUntilError_eq_untilAt c _ r' (i + 1) (k + 1) hw' hμ]

/-- the values that precede the first gap containing garbage -/
def cleanPrefix (g0 : Gap) : List (JV × Gap) → List JV
  | [] => []
  | (v, g) :: rest => if g0.toks.isEmpty then v :: cleanPrefix g rest else []

/-- the first garbage byte of the stream -/
def firstGarbage (g0 : Gap) : List (JV × Gap) → Option Byte
  | [] => g0.toks.head?.bind (·.1.head?)
  | (_, g) :: rest =>
    match g0.toks with
    | t :: _ => t.1.head?
    | [] => firstGarbage g rest

/-- reading a noisy stream up to its first error: the values before the first gap that holds garbage, then
the `unexpectedChar` error for the first garbage byte (none for a clean stream) -/
theorem stream_until (c : Cfg) (o : JsonOpts) (items : List (JV × Gap)) (hit : ItemsOK o items)
    (g0 : Gap) (h0 : g0.OK) (w : List Byte) (hw : ∀ b ∈ w, isWs b = true) (r : Reader)
    (hr : Ready r (w ++ stream o g0 items)) (i k : Nat) :
    (untilAt c r i k).1.map (·.input) = applyOnlyObj c ((cleanPrefix g0 items).map norm) ∧
    (match firstGarbage g0 items with
      | none => (untilAt c r i k).2 = none
      | some b => ∃ loc, (untilAt c r i k).2 = some (.unexpectedChar loc b valueExpected)) := by
  induction items generalizing g0 w r i k with
  | nil =>
    obtain ⟨ws0, toks0⟩ := g0
    cases toks0 with
    | nil =>
      obtain ⟨r2, hend, _⟩ := nextJson_end (w ++ ws0) (ws_append hw h0.1) r
        (by simpa [stream, Gap.bytes, toksBytes] using hr)
      rw [untilAt_end c i k hend]
      exact ⟨rfl, rfl⟩
    | cons t toks =>
      obtain ⟨hne, hg, _⟩ := h0.2 t (by simp)
      obtain ⟨t1, t2⟩ := t
      cases t1 with
      | nil => exact absurd rfl hne
      | cons b bs =>
        obtain ⟨r1, h1, _⟩ := garbage_one (w ++ ws0) (ws_append hw h0.1) b (hg b (by simp))
          (bs ++ (t2 ++ (toksBytes toks ++ []))) r
          (by simpa [stream, Gap.bytes, toksBytes, List.append_assoc] using hr)
        rw [untilAt_error c i k h1]
        exact ⟨rfl, _, rfl⟩
  | cons x rest ih =>
    obtain ⟨v, g⟩ := x
    obtain ⟨hv, hg, hsep, hrest⟩ := hit
    rw [stream_cons] at hr
    obtain ⟨ws0, toks0⟩ := g0
    cases toks0 with
    | nil =>
      have hr1 : Ready r ((w ++ ws0) ++ (utf8 (printJson o v) ++ stream o g rest)) := by
        simpa [Gap.bytes, toksBytes, List.append_assoc] using hr
      obtain ⟨r2, hval, hr2⟩ := nextJson_print o v hv (w ++ ws0) (ws_append hw h0.1) _
        (delim_stream o v g rest hg hsep) r hr1
      have hr2' : Ready r2 ([] ++ stream o g rest) := by simpa using hr2
      rw [untilAt_value c i k (ready_wf hr) hval]
      simp only [cleanPrefix, firstGarbage, List.isEmpty_nil, if_true, List.map_cons, applyOnlyObj,
        List.filter_cons]
      cases hb : (c.onlyObjectsAndArrays && !(norm v).isObjOrArr) with
      | true =>
        simp only [if_true, Bool.not_true, Bool.false_eq_true, if_false]
        exact ih hrest g hg [] (by simp) r2 hr2' i k
      | false =>
        simp only [Bool.false_eq_true, if_false, Bool.not_false, if_true, List.map_cons]
        obtain ⟨ih1, ih2⟩ := ih hrest g hg [] (by simp) r2 hr2' (i + 1) (k + 1)
        refine ⟨?_, ih2⟩
        rw [ih1]
        rfl
    | cons t toks =>
      obtain ⟨hne, hgb, _⟩ := h0.2 t (by simp)
      obtain ⟨t1, t2⟩ := t
      cases t1 with
      | nil => exact absurd rfl hne
      | cons b bs =>
        obtain ⟨r1, h1, _⟩ := garbage_one (w ++ ws0) (ws_append hw h0.1) b (hgb b (by simp))
          (bs ++ (t2 ++ (toksBytes toks ++ (utf8 (printJson o v) ++ stream o g rest)))) r
          (by simpa [Gap.bytes, toksBytes, List.append_assoc] using hr)
        rw [untilAt_error c i k h1]
        exact ⟨rfl, _, rfl⟩

theorem ctxsUntilErrorSources_single (c : Cfg) (src : Source) (k : Nat) :
    (ctxsUntilErrorSources c [src] k).1
        = (ctxsUntilError c (src.items.length + 2) (Reader.ofItems src.items src.name) 0 k).1 ∧
    (ctxsUntilErrorSources c [src] k).2
        = (ctxsUntilError c (src.items.length + 2) (Reader.ofItems src.items src.name) 0 k).2 := by
  simp only [ctxsUntilErrorSources]
  split
  · rename_i e he
    exact ⟨rfl, he.symm⟩
  · rename_i he
    exact ⟨by simp, he.symm⟩

/-- **`panic` on a noisy stream.**  The rows `pre` fed to the chain are those of the values that precede the
first gap holding garbage.  If the stream holds garbage (first garbage byte `b`) and the chain has not answered
`Break` on `pre`, the run fails with `unexpectedChar … b`; a streaming chain has by then written exactly the
header and `specRows pre`.  If the stream is clean (or the chain answered `Break` first) the run succeeds and
writes the header and `specRows pre`. -/
theorem run_panic_noisy (orc : Oracles) (c : Cfg) (name : Option Str) (o : JsonOpts) (g0 : Gap)
    (items : List (JV × Gap)) (h0 : g0.OK) (hit : ItemsOK o items) (wOut wErr : Writer) (p : Pipeline)
    (hpol : c.onError = .panic) (hb : build orc c = .ok p)
    (hna : NoAbort orc p.cfgs) (hw : Unbounded wOut) (hh : ¬ HeaderMissing p) :
    ∃ pre : List Ctx,
      pre.map (·.input) = applyOnlyObj c ((cleanPrefix g0 items).map norm) ∧
      (∀ b, firstGarbage g0 items = some b →
          (feedBrk (processP (evalT orc) p.cfgs) p.sts pre).2.2 = .cont →
        ∃ loc,
          (run orc c [streamSource name o g0 items] wOut wErr).result
            = .error (.json (.unexpectedChar loc b valueExpected))
          ∧ (run orc c [streamSource name o g0 items] wOut wErr).stdout
              = wOut.out ++ headerBytes p ++
                (feedBrk (processP (evalT orc) p.cfgs) p.sts pre).2.1.flatMap (sinkBytes p.sink p.sinkLen)
          ∧ (Streaming p.cfgs →
              (run orc c [streamSource name o g0 items] wOut wErr).stdout
                = wOut.out ++ headerBytes p ++
                  (specRows (evalT orc) p.cfgs p.sts pre).flatMap (sinkBytes p.sink p.sinkLen))
          ∧ (run orc c [streamSource name o g0 items] wOut wErr).stderr = wErr.out) ∧
      ((firstGarbage g0 items = none ∨ (feedBrk (processP (evalT orc) p.cfgs) p.sts pre).2.2 = .brk) →
        (run orc c [streamSource name o g0 items] wOut wErr).result = .ok ()
        ∧ (run orc c [streamSource name o g0 items] wOut wErr).stdout
            = wOut.out ++ headerBytes p ++
              (specRows (evalT orc) p.cfgs p.sts pre).flatMap (sinkBytes p.sink p.sinkLen)
        ∧ (run orc c [streamSource name o g0 items] wOut wErr).stderr = wErr.out) := by
  obtain ⟨hE, hO⟩ := run_panic_spec orc c [streamSource name o g0 items] wOut wErr p hpol hb hna hw hh
  obtain ⟨e1, e2⟩ := ctxsUntilErrorSources_single c (streamSource name o g0 items) 0
  rw [streamSource_reader, streamSource_fuel,
    ctxsUntilError_eq_untilAt c _ _ 0 0 (wf_ofBytes _ _) (by rw [μ_ofBytes]; omega)] at e1 e2
  have hr : Ready (Reader.ofBytes (stream o g0 items) name) ([] ++ stream o g0 items) := by
    simpa using ready_ofBytes _ name
  obtain ⟨u1, u2⟩ := stream_until c o items hit g0 h0 [] (by simp) _ hr 0 0
  rw [e1] at hE hO
  rw [e2] at hE hO
  refine ⟨_, u1, ?_, ?_⟩
  · intro b hb' hc
    rw [hb'] at u2
    obtain ⟨loc, hloc⟩ := u2
    exact ⟨loc, hE _ hloc hc⟩
  · rintro (hnone | hbrk)
    · rw [hnone] at u2
      exact hO (.inl u2)
    · exact hO (.inr hbrk)

/-- the clean twin holds no garbage: all its values precede "the first garbage byte" -/
theorem strip_clean (g0 : Gap) (items : List (JV × Gap)) :
    firstGarbage g0.strip (stripItems items) = none ∧
    cleanPrefix g0.strip (stripItems items) = items.map (·.1) := by
  induction items generalizing g0 with
  | nil => exact ⟨rfl, rfl⟩
  | cons x rest ih =>
    obtain ⟨v, g⟩ := x
    obtain ⟨i1, i2⟩ := ih g
    constructor
    · simp only [stripItems, List.map_cons, firstGarbage, Gap.strip] at i1 ⊢
      exact i1
    · simp only [stripItems, List.map_cons, cleanPrefix, Gap.strip, List.isEmpty_nil, if_true] at i2 ⊢
      rw [i2]

/-- `1 x 2\n` under `panic`: the first garbage byte is `x`, the value `1` precedes it -/
example : firstGarbage {} exItems = some 120 ∧ cleanPrefix {} exItems = [.num (.pos 1)] := ⟨rfl, rfl⟩

def panicCfg : Cfg := { onError := .panic }

theorem build_panicCfg (orc : Oracles) : build orc panicCfg = .ok defaultPipeline := rfl

/-- non-vacuity of `run_panic_noisy`: the default chain under `panic` on `1 x 2\n` -/
example (orc : Oracles) : ∃ loc,
    (run orc panicCfg [streamSource none {} {} exItems] {} {}).result
      = .error (.json (.unexpectedChar loc 120 valueExpected)) := by
  obtain ⟨pre, _, h2, _⟩ := run_panic_noisy orc panicCfg none {} {} exItems emptyGap_ok exItems_ok {} {}
    defaultPipeline rfl (build_panicCfg orc) (fun c hc => by cases hc) ⟨rfl, rfl⟩ (fun h => h)
  obtain ⟨loc, hl, _⟩ := h2 120 rfl (feedBrk_nil_chain _ _)
  exact ⟨loc, hl⟩

/-- the same run, computed: it fails at `x` (the reader has pulled the byte after it: column 5), having
printed the row of the value `1` -/
example (orc : Oracles) :
    (run orc panicCfg [⟨none, cleanInput [49, 32, 120, 32, 50, 10]⟩] {} {}).result
        = .error (.json (.unexpectedChar { name := none, line := 1, col := 5 } 120 valueExpected)) ∧
    (run orc panicCfg [⟨none, cleanInput [49, 32, 120, 32, 50, 10]⟩] {} {}).stdout = [49, 10] :=
  ⟨rfl, rfl⟩

/-! ### 5. clean streams produce no report, under any policy -/

/-- no source holds a recoverable error -/
def NoErrors (sources : List Source) : Prop :=
  ∀ src ∈ sources, perrsOf (src.items.length + 2) (Reader.ofItems src.items src.name) = []

theorem errsOfSources_nil (ev : Expr → Ctx → Option JV) (c : Cfg) (cfgs : List StageCfg)
    (sources : List Source) (h : NoErrors sources) (k : Nat) (sts : List StageSt) :
    errsOfSources ev c cfgs sources k sts = [] := by
  induction sources generalizing k sts with
  | nil => rfl
  | cons src rest ih =>
    have h1 : errsOf ev c cfgs (src.items.length + 2) (Reader.ofItems src.items src.name) 0 k sts = [] := by
      have := errsOf_prefix ev c cfgs (src.items.length + 2) (Reader.ofItems src.items src.name) 0 k sts
      rw [h src (by simp)] at this
      exact List.prefix_nil.mp this
    simp only [errsOfSources, h1, List.nil_append]
    split
    · rfl
    · exact ih (fun s hs => h s (by simp [hs])) _ _

/-- without errors, the rows before the first error are all the rows -/
theorem ctxsUntilError_of_noErrors (c : Cfg) (fuel : Nat) (r : Reader) (i k : Nat) (hcl : Clean r)
    (h : perrsOf fuel r = []) : ctxsUntilError c fuel r i k = (ctxsOf c fuel r i k, none) := by
  induction fuel generalizing r i k with
  | zero => rfl
  | succ fuel ih =>
    have hc2 := (nextJson_clean r hcl).2
    rcases hn : r.nextJson with ⟨res, r'⟩
    rw [hn] at hc2
    cases res with
    | error e =>
      have hrec := nextJson_canRecover hcl hn
      simp [perrsOf, hn, hrec] at h
    | ok o =>
      cases o with
      | none => simp only [ctxsUntilError, ctxsOf, hn]
      | some v =>
        simp only [perrsOf, hn] at h
        simp only [ctxsUntilError, ctxsOf, hn]
        split
        · exact ih r' i k hc2 h
        · rw [ih r' (i + 1) (k + 1) hc2 h]

theorem ctxsUntilErrorSources_of_noErrors (c : Cfg) (sources : List Source) (hcl : CleanIO sources)
    (h : NoErrors sources) (k : Nat) :
    ctxsUntilErrorSources c sources k = (ctxsOfSources c sources k, none) := by
  induction sources generalizing k with
  | nil => rfl
  | cons src rest ih =>
    have h1 := ctxsUntilError_of_noErrors c (src.items.length + 2) (Reader.ofItems src.items src.name) 0 k
      hcl.head (h src (by simp))
    simp only [ctxsUntilErrorSources, ctxsOfSources, h1, ih hcl.tail (fun s hs => h s (by simp [hs]))]

theorem Chunks.bytes_of_no_reports (ch : Chunks) (h : ch.reports = []) : ch.bytes = ch.rowPart := by
  induction ch with
  | nil => rfl
  | cons x ch ih =>
    obtain ⟨b, bs⟩ := x
    cases b with
    | true => simp [Chunks.reports] at h
    | false =>
      have h' : Chunks.reports ch = [] := by simpa [Chunks.reports] using h
      have := ih h'
      simp only [Chunks.bytes, Chunks.rowPart] at this ⊢
      simp [this]

/-- **clean_no_reports (general form).**  Sources that hold no recoverable error and no I/O error: under every
`--on-error` policy the run succeeds, standard output is the header and the rows of the documented composition
— no report line —, standard error is untouched. -/
theorem no_errors_no_reports (orc : Oracles) (c : Cfg) (sources : List Source) (wOut wErr : Writer) (p : Pipeline)
    (hb : build orc c = .ok p) (hna : NoAbort orc p.cfgs) (hw : Unbounded wOut)
    (he : c.onError = .stderr → Unbounded wErr)
    (hcl : CleanIO sources) (hne : NoErrors sources) (hh : ¬ HeaderMissing p) :
    errsOfSources (evalT orc) c p.cfgs sources 0 p.sts = []
    ∧ (run orc c sources wOut wErr).result = .ok ()
    ∧ (run orc c sources wOut wErr).stdout
        = wOut.out ++ headerBytes p ++
          (specRows (evalT orc) p.cfgs p.sts (ctxsOfSources c sources 0)).flatMap (sinkBytes p.sink p.sinkLen)
    ∧ (run orc c sources wOut wErr).stderr = wErr.out := by
  have hnil := errsOfSources_nil (evalT orc) c p.cfgs sources hne 0 p.sts
  refine ⟨hnil, ?_⟩
  cases hpol : c.onError with
  | ignore => exact run_ignore_spec orc c sources wOut wErr p hpol hb hna hw hcl hh
  | stderr =>
    obtain ⟨h1, h2, h3⟩ := policy_stderr_same_rows orc c sources wOut wErr p hpol hb hna hw (he hpol) hcl hh
    exact ⟨h1, h2, by rw [h3, hnil]; simp⟩
  | stdout =>
    obtain ⟨ch, h1, h2, h3, h4, h5⟩ := RunSpec.policy_stdout orc c sources wOut wErr p hpol hb hna hw hcl hh
    rw [hnil] at h4
    exact ⟨h1, by rw [h2, Chunks.bytes_of_no_reports ch h4, h3], h5⟩
  | panic =>
    obtain ⟨_, hO⟩ := run_panic_spec orc c sources wOut wErr p hpol hb hna hw hh
    rw [ctxsUntilErrorSources_of_noErrors c sources hcl hne 0] at hO
    exact hO (.inl rfl)

/-- a list of streams, each with its name and print options -/
structure StreamSpec where
  name : Option Str := none
  o : JsonOpts := {}
  g0 : Gap := {}
  items : List (JV × Gap) := []

def StreamSpec.OK (s : StreamSpec) : Prop := s.g0.OK ∧ ItemsOK s.o s.items
/-- no garbage in any gap -/
def StreamSpec.Clean (s : StreamSpec) : Prop := garbageCount s.g0 s.items = 0
def StreamSpec.source (s : StreamSpec) : Source := streamSource s.name s.o s.g0 s.items

theorem cleanIO_specs (specs : List StreamSpec) : CleanIO (specs.map StreamSpec.source) :=
  cleanIO_streams _ (by
    intro s hs
    obtain ⟨x, _, rfl⟩ := List.mem_map.mp hs
    exact ⟨_, rfl⟩)

theorem noErrors_specs (specs : List StreamSpec) (hok : ∀ s ∈ specs, s.OK) (hclean : ∀ s ∈ specs, s.Clean) :
    NoErrors (specs.map StreamSpec.source) := by
  intro src hsrc
  obtain ⟨x, hx, rfl⟩ := List.mem_map.mp hsrc
  have := (clean_errors (fun _ _ => none) {} [] [] x.o x.g0 x.items (hok x hx).1 (hok x hx).2 (hclean x hx)
    x.name ((stream x.o x.g0 x.items).length + 2) (Nat.le_refl _) 0 0).1
  simpa [StreamSpec.source, streamSource_reader, streamSource_fuel] using this

/-- **clean_no_reports.**  Clean streams (values separated by white space only), on stdin or in files: under
every `--on-error` policy there is no error to report (`errsOfSources … = []`), the run succeeds, standard
output holds no report line (it is the header and the rows), standard error is untouched. -/
theorem clean_no_reports (orc : Oracles) (c : Cfg) (specs : List StreamSpec) (wOut wErr : Writer) (p : Pipeline)
    (hok : ∀ s ∈ specs, s.OK) (hclean : ∀ s ∈ specs, s.Clean)
    (hb : build orc c = .ok p) (hna : NoAbort orc p.cfgs) (hw : Unbounded wOut)
    (he : c.onError = .stderr → Unbounded wErr) (hh : ¬ HeaderMissing p) :
    errsOfSources (evalT orc) c p.cfgs (specs.map StreamSpec.source) 0 p.sts = []
    ∧ (run orc c (specs.map StreamSpec.source) wOut wErr).result = .ok ()
    ∧ (run orc c (specs.map StreamSpec.source) wOut wErr).stdout
        = wOut.out ++ headerBytes p ++
          (specRows (evalT orc) p.cfgs p.sts (ctxsOfSources c (specs.map StreamSpec.source) 0)).flatMap
            (sinkBytes p.sink p.sinkLen)
    ∧ (run orc c (specs.map StreamSpec.source) wOut wErr).stderr = wErr.out :=
  no_errors_no_reports orc c _ wOut wErr p hb hna hw he (cleanIO_specs specs)
    (noErrors_specs specs hok hclean) hh

/-- non-vacuity: the clean twin of `1 x 2\n` -/
example : (⟨none, {}, ({} : Gap).strip, stripItems exItems⟩ : StreamSpec).OK
    ∧ (⟨none, {}, ({} : Gap).strip, stripItems exItems⟩ : StreamSpec).Clean :=
  ⟨⟨Gap.strip_OK emptyGap_ok, stripItems_OK _ _ exItems_ok⟩, garbageCount_strip _ _⟩

/-! ### 3 (general chains). rows that differ in their locations only

The parser never changes the name part of the reader's location. -/

/-- the action keeps the name in the reader's location -/
structure PName {α} (m : PM α) : Prop where
  name : ∀ r, (m r).2.loc.name = r.loc.name

theorem pname_pure {α} (a : α) : PName (pure a : PM α) := ⟨fun _ => rfl⟩
theorem pname_fail {α} (e : PErr) : PName (PM.fail e : PM α) := ⟨fun _ => rfl⟩
theorem pname_locErr {α} (mk : Loc → PErr) : PName (locErr mk : PM α) := ⟨fun _ => rfl⟩

theorem pname_bind {α β} {m : PM α} {f : α → PM β} (hm : PName m) (hf : ∀ a, PName (f a)) :
    PName (m >>= f) := by
  constructor
  intro r
  have h1 := hm.name r
  simp only [PM.bind_apply]
  cases h : m r with
  | mk res r1 =>
    rw [h] at h1
    cases res with
    | error e => exact h1
    | ok a => exact ((hf a).name r1).trans h1

theorem next_pname : PName Reader.next := by
  constructor
  intro r
  cases r with
  | mk rest cur eof loc pulled =>
    cases eof with
    | true => rfl
    | false =>
      cases rest with
      | nil => rfl
      | cons it rest =>
        cases it with
        | err => rfl
        | byte b =>
          by_cases hb : b = 10 <;> simp [Reader.next, hb]

theorem peek_pname : PName Reader.peek := by
  constructor
  intro r
  unfold Reader.peek
  split
  · rfl
  · exact next_pname.name r

macro "pname_step" : tactic => `(tactic| first
  | with_reducible exact pname_pure _
  | with_reducible exact pname_fail _
  | with_reducible exact pname_locErr _
  | with_reducible exact next_pname
  | with_reducible exact peek_pname
  | with_reducible assumption
  | with_reducible apply pname_bind
  | intro _
  | split)

syntax "pname" ("[" term,* "]")? : tactic
macro_rules
  | `(tactic| pname) => `(tactic| repeat' pname_step)
  | `(tactic| pname [$ts,*]) =>
    `(tactic| repeat' (first | pname_step $[| with_reducible exact $ts]*))

theorem eatWhitespace_pname (fuel : Nat) : PName (eatWhitespace fuel) := by
  induction fuel with
  | zero => exact pname_fail _
  | succ fuel ih => unfold eatWhitespace; pname

theorem readDigits_pname (fuel : Nat) (acc : List Byte) : PName (readDigits fuel acc) := by
  induction fuel generalizing acc with
  | zero => exact pname_fail _
  | succ fuel ih => unfold readDigits; pname [ih _]

theorem readWordTail_pname (word : String) (es : List Byte) : PName (readWordTail word es) := by
  induction es with
  | nil => unfold readWordTail; pname
  | cons e es ih => unfold readWordTail; pname

theorem readHex4_pname (k acc : Nat) : PName (readHex4 k acc) := by
  induction k generalizing acc with
  | zero => exact pname_pure _
  | succ k ih => unfold readHex4; pname [ih _]

theorem readStringLoop_pname (fuel : Nat) (acc : List Byte) : PName (readStringLoop fuel acc) := by
  induction fuel generalizing acc with
  | zero => exact pname_fail _
  | succ fuel ih => unfold readStringLoop; pname [ih _, readHex4_pname _ _]

theorem parseToDouble_pname (t : List Byte) : PName (parseToDouble t) := by
  unfold parseToDouble; pname

theorem readNumber_pname (fuel : Nat) : PName (readNumber fuel) := by
  unfold readNumber
  pname [readDigits_pname _ _, parseToDouble_pname _]

structure ValueName (fuel : Nat) : Prop where
  value : PName (nextValue fuel)
  array : PName (readArray fuel)
  arrayLoop : ∀ acc, PName (readArrayLoop fuel acc)
  object : PName (readObject fuel)
  objectLoop : ∀ acc, PName (readObjectLoop fuel acc)

theorem valueName (fuel : Nat) : ValueName fuel := by
  induction fuel with
  | zero =>
    refine ⟨?_, ?_, fun _ => ?_, ?_, fun _ => ?_⟩
    · unfold nextValue; exact pname_fail _
    · unfold readArray; exact pname_fail _
    · unfold readArrayLoop; exact pname_fail _
    · unfold readObject; exact pname_fail _
    · unfold readObjectLoop; exact pname_fail _
  | succ fuel ih =>
    refine ⟨?_, ?_, fun _ => ?_, ?_, fun _ => ?_⟩
    · unfold nextValue
      pname [eatWhitespace_pname _, readWordTail_pname _ _, readStringLoop_pname _ _,
        readNumber_pname _, ih.array, ih.object]
    · unfold readArray
      pname [eatWhitespace_pname _, ih.arrayLoop _]
    · unfold readArrayLoop
      pname [eatWhitespace_pname _, ih.arrayLoop _, ih.value]
    · unfold readObject
      pname [eatWhitespace_pname _, ih.objectLoop _]
    · unfold readObjectLoop
      pname [eatWhitespace_pname _, ih.objectLoop _, ih.value]

/-- `nextJson` never changes the name in the reader's location -/
theorem nextJson_name (r : Reader) : (Reader.nextJson r).2.loc.name = r.loc.name :=
  (valueName _).value.name r

/-- a location without its line and column -/
def eraseLoc (l : Loc) : Loc := { name := l.name, line := 0, col := 0 }

def eraseI (ic : InputCtx) : InputCtx :=
  { ic with startLoc := eraseLoc ic.startLoc, endLoc := eraseLoc ic.endLoc }

/-- a row without the line/column of its start and end locations (file name and ordinals kept) -/
def erase (x : Ctx) : Ctx := { x with ictx := x.ictx.map eraseI }

/-- the erased row of a value read from the source `name` with ordinals `ord` -/
def mkRow (name : Option Str) (x : JV × Option (Nat × Nat)) : Ctx :=
  { input := x.1,
    ictx := x.2.map (fun ik => { startLoc := { name := name, line := 0, col := 0 },
                                 endLoc := { name := name, line := 0, col := 0 },
                                 fileIndex := ik.1, index := ik.2 }) }

/-- the rows of a source, locations erased, are determined by the values read and the source's name -/
theorem ctxsOf_erase (c : Cfg) (fuel : Nat) (r : Reader) (i k : Nat) :
    (ctxsOf c fuel r i k).map erase
      = (number i k ((ctxsOf c fuel r i k).map (·.input))).map (mkRow r.loc.name) := by
  induction fuel generalizing r i k with
  | zero => rfl
  | succ fuel ih =>
    have hname := nextJson_name r
    rcases hn : r.nextJson with ⟨res, r'⟩
    rw [hn] at hname
    simp only at hname
    cases res with
    | error e =>
      simp only [ctxsOf, hn]
      split
      · rw [ih, hname]
      · rfl
    | ok o =>
      cases o with
      | none => simp only [ctxsOf, hn]; rfl
      | some v =>
        simp only [ctxsOf, hn]
        split
        · rw [ih, hname]
        · simp only [List.map_cons, number, ih, hname]
          congr 1
          simp only [erase, mkRow, eraseI, eraseLoc, Option.map_some, hname]

theorem ofBytes_name (bs : List Byte) (name : Option Str) : (Reader.ofBytes bs name).loc.name = name := rfl

/-- the rows of a noisy stream and of its clean twin differ in line/column only -/
theorem noisy_clean_erase (c : Cfg) (o : JsonOpts) (g0 : Gap) (items : List (JV × Gap)) (h0 : g0.OK)
    (hit : ItemsOK o items) (name : Option Str) (fuel fuel' : Nat)
    (hf : (stream o g0 items).length + 2 ≤ fuel)
    (hf' : (stream o g0.strip (stripItems items)).length + 2 ≤ fuel') (i k : Nat) :
    (ctxsOf c fuel (Reader.ofBytes (stream o g0 items) name) i k).map erase
      = (ctxsOf c fuel' (Reader.ofBytes (stream o g0.strip (stripItems items)) name) i k).map erase := by
  have hN := (noisy_rows c o g0 items h0 hit name fuel hf i k).1
  have hC := (noisy_rows c o g0.strip (stripItems items) (Gap.strip_OK h0) (stripItems_OK o items hit) name
    fuel' hf' i k).1
  rw [stripItems_values] at hC
  rw [ctxsOf_erase, ctxsOf_erase, hN, hC, ofBytes_name, ofBytes_name]

/-! ### the documented composition does not look at locations unless an expression does -/

/-- the four positional input-context readers (`file-name` and the two ordinals are not positional) -/
def ICtxKind.positional : ICtxKind → Bool
  | .startLine | .endLine | .startChar | .endChar => true
  | _ => false

mutual
/-- the expression reads neither line nor column: no positional input-context node, and no call of
`parse_selection` (which evaluates an expression parsed at run time) -/
def NoPos : Expr → Bool
  | .ictx k => !ICtxKind.positional k
  | .call fn args => fn != "parse_selection" && NoPosList args
  | _ => true
def NoPosList : List Expr → Bool
  | [] => true
  | e :: es => NoPos e && NoPosList es
end

theorem noPosList_iff (l : List Expr) : NoPosList l = true ↔ ∀ e ∈ l, NoPos e = true := by
  induction l with
  | nil => simp [NoPosList]
  | cons x xs ih => simp [NoPosList, ih]

/-- no macro definition reads line or column -/
def DefsNoPos (defs : List (Str × Expr)) : Prop := ∀ p ∈ defs, NoPos p.2 = true

theorem defsNoPos_nil : DefsNoPos [] := fun _ h => by cases h

/-- the (total) evaluator gives the same answer for `e` whatever the line/column of the row, as long as the
macros in scope do not read them either -/
def PosIndep (ev : Expr → Ctx → Option JV) (e : Expr) : Prop :=
  ∀ x : Ctx, DefsNoPos x.defs → ev e (erase x) = ev e x

/-- no expression of the chain, and no macro a `--set @name=…` defines, reads line or column -/
def ChainPosIndep (ev : Expr → Ctx → Option JV) (cfgs : List StageCfg) : Prop :=
  (∀ c ∈ cfgs, ∀ e ∈ stageExprs c, PosIndep ev e) ∧
  (∀ vars defs, StageCfg.preset vars defs ∈ cfgs → DefsNoPos defs)

/-- every row's macros are position free -/
def RowsOK (rows : List Ctx) : Prop := ∀ x ∈ rows, DefsNoPos x.defs

theorem RowsOK.tail {x : Ctx} {rows : List Ctx} (h : RowsOK (x :: rows)) : RowsOK rows :=
  fun y hy => h y (List.mem_cons_of_mem _ hy)

theorem RowsOK.head {x : Ctx} {rows : List Ctx} (h : RowsOK (x :: rows)) : DefsNoPos x.defs :=
  h x List.mem_cons_self

theorem RowsOK.of_sublist {a b : List Ctx} (h : RowsOK b) (hs : a.Sublist b) : RowsOK a :=
  fun y hy => h y (hs.subset hy)

theorem erase_build (x : Ctx) : (erase x).build = x.build := rfl
theorem erase_key (x : Ctx) : (erase x).key = x.key := rfl
theorem erase_defs (x : Ctx) : (erase x).defs = x.defs := rfl

theorem sinkBytes_erase (sink : SinkCfg) (n : Nat) (x : Ctx) : sinkBytes sink n (erase x) = sinkBytes sink n x := by
  cases sink <;> rfl

theorem rowsOK_erase {rows : List Ctx} (h : RowsOK rows) : RowsOK (rows.map erase) := by
  intro y hy
  obtain ⟨x, hx, rfl⟩ := List.mem_map.mp hy
  exact h x hx

theorem dedupFrom_erase (seen : List CtxKey) (rows : List Ctx) :
    dedupFrom seen (rows.map erase) = (dedupFrom seen rows).map erase := by
  induction rows generalizing seen with
  | nil => rfl
  | cons x rows ih =>
    simp only [List.map_cons, dedupFrom, erase_key]
    by_cases hc : (seen.any fun s => s.same x.key) = true
    · simp only [hc, if_true]
      exact ih _
    · simp only [hc, Bool.false_eq_true, if_false, List.map_cons, ih]

theorem insertAsc_map {α κ : Type} (cmp : κ → κ → Ordering) (key : α → κ) (g : α → α)
    (hg : ∀ a, key (g a) = key a) (x : α) (l : List α) :
    SortSpec.insertAsc cmp key (g x) (l.map g) = (SortSpec.insertAsc cmp key x l).map g := by
  induction l with
  | nil => rfl
  | cons y ys ih =>
    simp only [List.map_cons, SortSpec.insertAsc, hg]
    split
    · rfl
    · simp only [List.map_cons, ih]

theorem insertDesc_map {α κ : Type} (cmp : κ → κ → Ordering) (key : α → κ) (g : α → α)
    (hg : ∀ a, key (g a) = key a) (x : α) (l : List α) :
    SortSpec.insertDesc cmp key (g x) (l.map g) = (SortSpec.insertDesc cmp key x l).map g := by
  induction l with
  | nil => rfl
  | cons y ys ih =>
    simp only [List.map_cons, SortSpec.insertDesc, hg]
    split
    · rfl
    · simp only [List.map_cons, ih]

theorem sortDir_map {α κ : Type} (cmp : κ → κ → Ordering) (key : α → κ) (g : α → α)
    (hg : ∀ a, key (g a) = key a) (desc : Bool) (l : List α) :
    SortSpec.sortDir cmp key desc (l.map g) = (SortSpec.sortDir cmp key desc l).map g := by
  have gen : ∀ (acc : List α),
      (l.map g).foldl (fun acc x => SortSpec.insertDir cmp key desc x acc) (acc.map g)
        = (l.foldl (fun acc x => SortSpec.insertDir cmp key desc x acc) acc).map g := by
    induction l with
    | nil => intro acc; rfl
    | cons x l ih =>
      intro acc
      simp only [List.map_cons, List.foldl_cons]
      have : SortSpec.insertDir cmp key desc (g x) (acc.map g)
          = (SortSpec.insertDir cmp key desc x acc).map g := by
        unfold SortSpec.insertDir
        split
        · exact insertDesc_map cmp key g hg x acc
        · exact insertAsc_map cmp key g hg x acc
      rw [this, ih]
  exact gen []

theorem mem_insertAsc {α κ : Type} (cmp : κ → κ → Ordering) (key : α → κ) (x y : α) (l : List α)
    (h : y ∈ SortSpec.insertAsc cmp key x l) : y = x ∨ y ∈ l := by
  induction l with
  | nil => simp only [SortSpec.insertAsc, List.mem_singleton] at h; exact .inl h
  | cons z zs ih =>
    simp only [SortSpec.insertAsc] at h
    split at h
    · simpa using h
    · rcases List.mem_cons.mp h with rfl | h
      · exact .inr (by simp)
      · rcases ih h with h | h
        · exact .inl h
        · exact .inr (by simp [h])

theorem mem_insertDesc {α κ : Type} (cmp : κ → κ → Ordering) (key : α → κ) (x y : α) (l : List α)
    (h : y ∈ SortSpec.insertDesc cmp key x l) : y = x ∨ y ∈ l := by
  induction l with
  | nil => simp only [SortSpec.insertDesc, List.mem_singleton] at h; exact .inl h
  | cons z zs ih =>
    simp only [SortSpec.insertDesc] at h
    split at h
    · simpa using h
    · rcases List.mem_cons.mp h with rfl | h
      · exact .inr (by simp)
      · rcases ih h with h | h
        · exact .inl h
        · exact .inr (by simp [h])

theorem mem_insertDir {α κ : Type} (cmp : κ → κ → Ordering) (key : α → κ) (desc : Bool) (x y : α) (l : List α)
    (h : y ∈ SortSpec.insertDir cmp key desc x l) : y = x ∨ y ∈ l := by
  unfold SortSpec.insertDir at h
  split at h
  · exact mem_insertDesc cmp key x y l h
  · exact mem_insertAsc cmp key x y l h

theorem mem_foldl_insertDir {α κ : Type} (cmp : κ → κ → Ordering) (key : α → κ) (desc : Bool) (y : α)
    (l acc : List α) (h : y ∈ l.foldl (fun acc x => SortSpec.insertDir cmp key desc x acc) acc) :
    y ∈ acc ∨ y ∈ l := by
  induction l generalizing acc with
  | nil => exact .inl h
  | cons x l ih =>
    simp only [List.foldl_cons] at h
    rcases ih _ h with h | h
    · rcases mem_insertDir cmp key desc x y acc h with rfl | h
      · exact .inr (by simp)
      · exact .inl h
    · exact .inr (by simp [h])

theorem mem_sortDir {α κ : Type} (cmp : κ → κ → Ordering) (key : α → κ) (desc : Bool) (y : α) (l : List α)
    (h : y ∈ SortSpec.sortDir cmp key desc l) : y ∈ l := by
  rcases mem_foldl_insertDir cmp key desc y l [] h with h | h
  · cases h
  · exact h

theorem keyed_erase (ev : Expr → Ctx → Option JV) (key : Expr) (rows : List Ctx)
    (hk : ∀ x ∈ rows, ev key (erase x) = ev key x) :
    keyed ev key (rows.map erase) = (keyed ev key rows).map (fun kc => (kc.1, erase kc.2)) := by
  induction rows with
  | nil => rfl
  | cons x rows ih =>
    have ih' := ih (fun y hy => hk y (by simp [hy]))
    simp only [keyed, List.map_cons, List.filterMap_cons, hk x (by simp)] at ih' ⊢
    cases ev key x with
    | none => simpa using ih'
    | some k => simpa using ih'

theorem mem_keyed (ev : Expr → Ctx → Option JV) (key : Expr) (rows : List Ctx) (kc : JV × Ctx)
    (h : kc ∈ keyed ev key rows) : kc.2 ∈ rows := by
  simp only [keyed, List.mem_filterMap] at h
  obtain ⟨x, hx, hm⟩ := h
  cases hk : ev key x with
  | none => simp [hk] at hm
  | some k =>
    simp only [hk, Option.map_some, Option.some.injEq] at hm
    subst hm
    exact hx

theorem takeOpt_map {α β} (f : α → β) (n : Option Nat) (l : List α) :
    takeOpt n (l.map f) = (takeOpt n l).map f := by
  cases n <;> simp [takeOpt, List.map_take]

theorem takeOpt_sublist {α} (n : Option Nat) (l : List α) : (takeOpt n l).Sublist l := by
  cases n with
  | none => exact List.Sublist.refl _
  | some k => exact List.take_sublist _ _

theorem groupOf_erase (ev : Expr → Ctx → Option JV) (e : Expr) (rows : List Ctx)
    (he : ∀ x ∈ rows, ev e (erase x) = ev e x) :
    groupOf ev e (rows.map erase) = groupOf ev e rows := by
  unfold groupOf
  generalize ([] : List (Str × List JV)) = acc
  induction rows generalizing acc with
  | nil => rfl
  | cons x rows ih =>
    simp only [List.map_cons, List.foldl_cons, he x (by simp), erase_build]
    exact ih (fun y hy => he y (by simp [hy])) _

/-- one stage commutes with erasing the locations -/
theorem stageSpec_erase (ev : Expr → Ctx → Option JV) (c : StageCfg) (cap : Option Nat)
    (hc : ∀ e ∈ stageExprs c, PosIndep ev e) (rows : List Ctx) (hrows : RowsOK rows) :
    stageSpec ev c cap (rows.map erase) = (stageSpec ev c cap rows).map erase := by
  cases c with
  | preset vars defs =>
    simp only [stageSpec, List.map_map]
    rfl
  | split e =>
    have he := hc e (by simp [stageExprs])
    simp only [stageSpec]
    induction rows with
    | nil => rfl
    | cons x rows ih =>
      simp only [List.map_cons, List.flatMap_cons, List.map_append, ih hrows.tail, he x hrows.head]
      congr 1
      cases ev e x with
      | none => rfl
      | some v =>
        cases v <;> first | rfl | (simp only [List.map_map]; rfl)
  | filter e =>
    have he := hc e (by simp [stageExprs])
    simp only [stageSpec]
    induction rows with
    | nil => rfl
    | cons x rows ih =>
      simp only [List.map_cons, List.filter_cons, he x hrows.head, ih hrows.tail]
      split <;> rfl
  | select name e =>
    have he := hc e (by simp [stageExprs])
    simp only [stageSpec, List.map_map]
    apply List.map_congr_left
    intro x hx
    simp only [Function.comp, he x (hrows x hx)]
    rfl
  | unique => exact dedupFrom_erase [] rows
  | sort key desc =>
    have hk := hc key (by simp [stageExprs])
    simp only [stageSpec]
    rw [keyed_erase ev key rows (fun x hx => hk x (hrows x hx)),
      sortDir_map JV.cmp (·.1) (fun kc : JV × Ctx => (kc.1, erase kc.2)) (fun _ => rfl), ← takeOpt_map]
    simp only [List.map_map]
    rfl
  | limit skip take =>
    simp only [stageSpec]
    rw [← takeOpt_map, List.map_drop]
  | group e =>
    have he := hc e (by simp [stageExprs])
    simp only [stageSpec, groupOf_erase ev e rows (fun x hx => he x (hrows x hx))]
    rfl
  | merge =>
    simp only [stageSpec, List.map_map]
    rfl

/-- one stage keeps the macros in scope position free -/
theorem stageSpec_rowsOK (ev : Expr → Ctx → Option JV) (c : StageCfg) (cap : Option Nat)
    (hp : ∀ vars defs, c = .preset vars defs → DefsNoPos defs) (rows : List Ctx) (hrows : RowsOK rows) :
    RowsOK (stageSpec ev c cap rows) := by
  cases c with
  | preset vars defs =>
    intro y hy
    simp only [stageSpec, List.mem_map] at hy
    obtain ⟨x, _, rfl⟩ := hy
    exact hp vars defs rfl
  | split e =>
    intro y hy
    simp only [stageSpec, List.mem_flatMap] at hy
    obtain ⟨x, hx, hy⟩ := hy
    cases hv : ev e x with
    | none => simp [hv] at hy
    | some v =>
      cases v <;> simp only [hv, List.not_mem_nil] at hy
      obtain ⟨w, _, rfl⟩ := List.mem_map.mp hy
      exact hrows x hx
  | filter e => exact hrows.of_sublist List.filter_sublist
  | select name e =>
    intro y hy
    simp only [stageSpec, List.mem_map] at hy
    obtain ⟨x, hx, rfl⟩ := hy
    exact hrows x hx
  | unique => exact hrows.of_sublist (dedupFrom_sublist [] rows)
  | sort key desc =>
    intro y hy
    simp only [stageSpec] at hy
    have hy' := (takeOpt_sublist cap _).subset hy
    obtain ⟨kc, hkc, rfl⟩ := List.mem_map.mp hy'
    exact hrows _ (mem_keyed ev key rows kc (mem_sortDir _ _ _ _ _ hkc))
  | limit skip take =>
    exact hrows.of_sublist ((takeOpt_sublist take _).trans (List.drop_sublist _ _))
  | group e =>
    intro y hy
    simp only [stageSpec, List.mem_singleton] at hy
    subst hy
    exact defsNoPos_nil
  | merge =>
    intro y hy
    simp only [stageSpec, List.mem_singleton] at hy
    subst hy
    exact defsNoPos_nil

/-- the documented composition commutes with erasing the locations -/
theorem specRows_erase (ev : Expr → Ctx → Option JV) (cfgs : List StageCfg) (sts : List StageSt)
    (h : ChainPosIndep ev cfgs) (rows : List Ctx) (hrows : RowsOK rows) :
    specRows ev cfgs sts (rows.map erase) = (specRows ev cfgs sts rows).map erase := by
  induction cfgs generalizing sts rows with
  | nil => simp [specRows]
  | cons c cs ih =>
    cases sts with
    | nil => simp [specRows]
    | cons st sts =>
      simp only [specRows]
      rw [stageSpec_erase ev c _ (h.1 c (by simp)) rows hrows]
      exact ih sts ⟨fun c' hc' => h.1 c' (by simp [hc']), fun v d hd => h.2 v d (by simp [hd])⟩ _
        (stageSpec_rowsOK ev c _ (fun v d hcd => h.2 v d (by simp [hcd])) rows hrows)

/-- **specRows_congr_input.**  If no expression of the chain (and no macro in scope) reads line or column, the
bytes the sink writes for `specRows` depend on the rows only up to their line/column: two row lists that agree
once locations are erased (same values, same ordinals, same file names) give the same output. -/
theorem specRows_congr_input (ev : Expr → Ctx → Option JV) (cfgs : List StageCfg) (sts : List StageSt)
    (sink : SinkCfg) (n : Nat) (h : ChainPosIndep ev cfgs) (rows₁ rows₂ : List Ctx)
    (h₁ : RowsOK rows₁) (h₂ : RowsOK rows₂) (heq : rows₁.map erase = rows₂.map erase) :
    (specRows ev cfgs sts rows₁).flatMap (sinkBytes sink n)
      = (specRows ev cfgs sts rows₂).flatMap (sinkBytes sink n) := by
  have key : ∀ rows : List Ctx, rows.flatMap (sinkBytes sink n) = (rows.map erase).flatMap (sinkBytes sink n) := by
    intro rows
    induction rows with
    | nil => rfl
    | cons x rows ih => simp only [List.map_cons, List.flatMap_cons, sinkBytes_erase, ih]
  rw [key (specRows ev cfgs sts rows₁), key (specRows ev cfgs sts rows₂),
    ← specRows_erase ev cfgs sts h _ h₁, ← specRows_erase ev cfgs sts h _ h₂, heq]

/-- the rows the read loop makes have no macro in scope -/
theorem ctxsOf_defs (c : Cfg) (fuel : Nat) (r : Reader) (inFile idx : Nat) :
    ∀ ctx ∈ ctxsOf c fuel r inFile idx, ctx.defs = [] := by
  induction fuel generalizing r inFile idx with
  | zero => intro ctx h; cases h
  | succ fuel ih =>
    intro ctx h
    unfold ctxsOf at h
    split at h
    · split at h
      · exact ih _ _ _ ctx h
      · rcases List.mem_cons.mp h with rfl | h
        · rfl
        · exact ih _ _ _ ctx h
    · cases h
    · split at h
      · exact ih _ _ _ ctx h
      · cases h

theorem ctxsOfSources_rowsOK (c : Cfg) (sources : List Source) (idx : Nat) :
    RowsOK (ctxsOfSources c sources idx) := by
  induction sources generalizing idx with
  | nil => intro ctx h; cases h
  | cons src rest ih =>
    intro ctx h
    unfold ctxsOfSources at h
    rcases List.mem_append.mp h with h | h
    · rw [ctxsOf_defs _ _ _ _ _ ctx h]
      exact defsNoPos_nil
    · exact ih _ ctx h
/-! ### run level, any chain that does not read line/column: a noisy input and its clean twin -/

/-- the clean twin of a stream -/
def StreamSpec.strip (s : StreamSpec) : StreamSpec := { s with g0 := s.g0.strip, items := stripItems s.items }

theorem StreamSpec.strip_OK {s : StreamSpec} (h : s.OK) : s.strip.OK :=
  ⟨Gap.strip_OK h.1, stripItems_OK _ _ h.2⟩

theorem StreamSpec.strip_clean (s : StreamSpec) : s.strip.Clean := garbageCount_strip _ _

/-- the rows of noisy inputs and of their clean twins differ in line/column only -/
theorem ctxsOfSources_erase_strip (c : Cfg) (specs : List StreamSpec) (hok : ∀ s ∈ specs, s.OK) (k : Nat) :
    (ctxsOfSources c (specs.map StreamSpec.source) k).map erase
      = (ctxsOfSources c (specs.map (fun s => s.strip.source)) k).map erase := by
  induction specs generalizing k with
  | nil => rfl
  | cons s rest ih =>
    have h1 := noisy_clean_erase c s.o s.g0 s.items (hok s (by simp)).1 (hok s (by simp)).2 s.name
      ((stream s.o s.g0 s.items).length + 2) ((stream s.o s.g0.strip (stripItems s.items)).length + 2)
      (Nat.le_refl _) (Nat.le_refl _) 0 k
    have hlen := congrArg List.length h1
    simp only [List.length_map] at hlen
    simp only [List.map_cons, ctxsOfSources, StreamSpec.source, StreamSpec.strip, streamSource_reader,
      streamSource_fuel, List.map_append]
    rw [h1, hlen]
    congr 1
    exact ih (fun x hx => hok x (by simp [hx])) _

/-- **noise_ignore_same_output.**  Under `ignore`, for a chain none of whose expressions reads line or column:
the run over noisy inputs and the run over their clean twins succeed and write the same bytes. -/
theorem noise_ignore_same_output (orc : Oracles) (c : Cfg) (specs : List StreamSpec) (wOut wErr : Writer)
    (p : Pipeline) (hok : ∀ s ∈ specs, s.OK) (hpol : c.onError = .ignore) (hb : build orc c = .ok p)
    (hna : NoAbort orc p.cfgs) (hpi : ChainPosIndep (evalT orc) p.cfgs) (hw : Unbounded wOut)
    (hh : ¬ HeaderMissing p) :
    (run orc c (specs.map StreamSpec.source) wOut wErr).result = .ok ()
    ∧ (run orc c (specs.map (fun s => s.strip.source)) wOut wErr).result = .ok ()
    ∧ (run orc c (specs.map StreamSpec.source) wOut wErr).stdout
        = (run orc c (specs.map (fun s => s.strip.source)) wOut wErr).stdout
    ∧ (run orc c (specs.map StreamSpec.source) wOut wErr).stderr = wErr.out
    ∧ (run orc c (specs.map (fun s => s.strip.source)) wOut wErr).stderr = wErr.out := by
  obtain ⟨n1, n2, n3⟩ := run_ignore_spec orc c _ wOut wErr p hpol hb hna hw (cleanIO_specs specs) hh
  have hcl : CleanIO (specs.map (fun s => s.strip.source)) := by
    have := cleanIO_specs (specs.map StreamSpec.strip)
    simpa [List.map_map, Function.comp_def] using this
  obtain ⟨c1, c2, c3⟩ := run_ignore_spec orc c _ wOut wErr p hpol hb hna hw hcl hh
  refine ⟨n1, c1, ?_, n3, c3⟩
  rw [n2, c2, specRows_congr_input (evalT orc) p.cfgs p.sts p.sink p.sinkLen hpi _ _
    (ctxsOfSources_rowsOK _ _ _) (ctxsOfSources_rowsOK _ _ _) (ctxsOfSources_erase_strip c specs hok 0)]

/-- **noise_stderr_same_output.**  Under `stderr` (same assumptions, standard error never failing): standard
output is byte for byte that of the clean run; the clean run leaves standard error untouched, the noisy run
appends one `error:` line per error met — nothing else goes there. -/
theorem noise_stderr_same_output (orc : Oracles) (c : Cfg) (specs : List StreamSpec) (wOut wErr : Writer)
    (p : Pipeline) (hok : ∀ s ∈ specs, s.OK) (hpol : c.onError = .stderr) (hb : build orc c = .ok p)
    (hna : NoAbort orc p.cfgs) (hpi : ChainPosIndep (evalT orc) p.cfgs) (hw : Unbounded wOut)
    (he : Unbounded wErr) (hh : ¬ HeaderMissing p) :
    (run orc c (specs.map StreamSpec.source) wOut wErr).result = .ok ()
    ∧ (run orc c (specs.map (fun s => s.strip.source)) wOut wErr).result = .ok ()
    ∧ (run orc c (specs.map StreamSpec.source) wOut wErr).stdout
        = (run orc c (specs.map (fun s => s.strip.source)) wOut wErr).stdout
    ∧ (run orc c (specs.map StreamSpec.source) wOut wErr).stderr
        = wErr.out ++ (errsOfSources (evalT orc) c p.cfgs (specs.map StreamSpec.source) 0 p.sts).flatMap reportBytes
    ∧ (run orc c (specs.map (fun s => s.strip.source)) wOut wErr).stderr = wErr.out := by
  obtain ⟨n1, n2, n3⟩ := policy_stderr_same_rows orc c _ wOut wErr p hpol hb hna hw he (cleanIO_specs specs) hh
  have hmap : specs.map (fun s => s.strip.source) = (specs.map StreamSpec.strip).map StreamSpec.source := by
    simp [List.map_map, Function.comp_def]
  obtain ⟨_, c1, c2, c3⟩ := clean_no_reports orc c (specs.map StreamSpec.strip) wOut wErr p
    (by intro s hs; obtain ⟨x, hx, rfl⟩ := List.mem_map.mp hs; exact StreamSpec.strip_OK (hok x hx))
    (by intro s hs; obtain ⟨x, _, rfl⟩ := List.mem_map.mp hs; exact StreamSpec.strip_clean x)
    hb hna hw (fun _ => he) hh
  rw [← hmap] at c1 c2 c3
  refine ⟨n1, c1, ?_, n3, c3⟩
  rw [n2, c2, specRows_congr_input (evalT orc) p.cfgs p.sts p.sink p.sinkLen hpi _ _
    (ctxsOfSources_rowsOK _ _ _) (ctxsOfSources_rowsOK _ _ _) (ctxsOfSources_erase_strip c specs hok 0)]

/-- **noise_stdout_same_rows.**  Under `stdout` (same assumptions): what the noisy run writes to standard output
is the header and a sequence of chunks; the report chunks are the `error:` lines of the errors met, in order,
and with them removed the output is byte for byte that of the clean run.  Standard error is untouched. -/
theorem noise_stdout_same_rows (orc : Oracles) (c : Cfg) (specs : List StreamSpec) (wOut wErr : Writer)
    (p : Pipeline) (hok : ∀ s ∈ specs, s.OK) (hpol : c.onError = .stdout) (hb : build orc c = .ok p)
    (hna : NoAbort orc p.cfgs) (hpi : ChainPosIndep (evalT orc) p.cfgs) (hw : Unbounded wOut)
    (hh : ¬ HeaderMissing p) :
    ∃ ch : Chunks,
      (run orc c (specs.map StreamSpec.source) wOut wErr).result = .ok ()
      ∧ (run orc c (specs.map (fun s => s.strip.source)) wOut wErr).result = .ok ()
      ∧ (run orc c (specs.map StreamSpec.source) wOut wErr).stdout = wOut.out ++ headerBytes p ++ ch.bytes
      ∧ (run orc c (specs.map (fun s => s.strip.source)) wOut wErr).stdout
          = wOut.out ++ headerBytes p ++ ch.rowPart
      ∧ ch.reports
          = (errsOfSources (evalT orc) c p.cfgs (specs.map StreamSpec.source) 0 p.sts).map reportBytes
      ∧ (run orc c (specs.map StreamSpec.source) wOut wErr).stderr = wErr.out
      ∧ (run orc c (specs.map (fun s => s.strip.source)) wOut wErr).stderr = wErr.out := by
  obtain ⟨ch, n1, n2, n3, n4, n5⟩ := RunSpec.policy_stdout orc c _ wOut wErr p hpol hb hna hw
    (cleanIO_specs specs) hh
  have hmap : specs.map (fun s => s.strip.source) = (specs.map StreamSpec.strip).map StreamSpec.source := by
    simp [List.map_map, Function.comp_def]
  obtain ⟨_, c1, c2, c3⟩ := clean_no_reports orc c (specs.map StreamSpec.strip) wOut wErr p
    (by intro s hs; obtain ⟨x, hx, rfl⟩ := List.mem_map.mp hs; exact StreamSpec.strip_OK (hok x hx))
    (by intro s hs; obtain ⟨x, _, rfl⟩ := List.mem_map.mp hs; exact StreamSpec.strip_clean x)
    hb hna hw (fun h => by rw [hpol] at h; cases h) hh
  rw [← hmap] at c1 c2 c3
  refine ⟨ch, n1, c1, n2, ?_, n4, n5, c3⟩
  rw [c2, n3, specRows_congr_input (evalT orc) p.cfgs p.sts p.sink p.sinkLen hpi _ _
    (ctxsOfSources_rowsOK _ _ _) (ctxsOfSources_rowsOK _ _ _) (ctxsOfSources_erase_strip c specs hok 0)]

/-- the errors reported for a single noisy stream: at most one per garbage byte, exactly one per garbage byte
(hence at least one per malformed region) when the chain does not answer `Break` -/
theorem errsOfSources_stream (ev : Expr → Ctx → Option JV) (c : Cfg) (cfgs : List StageCfg) (sts : List StageSt)
    (s : StreamSpec) (hs : s.OK) (k : Nat) :
    (errsOfSources ev c cfgs [s.source] k sts).length ≤ garbageCount s.g0 s.items ∧
    ((feedBrk (processP ev cfgs) sts (ctxsOfSources c [s.source] k)).2.2 = .cont →
      (errsOfSources ev c cfgs [s.source] k sts).length = garbageCount s.g0 s.items ∧
      noisyGaps s.g0 s.items ≤ (errsOfSources ev c cfgs [s.source] k sts).length) := by
  have e1 : errsOfSources ev c cfgs [s.source] k sts
      = errsOf ev c cfgs ((stream s.o s.g0 s.items).length + 2)
          (Reader.ofBytes (stream s.o s.g0 s.items) s.name) 0 k sts := by
    simp only [errsOfSources, StreamSpec.source, streamSource_reader, streamSource_fuel]
    split <;> simp
  have e2 : ctxsOfSources c [s.source] k
      = ctxsOf c ((stream s.o s.g0 s.items).length + 2) (Reader.ofBytes (stream s.o s.g0 s.items) s.name) 0 k :=
    ctxsOfSources_stream c s.name s.o s.g0 s.items k
  obtain ⟨h1, h2⟩ := noisy_errsOf ev c cfgs sts s.o s.g0 s.items hs.1 hs.2 s.name _ (Nat.le_refl _) 0 k
  rw [e1, e2]
  refine ⟨h1, fun hc => ?_⟩
  have := h2 hc
  exact ⟨this, by rw [this]; exact noisyGaps_le s.o s.g0 s.items hs.1 hs.2⟩

/-! ### which expressions do not read line/column: every `NoPos` expression

`callFn` hands its context to the evaluator only through `withInput` / `withVariable` / `withDefinition`, which
commute with `erase`, and never reads the input context itself. -/

/-- local hypotheses on the evaluator handed to a function body: it does not see the erasure -/
structure HypE (ev : Ev) (fn : String) (args : List Expr) (x : Ctx) : Prop where
  arg : ∀ e ∈ args, ∀ c : Ctx, c.defs = x.defs → ev e (erase c) = ev e c
  defn : fn = "define" → ∀ e ∈ args, ∀ n, ∀ d ∈ args, ev e (erase (x.withDefinition n d)) = ev e (x.withDefinition n d)
  mac : fn = "@" → ∀ n d, x.getDefinition n = some d → ev d (erase x) = ev d x
  parsed : fn ≠ "parse_selection"

theorem erase_withVariable (x : Ctx) (n : Str) (v : JV) : (erase x).withVariable n v = erase (x.withVariable n v) := rfl
theorem erase_withDefinition (x : Ctx) (n : Str) (d : Expr) : (erase x).withDefinition n d = erase (x.withDefinition n d) := rfl
theorem erase_withInput' (x : Ctx) (v : JV) : (erase x).withInput v = erase (x.withInput v) := rfl
theorem erase_input (x : Ctx) : (erase x).input = x.input := rfl
theorem erase_getVariable (x : Ctx) (n : Str) : (erase x).getVariable n = x.getVariable n := rfl
theorem erase_getDefinition (x : Ctx) (n : Str) : (erase x).getDefinition n = x.getDefinition n := rfl
theorem withInput_defs (x : Ctx) (v : JV) : (x.withInput v).defs = x.defs := rfl
theorem withVariable_defs (x : Ctx) (n : Str) (v : JV) : (x.withVariable n v).defs = x.defs := rfl

variable {ev : Ev} {fn : String} {args : List Expr} {x : Ctx}

theorem applyArg_erase (H : HypE ev fn args x) (c : Ctx) (hc : c.defs = x.defs) (i : Nat) :
    applyArg ev args (erase c) i = applyArg ev args c i := by
  unfold applyArg
  split
  · next e h => exact H.arg e (List.mem_of_getElem? h) c hc
  · rfl

theorem applyArg_erase_def (H : HypE ev fn args x) (hfn : fn = "define") (n : Str) (d : Expr) (hd : d ∈ args) (i : Nat) :
    applyArg ev args (erase (x.withDefinition n d)) i = applyArg ev args (x.withDefinition n d) i := by
  unfold applyArg
  split
  · next e h => exact H.defn hfn e (List.mem_of_getElem? h) n d hd
  · rfl

theorem foldArgs_erase {σ} (H : HypE ev fn args x) (step : σ → Option JV → Except Abort (Sum (Option JV) σ))
    (fin : σ → Option JV) (s : σ) :
    foldArgs ev (erase x) step fin args s = foldArgs ev x step fin args s := by
  have gen : ∀ (es : List Expr), (∀ e ∈ es, e ∈ args) → ∀ s,
      foldArgs ev (erase x) step fin es s = foldArgs ev x step fin es s := by
    intro es
    induction es with
    | nil => intro _ s; rfl
    | cons e es ih =>
      intro hsub s
      unfold foldArgs
      rw [H.arg e (hsub e (by simp)) x rfl]
      congr 1
      funext v
      congr 1
      funext r
      split
      · rfl
      · exact ih (fun e he => hsub e (by simp [he])) _
  exact gen args (fun _ h => h) s

theorem go_erase (H : HypE ev fn args x) (c : Ctx) (hc : c.defs = x.defs) :
    callBasic.go ev (erase c) args = callBasic.go ev c args := by
  have gen : ∀ (es : List Expr), (∀ e ∈ es, e ∈ args) → ∀ c : Ctx, c.defs = x.defs →
      callBasic.go ev (erase c) es = callBasic.go ev c es := by
    intro es
    induction es with
    | nil => intro _ c _; rfl
    | cons e es ih =>
      intro hsub c hc
      unfold callBasic.go
      rw [H.arg e (hsub e (by simp)) c hc]
      congr 1
      funext v
      split
      · exact ih (fun e he => hsub e (by simp [he])) (c.withInput _) hc
      · rfl
  exact gen args (fun _ h => h) c hc

theorem callBasic_erase (H : HypE ev fn args x) :
    callBasic ev fn args (erase x) = callBasic ev fn args x := by
  unfold callBasic
  simp only [erase_withVariable, erase_withDefinition, erase_withInput', erase_input, erase_getVariable,
    erase_getDefinition, applyArg_erase H _ rfl, foldArgs_erase H, go_erase H (x.withInput x.input) rfl,
    applyArg_erase H _ (withVariable_defs _ _ _)]
  split
  all_goals first
    | rfl
    | skip
  · congr 2
    funext v
    cases strArg v with
    | none => rfl
    | some n =>
      dsimp only
      cases hd : x.getDefinition n with
      | none => rfl
      | some d => exact H.mac rfl n d hd
  · congr 2
    funext v
    cases strArg v with
    | none => cases args[1]? <;> rfl
    | some n =>
      cases hd : args[1]? with
      | none => rfl
      | some d => exact applyArg_erase_def H rfl n d (List.mem_of_getElem? hd) 2

theorem mapM'_congr {α β} {f g : α → Except Abort β} (l : List α) (h : ∀ a ∈ l, f a = g a) :
    mapM' f l = mapM' g l := by
  induction l with
  | nil => rfl
  | cons a l ih =>
    unfold mapM'
    rw [h a (by simp), ih (fun b hb => h b (by simp [hb]))]

theorem mapM'_args_erase (H : HypE ev fn args x) :
    mapM' (fun e => ev e (erase x)) args = mapM' (fun e => ev e x) args :=
  mapM'_congr args (fun e he => H.arg e he x rfl)

theorem mapM'_drop_erase (H : HypE ev fn args x) (n : Nat) :
    mapM' (fun e => ev e (erase x)) (args.drop n) = mapM' (fun e => ev e x) (args.drop n) :=
  mapM'_congr _ (fun e he => H.arg e (List.mem_of_mem_drop he) x rfl)

theorem foldGo_erase (H : HypE ev fn args x) (f : Expr) (hf : f ∈ args) (l : List JV) (cur : Option JV) (idx : Nat) :
    callList.foldGo ev (erase x) f cur idx l = callList.foldGo ev x f cur idx l := by
  induction l generalizing cur idx with
  | nil => rfl
  | cons v vs ih =>
    unfold callList.foldGo
    dsimp only
    rw [erase_withInput', H.arg f hf _ (withInput_defs _ _)]
    congr 1
    funext next
    exact ih _ _

macro "erase_simp" H:ident : tactic => `(tactic|
  simp only [erase_withVariable, erase_withDefinition, erase_withInput', erase_input, erase_getVariable,
    erase_getDefinition, applyArg_erase $H _ rfl, foldArgs_erase $H,
    applyArg_erase $H _ (withVariable_defs _ _ _), applyArg_erase $H _ (withInput_defs _ _),
    mapM'_args_erase $H, mapM'_drop_erase $H])

theorem callList_erase (H : HypE ev fn args x) :
    callList ev fn args (erase x) = callList ev fn args x := by
  unfold callList
  erase_simp H
  split
  all_goals first
    | rfl
    | skip
  congr 2
  funext v
  cases v with
  | none => rfl
  | some j =>
    cases j <;> first
      | rfl
      | (dsimp only
         congr 1
         funext init
         cases hf : (if args.length > 2 then args[2]? else args[1]?) with
         | none => rfl
         | some f =>
           have hmem : f ∈ args := by
             split at hf <;> exact List.mem_of_getElem? hf
           exact foldGo_erase H f hmem _ _ _)

theorem callObject_erase (H : HypE ev fn args x) :
    callObject ev fn args (erase x) = callObject ev fn args x := by
  unfold callObject
  erase_simp H

theorem callNumber_erase (H : HypE ev fn args x) :
    callNumber ev fn args (erase x) = callNumber ev fn args x := by
  unfold callNumber
  erase_simp H

theorem callString_erase (orc : Oracles) (H : HypE ev fn args x) :
    callString ev orc fn args (erase x) = callString ev orc fn args x := by
  unfold callString
  erase_simp H
  split
  all_goals first
    | rfl
    | exact absurd rfl H.parsed

theorem callNas_erase (orc : Oracles) (H : HypE ev fn args x) :
    callNas ev orc fn args (erase x) = callNas ev orc fn args x := by
  unfold callNas
  erase_simp H

theorem callFn_erase (orc : Oracles) (H : HypE ev fn args x) :
    callFn ev orc fn args (erase x) = callFn ev orc fn args x := by
  unfold callFn
  rw [callBasic_erase H, callList_erase H, callObject_erase H, callNumber_erase H, callString_erase orc H,
    callNas_erase orc H]

theorem ictx_get_erase (k : ICtxKind) (hk : ICtxKind.positional k = false) (x : Ctx) :
    (erase x).ictx.bind k.get = x.ictx.bind k.get := by
  cases hx : x.ictx with
  | none => simp [erase, hx]
  | some ic =>
    cases k <;> first
      | (exact absurd hk (by decide))
      | simp [erase, hx, eraseI, eraseLoc, ICtxKind.get]

theorem lookup_mem {α} (l : List (Str × α)) (k : Str) (v : α) (h : Ctx.lookup l k = some v) :
    ∃ k', (k', v) ∈ l := by
  induction l with
  | nil => cases h
  | cons p l ih =>
    obtain ⟨k', v'⟩ := p
    unfold Ctx.lookup at h
    split at h
    · cases h; exact ⟨k', by simp⟩
    · obtain ⟨k'', hk⟩ := ih h
      exact ⟨k'', by simp [hk]⟩

theorem DefsNoPos.lookup {defs : List (Str × Expr)} (h : DefsNoPos defs) {n : Str} {d : Expr}
    (hd : Ctx.lookup defs n = some d) : NoPos d = true := by
  obtain ⟨k, hk⟩ := lookup_mem defs n d hd
  exact h _ hk

/-- **eval_erase.**  A `NoPos` expression evaluates to the same result (value, nothing, or abort) whatever the
line/column of the row, provided the macros in scope are `NoPos` too — at every fuel, for every oracle. -/
theorem eval_erase (orc : Oracles) (fuel : Nat) (e : Expr) (x : Ctx) (he : NoPos e = true)
    (hd : DefsNoPos x.defs) : eval orc fuel e (erase x) = eval orc fuel e x := by
  induction fuel generalizing e x with
  | zero => rfl
  | succ fuel ih =>
    cases e with
    | extract p s => rfl
    | const v => rfl
    | var n => rfl
    | selected n => rfl
    | ictx k =>
      have hk : ICtxKind.positional k = false := by simpa [NoPos] using he
      simp only [eval, ictx_get_erase k hk x]
    | «macro» n =>
      simp only [eval, erase_getDefinition]
      cases hg : x.getDefinition n with
      | none => rfl
      | some d => exact ih d x (hd.lookup hg) hd
    | call fn args =>
      simp only [NoPos, Bool.and_eq_true, bne_iff_ne, ne_eq, noPosList_iff] at he
      simp only [eval]
      apply callFn_erase
      refine ⟨?_, ?_, ?_, he.1⟩
      · intro a ha c hc
        exact ih a c (he.2 a ha) (by rw [hc]; exact hd)
      · intro _ a ha n d hdm
        refine ih a _ (he.2 a ha) ?_
        intro p hp
        rcases List.mem_cons.mp hp with rfl | hp
        · exact he.2 d hdm
        · exact hd p hp
      · intro _ n d hg
        exact ih d x (hd.lookup hg) hd

/-- a `NoPos` expression is position independent, for every oracle -/
theorem posIndep_of_noPos (orc : Oracles) (e : Expr) (h : NoPos e = true) : PosIndep (evalT orc) e := by
  intro x hx
  simp only [evalT, eval_erase orc evalFuel e x h hx]

/-- the decidable check on a chain: every stage expression and every `--set @name=…` macro is `NoPos` -/
def chainNoPos : List StageCfg → Bool
  | [] => true
  | c :: cs =>
    NoPosList (stageExprs c) &&
    (match c with
      | .preset _ defs => NoPosList (defs.map (·.2))
      | _ => true) && chainNoPos cs

/-- a chain that passes the check reads no line or column -/
theorem chainPosIndep_of_noPos (orc : Oracles) (cfgs : List StageCfg) (h : chainNoPos cfgs = true) :
    ChainPosIndep (evalT orc) cfgs := by
  induction cfgs with
  | nil =>
    constructor
    · intro c hc; cases hc
    · intro _ _ hc; cases hc
  | cons c cs ih =>
    simp only [chainNoPos, Bool.and_eq_true] at h
    obtain ⟨⟨h1, h2⟩, h3⟩ := h
    obtain ⟨i1, i2⟩ := ih h3
    constructor
    · intro c' hc' e he
      rcases List.mem_cons.mp hc' with rfl | hc'
      · exact posIndep_of_noPos orc e ((noPosList_iff _).mp h1 e he)
      · exact i1 c' hc' e he
    · intro vars defs hc'
      rcases List.mem_cons.mp hc' with rfl | hc'
      · intro p hp
        exact (noPosList_iff _).mp h2 p.2 (List.mem_map.mpr ⟨p, hp, rfl⟩)
      · exact i2 vars defs hc'

/-- a position-reading expression is not position independent: `&start-line` distinguishes two rows that
differ in line only -/
example (orc : Oracles) : ¬ PosIndep (evalT orc) (.ictx .startLine) := by
  intro h
  have := h { ictx := some { startLoc := { line := 7 }, endLoc := {}, fileIndex := 0, index := 0 } } defsNoPos_nil
  simp [evalT, evalFuel, eval, erase, eraseI, eraseLoc, ICtxKind.get] at this

/-- non-vacuity: `exampleCfg` (`-f .b -s .a -o .a --skip 1 -t 2`) passes the check -/
theorem examplePipeline_posIndep (orc : Oracles) : ChainPosIndep (evalT orc) examplePipeline.cfgs :=
  chainPosIndep_of_noPos orc _ rfl

/-- … so under `ignore` it prints the same bytes for noisy inputs and for their clean twins -/
example (orc : Oracles) (specs : List StreamSpec) (hok : ∀ s ∈ specs, s.OK) :
    (run orc exampleCfg (specs.map StreamSpec.source) {} {}).stdout
      = (run orc exampleCfg (specs.map (fun s => s.strip.source)) {} {}).stdout :=
  (noise_ignore_same_output orc exampleCfg specs {} {} examplePipeline hok rfl (build_example orc)
    (examplePipeline_noAbort orc) (examplePipeline_posIndep orc) ⟨rfl, rfl⟩ (fun h => h)).2.2.1

/-- a chain with function calls, a macro and the non-positional input-context readers passes the check:
`-f (>= (size .) &index)` after `--set @m=(concat &file-name "x")`, selecting `@m` -/
example : chainNoPos
    [.preset [] [("m".toList, .call "concat" [.ictx .fileName, .const (.str "x".toList)])],
     .filter (.call ">=" [.call "size" [.extract 0 []], .ictx .index]),
     .select "m".toList (.macro "m".toList)] = true := by rfl

/-- … while one that reads the start line, directly or through `parse_selection`, does not -/
example : chainNoPos [.filter (.call "=" [.ictx .startLine, .const (.num (.pos 1))])] = false := by rfl
example : chainNoPos [.select "s".toList (.call "parse_selection" [.const (.str "&start-line".toList)])] = false := by
  rfl

/-- non-vacuity of `eval_erase`: its hypotheses hold for `(size .)` on any row without macros -/
example (orc : Oracles) (x : Ctx) (hx : x.defs = []) :
    eval orc evalFuel (.call "size" [.extract 0 []]) (erase x) = eval orc evalFuel (.call "size" [.extract 0 []]) x :=
  eval_erase orc _ _ x rfl (by rw [hx]; exact defsNoPos_nil)

/-! ### a statement that is false as first asked

"`(errsOf … noisy …).length` = number of garbage bytes" does not hold for every chain: `errsOf` lists the errors
the RUN meets, and the run stops reading when the chain answers `Break`.  With `--take 1` on `1 x 2\n` the
limiter answers `Break` on the value `1`; the garbage byte `x` is never read and nothing is reported.
`noisy_errsOf` is the true statement (`≤` always, `=` when the chain does not answer `Break`); `noisy_errors`
counts the errors in the input itself (`perrsOf`). -/
example :
    errsOf (fun _ _ => none) {} [.limit 0 (some 1)] 8 (Reader.ofBytes [49, 32, 120, 32, 50, 10] none) 0 0
      [.limit 0 0] = [] ∧
    (perrsOf 8 (Reader.ofBytes [49, 32, 120, 32, 50, 10] none)).length = 1 := ⟨by rfl, by rfl⟩

end Jawk.Noise

/- axiom audit (all ⊆ {propext, Classical.choice, Quot.sound}):
#print axioms Jawk.Noise.garbage_run
#print axioms Jawk.Noise.garbage_run_ctxsOf
#print axioms Jawk.Noise.ctxsOf_fuel
#print axioms Jawk.Noise.noisy_rows
#print axioms Jawk.Noise.noisy_errors
#print axioms Jawk.Noise.noisy_errsOf
#print axioms Jawk.Noise.noise_transparent
#print axioms Jawk.Noise.noise_default_same_output
#print axioms Jawk.Noise.readLoop_panic
#print axioms Jawk.Noise.readSources_panic
#print axioms Jawk.Noise.run_panic_spec
#print axioms Jawk.Noise.run_panic_noisy
#print axioms Jawk.Noise.no_errors_no_reports
#print axioms Jawk.Noise.clean_no_reports
#print axioms Jawk.Noise.specRows_congr_input
#print axioms Jawk.Noise.noise_ignore_same_output
#print axioms Jawk.Noise.noise_stderr_same_output
#print axioms Jawk.Noise.noise_stdout_same_rows
#print axioms Jawk.Noise.errsOfSources_stream
#print axioms Jawk.Noise.eval_erase
#print axioms Jawk.Noise.chainPosIndep_of_noPos
-/
