/-
  C06, generalised — noise between values: any conforming spelling of the values, garbage may touch them.

  `Jawk/Lemmas/Noise.lean` proves C06 for streams of values PRINTED BY jawk (`utf8 (printJson o v)`) whose gaps
  start with white space.  Here both restrictions go:

  * a value comes with ANY of its conforming RFC 8259 texts (`Ser.Ser v text`: any white space inside, any escape
    spelling, any number spelling); the value read is `v` itself (no `norm`, no `Printable`);
  * the garbage of a gap may TOUCH the value before it (`{"a":1}x`, `truex`, `"s"#`, `1x`) whenever this cannot
    change the value's token: always after a string, array, object, `true`, `false`, `null`; after a number text
    exactly when the next byte is not a digit, `.`, `e`, `E` (`Ser.Delimited`).

  The clean twin is the stream with every garbage byte of the gaps REPLACED BY A SPACE (`Gap.blank`): it is always
  well formed (two values never run into each other, a number stays delimited) and has the same length.  The twin
  with the garbage DELETED (`Gap.strip`) is treated too, under the explicit hypothesis that it is well formed
  (`1x2` → `12` is a different stream), with a simple sufficient condition (`SepWs`).

  Section 1 isolates the smallest interface the run-level proofs need (`ReadsAs`, `StopsAt`: what the read loop
  sees in a byte stream) and proves the run-level theorems once for it; section 2 shows that the new streams
  satisfy it; section 3 instantiates.
-/
import Jawk.Lemmas.Noise
import Jawk.Lemmas.ParseSer
namespace Jawk.Noise2
open Jawk Jawk.Pipe Jawk.Fuel Jawk.RunSpec Jawk.RT Jawk.C06 Reader Jawk.Noise

/-! ### 1. the interface: what the read loop sees in a byte stream -/

/-- From its start, under any file name and configuration, the byte stream `bs` hands the pipeline the values
`vs` (scalars dropped under `--only-objects-and-arrays`) and holds `n` recoverable errors. -/
structure ReadsAs (bs : List Byte) (vs : List JV) (n : Nat) : Prop where
  rows : ∀ (c : Cfg) (name : Option Str) (i k : Nat),
    (rowsAt c (Reader.ofBytes bs name) i k).map (·.input) = applyOnlyObj c vs
  errs : ∀ name : Option Str, (perrsAt (Reader.ofBytes bs name)).length = n

/-- Read up to the first error of any kind, the byte stream `bs` yields the values `pre`, then stops with
`unexpectedChar … b` if `fb = some b`, without error if `fb = none`. -/
structure StopsAt (bs : List Byte) (pre : List JV) (fb : Option Byte) : Prop where
  rows : ∀ (c : Cfg) (name : Option Str) (i k : Nat),
    (untilAt c (Reader.ofBytes bs name) i k).1.map (·.input) = applyOnlyObj c pre
  err : ∀ (c : Cfg) (name : Option Str) (i k : Nat),
    match fb with
    | none => (untilAt c (Reader.ofBytes bs name) i k).2 = none
    | some b => ∃ loc, (untilAt c (Reader.ofBytes bs name) i k).2 = some (.unexpectedChar loc b valueExpected)

theorem ReadsAs.rows_of {bs : List Byte} {vs : List JV} {n : Nat} (h : ReadsAs bs vs n) (c : Cfg)
    (name : Option Str) (fuel : Nat) (hf : bs.length + 2 ≤ fuel) (i k : Nat) :
    (ctxsOf c fuel (Reader.ofBytes bs name) i k).map (·.input) = applyOnlyObj c vs ∧
    (ctxsOf c fuel (Reader.ofBytes bs name) i k).map posFree = number i k (applyOnlyObj c vs) := by
  have h1 := h.rows c name i k
  rw [← ctxsOf_eq_rowsAt c fuel _ i k (wf_ofBytes _ _) (by rw [μ_ofBytes]; omega)] at h1
  exact ⟨h1, by rw [ctxsOf_posFree, h1]⟩

theorem ReadsAs.perrs_len {bs : List Byte} {vs : List JV} {n : Nat} (h : ReadsAs bs vs n)
    (name : Option Str) (fuel : Nat) (hf : bs.length + 2 ≤ fuel) :
    (perrsOf fuel (Reader.ofBytes bs name)).length = n := by
  have h1 := h.errs name
  rwa [← perrsOf_eq_perrsAt fuel _ (wf_ofBytes _ _) (by rw [μ_ofBytes]; omega)] at h1

/-- the errors the run reports are at most `n`, exactly `n` when the chain never answers `Break` -/
theorem ReadsAs.errs_len {bs : List Byte} {vs : List JV} {n : Nat} (h : ReadsAs bs vs n)
    (ev : Expr → Ctx → Option JV) (c : Cfg) (cfgs : List StageCfg) (sts : List StageSt)
    (name : Option Str) (fuel : Nat) (hf : bs.length + 2 ≤ fuel) (i k : Nat) :
    (errsOf ev c cfgs fuel (Reader.ofBytes bs name) i k sts).length ≤ n ∧
    ((feedBrk (processP ev cfgs) sts (ctxsOf c fuel (Reader.ofBytes bs name) i k)).2.2 = .cont →
      (errsOf ev c cfgs fuel (Reader.ofBytes bs name) i k sts).length = n) := by
  have h1 := h.perrs_len name fuel hf
  refine ⟨?_, fun hc => ?_⟩
  · rw [← h1]
    exact (errsOf_prefix ev c cfgs fuel _ i k sts).length_le
  · rw [errsOf_eq_perrsOf ev c cfgs fuel _ i k sts hc, h1]

/-- a stream without recoverable error: nothing to report -/
theorem ReadsAs.clean {bs : List Byte} {vs : List JV} (h : ReadsAs bs vs 0)
    (ev : Expr → Ctx → Option JV) (c : Cfg) (cfgs : List StageCfg) (sts : List StageSt)
    (name : Option Str) (fuel : Nat) (hf : bs.length + 2 ≤ fuel) (i k : Nat) :
    perrsOf fuel (Reader.ofBytes bs name) = [] ∧
    errsOf ev c cfgs fuel (Reader.ofBytes bs name) i k sts = [] := by
  have h1 := List.eq_nil_of_length_eq_zero (h.perrs_len name fuel hf)
  refine ⟨h1, ?_⟩
  have := errsOf_prefix ev c cfgs fuel (Reader.ofBytes bs name) i k sts
  rw [h1] at this
  exact List.prefix_nil.mp this

/-- **Interface form of `noise_transparent`.**  Two byte streams that are read as the same values, the second
without error: same values, same ordinals (rows differ in locations only); the first holds `n` recoverable
errors, of which the run reports at most `n` (all of them unless the chain answers `Break`); the second none. -/
theorem readsAs_transparent (ev : Expr → Ctx → Option JV) (c : Cfg) (cfgs : List StageCfg) (sts : List StageSt)
    {bs bs' : List Byte} {vs : List JV} {n : Nat} (hN : ReadsAs bs vs n) (hC : ReadsAs bs' vs 0)
    (name : Option Str) (fuel fuel' : Nat) (hf : bs.length + 2 ≤ fuel) (hf' : bs'.length + 2 ≤ fuel')
    (i k : Nat) :
    let noisy := Reader.ofBytes bs name
    let clean := Reader.ofBytes bs' name
    (ctxsOf c fuel noisy i k).map (·.input) = applyOnlyObj c vs
    ∧ (ctxsOf c fuel' clean i k).map (·.input) = applyOnlyObj c vs
    ∧ (ctxsOf c fuel noisy i k).map posFree = (ctxsOf c fuel' clean i k).map posFree
    ∧ (perrsOf fuel noisy).length = n
    ∧ (errsOf ev c cfgs fuel noisy i k sts).length ≤ n
    ∧ ((feedBrk (processP ev cfgs) sts (ctxsOf c fuel noisy i k)).2.2 = .cont →
        (errsOf ev c cfgs fuel noisy i k sts).length = n)
    ∧ perrsOf fuel' clean = []
    ∧ errsOf ev c cfgs fuel' clean i k sts = [] := by
  intro noisy clean
  have h1 := hN.rows_of c name fuel hf i k
  have h2 := hC.rows_of c name fuel' hf' i k
  have h3 := hN.errs_len ev c cfgs sts name fuel hf i k
  have h4 := hC.clean ev c cfgs sts name fuel' hf' i k
  exact ⟨h1.1, h2.1, by rw [h1.2, h2.2], hN.perrs_len name fuel hf, h3.1, h3.2, h4.1, h4.2⟩

/-- two byte streams read as the same values: their rows differ in line/column only -/
theorem ReadsAs.erase_eq {bs bs' : List Byte} {vs : List JV} {n m : Nat} (hN : ReadsAs bs vs n)
    (hC : ReadsAs bs' vs m) (c : Cfg) (name : Option Str) (fuel fuel' : Nat)
    (hf : bs.length + 2 ≤ fuel) (hf' : bs'.length + 2 ≤ fuel') (i k : Nat) :
    (ctxsOf c fuel (Reader.ofBytes bs name) i k).map erase
      = (ctxsOf c fuel' (Reader.ofBytes bs' name) i k).map erase := by
  rw [ctxsOf_erase, ctxsOf_erase, (hN.rows_of c name fuel hf i k).1, (hC.rows_of c name fuel' hf' i k).1,
    ofBytes_name, ofBytes_name]

/-! #### sources -/

/-- a byte stream as an input source (stdin when `name = none`) -/
def bytesSource (name : Option Str) (bs : List Byte) : Source := ⟨name, cleanInput bs⟩

theorem bytesSource_reader (name : Option Str) (bs : List Byte) :
    Reader.ofItems (bytesSource name bs).items (bytesSource name bs).name = Reader.ofBytes bs name := rfl

theorem bytesSource_fuel (name : Option Str) (bs : List Byte) :
    (bytesSource name bs).items.length + 2 = bs.length + 2 := by
  simp [bytesSource, cleanInput]

/-- a noisy byte stream with its clean twin, read under the same name -/
structure Twin where
  name : Option Str := none
  noisy : List Byte
  clean : List Byte

/-- both streams are read as the same values; the clean one holds no error -/
def Twin.OK (t : Twin) : Prop := ∃ vs n, ReadsAs t.noisy vs n ∧ ReadsAs t.clean vs 0

def Twin.noisySrc (t : Twin) : Source := bytesSource t.name t.noisy
def Twin.cleanSrc (t : Twin) : Source := bytesSource t.name t.clean

/-- the source is a byte stream without recoverable error -/
def CleanSrc (s : Source) : Prop := ∃ name bs vs, s = bytesSource name bs ∧ ReadsAs bs vs 0

theorem cleanIO_noisy (ts : List Twin) : CleanIO (ts.map Twin.noisySrc) :=
  cleanIO_streams _ (by
    intro s hs
    obtain ⟨x, _, rfl⟩ := List.mem_map.mp hs
    exact ⟨_, rfl⟩)

theorem cleanIO_cleanSrc (srcs : List Source) (h : ∀ s ∈ srcs, CleanSrc s) : CleanIO srcs :=
  cleanIO_streams _ (by
    intro s hs
    obtain ⟨name, bs, vs, rfl, _⟩ := h s hs
    exact ⟨_, rfl⟩)

theorem noErrors_cleanSrc (srcs : List Source) (h : ∀ s ∈ srcs, CleanSrc s) : NoErrors srcs := by
  intro s hs
  obtain ⟨name, bs, vs, rfl, hr⟩ := h s hs
  rw [bytesSource_reader, bytesSource_fuel]
  exact List.eq_nil_of_length_eq_zero (hr.perrs_len name _ (Nat.le_refl _))

theorem Twin.cleanSrc_clean {t : Twin} (h : t.OK) : CleanSrc t.cleanSrc := by
  obtain ⟨vs, n, _, hC⟩ := h
  exact ⟨t.name, t.clean, vs, rfl, hC⟩

theorem cleanSrcs_twins (ts : List Twin) (hok : ∀ t ∈ ts, t.OK) : ∀ s ∈ ts.map Twin.cleanSrc, CleanSrc s := by
  intro s hs
  obtain ⟨t, ht, rfl⟩ := List.mem_map.mp hs
  exact Twin.cleanSrc_clean (hok t ht)

/-- the rows of noisy inputs and of their clean twins differ in line/column only -/
theorem ctxsOfSources_erase_twins (c : Cfg) (ts : List Twin) (hok : ∀ t ∈ ts, t.OK) (k : Nat) :
    (ctxsOfSources c (ts.map Twin.noisySrc) k).map erase
      = (ctxsOfSources c (ts.map Twin.cleanSrc) k).map erase := by
  induction ts generalizing k with
  | nil => rfl
  | cons t rest ih =>
    obtain ⟨vs, n, hN, hC⟩ := hok t (by simp)
    have h1 := hN.erase_eq hC c t.name (t.noisy.length + 2) (t.clean.length + 2)
      (Nat.le_refl _) (Nat.le_refl _) 0 k
    have hlen := congrArg List.length h1
    simp only [List.length_map] at hlen
    simp only [List.map_cons, ctxsOfSources, Twin.noisySrc, Twin.cleanSrc, bytesSource_reader,
      bytesSource_fuel, List.map_append]
    rw [h1, hlen]
    congr 1
    exact ih (fun x hx => hok x (by simp [hx])) _

/-- **no report for streams without error (interface form of `clean_no_reports`).**  Under every policy the run
succeeds, standard output is the header and the rows, standard error is untouched. -/
theorem cleanSrc_no_reports (orc : Oracles) (c : Cfg) (srcs : List Source) (wOut wErr : Writer) (p : Pipeline)
    (hcs : ∀ s ∈ srcs, CleanSrc s)
    (hb : build orc c = .ok p) (hna : NoAbort orc p.cfgs) (hw : Unbounded wOut)
    (he : c.onError = .stderr → Unbounded wErr) (hh : ¬ HeaderMissing p) :
    errsOfSources (evalT orc) c p.cfgs srcs 0 p.sts = []
    ∧ (run orc c srcs wOut wErr).result = .ok ()
    ∧ (run orc c srcs wOut wErr).stdout
        = wOut.out ++ headerBytes p ++
          (specRows (evalT orc) p.cfgs p.sts (ctxsOfSources c srcs 0)).flatMap (sinkBytes p.sink p.sinkLen)
    ∧ (run orc c srcs wOut wErr).stderr = wErr.out :=
  no_errors_no_reports orc c srcs wOut wErr p hb hna hw he (cleanIO_cleanSrc srcs hcs)
    (noErrors_cleanSrc srcs hcs) hh

/-- `ignore`, interface form: noisy and clean runs succeed and write the same bytes -/
theorem twins_ignore_same_output (orc : Oracles) (c : Cfg) (ts : List Twin) (wOut wErr : Writer)
    (p : Pipeline) (hok : ∀ t ∈ ts, t.OK) (hpol : c.onError = .ignore) (hb : build orc c = .ok p)
    (hna : NoAbort orc p.cfgs) (hpi : ChainPosIndep (evalT orc) p.cfgs) (hw : Unbounded wOut)
    (hh : ¬ HeaderMissing p) :
    (run orc c (ts.map Twin.noisySrc) wOut wErr).result = .ok ()
    ∧ (run orc c (ts.map Twin.cleanSrc) wOut wErr).result = .ok ()
    ∧ (run orc c (ts.map Twin.noisySrc) wOut wErr).stdout = (run orc c (ts.map Twin.cleanSrc) wOut wErr).stdout
    ∧ (run orc c (ts.map Twin.noisySrc) wOut wErr).stderr = wErr.out
    ∧ (run orc c (ts.map Twin.cleanSrc) wOut wErr).stderr = wErr.out := by
  obtain ⟨n1, n2, n3⟩ := run_ignore_spec orc c _ wOut wErr p hpol hb hna hw (cleanIO_noisy ts) hh
  obtain ⟨c1, c2, c3⟩ := run_ignore_spec orc c _ wOut wErr p hpol hb hna hw
    (cleanIO_cleanSrc _ (cleanSrcs_twins ts hok)) hh
  refine ⟨n1, c1, ?_, n3, c3⟩
  rw [n2, c2, specRows_congr_input (evalT orc) p.cfgs p.sts p.sink p.sinkLen hpi _ _
    (ctxsOfSources_rowsOK _ _ _) (ctxsOfSources_rowsOK _ _ _) (ctxsOfSources_erase_twins c ts hok 0)]

/-- `stderr`, interface form: same standard output; the reports go to standard error and nowhere else -/
theorem twins_stderr_same_output (orc : Oracles) (c : Cfg) (ts : List Twin) (wOut wErr : Writer)
    (p : Pipeline) (hok : ∀ t ∈ ts, t.OK) (hpol : c.onError = .stderr) (hb : build orc c = .ok p)
    (hna : NoAbort orc p.cfgs) (hpi : ChainPosIndep (evalT orc) p.cfgs) (hw : Unbounded wOut)
    (he : Unbounded wErr) (hh : ¬ HeaderMissing p) :
    (run orc c (ts.map Twin.noisySrc) wOut wErr).result = .ok ()
    ∧ (run orc c (ts.map Twin.cleanSrc) wOut wErr).result = .ok ()
    ∧ (run orc c (ts.map Twin.noisySrc) wOut wErr).stdout = (run orc c (ts.map Twin.cleanSrc) wOut wErr).stdout
    ∧ (run orc c (ts.map Twin.noisySrc) wOut wErr).stderr
        = wErr.out ++ (errsOfSources (evalT orc) c p.cfgs (ts.map Twin.noisySrc) 0 p.sts).flatMap reportBytes
    ∧ (run orc c (ts.map Twin.cleanSrc) wOut wErr).stderr = wErr.out := by
  obtain ⟨n1, n2, n3⟩ := policy_stderr_same_rows orc c _ wOut wErr p hpol hb hna hw he (cleanIO_noisy ts) hh
  obtain ⟨_, c1, c2, c3⟩ := cleanSrc_no_reports orc c _ wOut wErr p (cleanSrcs_twins ts hok)
    hb hna hw (fun _ => he) hh
  refine ⟨n1, c1, ?_, n3, c3⟩
  rw [n2, c2, specRows_congr_input (evalT orc) p.cfgs p.sts p.sink p.sinkLen hpi _ _
    (ctxsOfSources_rowsOK _ _ _) (ctxsOfSources_rowsOK _ _ _) (ctxsOfSources_erase_twins c ts hok 0)]

/-- `stdout`, interface form: with the report chunks removed the output is that of the clean run -/
theorem twins_stdout_same_rows (orc : Oracles) (c : Cfg) (ts : List Twin) (wOut wErr : Writer)
    (p : Pipeline) (hok : ∀ t ∈ ts, t.OK) (hpol : c.onError = .stdout) (hb : build orc c = .ok p)
    (hna : NoAbort orc p.cfgs) (hpi : ChainPosIndep (evalT orc) p.cfgs) (hw : Unbounded wOut)
    (hh : ¬ HeaderMissing p) :
    ∃ ch : Chunks,
      (run orc c (ts.map Twin.noisySrc) wOut wErr).result = .ok ()
      ∧ (run orc c (ts.map Twin.cleanSrc) wOut wErr).result = .ok ()
      ∧ (run orc c (ts.map Twin.noisySrc) wOut wErr).stdout = wOut.out ++ headerBytes p ++ ch.bytes
      ∧ (run orc c (ts.map Twin.cleanSrc) wOut wErr).stdout = wOut.out ++ headerBytes p ++ ch.rowPart
      ∧ ch.reports = (errsOfSources (evalT orc) c p.cfgs (ts.map Twin.noisySrc) 0 p.sts).map reportBytes
      ∧ (run orc c (ts.map Twin.noisySrc) wOut wErr).stderr = wErr.out
      ∧ (run orc c (ts.map Twin.cleanSrc) wOut wErr).stderr = wErr.out := by
  obtain ⟨ch, n1, n2, n3, n4, n5⟩ := RunSpec.policy_stdout orc c _ wOut wErr p hpol hb hna hw
    (cleanIO_noisy ts) hh
  obtain ⟨_, c1, c2, c3⟩ := cleanSrc_no_reports orc c _ wOut wErr p (cleanSrcs_twins ts hok)
    hb hna hw (fun h => by rw [hpol] at h; cases h) hh
  refine ⟨ch, n1, c1, n2, ?_, n4, n5, c3⟩
  rw [c2, n3, specRows_congr_input (evalT orc) p.cfgs p.sts p.sink p.sinkLen hpi _ _
    (ctxsOfSources_rowsOK _ _ _) (ctxsOfSources_rowsOK _ _ _) (ctxsOfSources_erase_twins c ts hok 0)]

/-- the rows of a run over one byte stream -/
theorem ctxsOfSources_bytes (c : Cfg) (name : Option Str) (bs : List Byte) (k : Nat) :
    ctxsOfSources c [bytesSource name bs] k = ctxsOf c (bs.length + 2) (Reader.ofBytes bs name) 0 k := by
  simp only [ctxsOfSources, bytesSource_reader, bytesSource_fuel, List.append_nil]

/-- default configuration, interface form: one one-line JSON row per value read, nothing else -/
theorem readsAs_default_output (orc : Oracles) {bs : List Byte} {vs : List JV} {n : Nat} (h : ReadsAs bs vs n)
    (name : Option Str) (wOut wErr : Writer) (hw : Unbounded wOut) :
    (run orc {} [bytesSource name bs] wOut wErr).result = .ok ()
    ∧ (run orc {} [bytesSource name bs] wOut wErr).stdout
        = wOut.out ++ vs.flatMap (fun v => utf8 (printJson {} v) ++ [10])
    ∧ (run orc {} [bytesSource name bs] wOut wErr).stderr = wErr.out := by
  have hcl : CleanIO [bytesSource name bs] := cleanIO_streams _ (by
    intro s hs; simp only [List.mem_singleton] at hs; subst hs; exact ⟨_, rfl⟩)
  obtain ⟨n1, n2, n3⟩ := default_rows orc [bytesSource name bs] wOut wErr hw hcl
  have hN := (h.rows_of {} name _ (Nat.le_refl _) 0 0).1
  rw [applyOnlyObj_off _ rfl] at hN
  refine ⟨n1, ?_, n3⟩
  rw [n2, ctxsOfSources_bytes, flatMap_input (fun v => utf8 (printJson {} v) ++ [10]), hN]

/-- `panic`, interface form: the run over one byte stream fails at its first error `unexpectedChar … b` (unless
the chain answered `Break` first), having been fed the rows of the values `pre` that precede it -/
theorem run_panic_stopsAt (orc : Oracles) (c : Cfg) (name : Option Str) {bs : List Byte} {vals : List JV}
    {fb : Option Byte} (hst : StopsAt bs vals fb) (wOut wErr : Writer) (p : Pipeline)
    (hpol : c.onError = .panic) (hb : build orc c = .ok p)
    (hna : NoAbort orc p.cfgs) (hw : Unbounded wOut) (hh : ¬ HeaderMissing p) :
    ∃ pre : List Ctx,
      pre.map (·.input) = applyOnlyObj c vals ∧
      (∀ b, fb = some b →
          (feedBrk (processP (evalT orc) p.cfgs) p.sts pre).2.2 = .cont →
        ∃ loc,
          (run orc c [bytesSource name bs] wOut wErr).result
            = .error (.json (.unexpectedChar loc b valueExpected))
          ∧ (run orc c [bytesSource name bs] wOut wErr).stdout
              = wOut.out ++ headerBytes p ++
                (feedBrk (processP (evalT orc) p.cfgs) p.sts pre).2.1.flatMap (sinkBytes p.sink p.sinkLen)
          ∧ (Streaming p.cfgs →
              (run orc c [bytesSource name bs] wOut wErr).stdout
                = wOut.out ++ headerBytes p ++
                  (specRows (evalT orc) p.cfgs p.sts pre).flatMap (sinkBytes p.sink p.sinkLen))
          ∧ (run orc c [bytesSource name bs] wOut wErr).stderr = wErr.out) ∧
      ((fb = none ∨ (feedBrk (processP (evalT orc) p.cfgs) p.sts pre).2.2 = .brk) →
        (run orc c [bytesSource name bs] wOut wErr).result = .ok ()
        ∧ (run orc c [bytesSource name bs] wOut wErr).stdout
            = wOut.out ++ headerBytes p ++
              (specRows (evalT orc) p.cfgs p.sts pre).flatMap (sinkBytes p.sink p.sinkLen)
        ∧ (run orc c [bytesSource name bs] wOut wErr).stderr = wErr.out) := by
  obtain ⟨hE, hO⟩ := run_panic_spec orc c [bytesSource name bs] wOut wErr p hpol hb hna hw hh
  obtain ⟨e1, e2⟩ := ctxsUntilErrorSources_single c (bytesSource name bs) 0
  rw [bytesSource_reader, bytesSource_fuel,
    ctxsUntilError_eq_untilAt c _ _ 0 0 (wf_ofBytes _ _) (by rw [μ_ofBytes]; omega)] at e1 e2
  have u1 := hst.rows c name 0 0
  have u2 := hst.err c name 0 0
  rw [e1] at hE hO
  rw [e2] at hE hO
  refine ⟨_, u1, ?_, ?_⟩
  · intro b hb' hc
    subst hb'
    obtain ⟨loc, hloc⟩ := u2
    exact ⟨loc, hE _ hloc hc⟩
  · rintro (hnone | hbrk)
    · subst hnone
      exact hO (.inl u2)
    · exact hO (.inr hbrk)

/-! ### 2. noisy streams of conforming texts -/

/-- a value with one of its conforming texts, and the gap that follows it -/
structure Item where
  v : JV
  text : List Byte
  gap : Gap := {}

/-- the bytes of the stream: first gap, then every text followed by its gap -/
def stream2 (g0 : Gap) (items : List Item) : List Byte :=
  g0.bytes ++ items.flatMap (fun x => x.text ++ x.gap.bytes)

/-- every text is a conforming text of its value, every gap is well formed, and what follows a text — garbage
included, which may touch it — does not extend a number text (`Ser.Delimited`: after a number text no digit, `.`,
`e`, `E`; no condition after any other value) -/
def ItemsOK2 : List Item → Prop
  | [] => True
  | x :: rest => Ser.Ser x.v x.text ∧ x.gap.OK ∧ Ser.Delimited x.v (stream2 x.gap rest) ∧ ItemsOK2 rest

/-- the gap with every garbage byte replaced by a space -/
def _root_.Jawk.Noise.Gap.blank (g : Gap) : Gap :=
  { ws := g.ws ++ g.toks.flatMap (fun t => t.1.map (fun _ => (32 : Byte)) ++ t.2), toks := [] }

def Item.blank (x : Item) : Item := { x with gap := x.gap.blank }
def Item.strip (x : Item) : Item := { x with gap := x.gap.strip }

/-- the clean twin: same values, same texts, every garbage byte of the gaps replaced by a space -/
def blankItems (items : List Item) : List Item := items.map Item.blank

/-- the other clean twin: same values, same texts, the garbage bytes of the gaps deleted -/
def stripItems2 (items : List Item) : List Item := items.map Item.strip

/-- total number of garbage bytes -/
def garbageCount2 (g0 : Gap) (items : List Item) : Nat :=
  g0.garbage + (items.map (fun x => x.gap.garbage)).sum

/-- number of gaps that contain garbage (the "malformed regions") -/
def noisyGaps2 (g0 : Gap) (items : List Item) : Nat :=
  ((g0 :: items.map (·.gap)).filter (fun g => !g.toks.isEmpty)).length

/-- the values that precede the first gap containing garbage -/
def cleanPrefix2 (g0 : Gap) : List Item → List JV
  | [] => []
  | x :: rest => if g0.toks.isEmpty then x.v :: cleanPrefix2 x.gap rest else []

/-- the first garbage byte of the stream -/
def firstGarbage2 (g0 : Gap) : List Item → Option Byte
  | [] => g0.toks.head?.bind (·.1.head?)
  | x :: rest =>
    match g0.toks with
    | t :: _ => t.1.head?
    | [] => firstGarbage2 x.gap rest

theorem stream2_cons (g0 : Gap) (x : Item) (rest : List Item) :
    stream2 g0 (x :: rest) = g0.bytes ++ (x.text ++ stream2 x.gap rest) := by
  simp [stream2, List.append_assoc]

theorem ItemsOK2.gaps {items : List Item} (h : ItemsOK2 items) : ∀ x ∈ items, x.gap.OK := by
  induction items with
  | nil => intro x hx; cases hx
  | cons y rest ih =>
    obtain ⟨_, hg, _, hrest⟩ := h
    intro x hx
    rcases List.mem_cons.mp hx with rfl | hx
    · exact hg
    · exact ih hrest x hx

/-- every malformed region holds at least one garbage byte -/
theorem noisyGaps2_le (g0 : Gap) (items : List Item) (h0 : g0.OK) (h : ItemsOK2 items) :
    noisyGaps2 g0 items ≤ garbageCount2 g0 items := by
  have key : ∀ (gs : List Gap), (∀ g ∈ gs, g.OK) →
      (gs.filter (fun g => !g.toks.isEmpty)).length ≤ (gs.map Gap.garbage).sum := by
    intro gs hgs
    induction gs with
    | nil => simp
    | cons g gs ih =>
      have ih' := ih (fun x hx => hgs x (by simp [hx]))
      simp only [List.filter_cons, List.map_cons, List.sum_cons]
      cases hne : g.toks.isEmpty with
      | true => simp only [Bool.not_true, Bool.false_eq_true, if_false]; omega
      | false =>
        have := Gap.garbage_pos (hgs g (by simp)) hne
        simp only [Bool.not_false, if_true, List.length_cons]
        omega
  have := key (g0 :: items.map (·.gap)) (by
    intro g hg
    rcases List.mem_cons.mp hg with rfl | hg
    · exact h0
    · obtain ⟨x, hx, rfl⟩ := List.mem_map.mp hg
      exact h.gaps x hx)
  simpa [noisyGaps2, garbageCount2, List.map_map, Function.comp_def] using this

theorem ws_of_isWs {w : List Byte} (h : ∀ b ∈ w, isWs b = true) : Ser.Ws w :=
  fun b hb => Ser.IsWs_of_isWs (h b hb)

/-- **stream_read2.**  The values read from a noisy stream of conforming texts are the values of its items —
exactly, whatever their spelling —, scalars dropped under `--only-objects-and-arrays`; the recoverable errors met
are as many as the garbage bytes.  From any reader standing before the stream (after any white space `w`). -/
theorem stream_read2 (c : Cfg) (items : List Item) (hit : ItemsOK2 items)
    (g0 : Gap) (h0 : g0.OK) (w : List Byte) (hw : ∀ b ∈ w, isWs b = true) (r : Reader)
    (hr : Ready r (w ++ stream2 g0 items)) (i k : Nat) :
    (rowsAt c r i k).map (·.input) = applyOnlyObj c (items.map (·.v)) ∧
    (perrsAt r).length = garbageCount2 g0 items := by
  induction items generalizing g0 w r i k with
  | nil =>
    obtain ⟨es, r1, w', hs, hlen, hw', hr1⟩ := gap_skips g0 h0 w hw [] r (by simpa [stream2] using hr)
    obtain ⟨r2, hend, _⟩ := nextJson_end w' hw' r1 (by simpa using hr1)
    have hwf := ready_wf hr
    rw [hs.rowsAt c hwf, hs.perrsAt hwf, rowsAt_end c i k hend, perrsAt_end hend]
    exact ⟨rfl, by simp [hlen, garbageCount2]⟩
  | cons x rest ih =>
    obtain ⟨hv, hg, hd, hrest⟩ := hit
    rw [stream2_cons] at hr
    obtain ⟨es, r1, w', hs, hlen, hw', hr1⟩ := gap_skips g0 h0 w hw _ r hr
    obtain ⟨r2, hval, hr2⟩ := Ser.nextJson_ser hv (stream2 x.gap rest) hd w' (ws_of_isWs hw') r1
      (by simpa [List.append_assoc] using hr1)
    have hwf := ready_wf hr
    have hwf1 := ready_wf hr1
    have hr2' : Ready r2 ([] ++ stream2 x.gap rest) := by simpa using hr2
    rw [hs.rowsAt c hwf, hs.perrsAt hwf, rowsAt_value c i k hwf1 hval, perrsAt_value hwf1 hval]
    constructor
    · simp only [applyOnlyObj, List.map_cons, List.filter_cons]
      cases hb : (c.onlyObjectsAndArrays && !x.v.isObjOrArr) with
      | true =>
        simp only [if_true, Bool.not_true, Bool.false_eq_true, if_false]
        exact (ih hrest x.gap hg [] (by simp) r2 hr2' i k).1
      | false =>
        simp only [Bool.false_eq_true, if_false, Bool.not_false, if_true, List.map_cons]
        rw [(ih hrest x.gap hg [] (by simp) r2 hr2' (i + 1) (k + 1)).1]
        rfl
    · rw [List.length_append, hlen, (ih hrest x.gap hg [] (by simp) r2 hr2' i k).2]
      simp only [garbageCount2, List.map_cons, List.sum_cons]

/-- the noisy stream satisfies the interface -/
theorem readsAs_stream2 (g0 : Gap) (items : List Item) (h0 : g0.OK) (hit : ItemsOK2 items) :
    ReadsAs (stream2 g0 items) (items.map (·.v)) (garbageCount2 g0 items) := by
  have hr : ∀ name, Ready (Reader.ofBytes (stream2 g0 items) name) ([] ++ stream2 g0 items) := by
    intro name
    simpa using ready_ofBytes _ name
  exact ⟨fun c name i k => (stream_read2 c items hit g0 h0 [] (by simp) _ (hr name) i k).1,
    fun name => (stream_read2 {} items hit g0 h0 [] (by simp) _ (hr name) 0 0).2⟩

/-- reading a noisy stream up to its first error: the values before the first gap that holds garbage, then the
`unexpectedChar` error for the first garbage byte (none for a clean stream) -/
theorem stream_until2 (c : Cfg) (items : List Item) (hit : ItemsOK2 items)
    (g0 : Gap) (h0 : g0.OK) (w : List Byte) (hw : ∀ b ∈ w, isWs b = true) (r : Reader)
    (hr : Ready r (w ++ stream2 g0 items)) (i k : Nat) :
    (untilAt c r i k).1.map (·.input) = applyOnlyObj c (cleanPrefix2 g0 items) ∧
    (match firstGarbage2 g0 items with
      | none => (untilAt c r i k).2 = none
      | some b => ∃ loc, (untilAt c r i k).2 = some (.unexpectedChar loc b valueExpected)) := by
  induction items generalizing g0 w r i k with
  | nil =>
    obtain ⟨ws0, toks0⟩ := g0
    cases toks0 with
    | nil =>
      obtain ⟨r2, hend, _⟩ := nextJson_end (w ++ ws0) (ws_append hw h0.1) r
        (by simpa [stream2, Gap.bytes, toksBytes] using hr)
      rw [untilAt_end c i k hend]
      exact ⟨rfl, rfl⟩
    | cons t toks =>
      obtain ⟨hne, hg, _⟩ := h0.2 t (by simp)
      obtain ⟨t1, t2⟩ := t
      cases t1 with
      | nil => exact absurd rfl hne
      | cons b bs =>
        obtain ⟨r1, h1, _⟩ := garbage_one (w ++ ws0) (ws_append hw h0.1) b (hg b (by simp))
          (bs ++ (t2 ++ (toksBytes toks ++ []))) r
          (by simpa [stream2, Gap.bytes, toksBytes, List.append_assoc] using hr)
        rw [untilAt_error c i k h1]
        exact ⟨rfl, _, rfl⟩
  | cons x rest ih =>
    obtain ⟨hv, hg, hd, hrest⟩ := hit
    rw [stream2_cons] at hr
    obtain ⟨ws0, toks0⟩ := g0
    cases toks0 with
    | nil =>
      have hr1 : Ready r ((w ++ ws0) ++ x.text ++ stream2 x.gap rest) := by
        simpa [Gap.bytes, toksBytes, List.append_assoc] using hr
      obtain ⟨r2, hval, hr2⟩ := Ser.nextJson_ser hv (stream2 x.gap rest) hd (w ++ ws0)
        (ws_of_isWs (ws_append hw h0.1)) r hr1
      have hr2' : Ready r2 ([] ++ stream2 x.gap rest) := by simpa using hr2
      rw [untilAt_value c i k (ready_wf hr) hval]
      simp only [cleanPrefix2, firstGarbage2, List.isEmpty_nil, if_true, applyOnlyObj,
        List.filter_cons]
      cases hb : (c.onlyObjectsAndArrays && !x.v.isObjOrArr) with
      | true =>
        simp only [if_true, Bool.not_true, Bool.false_eq_true, if_false]
        exact ih hrest x.gap hg [] (by simp) r2 hr2' i k
      | false =>
        simp only [Bool.false_eq_true, if_false, Bool.not_false, if_true, List.map_cons]
        obtain ⟨ih1, ih2⟩ := ih hrest x.gap hg [] (by simp) r2 hr2' (i + 1) (k + 1)
        refine ⟨?_, ih2⟩
        rw [ih1]
        rfl
    | cons t toks =>
      obtain ⟨hne, hgb, _⟩ := h0.2 t (by simp)
      obtain ⟨t1, t2⟩ := t
      cases t1 with
      | nil => exact absurd rfl hne
      | cons b bs =>
        obtain ⟨r1, h1, _⟩ := garbage_one (w ++ ws0) (ws_append hw h0.1) b (hgb b (by simp))
          (bs ++ (t2 ++ (toksBytes toks ++ (x.text ++ stream2 x.gap rest)))) r
          (by simpa [Gap.bytes, toksBytes, List.append_assoc] using hr)
        rw [untilAt_error c i k h1]
        exact ⟨rfl, _, rfl⟩

theorem stopsAt_stream2 (g0 : Gap) (items : List Item) (h0 : g0.OK) (hit : ItemsOK2 items) :
    StopsAt (stream2 g0 items) (cleanPrefix2 g0 items) (firstGarbage2 g0 items) := by
  have hr : ∀ name, Ready (Reader.ofBytes (stream2 g0 items) name) ([] ++ stream2 g0 items) := by
    intro name
    simpa using ready_ofBytes _ name
  exact ⟨fun c name i k => (stream_until2 c items hit g0 h0 [] (by simp) _ (hr name) i k).1,
    fun c name i k => (stream_until2 c items hit g0 h0 [] (by simp) _ (hr name) i k).2⟩

/-! #### the clean twins -/

theorem Gap.blank_OK {g : Gap} (h : g.OK) : g.blank.OK := by
  refine ⟨?_, fun t ht => by cases ht⟩
  intro b hb
  simp only [Gap.blank, List.mem_append, List.mem_flatMap, List.mem_map] at hb
  rcases hb with hb | ⟨t, ht, ⟨_, _, rfl⟩ | hb⟩
  · exact h.1 b hb
  · rfl
  · exact (h.2 t ht).2.2 b hb

theorem Gap.blank_garbage (g : Gap) : g.blank.garbage = 0 := rfl

/-- blanking keeps every byte in place: the gap has the same length -/
theorem Gap.blank_length (g : Gap) : g.blank.bytes.length = g.bytes.length := by
  obtain ⟨ws, toks⟩ := g
  simp only [Gap.blank, Gap.bytes, toksBytes, List.flatMap_nil, List.append_nil, List.length_append]
  congr 1
  induction toks with
  | nil => rfl
  | cons t toks ih => simp [ih]

theorem blankItems_values (items : List Item) : (blankItems items).map (·.v) = items.map (·.v) := by
  simp [blankItems, Item.blank, Function.comp_def]

theorem stripItems2_values (items : List Item) : (stripItems2 items).map (·.v) = items.map (·.v) := by
  simp [stripItems2, Item.strip, Function.comp_def]

theorem garbageCount2_blank (g0 : Gap) (items : List Item) :
    garbageCount2 g0.blank (blankItems items) = 0 := by
  simp only [garbageCount2, Gap.blank_garbage, blankItems, List.map_map, Nat.zero_add]
  induction items with
  | nil => rfl
  | cons x rest ih => simpa [Item.blank, Gap.blank_garbage] using ih

theorem garbageCount2_strip (g0 : Gap) (items : List Item) :
    garbageCount2 g0.strip (stripItems2 items) = 0 := by
  simp only [garbageCount2, Gap.strip_garbage, stripItems2, List.map_map, Nat.zero_add]
  induction items with
  | nil => rfl
  | cons x rest ih => simpa [Item.strip, Gap.strip_garbage] using ih

/-- the blanked stream has the length of the noisy one -/
theorem stream2_blank_length (g0 : Gap) (items : List Item) :
    (stream2 g0.blank (blankItems items)).length = (stream2 g0 items).length := by
  induction items generalizing g0 with
  | nil => simp [stream2, blankItems, Gap.blank_length]
  | cons x rest ih =>
    have := ih x.gap
    simp only [blankItems] at this
    simp only [blankItems, List.map_cons, stream2_cons, List.length_append, Gap.blank_length, Item.blank, this]

/-- the first byte of a blanked stream is a space or the first byte of the noisy stream -/
theorem head_blank (g : Gap) (hg : g.OK) (rest : List Item) (hrest : ItemsOK2 rest) :
    ∀ b ∈ (stream2 g.blank (blankItems rest)).head?, b = 32 ∨ b ∈ (stream2 g rest).head? := by
  obtain ⟨ws, toks⟩ := g
  cases ws with
  | cons a ws =>
    intro b hb
    right
    simpa [stream2, Gap.blank, Gap.bytes] using hb
  | nil =>
    cases toks with
    | cons t toks =>
      obtain ⟨hne, _, _⟩ := hg.2 t (by simp)
      obtain ⟨t1, t2⟩ := t
      cases t1 with
      | nil => exact absurd rfl hne
      | cons a t1 =>
        intro b hb
        left
        simpa [stream2, Gap.blank, Gap.bytes, toksBytes, eq_comm] using hb
    | nil =>
      cases rest with
      | nil => intro b hb; simp [stream2, blankItems, Gap.blank, Gap.bytes, toksBytes] at hb
      | cons y rest =>
        obtain ⟨a, tl, htext, _⟩ := Ser.ser_head hrest.1
        intro b hb
        right
        simpa [stream2, blankItems, Item.blank, Gap.blank, Gap.bytes, toksBytes, htext] using hb

theorem delimited_blank (v : JV) (g : Gap) (hg : g.OK) (rest : List Item) (hrest : ItemsOK2 rest)
    (hd : Ser.Delimited v (stream2 g rest)) : Ser.Delimited v (stream2 g.blank (blankItems rest)) := by
  cases v with
  | num n =>
    intro b hb
    rcases head_blank g hg rest hrest b hb with rfl | h
    · decide
    · exact hd b h
  | _ => exact True.intro

/-- **the blanked twin is always well formed** -/
theorem blankItems_OK (items : List Item) (h : ItemsOK2 items) : ItemsOK2 (blankItems items) := by
  induction items with
  | nil => trivial
  | cons x rest ih =>
    obtain ⟨hv, hg, hd, hrest⟩ := h
    exact ⟨hv, Gap.blank_OK hg, delimited_blank x.v x.gap hg rest hrest hd, ih hrest⟩

/-- a simple sufficient condition for the STRIPPED twin to be well formed: every gap that follows a number and
stands before another value contains at least one white-space byte -/
def SepWs : List Item → Prop
  | [] => True
  | x :: rest => (x.gap.strip.ws ≠ [] ∨ rest = [] ∨ ∀ n, x.v ≠ .num n) ∧ SepWs rest

theorem stripItems2_OK (items : List Item) (h : ItemsOK2 items) (hs : SepWs items) :
    ItemsOK2 (stripItems2 items) := by
  induction items with
  | nil => trivial
  | cons x rest ih =>
    obtain ⟨hv, hg, _, hrest⟩ := h
    obtain ⟨hsep, hs'⟩ := hs
    refine ⟨hv, Gap.strip_OK hg, ?_, ih hrest hs'⟩
    show Ser.Delimited x.v (stream2 x.gap.strip (stripItems2 rest))
    have hwsOK := (Gap.strip_OK hg).1
    rcases hsep with h1 | h1 | h1
    · obtain ⟨a, tl, he⟩ := List.exists_cons_of_ne_nil h1
      apply Ser.delimited_of_delim
      apply Delim.of_numDelim
      have : stream2 x.gap.strip (stripItems2 rest) = a :: (tl ++ (stripItems2 rest).flatMap
          (fun x => x.text ++ x.gap.bytes)) := by
        have hb : x.gap.strip.bytes = a :: tl := by
          rw [Gap.bytes, he]
          simp [Gap.strip, toksBytes]
        simp [stream2, hb]
      rw [this]
      exact numDelim_cons a _ (isWs_numDelim (hwsOK a (by rw [he]; simp)))
    · subst h1
      apply Ser.delimited_of_delim
      apply Delim.of_numDelim
      have hb : stream2 x.gap.strip (stripItems2 []) = x.gap.strip.ws := by
        simp [stream2, stripItems2, Gap.bytes, Gap.strip, toksBytes]
      rw [hb]
      cases he : x.gap.strip.ws with
      | nil => exact numDelim_nil
      | cons a tl => exact numDelim_cons a _ (isWs_numDelim (hwsOK a (by rw [he]; simp)))
    · cases hx : x.v with
      | num n => exact absurd hx (h1 n)
      | _ => exact True.intro

/-- the stripped twin holds no garbage: all its values precede "the first garbage byte" -/
theorem strip_clean2 (g0 : Gap) (items : List Item) :
    firstGarbage2 g0.strip (stripItems2 items) = none ∧
    cleanPrefix2 g0.strip (stripItems2 items) = items.map (·.v) := by
  induction items generalizing g0 with
  | nil => exact ⟨rfl, rfl⟩
  | cons x rest ih =>
    obtain ⟨i1, i2⟩ := ih x.gap
    constructor
    · simp only [stripItems2, List.map_cons, firstGarbage2, Gap.strip, Item.strip] at i1 ⊢
      exact i1
    · simp only [stripItems2, List.map_cons, cleanPrefix2, Gap.strip, List.isEmpty_nil, if_true,
        Item.strip] at i2 ⊢
      rw [i2]

theorem blank_clean2 (g0 : Gap) (items : List Item) :
    firstGarbage2 g0.blank (blankItems items) = none ∧
    cleanPrefix2 g0.blank (blankItems items) = items.map (·.v) := by
  induction items generalizing g0 with
  | nil => exact ⟨rfl, rfl⟩
  | cons x rest ih =>
    obtain ⟨i1, i2⟩ := ih x.gap
    constructor
    · simp only [blankItems, List.map_cons, firstGarbage2, Gap.blank, Item.blank] at i1 ⊢
      exact i1
    · simp only [blankItems, List.map_cons, cleanPrefix2, Gap.blank, List.isEmpty_nil, if_true,
        Item.blank] at i2 ⊢
      rw [i2]

/-! ### 3. MAIN theorems -/

/-- **MAIN `noise_transparent2`.**  A noisy stream of conforming texts (garbage possibly touching the values) and
its blanked twin (every garbage byte replaced by a space; same length): both hand the pipeline the same values
with the same ordinals — the values of the items themselves, scalars dropped under `--only-objects-and-arrays`;
the rows differ in their locations only.  The noisy stream holds exactly one recoverable error per garbage byte,
hence at least one per malformed region; the twin none. -/
theorem noise_transparent2 (ev : Expr → Ctx → Option JV) (c : Cfg) (cfgs : List StageCfg) (sts : List StageSt)
    (g0 : Gap) (items : List Item) (h0 : g0.OK) (hit : ItemsOK2 items)
    (name : Option Str) (fuel fuel' : Nat)
    (hf : (stream2 g0 items).length + 2 ≤ fuel) (hf' : (stream2 g0 items).length + 2 ≤ fuel') (i k : Nat) :
    let noisy := Reader.ofBytes (stream2 g0 items) name
    let clean := Reader.ofBytes (stream2 g0.blank (blankItems items)) name
    (ctxsOf c fuel noisy i k).map (·.input) = applyOnlyObj c (items.map (·.v))
    ∧ (ctxsOf c fuel' clean i k).map (·.input) = applyOnlyObj c (items.map (·.v))
    ∧ (ctxsOf c fuel noisy i k).map posFree = (ctxsOf c fuel' clean i k).map posFree
    ∧ (perrsOf fuel noisy).length = garbageCount2 g0 items
    ∧ noisyGaps2 g0 items ≤ garbageCount2 g0 items
    ∧ (errsOf ev c cfgs fuel noisy i k sts).length ≤ garbageCount2 g0 items
    ∧ ((feedBrk (processP ev cfgs) sts (ctxsOf c fuel noisy i k)).2.2 = .cont →
        (errsOf ev c cfgs fuel noisy i k sts).length = garbageCount2 g0 items)
    ∧ perrsOf fuel' clean = []
    ∧ errsOf ev c cfgs fuel' clean i k sts = [] := by
  intro noisy clean
  have hN := readsAs_stream2 g0 items h0 hit
  have hC := readsAs_stream2 g0.blank (blankItems items) (Gap.blank_OK h0) (blankItems_OK items hit)
  rw [blankItems_values, garbageCount2_blank] at hC
  obtain ⟨a1, a2, a3, a4, a5, a6, a7, a8⟩ := readsAs_transparent ev c cfgs sts hN hC name fuel fuel' hf
    (by rw [stream2_blank_length]; exact hf') i k
  exact ⟨a1, a2, a3, a4, noisyGaps2_le g0 items h0 hit, a5, a6, a7, a8⟩

/-- **`noise_transparent2_strip`.**  The same against the twin with the garbage DELETED, when that twin is well
formed (`ItemsOK2 (stripItems2 items)`; see `stripItems2_OK` for a sufficient condition, and `strip_glues` for why
a condition is needed). -/
theorem noise_transparent2_strip (ev : Expr → Ctx → Option JV) (c : Cfg) (cfgs : List StageCfg)
    (sts : List StageSt) (g0 : Gap) (items : List Item) (h0 : g0.OK) (hit : ItemsOK2 items)
    (hstrip : ItemsOK2 (stripItems2 items))
    (name : Option Str) (fuel fuel' : Nat)
    (hf : (stream2 g0 items).length + 2 ≤ fuel)
    (hf' : (stream2 g0.strip (stripItems2 items)).length + 2 ≤ fuel') (i k : Nat) :
    let noisy := Reader.ofBytes (stream2 g0 items) name
    let clean := Reader.ofBytes (stream2 g0.strip (stripItems2 items)) name
    (ctxsOf c fuel noisy i k).map (·.input) = applyOnlyObj c (items.map (·.v))
    ∧ (ctxsOf c fuel' clean i k).map (·.input) = applyOnlyObj c (items.map (·.v))
    ∧ (ctxsOf c fuel noisy i k).map posFree = (ctxsOf c fuel' clean i k).map posFree
    ∧ (perrsOf fuel noisy).length = garbageCount2 g0 items
    ∧ noisyGaps2 g0 items ≤ garbageCount2 g0 items
    ∧ (errsOf ev c cfgs fuel noisy i k sts).length ≤ garbageCount2 g0 items
    ∧ ((feedBrk (processP ev cfgs) sts (ctxsOf c fuel noisy i k)).2.2 = .cont →
        (errsOf ev c cfgs fuel noisy i k sts).length = garbageCount2 g0 items)
    ∧ perrsOf fuel' clean = []
    ∧ errsOf ev c cfgs fuel' clean i k sts = [] := by
  intro noisy clean
  have hN := readsAs_stream2 g0 items h0 hit
  have hC := readsAs_stream2 g0.strip (stripItems2 items) (Gap.strip_OK h0) hstrip
  rw [stripItems2_values, garbageCount2_strip] at hC
  obtain ⟨a1, a2, a3, a4, a5, a6, a7, a8⟩ := readsAs_transparent ev c cfgs sts hN hC name fuel fuel' hf hf' i k
  exact ⟨a1, a2, a3, a4, noisyGaps2_le g0 items h0 hit, a5, a6, a7, a8⟩

/-! #### run level -/

/-- a list of streams, each with its name -/
structure StreamSpec2 where
  name : Option Str := none
  g0 : Gap := {}
  items : List Item := []

def StreamSpec2.OK (s : StreamSpec2) : Prop := s.g0.OK ∧ ItemsOK2 s.items
/-- no garbage in any gap -/
def StreamSpec2.Clean (s : StreamSpec2) : Prop := garbageCount2 s.g0 s.items = 0
def StreamSpec2.bytes (s : StreamSpec2) : List Byte := stream2 s.g0 s.items
def StreamSpec2.source (s : StreamSpec2) : Source := bytesSource s.name s.bytes
/-- the blanked twin -/
def StreamSpec2.blank (s : StreamSpec2) : StreamSpec2 := { s with g0 := s.g0.blank, items := blankItems s.items }
/-- the stripped twin -/
def StreamSpec2.strip (s : StreamSpec2) : StreamSpec2 := { s with g0 := s.g0.strip, items := stripItems2 s.items }

theorem StreamSpec2.blank_OK {s : StreamSpec2} (h : s.OK) : s.blank.OK :=
  ⟨Gap.blank_OK h.1, blankItems_OK _ h.2⟩

theorem StreamSpec2.blank_clean (s : StreamSpec2) : s.blank.Clean := garbageCount2_blank _ _
theorem StreamSpec2.strip_clean (s : StreamSpec2) : s.strip.Clean := garbageCount2_strip _ _

theorem StreamSpec2.readsAs {s : StreamSpec2} (h : s.OK) :
    ReadsAs s.bytes (s.items.map (·.v)) (garbageCount2 s.g0 s.items) :=
  readsAs_stream2 s.g0 s.items h.1 h.2

def StreamSpec2.blankTwin (s : StreamSpec2) : Twin := ⟨s.name, s.bytes, s.blank.bytes⟩
def StreamSpec2.stripTwin (s : StreamSpec2) : Twin := ⟨s.name, s.bytes, s.strip.bytes⟩

theorem StreamSpec2.blankTwin_OK {s : StreamSpec2} (h : s.OK) : s.blankTwin.OK := by
  have hC := StreamSpec2.readsAs (StreamSpec2.blank_OK h)
  rw [show garbageCount2 s.blank.g0 s.blank.items = 0 from s.blank_clean] at hC
  rw [show s.blank.items.map (·.v) = s.items.map (·.v) from blankItems_values _] at hC
  exact ⟨_, _, StreamSpec2.readsAs h, hC⟩

theorem StreamSpec2.stripTwin_OK {s : StreamSpec2} (h : s.OK) (h' : s.strip.OK) : s.stripTwin.OK := by
  have hC := StreamSpec2.readsAs h'
  rw [show garbageCount2 s.strip.g0 s.strip.items = 0 from s.strip_clean] at hC
  rw [show s.strip.items.map (·.v) = s.items.map (·.v) from stripItems2_values _] at hC
  exact ⟨_, _, StreamSpec2.readsAs h, hC⟩

theorem blankTwins_noisy (specs : List StreamSpec2) :
    (specs.map StreamSpec2.blankTwin).map Twin.noisySrc = specs.map StreamSpec2.source := by
  simp [List.map_map, Function.comp_def, StreamSpec2.blankTwin, Twin.noisySrc, StreamSpec2.source]

theorem blankTwins_clean (specs : List StreamSpec2) :
    (specs.map StreamSpec2.blankTwin).map Twin.cleanSrc = specs.map (fun s => s.blank.source) := by
  simp [List.map_map, Function.comp_def, StreamSpec2.blankTwin, Twin.cleanSrc, StreamSpec2.source,
    StreamSpec2.blank]

theorem stripTwins_noisy (specs : List StreamSpec2) :
    (specs.map StreamSpec2.stripTwin).map Twin.noisySrc = specs.map StreamSpec2.source := by
  simp [List.map_map, Function.comp_def, StreamSpec2.stripTwin, Twin.noisySrc, StreamSpec2.source]

theorem stripTwins_clean (specs : List StreamSpec2) :
    (specs.map StreamSpec2.stripTwin).map Twin.cleanSrc = specs.map (fun s => s.strip.source) := by
  simp [List.map_map, Function.comp_def, StreamSpec2.stripTwin, Twin.cleanSrc, StreamSpec2.source,
    StreamSpec2.strip]

theorem blankTwins_OK (specs : List StreamSpec2) (hok : ∀ s ∈ specs, s.OK) :
    ∀ t ∈ specs.map StreamSpec2.blankTwin, t.OK := by
  intro t ht
  obtain ⟨s, hs, rfl⟩ := List.mem_map.mp ht
  exact StreamSpec2.blankTwin_OK (hok s hs)

theorem stripTwins_OK (specs : List StreamSpec2) (hok : ∀ s ∈ specs, s.OK) (hok' : ∀ s ∈ specs, s.strip.OK) :
    ∀ t ∈ specs.map StreamSpec2.stripTwin, t.OK := by
  intro t ht
  obtain ⟨s, hs, rfl⟩ := List.mem_map.mp ht
  exact StreamSpec2.stripTwin_OK (hok s hs) (hok' s hs)

/-- **noise_default_same_output2.**  Without options, a noisy stream of conforming texts (on stdin or in a named
file) and its blanked twin make `jawk` print exactly the same bytes: one one-line JSON row per value of the stream,
in jawk's own spelling, in order; nothing goes to standard error. -/
theorem noise_default_same_output2 (orc : Oracles) (s : StreamSpec2) (hs : s.OK) (wOut wErr : Writer)
    (hw : Unbounded wOut) :
    (run orc {} [s.source] wOut wErr).result = .ok ()
    ∧ (run orc {} [s.blank.source] wOut wErr).result = .ok ()
    ∧ (run orc {} [s.source] wOut wErr).stdout
        = wOut.out ++ (s.items.map (·.v)).flatMap (fun v => utf8 (printJson {} v) ++ [10])
    ∧ (run orc {} [s.blank.source] wOut wErr).stdout = (run orc {} [s.source] wOut wErr).stdout
    ∧ (run orc {} [s.source] wOut wErr).stderr = wErr.out
    ∧ (run orc {} [s.blank.source] wOut wErr).stderr = wErr.out := by
  obtain ⟨vs, n, hN, hC⟩ := StreamSpec2.blankTwin_OK hs
  obtain ⟨n1, n2, n3⟩ := readsAs_default_output orc (StreamSpec2.readsAs hs) s.name wOut wErr hw
  have hC' := StreamSpec2.readsAs (StreamSpec2.blank_OK hs)
  rw [show s.blank.items.map (·.v) = s.items.map (·.v) from blankItems_values _] at hC'
  obtain ⟨c1, c2, c3⟩ := readsAs_default_output orc hC' s.name wOut wErr hw
  exact ⟨n1, c1, n2, by rw [show s.blank.source = bytesSource s.name s.blank.bytes from rfl, c2]; exact n2.symm,
    n3, c3⟩

/-- **noise_ignore_same_output2.**  Under `ignore`, any number of sources (stdin and files), for a chain none of
whose expressions reads line or column: the run over noisy streams of conforming texts and the run over their
blanked twins succeed and write the same bytes; nothing goes to standard error. -/
theorem noise_ignore_same_output2 (orc : Oracles) (c : Cfg) (specs : List StreamSpec2) (wOut wErr : Writer)
    (p : Pipeline) (hok : ∀ s ∈ specs, s.OK) (hpol : c.onError = .ignore) (hb : build orc c = .ok p)
    (hna : NoAbort orc p.cfgs) (hpi : ChainPosIndep (evalT orc) p.cfgs) (hw : Unbounded wOut)
    (hh : ¬ HeaderMissing p) :
    (run orc c (specs.map StreamSpec2.source) wOut wErr).result = .ok ()
    ∧ (run orc c (specs.map (fun s => s.blank.source)) wOut wErr).result = .ok ()
    ∧ (run orc c (specs.map StreamSpec2.source) wOut wErr).stdout
        = (run orc c (specs.map (fun s => s.blank.source)) wOut wErr).stdout
    ∧ (run orc c (specs.map StreamSpec2.source) wOut wErr).stderr = wErr.out
    ∧ (run orc c (specs.map (fun s => s.blank.source)) wOut wErr).stderr = wErr.out := by
  have h := twins_ignore_same_output orc c (specs.map StreamSpec2.blankTwin) wOut wErr p
    (blankTwins_OK specs hok) hpol hb hna hpi hw hh
  rwa [blankTwins_noisy, blankTwins_clean] at h

/-- the same against the stripped twins, when these are well formed -/
theorem noise_ignore_same_output2_strip (orc : Oracles) (c : Cfg) (specs : List StreamSpec2) (wOut wErr : Writer)
    (p : Pipeline) (hok : ∀ s ∈ specs, s.OK) (hok' : ∀ s ∈ specs, s.strip.OK)
    (hpol : c.onError = .ignore) (hb : build orc c = .ok p)
    (hna : NoAbort orc p.cfgs) (hpi : ChainPosIndep (evalT orc) p.cfgs) (hw : Unbounded wOut)
    (hh : ¬ HeaderMissing p) :
    (run orc c (specs.map StreamSpec2.source) wOut wErr).result = .ok ()
    ∧ (run orc c (specs.map (fun s => s.strip.source)) wOut wErr).result = .ok ()
    ∧ (run orc c (specs.map StreamSpec2.source) wOut wErr).stdout
        = (run orc c (specs.map (fun s => s.strip.source)) wOut wErr).stdout
    ∧ (run orc c (specs.map StreamSpec2.source) wOut wErr).stderr = wErr.out
    ∧ (run orc c (specs.map (fun s => s.strip.source)) wOut wErr).stderr = wErr.out := by
  have h := twins_ignore_same_output orc c (specs.map StreamSpec2.stripTwin) wOut wErr p
    (stripTwins_OK specs hok hok') hpol hb hna hpi hw hh
  rwa [stripTwins_noisy, stripTwins_clean] at h

/-- **noise_stderr_same_output2.**  Under `stderr` (standard error never failing): standard output is byte for byte
that of the blanked run; the blanked run leaves standard error untouched, the noisy run appends one `error:` line
per error met — nothing else goes there. -/
theorem noise_stderr_same_output2 (orc : Oracles) (c : Cfg) (specs : List StreamSpec2) (wOut wErr : Writer)
    (p : Pipeline) (hok : ∀ s ∈ specs, s.OK) (hpol : c.onError = .stderr) (hb : build orc c = .ok p)
    (hna : NoAbort orc p.cfgs) (hpi : ChainPosIndep (evalT orc) p.cfgs) (hw : Unbounded wOut)
    (he : Unbounded wErr) (hh : ¬ HeaderMissing p) :
    (run orc c (specs.map StreamSpec2.source) wOut wErr).result = .ok ()
    ∧ (run orc c (specs.map (fun s => s.blank.source)) wOut wErr).result = .ok ()
    ∧ (run orc c (specs.map StreamSpec2.source) wOut wErr).stdout
        = (run orc c (specs.map (fun s => s.blank.source)) wOut wErr).stdout
    ∧ (run orc c (specs.map StreamSpec2.source) wOut wErr).stderr
        = wErr.out ++ (errsOfSources (evalT orc) c p.cfgs (specs.map StreamSpec2.source) 0 p.sts).flatMap reportBytes
    ∧ (run orc c (specs.map (fun s => s.blank.source)) wOut wErr).stderr = wErr.out := by
  have h := twins_stderr_same_output orc c (specs.map StreamSpec2.blankTwin) wOut wErr p
    (blankTwins_OK specs hok) hpol hb hna hpi hw he hh
  rwa [blankTwins_noisy, blankTwins_clean] at h

theorem noise_stderr_same_output2_strip (orc : Oracles) (c : Cfg) (specs : List StreamSpec2) (wOut wErr : Writer)
    (p : Pipeline) (hok : ∀ s ∈ specs, s.OK) (hok' : ∀ s ∈ specs, s.strip.OK)
    (hpol : c.onError = .stderr) (hb : build orc c = .ok p)
    (hna : NoAbort orc p.cfgs) (hpi : ChainPosIndep (evalT orc) p.cfgs) (hw : Unbounded wOut)
    (he : Unbounded wErr) (hh : ¬ HeaderMissing p) :
    (run orc c (specs.map StreamSpec2.source) wOut wErr).result = .ok ()
    ∧ (run orc c (specs.map (fun s => s.strip.source)) wOut wErr).result = .ok ()
    ∧ (run orc c (specs.map StreamSpec2.source) wOut wErr).stdout
        = (run orc c (specs.map (fun s => s.strip.source)) wOut wErr).stdout
    ∧ (run orc c (specs.map StreamSpec2.source) wOut wErr).stderr
        = wErr.out ++ (errsOfSources (evalT orc) c p.cfgs (specs.map StreamSpec2.source) 0 p.sts).flatMap reportBytes
    ∧ (run orc c (specs.map (fun s => s.strip.source)) wOut wErr).stderr = wErr.out := by
  have h := twins_stderr_same_output orc c (specs.map StreamSpec2.stripTwin) wOut wErr p
    (stripTwins_OK specs hok hok') hpol hb hna hpi hw he hh
  rwa [stripTwins_noisy, stripTwins_clean] at h

/-- **noise_stdout_same_rows2.**  Under `stdout`: what the noisy run writes to standard output is the header and a
sequence of chunks; the report chunks are the `error:` lines of the errors met, in order, and with them removed
the output is byte for byte that of the blanked run.  Standard error is untouched. -/
theorem noise_stdout_same_rows2 (orc : Oracles) (c : Cfg) (specs : List StreamSpec2) (wOut wErr : Writer)
    (p : Pipeline) (hok : ∀ s ∈ specs, s.OK) (hpol : c.onError = .stdout) (hb : build orc c = .ok p)
    (hna : NoAbort orc p.cfgs) (hpi : ChainPosIndep (evalT orc) p.cfgs) (hw : Unbounded wOut)
    (hh : ¬ HeaderMissing p) :
    ∃ ch : Chunks,
      (run orc c (specs.map StreamSpec2.source) wOut wErr).result = .ok ()
      ∧ (run orc c (specs.map (fun s => s.blank.source)) wOut wErr).result = .ok ()
      ∧ (run orc c (specs.map StreamSpec2.source) wOut wErr).stdout = wOut.out ++ headerBytes p ++ ch.bytes
      ∧ (run orc c (specs.map (fun s => s.blank.source)) wOut wErr).stdout
          = wOut.out ++ headerBytes p ++ ch.rowPart
      ∧ ch.reports
          = (errsOfSources (evalT orc) c p.cfgs (specs.map StreamSpec2.source) 0 p.sts).map reportBytes
      ∧ (run orc c (specs.map StreamSpec2.source) wOut wErr).stderr = wErr.out
      ∧ (run orc c (specs.map (fun s => s.blank.source)) wOut wErr).stderr = wErr.out := by
  have h := twins_stdout_same_rows orc c (specs.map StreamSpec2.blankTwin) wOut wErr p
    (blankTwins_OK specs hok) hpol hb hna hpi hw hh
  rwa [blankTwins_noisy, blankTwins_clean] at h

/-- **run_panic_noisy2.**  `panic` on a noisy stream of conforming texts: the rows `pre` fed to the chain are
those of the values that precede the first gap holding garbage.  If the stream holds garbage (first garbage byte
`b`, possibly touching the value before it) and the chain has not answered `Break` on `pre`, the run fails with
`unexpectedChar … b`; a streaming chain has by then written exactly the header and `specRows pre`; nothing goes to
standard error.  If the stream is clean (or the chain answered `Break` first) the run succeeds. -/
theorem run_panic_noisy2 (orc : Oracles) (c : Cfg) (s : StreamSpec2) (hs : s.OK) (wOut wErr : Writer)
    (p : Pipeline) (hpol : c.onError = .panic) (hb : build orc c = .ok p)
    (hna : NoAbort orc p.cfgs) (hw : Unbounded wOut) (hh : ¬ HeaderMissing p) :
    ∃ pre : List Ctx,
      pre.map (·.input) = applyOnlyObj c (cleanPrefix2 s.g0 s.items) ∧
      (∀ b, firstGarbage2 s.g0 s.items = some b →
          (feedBrk (processP (evalT orc) p.cfgs) p.sts pre).2.2 = .cont →
        ∃ loc,
          (run orc c [s.source] wOut wErr).result = .error (.json (.unexpectedChar loc b valueExpected))
          ∧ (run orc c [s.source] wOut wErr).stdout
              = wOut.out ++ headerBytes p ++
                (feedBrk (processP (evalT orc) p.cfgs) p.sts pre).2.1.flatMap (sinkBytes p.sink p.sinkLen)
          ∧ (Streaming p.cfgs →
              (run orc c [s.source] wOut wErr).stdout
                = wOut.out ++ headerBytes p ++
                  (specRows (evalT orc) p.cfgs p.sts pre).flatMap (sinkBytes p.sink p.sinkLen))
          ∧ (run orc c [s.source] wOut wErr).stderr = wErr.out) ∧
      ((firstGarbage2 s.g0 s.items = none ∨ (feedBrk (processP (evalT orc) p.cfgs) p.sts pre).2.2 = .brk) →
        (run orc c [s.source] wOut wErr).result = .ok ()
        ∧ (run orc c [s.source] wOut wErr).stdout
            = wOut.out ++ headerBytes p ++
              (specRows (evalT orc) p.cfgs p.sts pre).flatMap (sinkBytes p.sink p.sinkLen)
        ∧ (run orc c [s.source] wOut wErr).stderr = wErr.out) :=
  run_panic_stopsAt orc c s.name (stopsAt_stream2 s.g0 s.items hs.1 hs.2) wOut wErr p hpol hb hna hw hh

/-- **clean_no_reports2.**  Clean streams of conforming texts (no garbage in any gap; the values need not be
separated by white space where `Ser.Delimited` allows it, e.g. `[1]"s"{}`), on stdin or in files: under every
`--on-error` policy there is no error to report, the run succeeds, standard output holds no report line (it is the
header and the rows), standard error is untouched. -/
theorem clean_no_reports2 (orc : Oracles) (c : Cfg) (specs : List StreamSpec2) (wOut wErr : Writer) (p : Pipeline)
    (hok : ∀ s ∈ specs, s.OK) (hclean : ∀ s ∈ specs, s.Clean)
    (hb : build orc c = .ok p) (hna : NoAbort orc p.cfgs) (hw : Unbounded wOut)
    (he : c.onError = .stderr → Unbounded wErr) (hh : ¬ HeaderMissing p) :
    errsOfSources (evalT orc) c p.cfgs (specs.map StreamSpec2.source) 0 p.sts = []
    ∧ (run orc c (specs.map StreamSpec2.source) wOut wErr).result = .ok ()
    ∧ (run orc c (specs.map StreamSpec2.source) wOut wErr).stdout
        = wOut.out ++ headerBytes p ++
          (specRows (evalT orc) p.cfgs p.sts (ctxsOfSources c (specs.map StreamSpec2.source) 0)).flatMap
            (sinkBytes p.sink p.sinkLen)
    ∧ (run orc c (specs.map StreamSpec2.source) wOut wErr).stderr = wErr.out :=
  cleanSrc_no_reports orc c _ wOut wErr p (by
    intro src hsrc
    obtain ⟨s, hs, rfl⟩ := List.mem_map.mp hsrc
    have hr := StreamSpec2.readsAs (hok s hs)
    rw [show garbageCount2 s.g0 s.items = 0 from hclean s hs] at hr
    exact ⟨s.name, s.bytes, _, rfl, hr⟩) hb hna hw he hh

/-! ### 4. non-vacuity and findings

The stream `{"a":1}x[1 , 2]@@ "s"#⏎1.5e3 $ true?`: five values in spellings jawk itself would not print
(`[1 , 2]`, `1.5e3`), garbage touching the object, the array, the string and `true`, and a number delimited by a
space. -/

theorem ex_obj : Ser.Ser (.obj [(['a'], .num (.pos 1))]) (123 :: ([] ++ ((34 :: (([97] ++ []) ++ [34])) ++
    ([] ++ 58 :: ([] ++ ([49] ++ []))) ++ [125]))) :=
  Ser.Ser.obj (w := []) (by decide)
    (Ser.Members.one (w1 := []) (w2 := []) (w3 := [])
      (Ser.Ser.str (Ser.StrBody.cons (Ser.StrItem.raw 'a' (by decide) (by decide) (by decide)) Ser.StrBody.nil))
      (by decide) (by decide)
      (Ser.Ser.num (t := ⟨false, [49], none, none⟩) (by decide) (by decide +kernel)) (by decide))
    (by decide)

theorem ex_arr : Ser.Ser (.arr [.num (.pos 1), .num (.pos 2)]) (91 :: ([] ++ (([49] ++ ([32] ++ 44 :: ([32] ++
    ([50] ++ [])))) ++ [93]))) :=
  Ser.Ser.arr (w := []) (by decide)
    (Ser.Elems.cons (w1 := [32]) (w2 := [32])
      (Ser.Ser.num (t := ⟨false, [49], none, none⟩) (by decide) (by decide +kernel)) (by decide) (by decide)
      (Ser.Elems.one (w := []) (Ser.Ser.num (t := ⟨false, [50], none, none⟩) (by decide) (by decide +kernel))
        (by decide)))

theorem ex_s : Ser.Ser (.str ['s']) (34 :: (([115] ++ []) ++ [34])) :=
  Ser.Ser.str (Ser.StrBody.cons (Ser.StrItem.raw 's' (by decide) (by decide) (by decide)) Ser.StrBody.nil)

/-- `1.5e3`: a fraction and an exponent; its value is the integer `1500` -/
theorem ex_1500 : Ser.Ser (.num (.pos 1500)) [49, 46, 53, 101, 51] :=
  Ser.Ser.num (t := ⟨false, [49], some [53], some ⟨false, none, [51]⟩⟩) (by decide) (by decide +kernel)

/-- `{"a":1}x[1 , 2]@@ "s"#⏎1.5e3 $ true?` -/
def exItems2 : List Item :=
  [ ⟨.obj [(['a'], .num (.pos 1))], [123, 34, 97, 34, 58, 49, 125], { toks := [([120], [])] }⟩,
    ⟨.arr [.num (.pos 1), .num (.pos 2)], [91, 49, 32, 44, 32, 50, 93], { toks := [([64, 64], [32])] }⟩,
    ⟨.str ['s'], [34, 115, 34], { toks := [([35], [10])] }⟩,
    ⟨.num (.pos 1500), [49, 46, 53, 101, 51], { ws := [32], toks := [([36], [32])] }⟩,
    ⟨.bool true, [116, 114, 117, 101], { toks := [([63], [])] }⟩ ]

example : stream2 {} exItems2 = utf8 "{\"a\":1}x[1 , 2]@@ \"s\"#\n1.5e3 $ true?".toList := by decide
example : stream2 ({} : Gap).blank (blankItems exItems2)
    = utf8 "{\"a\":1} [1 , 2]   \"s\" \n1.5e3   true ".toList := by decide
example : stream2 ({} : Gap).strip (stripItems2 exItems2)
    = utf8 "{\"a\":1}[1 , 2] \"s\"\n1.5e3  true".toList := by decide
example : garbageCount2 {} exItems2 = 6 ∧ noisyGaps2 {} exItems2 = 5 := by decide
example : firstGarbage2 {} exItems2 = some 120 ∧ cleanPrefix2 {} exItems2 = [.obj [(['a'], .num (.pos 1))]] :=
  ⟨rfl, rfl⟩

theorem gapOK_of (g : Gap) (h1 : g.ws.all isWs = true)
    (h2 : g.toks.all (fun t => !t.1.isEmpty && t.1.all Garbage && t.2.all isWs) = true) : g.OK := by
  constructor
  · intro b hb
    exact List.all_eq_true.mp h1 b hb
  · intro t ht
    have := List.all_eq_true.mp h2 t ht
    simp only [Bool.and_eq_true, Bool.not_eq_true', List.all_eq_true, List.isEmpty_eq_false_iff] at this
    exact ⟨this.1.1, this.1.2, this.2⟩

theorem exItems2_ok : ItemsOK2 exItems2 := by
  refine ⟨ex_obj, gapOK_of _ rfl rfl, True.intro, ex_arr, gapOK_of _ rfl rfl, True.intro,
    ex_s, gapOK_of _ rfl rfl, True.intro, ex_1500, gapOK_of _ rfl rfl, ?_,
    Ser.Ser.true, gapOK_of _ rfl rfl, True.intro, True.intro⟩
  intro b hb
  have : b = 32 := by simpa [stream2, Gap.bytes, eq_comm] using hb
  subst this
  decide

theorem exSpec_ok : (⟨none, {}, exItems2⟩ : StreamSpec2).OK := ⟨emptyGap_ok, exItems2_ok⟩

/-- the stripped twin of the example is well formed too (the only number is followed by a space) -/
example : SepWs exItems2 := by
  refine ⟨.inr (.inr (by intro n h; cases h)), .inr (.inr (by intro n h; cases h)),
    .inr (.inr (by intro n h; cases h)), .inl (by decide), .inr (.inl rfl), True.intro⟩

/-- the example stream yields its five values, whatever their spelling, and exactly six recoverable errors -/
example (c : Cfg) (hc : c.onlyObjectsAndArrays = false) (name : Option Str) :
    (ctxsOf c 40 (Reader.ofBytes (stream2 {} exItems2) name) 0 0).map (·.input)
      = [.obj [(['a'], .num (.pos 1))], .arr [.num (.pos 1), .num (.pos 2)], .str ['s'], .num (.pos 1500),
          .bool true] ∧
    (perrsOf 40 (Reader.ofBytes (stream2 {} exItems2) name)).length = 6 := by
  have h := noise_transparent2 (fun _ _ => none) c [] [] {} exItems2 emptyGap_ok exItems2_ok name 40 40
    (by decide) (by decide) 0 0
  rw [applyOnlyObj_off c hc] at h
  exact ⟨h.1, h.2.2.2.1⟩

/-- under `panic` the default chain fails at the `x` that touches the object, having been fed that object -/
example (orc : Oracles) : ∃ loc,
    (run orc panicCfg [(⟨none, {}, exItems2⟩ : StreamSpec2).source] {} {}).result
      = .error (.json (.unexpectedChar loc 120 valueExpected)) := by
  obtain ⟨pre, _, h2, _⟩ := run_panic_noisy2 orc panicCfg ⟨none, {}, exItems2⟩ exSpec_ok {} {}
    defaultPipeline rfl (build_panicCfg orc) (fun c hc => by cases hc) ⟨rfl, rfl⟩ (fun h => h)
  obtain ⟨loc, hl, _⟩ := h2 120 rfl (feedBrk_nil_chain _ _)
  exact ⟨loc, hl⟩

/-- the default run prints the five values in jawk's own spelling: `[1 , 2]` as `[1, 2]`, `1.5e3` as `1500` -/
example (orc : Oracles) :
    (run orc {} [(⟨none, {}, exItems2⟩ : StreamSpec2).source] {} {}).stdout
      = utf8 "{\"a\": 1}\n[1, 2]\n\"s\"\n1500\ntrue\n".toList := by
  rw [(noise_default_same_output2 orc ⟨none, {}, exItems2⟩ exSpec_ok {} {} ⟨rfl, rfl⟩).2.2.1]
  decide +kernel

/-- non-vacuity of the run-level theorems: `exampleCfg` (`-f .b -s .a -o .a --skip 1 -t 2`, policy `ignore`) and
the same under `stderr` satisfy every hypothesis, for any well-formed streams — e.g. the example stream -/
example (orc : Oracles) (specs : List StreamSpec2) (hok : ∀ s ∈ specs, s.OK) :
    (run orc exampleCfg (specs.map StreamSpec2.source) {} {}).stdout
      = (run orc exampleCfg (specs.map (fun s => s.blank.source)) {} {}).stdout :=
  (noise_ignore_same_output2 orc exampleCfg specs {} {} examplePipeline hok rfl (build_example orc)
    (examplePipeline_noAbort orc) (examplePipeline_posIndep orc) ⟨rfl, rfl⟩ (fun h => h)).2.2.1

def stderrCfg : Cfg := { exampleCfg with onError := .stderr }

theorem build_stderrCfg (orc : Oracles) : build orc stderrCfg = .ok examplePipeline := rfl

example (orc : Oracles) (specs : List StreamSpec2) (hok : ∀ s ∈ specs, s.OK) :
    (run orc stderrCfg (specs.map StreamSpec2.source) {} {}).stdout
      = (run orc stderrCfg (specs.map (fun s => s.blank.source)) {} {}).stdout :=
  (noise_stderr_same_output2 orc stderrCfg specs {} {} examplePipeline hok rfl (build_stderrCfg orc)
    (examplePipeline_noAbort orc) (examplePipeline_posIndep orc) ⟨rfl, rfl⟩ ⟨rfl, rfl⟩ (fun h => h)).2.2.1

example : ∀ s ∈ [(⟨none, {}, exItems2⟩ : StreamSpec2)], s.OK := by
  intro s hs
  simp only [List.mem_singleton] at hs
  subst hs
  exact exSpec_ok

/-- non-vacuity of `clean_no_reports2`: the blanked twin of the example is well formed and clean; so is the
stripped twin -/
example : (⟨none, {}, exItems2⟩ : StreamSpec2).blank.OK ∧ (⟨none, {}, exItems2⟩ : StreamSpec2).blank.Clean :=
  ⟨StreamSpec2.blank_OK exSpec_ok, StreamSpec2.blank_clean _⟩

/-! #### findings: why the hypotheses are what they are -/

/-- `1x2`: the garbage byte `x` touches the number `1` and the number `2` — allowed (`x` does not extend `1`) -/
def glueItems : List Item :=
  [⟨.num (.pos 1), [49], { toks := [([120], [])] }⟩, ⟨.num (.pos 2), [50], {}⟩]

theorem glueItems_ok : ItemsOK2 glueItems := by
  refine ⟨Ser.Ser.num (t := ⟨false, [49], none, none⟩) (by decide) (by decide +kernel), gapOK_of _ rfl rfl, ?_,
    Ser.Ser.num (t := ⟨false, [50], none, none⟩) (by decide) (by decide +kernel), emptyGap_ok, ?_, True.intro⟩
  · intro b hb
    have : b = 120 := by simpa [stream2, Gap.bytes, toksBytes, eq_comm] using hb
    subst this
    decide
  · intro b hb
    simp [stream2, Gap.bytes, toksBytes] at hb

/-- **strip_glues.**  DELETING the garbage of `1x2` gives `12`: one value, not two — the stripped twin is not well
formed and is read differently, while the blanked twin `1 2` is fine.  This is why the twin of the main theorems
replaces garbage by spaces, and why the stripped variants carry the hypothesis `ItemsOK2 (stripItems2 items)`. -/
theorem strip_glues :
    stream2 {} glueItems = [49, 120, 50] ∧
    stream2 ({} : Gap).strip (stripItems2 glueItems) = [49, 50] ∧
    stream2 ({} : Gap).blank (blankItems glueItems) = [49, 32, 50] ∧
    ¬ ItemsOK2 (stripItems2 glueItems) ∧
    (ctxsOf {} 5 (Reader.ofBytes [49, 120, 50] none) 0 0).map (·.input) = [.num (.pos 1), .num (.pos 2)] ∧
    (ctxsOf {} 5 (Reader.ofBytes [49, 32, 50] none) 0 0).map (·.input) = [.num (.pos 1), .num (.pos 2)] ∧
    (ctxsOf {} 5 (Reader.ofBytes [49, 50] none) 0 0).map (·.input) = [.num (.pos 12)] := by
  refine ⟨by decide, by decide, by decide, ?_, ?_, ?_, rfl⟩
  · intro h
    have := h.2.2.1 50 (by simp [stream2, Item.strip, Gap.strip, Gap.bytes, toksBytes])
    exact this.1 (by decide)
  · have h := noise_transparent2 (fun _ _ => none) {} [] [] {} glueItems emptyGap_ok glueItems_ok none 5 5
      (by decide) (by decide) 0 0
    exact h.1
  · have h := noise_transparent2 (fun _ _ => none) {} [] [] {} glueItems emptyGap_ok glueItems_ok none 5 5
      (by decide) (by decide) 0 0
    exact h.2.1

/-- **Finding (why `.`, `e`, `E` are excluded after a number).**  These three bytes are `Garbage` (they cannot
start a value) but are NOT noise when they touch a number text:
* `1.x` — the parser accepts `1.` as the number `1` (the point is swallowed with the number): the value survives,
  but the two garbage bytes `.`, `x` cost ONE error, not two;
* `1ex` — `1e` is a malformed number: the value `1` is LOST (two errors, no value). -/
theorem number_touched_by_dot_or_e :
    Garbage 46 = true ∧ Garbage 101 = true ∧ Garbage 69 = true ∧
    (ctxsOf {} 5 (Reader.ofBytes [49, 46, 120] none) 0 0).map (·.input) = [.num (.pos 1)] ∧
    (perrsOf 5 (Reader.ofBytes [49, 46, 120] none)).length = 1 ∧
    (ctxsOf {} 5 (Reader.ofBytes [49, 101, 120] none) 0 0).map (·.input) = [] ∧
    (perrsOf 5 (Reader.ofBytes [49, 101, 120] none)).length = 2 := by
  exact ⟨by decide, by decide, by decide, rfl, rfl, rfl, rfl⟩

end Jawk.Noise2

/- axiom audit (all ⊆ {propext, Classical.choice, Quot.sound}):
#print axioms Jawk.Noise2.stream_read2
#print axioms Jawk.Noise2.noise_transparent2
#print axioms Jawk.Noise2.noise_transparent2_strip
#print axioms Jawk.Noise2.noise_default_same_output2
#print axioms Jawk.Noise2.noise_ignore_same_output2
#print axioms Jawk.Noise2.noise_stderr_same_output2
#print axioms Jawk.Noise2.noise_stdout_same_rows2
#print axioms Jawk.Noise2.run_panic_noisy2
#print axioms Jawk.Noise2.clean_no_reports2
#print axioms Jawk.Noise2.blankItems_OK
#print axioms Jawk.Noise2.stripItems2_OK
#print axioms Jawk.Noise2.strip_glues
#print axioms Jawk.Noise2.number_touched_by_dot_or_e
-/
