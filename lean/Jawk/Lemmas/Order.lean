/-
  The total order of jawk values (property C07): `JV.cmp` (the model of
  `impl Ord for JsonValue`) is a total preorder presented as a three-way
  comparison, for ALL values.  Core Lean only.

  Plan: everything is built from three generic constructions on three-way
  comparisons, each preserving "total preorder on the elements satisfying `P`"
  (`TotalPreorderOn P cmp`):
    * pull-back along a function            (`TotalPreorderOn.pullback`)
    * lexicographic product `Ordering.then`  (`TotalPreorderOn.lexProd`)
    * lexicographic lift to lists            (`TotalPreorderOn.lexList`)
  `JV.cmp` is shown to be a lexicographic product of pull-backs
  (`cmp_eq_chain`), the array component being the list lift of `JV.cmp` itself;
  the recursion is resolved by induction on a bound of `sizeOf`.
-/
import Jawk.Model.Print
import Jawk.Spec.Sort
namespace Jawk

/-! ### Pure facts about `Ordering` triples -/
namespace Order

/-- `x = cmp a b`, `y = cmp b c`, `z = cmp a c` satisfy `≤`-transitivity in all six arrangements
(`cmp b a` etc. are expressed through `swap`). -/
def Consistent (x y z : Ordering) : Prop :=
  (x ≠ .gt → y ≠ .gt → z ≠ .gt) ∧            -- a b c
  (x.swap ≠ .gt → z ≠ .gt → y ≠ .gt) ∧       -- b a c
  (z ≠ .gt → y.swap ≠ .gt → x ≠ .gt) ∧       -- a c b
  (y ≠ .gt → z.swap ≠ .gt → x.swap ≠ .gt) ∧  -- b c a
  (z.swap ≠ .gt → x ≠ .gt → y.swap ≠ .gt) ∧  -- c a b
  (y.swap ≠ .gt → x.swap ≠ .gt → z.swap ≠ .gt) -- c b a

instance (x y z : Ordering) : Decidable (Consistent x y z) := by unfold Consistent; infer_instance

theorem Consistent.lt_le : ∀ {x y z : Ordering}, Consistent x y z → x = .lt → y ≠ .gt → z = .lt := by decide
theorem Consistent.le_lt : ∀ {x y z : Ordering}, Consistent x y z → x ≠ .gt → y = .lt → z = .lt := by decide
theorem Consistent.eq_eq : ∀ {x y z : Ordering}, Consistent x y z → x = .eq → y = .eq → z = .eq := by decide
theorem Consistent.eq_left : ∀ {x y z : Ordering}, Consistent x y z → x = .eq → z = y := by decide
theorem Consistent.eq_right : ∀ {x y z : Ordering}, Consistent x y z → y = .eq → z = x := by decide
theorem Consistent.gt_ge : ∀ {x y z : Ordering}, Consistent x y z → x = .gt → y ≠ .lt → z = .gt := by decide
theorem Consistent.ge_gt : ∀ {x y z : Ordering}, Consistent x y z → x ≠ .lt → y = .gt → z = .gt := by decide
theorem Consistent.ge_ge : ∀ {x y z : Ordering}, Consistent x y z → x ≠ .lt → y ≠ .lt → z ≠ .lt := by decide

/-- lexicographic product: transitivity of `≠ .gt` -/
theorem then_le_trans : ∀ {x₁ y₁ z₁ x₂ y₂ z₂ : Ordering}, Consistent x₁ y₁ z₁ →
    (x₂ ≠ .gt → y₂ ≠ .gt → z₂ ≠ .gt) →
    x₁.then x₂ ≠ .gt → y₁.then y₂ ≠ .gt → z₁.then z₂ ≠ .gt := by
  intro x₁ y₁ z₁ x₂ y₂ z₂
  cases x₁ <;> cases y₁ <;> cases z₁ <;> first
    | (intro h; exact absurd h (by decide))
    | (cases x₂ <;> cases y₂ <;> cases z₂ <;> decide)

end Order

/-! ### Total preorders relative to a predicate -/

/-- `cmp` restricted to the elements satisfying `P` is a total preorder. -/
structure TotalPreorderOn {α : Type} (P : α → Prop) (cmp : α → α → Ordering) : Prop where
  refl : ∀ a, P a → cmp a a = .eq
  swap : ∀ a b, P a → P b → cmp b a = (cmp a b).swap
  le_trans : ∀ a b c, P a → P b → P c → cmp a b ≠ .gt → cmp b c ≠ .gt → cmp a c ≠ .gt

theorem TotalPreorderCmp.on {α : Type} {cmp : α → α → Ordering} (h : TotalPreorderCmp cmp)
    (P : α → Prop) : TotalPreorderOn P cmp :=
  ⟨fun a _ => h.refl a, fun a b _ _ => h.swap a b, fun a b c _ _ _ => h.le_trans a b c⟩

theorem TotalPreorderOn.total {α : Type} {cmp : α → α → Ordering}
    (h : TotalPreorderOn (fun _ => True) cmp) : TotalPreorderCmp cmp :=
  ⟨fun a => h.refl a trivial, fun a b => h.swap a b trivial trivial,
   fun a b c => h.le_trans a b c trivial trivial trivial⟩

namespace TotalPreorderOn
variable {α β : Type} {P : α → Prop} {cmp : α → α → Ordering}

theorem mono {Q : α → Prop} (h : TotalPreorderOn Q cmp) (hPQ : ∀ a, P a → Q a) :
    TotalPreorderOn P cmp :=
  ⟨fun a ha => h.refl a (hPQ a ha), fun a b ha hb => h.swap a b (hPQ a ha) (hPQ b hb),
   fun a b c ha hb hc => h.le_trans a b c (hPQ a ha) (hPQ b hb) (hPQ c hc)⟩

theorem consistent (h : TotalPreorderOn P cmp) {a b c : α} (ha : P a) (hb : P b) (hc : P c) :
    Order.Consistent (cmp a b) (cmp b c) (cmp a c) := by
  unfold Order.Consistent
  rw [← h.swap a b ha hb, ← h.swap b c hb hc, ← h.swap a c ha hc]
  exact ⟨h.le_trans a b c ha hb hc, h.le_trans b a c hb ha hc, h.le_trans a c b ha hc hb,
    h.le_trans b c a hb hc ha, h.le_trans c a b hc ha hb, h.le_trans c b a hc hb ha⟩

/-- pull-back along `f : β → α` -/
theorem pullback {Q : β → Prop} (h : TotalPreorderOn P cmp) (f : β → α) (hf : ∀ b, Q b → P (f b)) :
    TotalPreorderOn Q (fun x y => cmp (f x) (f y)) :=
  ⟨fun a ha => h.refl _ (hf a ha), fun a b ha hb => h.swap _ _ (hf a ha) (hf b hb),
   fun a b c ha hb hc => h.le_trans _ _ _ (hf a ha) (hf b hb) (hf c hc)⟩

/-- lexicographic product -/
theorem lexProd {c₁ c₂ : α → α → Ordering} (h₁ : TotalPreorderOn P c₁) (h₂ : TotalPreorderOn P c₂) :
    TotalPreorderOn P (fun a b => (c₁ a b).then (c₂ a b)) where
  refl a ha := by simp only [h₁.refl a ha, h₂.refl a ha]; rfl
  swap a b ha hb := by simp only [h₁.swap a b ha hb, h₂.swap a b ha hb, Ordering.swap_then]
  le_trans a b c ha hb hc :=
    Order.then_le_trans (h₁.consistent ha hb hc) (h₂.le_trans a b c ha hb hc)

end TotalPreorderOn

/-! ### Lexicographic lift to lists -/

/-- lexicographic comparison of lists, the shorter list first on a common prefix -/
def lexList {α : Type} (cmp : α → α → Ordering) : List α → List α → Ordering
  | [], [] => .eq
  | [], _ :: _ => .lt
  | _ :: _, [] => .gt
  | a :: as, b :: bs => (cmp a b).then (lexList cmp as bs)

namespace TotalPreorderOn
variable {α : Type} {P : α → Prop} {cmp : α → α → Ordering}

theorem lexList_refl (h : TotalPreorderOn P cmp) :
    ∀ (l : List α), (∀ x ∈ l, P x) → Jawk.lexList cmp l l = .eq
  | [], _ => rfl
  | a :: as, hl => by
    have ha : P a := hl a (List.mem_cons_self ..)
    have ih := lexList_refl h as (fun x hx => hl x (List.mem_cons_of_mem _ hx))
    simp only [Jawk.lexList, h.refl a ha, ih]; rfl

theorem lexList_swap (h : TotalPreorderOn P cmp) :
    ∀ (l m : List α), (∀ x ∈ l, P x) → (∀ x ∈ m, P x) →
      Jawk.lexList cmp m l = (Jawk.lexList cmp l m).swap
  | [], [], _, _ => rfl
  | [], _ :: _, _, _ => rfl
  | _ :: _, [], _, _ => rfl
  | a :: as, b :: bs, hl, hm => by
    have ha : P a := hl a (List.mem_cons_self ..)
    have hb : P b := hm b (List.mem_cons_self ..)
    have ih := lexList_swap h as bs (fun x hx => hl x (List.mem_cons_of_mem _ hx))
      (fun x hx => hm x (List.mem_cons_of_mem _ hx))
    simp only [Jawk.lexList, h.swap a b ha hb, ih, Ordering.swap_then]

theorem lexList_le_trans (h : TotalPreorderOn P cmp) :
    ∀ (l m n : List α), (∀ x ∈ l, P x) → (∀ x ∈ m, P x) → (∀ x ∈ n, P x) →
      Jawk.lexList cmp l m ≠ .gt → Jawk.lexList cmp m n ≠ .gt → Jawk.lexList cmp l n ≠ .gt
  | [], _, [], _, _, _ => fun _ _ => by simp [Jawk.lexList]
  | [], _, _ :: _, _, _, _ => fun _ _ => by simp [Jawk.lexList]
  | _ :: _, [], _, _, _, _ => fun h1 _ => by simp [Jawk.lexList] at h1
  | _ :: _, _ :: _, [], _, _, _ => fun _ h2 => by simp [Jawk.lexList] at h2
  | a :: as, b :: bs, c :: cs, hl, hm, hn => by
    have ha : P a := hl a (List.mem_cons_self ..)
    have hb : P b := hm b (List.mem_cons_self ..)
    have hc : P c := hn c (List.mem_cons_self ..)
    have ih := lexList_le_trans h as bs cs (fun x hx => hl x (List.mem_cons_of_mem _ hx))
      (fun x hx => hm x (List.mem_cons_of_mem _ hx)) (fun x hx => hn x (List.mem_cons_of_mem _ hx))
    simp only [Jawk.lexList]
    exact Order.then_le_trans (h.consistent ha hb hc) ih

/-- the lexicographic lift of a total preorder (on `P`) is a total preorder (on lists of `P`s) -/
theorem lexList (h : TotalPreorderOn P cmp) :
    TotalPreorderOn (fun l : List α => ∀ x ∈ l, P x) (Jawk.lexList cmp) :=
  ⟨lexList_refl h, lexList_swap h, lexList_le_trans h⟩

end TotalPreorderOn

/-! ### Derived facts and constructions for `TotalPreorderCmp` -/
namespace TotalPreorderCmp
variable {α β : Type} {cmp : α → α → Ordering}

theorem consistent (h : TotalPreorderCmp cmp) (a b c : α) :
    Order.Consistent (cmp a b) (cmp b c) (cmp a c) :=
  (h.on (fun _ => True)).consistent trivial trivial trivial

theorem eq_symm (h : TotalPreorderCmp cmp) {a b : α} (hab : cmp a b = .eq) : cmp b a = .eq := by
  rw [h.swap a b, hab]; rfl

theorem eq_trans (h : TotalPreorderCmp cmp) {a b c : α} (hab : cmp a b = .eq) (hbc : cmp b c = .eq) :
    cmp a c = .eq := (h.consistent a b c).eq_eq hab hbc

theorem lt_of_lt_of_le (h : TotalPreorderCmp cmp) {a b c : α} (hab : cmp a b = .lt)
    (hbc : cmp b c ≠ .gt) : cmp a c = .lt := (h.consistent a b c).lt_le hab hbc

theorem lt_of_le_of_lt (h : TotalPreorderCmp cmp) {a b c : α} (hab : cmp a b ≠ .gt)
    (hbc : cmp b c = .lt) : cmp a c = .lt := (h.consistent a b c).le_lt hab hbc

theorem lt_trans (h : TotalPreorderCmp cmp) {a b c : α} (hab : cmp a b = .lt)
    (hbc : cmp b c = .lt) : cmp a c = .lt := h.lt_of_lt_of_le hab (by simp [hbc])

theorem gt_of_gt_of_ge (h : TotalPreorderCmp cmp) {a b c : α} (hab : cmp a b = .gt)
    (hbc : cmp b c ≠ .lt) : cmp a c = .gt := (h.consistent a b c).gt_ge hab hbc

theorem gt_of_ge_of_gt (h : TotalPreorderCmp cmp) {a b c : α} (hab : cmp a b ≠ .lt)
    (hbc : cmp b c = .gt) : cmp a c = .gt := (h.consistent a b c).ge_gt hab hbc

theorem ge_trans (h : TotalPreorderCmp cmp) {a b c : α} (hab : cmp a b ≠ .lt)
    (hbc : cmp b c ≠ .lt) : cmp a c ≠ .lt := (h.consistent a b c).ge_ge hab hbc

/-- congruence in the left argument: equivalent elements compare alike -/
theorem congr_left (h : TotalPreorderCmp cmp) {a b : α} (hab : cmp a b = .eq) (c : α) :
    cmp a c = cmp b c := (h.consistent a b c).eq_left hab

/-- congruence in the right argument -/
theorem congr_right (h : TotalPreorderCmp cmp) {a b : α} (hab : cmp a b = .eq) (c : α) :
    cmp c a = cmp c b := ((h.consistent c a b).eq_right hab).symm

theorem lt_iff_gt (h : TotalPreorderCmp cmp) {a b : α} : cmp a b = .lt ↔ cmp b a = .gt := by
  rw [h.swap a b]; cases cmp a b <;> decide

theorem ne_gt_iff (h : TotalPreorderCmp cmp) {a b : α} : cmp a b ≠ .gt ↔ cmp b a ≠ .lt := by
  rw [h.swap a b]; cases cmp a b <;> decide

/-- pull-back of a total preorder along any function -/
theorem pullback (h : TotalPreorderCmp cmp) (f : β → α) :
    TotalPreorderCmp (fun x y => cmp (f x) (f y)) :=
  ((h.on (fun _ => True)).pullback (Q := fun _ => True) f (fun _ _ => trivial)).total

/-- lexicographic product of two total preorders -/
theorem lexProd {c₁ c₂ : α → α → Ordering} (h₁ : TotalPreorderCmp c₁) (h₂ : TotalPreorderCmp c₂) :
    TotalPreorderCmp (fun a b => (c₁ a b).then (c₂ a b)) :=
  ((h₁.on (fun _ => True)).lexProd (h₂.on _)).total

/-- lexicographic lift of a total preorder to lists -/
theorem lexList (h : TotalPreorderCmp cmp) : TotalPreorderCmp (Jawk.lexList cmp) :=
  ((h.on (fun _ => True)).lexList.mono (fun _ _ _ _ => trivial)).total

end TotalPreorderCmp

theorem lexList_eq_iff {α : Type} {cmp : α → α → Ordering} (hc : ∀ a b, cmp a b = .eq ↔ a = b) :
    ∀ (l m : List α), lexList cmp l m = .eq ↔ l = m
  | [], [] => by simp [lexList]
  | [], _ :: _ => by simp [lexList]
  | _ :: _, [] => by simp [lexList]
  | a :: as, b :: bs => by
    simp only [lexList, Ordering.then_eq_eq, hc, lexList_eq_iff hc as bs, List.cons.injEq]

namespace Order

/-! ### Base orders: `compare` on `Nat` and `Int` -/

theorem compareNat_total_preorder : TotalPreorderCmp (compare : Nat → Nat → Ordering) where
  refl a := Nat.compare_eq_eq.mpr rfl
  swap a b := (Nat.compare_swap a b).symm
  le_trans a b c := by simp only [Nat.compare_ne_gt]; exact Nat.le_trans

theorem compareInt_total_preorder : TotalPreorderCmp (compare : Int → Int → Ordering) where
  refl a := Int.compare_eq_eq.mpr rfl
  swap a b := (Int.compare_swap a b).symm
  le_trans a b c := by simp only [Int.compare_ne_gt]; exact Int.le_trans

/-! ### Strings -/

/-- comparison of characters by code point -/
def cmpChar (a b : Char) : Ordering := compare a.toNat b.toNat

theorem cmpChar_total_preorder : TotalPreorderCmp cmpChar :=
  compareNat_total_preorder.pullback Char.toNat

theorem cmpChar_eq_iff (a b : Char) : cmpChar a b = .eq ↔ a = b := by
  unfold cmpChar; rw [Nat.compare_eq_eq, Char.toNat_inj]

theorem cmpStr_eq_lexList : ∀ (a b : Str), cmpStr a b = lexList cmpChar a b
  | [], [] => rfl
  | [], _ :: _ => rfl
  | _ :: _, [] => rfl
  | a :: as, b :: bs => by
    simp only [cmpStr, lexList, cmpStr_eq_lexList as bs, cmpChar]
    cases compare a.toNat b.toNat <;> rfl

theorem cmpStr_total_preorder : TotalPreorderCmp cmpStr := by
  have : cmpStr = lexList cmpChar := funext fun a => funext fun b => cmpStr_eq_lexList a b
  rw [this]; exact cmpChar_total_preorder.lexList

theorem cmpStr_refl (a : Str) : cmpStr a a = .eq := cmpStr_total_preorder.refl a

theorem cmpStr_eq_iff (a b : Str) : cmpStr a b = .eq ↔ a = b := by
  rw [cmpStr_eq_lexList]; exact lexList_eq_iff cmpChar_eq_iff a b

theorem cmpStr_swap (a b : Str) : cmpStr b a = (cmpStr a b).swap := cmpStr_total_preorder.swap a b

theorem cmpStr_le_trans (a b c : Str) : cmpStr a b ≠ .gt → cmpStr b c ≠ .gt → cmpStr a c ≠ .gt :=
  cmpStr_total_preorder.le_trans a b c

/-- `cmpStr` is a linear order: distinct strings are strictly ordered one way or the other -/
theorem cmpStr_lt_or_gt_of_ne {a b : Str} (h : a ≠ b) : cmpStr a b = .lt ∨ cmpStr a b = .gt := by
  have := mt (cmpStr_eq_iff a b).mp h
  cases hc : cmpStr a b <;> simp_all

theorem cmpStrList_eq_lexList : ∀ (a b : List Str), cmpStrList a b = lexList cmpStr a b
  | [], [] => rfl
  | [], _ :: _ => rfl
  | _ :: _, [] => rfl
  | a :: as, b :: bs => by
    simp only [cmpStrList, lexList, cmpStrList_eq_lexList as bs]
    cases cmpStr a b <;> rfl

theorem cmpStrList_total_preorder : TotalPreorderCmp cmpStrList := by
  have : cmpStrList = lexList cmpStr := funext fun a => funext fun b => cmpStrList_eq_lexList a b
  rw [this]; exact cmpStr_total_preorder.lexList

theorem cmpStrList_refl (a : List Str) : cmpStrList a a = .eq := cmpStrList_total_preorder.refl a

theorem cmpStrList_eq_iff (a b : List Str) : cmpStrList a b = .eq ↔ a = b := by
  rw [cmpStrList_eq_lexList]; exact lexList_eq_iff cmpStr_eq_iff a b

theorem cmpStrList_swap (a b : List Str) : cmpStrList b a = (cmpStrList a b).swap :=
  cmpStrList_total_preorder.swap a b

theorem cmpStrList_le_trans (a b c : List Str) :
    cmpStrList a b ≠ .gt → cmpStrList b c ≠ .gt → cmpStrList a c ≠ .gt :=
  cmpStrList_total_preorder.le_trans a b c

/-! ### Numbers -/

theorem totalCmp_total_preorder : TotalPreorderCmp F64.totalCmp :=
  compareInt_total_preorder.pullback F64.totalKey

theorem numCmp_total_preorder : TotalPreorderCmp Num.cmp :=
  totalCmp_total_preorder.pullback Num.toF64

/-! ### `JV.cmp` as a lexicographic product of pull-backs -/

def boolKey : JV → Nat
  | .bool b => b.toNat
  | _ => 0

def strKey : JV → Str
  | .str s => s
  | _ => []

def numKey : JV → Num
  | .num n => n
  | _ => .pos 0

def objKey : JV → List (Str × JV)
  | .obj kvs => kvs
  | _ => []

def arrKey : JV → List JV
  | .arr vs => vs
  | _ => []

/-- the comparison of two objects: (number of members, sorted key list, display string) -/
def objCmp (a b : List (Str × JV)) : Ordering :=
  (compare a.length b.length).then
    ((cmpStrList (sortStrs (a.map (·.1))) (sortStrs (b.map (·.1)))).then
      (cmpStr (JV.display (.obj a)) (JV.display (.obj b))))

theorem objCmp_total_preorder : TotalPreorderCmp objCmp :=
  (compareNat_total_preorder.pullback List.length).lexProd
    ((cmpStrList_total_preorder.pullback (fun a : List (Str × JV) => sortStrs (a.map (·.1)))).lexProd
      (cmpStr_total_preorder.pullback (fun a : List (Str × JV) => JV.display (.obj a))))

theorem cmpList_eq_lexList : ∀ (a b : List JV), JV.cmpList a b = lexList JV.cmp a b
  | [], [] => by simp [JV.cmpList, lexList]
  | [], _ :: _ => by simp [JV.cmpList, lexList]
  | _ :: _, [] => by simp [JV.cmpList, lexList]
  | a :: as, b :: bs => by
    simp only [JV.cmpList, lexList, cmpList_eq_lexList as bs]
    cases JV.cmp a b <;> rfl

theorem cmp_obj (a b : List (Str × JV)) : JV.cmp (.obj a) (.obj b) = objCmp a b := by
  simp only [JV.cmp, objCmp]
  cases compare a.length b.length <;> first | rfl | (cases cmpStrList _ _ <;> rfl)

/-- the chain of components `JV.cmp` runs through -/
def chain (a b : JV) : Ordering :=
  (compare a.rank b.rank).then <|
  (compare (boolKey a) (boolKey b)).then <|
  (cmpStr (strKey a) (strKey b)).then <|
  (Num.cmp (numKey a) (numKey b)).then <|
  (objCmp (objKey a) (objKey b)).then <|
  lexList JV.cmp (arrKey a) (arrKey b)

theorem then_eq_right (o : Ordering) : Ordering.eq.then o = o := rfl

theorem cmp_eq_chain (a b : JV) : JV.cmp a b = chain a b := by
  have hn : Num.cmp (.pos 0) (.pos 0) = .eq := numCmp_total_preorder.refl _
  have ho : objCmp [] [] = .eq := objCmp_total_preorder.refl _
  have hl : lexList JV.cmp [] [] = .eq := rfl
  have hs : cmpStr [] [] = .eq := rfl
  have hz : compare (0 : Nat) 0 = .eq := rfl
  cases a <;> cases b <;>
    simp only [chain, JV.rank, boolKey, strKey, numKey, objKey, arrKey, hn, ho, hl, hs, hz,
      Nat.compare_eq_eq.mpr, Ordering.then_eq, then_eq_right, cmp_obj, ← cmpList_eq_lexList] <;>
    first
      | rfl
      | simp only [JV.cmp, JV.rank]
      | (simp only [JV.cmp]; cases compare _ _ <;> rfl)
      | (simp only [JV.cmp]; cases cmpStr _ _ <;> rfl)
      | (simp only [JV.cmp]; cases Num.cmp _ _ <;> rfl)
      | (simp only [JV.cmp]; cases objCmp _ _ <;> rfl)

/-! ### The main theorem -/

theorem sizeOf_lt_of_mem_arrKey {a x : JV} (hx : x ∈ arrKey a) : sizeOf x < sizeOf a := by
  cases a <;> simp only [arrKey, List.not_mem_nil] at hx
  have := List.sizeOf_lt_of_mem hx
  simp only [JV.arr.sizeOf_spec]; omega

/-- `JV.cmp` is a total preorder on the values of size below `n` -/
theorem cmp_total_preorder_on : ∀ n : Nat, TotalPreorderOn (fun a : JV => sizeOf a < n) JV.cmp
  | 0 => ⟨fun _ h => absurd h (Nat.not_lt_zero _), fun _ _ h => absurd h (Nat.not_lt_zero _),
          fun _ _ _ h => absurd h (Nat.not_lt_zero _)⟩
  | n + 1 => by
    have ih := cmp_total_preorder_on n
    have harr : TotalPreorderOn (fun a : JV => sizeOf a < n + 1)
        (fun a b => lexList JV.cmp (arrKey a) (arrKey b)) :=
      ih.lexList.pullback arrKey (fun a ha x hx => by
        have := sizeOf_lt_of_mem_arrKey hx
        show sizeOf x < n
        omega)
    have hchain : TotalPreorderOn (fun a : JV => sizeOf a < n + 1) chain :=
      ((compareNat_total_preorder.pullback JV.rank).on _).lexProd <|
      ((compareNat_total_preorder.pullback boolKey).on _).lexProd <|
      ((cmpStr_total_preorder.pullback strKey).on _).lexProd <|
      ((numCmp_total_preorder.pullback numKey).on _).lexProd <|
      ((objCmp_total_preorder.pullback objKey).on _).lexProd harr
    have : JV.cmp = chain := funext fun a => funext fun b => cmp_eq_chain a b
    rw [this]; exact hchain

/-- **C07**: `JV.cmp` is a total preorder on ALL values. -/
theorem cmp_total_preorder : TotalPreorderCmp JV.cmp where
  refl a := (cmp_total_preorder_on (sizeOf a + 1)).refl a (Nat.lt_succ_self _)
  swap a b := (cmp_total_preorder_on (sizeOf a + sizeOf b + 1)).swap a b
    (show sizeOf a < _ by omega) (show sizeOf b < _ by omega)
  le_trans a b c := (cmp_total_preorder_on (sizeOf a + sizeOf b + sizeOf c + 1)).le_trans a b c
    (show sizeOf a < _ by omega) (show sizeOf b < _ by omega) (show sizeOf c < _ by omega)

theorem cmp_refl (a : JV) : JV.cmp a a = .eq := cmp_total_preorder.refl a
theorem cmp_swap (a b : JV) : JV.cmp b a = (JV.cmp a b).swap := cmp_total_preorder.swap a b
theorem cmp_le_trans (a b c : JV) : JV.cmp a b ≠ .gt → JV.cmp b c ≠ .gt → JV.cmp a c ≠ .gt :=
  cmp_total_preorder.le_trans a b c

/-- `Vec<JsonValue>::cmp` is a total preorder as well -/
theorem cmpList_total_preorder : TotalPreorderCmp JV.cmpList := by
  have : JV.cmpList = lexList JV.cmp := funext fun a => funext fun b => cmpList_eq_lexList a b
  rw [this]; exact cmp_total_preorder.lexList

theorem cmpList_refl (a : List JV) : JV.cmpList a a = .eq := cmpList_total_preorder.refl a
theorem cmpList_swap (a b : List JV) : JV.cmpList b a = (JV.cmpList a b).swap :=
  cmpList_total_preorder.swap a b
theorem cmpList_le_trans (a b c : List JV) :
    JV.cmpList a b ≠ .gt → JV.cmpList b c ≠ .gt → JV.cmpList a c ≠ .gt :=
  cmpList_total_preorder.le_trans a b c

/-! ### The order of types, and the same-type comparisons -/

theorem rank_order {a b : JV} (h : a.rank < b.rank) : JV.cmp a b = .lt := by
  rw [cmp_eq_chain, chain, Nat.compare_eq_lt.mpr h]; rfl

theorem rank_order_gt {a b : JV} (h : b.rank < a.rank) : JV.cmp a b = .gt := by
  rw [cmp_eq_chain, chain, Nat.compare_eq_gt.mpr h]; rfl

/-- values that compare `.eq` have the same type -/
theorem rank_eq_of_cmp_eq {a b : JV} (h : JV.cmp a b = .eq) : a.rank = b.rank := by
  rw [cmp_eq_chain, chain, Ordering.then_eq_eq] at h
  exact Nat.compare_eq_eq.mp h.1

/-- `JV.cmp a b ≠ .gt` implies the type of `a` does not come after the type of `b` -/
theorem rank_le_of_cmp_ne_gt {a b : JV} (h : JV.cmp a b ≠ .gt) : a.rank ≤ b.rank := by
  apply Nat.le_of_not_lt
  intro hlt
  exact h (rank_order_gt hlt)

theorem cmp_null_null : JV.cmp .null .null = .eq := rfl
theorem cmp_bool (a b : Bool) : JV.cmp (.bool a) (.bool b) = compare a.toNat b.toNat := by
  simp only [JV.cmp]
theorem cmp_str (a b : Str) : JV.cmp (.str a) (.str b) = cmpStr a b := by simp only [JV.cmp]
theorem cmp_num (a b : Num) : JV.cmp (.num a) (.num b) = Num.cmp a b := by simp only [JV.cmp]
theorem cmp_arr (a b : List JV) : JV.cmp (.arr a) (.arr b) = JV.cmpList a b := by simp only [JV.cmp]

/-- arrays compare lexicographically, element-wise by `JV.cmp`, a proper prefix first -/
theorem cmp_arr_lex (a b : List JV) : JV.cmp (.arr a) (.arr b) = lexList JV.cmp a b := by
  rw [cmp_arr, cmpList_eq_lexList]

theorem cmp_arr_nil_nil : JV.cmp (.arr []) (.arr []) = .eq := by simp only [JV.cmp, JV.cmpList]
theorem cmp_arr_nil_cons (y : JV) (ys : List JV) : JV.cmp (.arr []) (.arr (y :: ys)) = .lt := by
  simp only [JV.cmp, JV.cmpList]
theorem cmp_arr_cons_nil (x : JV) (xs : List JV) : JV.cmp (.arr (x :: xs)) (.arr []) = .gt := by
  simp only [JV.cmp, JV.cmpList]
theorem cmp_arr_cons_cons (x y : JV) (xs ys : List JV) :
    JV.cmp (.arr (x :: xs)) (.arr (y :: ys)) = (JV.cmp x y).then (JV.cmp (.arr xs) (.arr ys)) := by
  rw [cmp_arr_lex, cmp_arr_lex]; rfl

/-- strings inside `JV` are linearly ordered: `.eq` only for equal strings -/
theorem cmp_str_eq_iff (a b : Str) : JV.cmp (.str a) (.str b) = .eq ↔ a = b := by
  rw [cmp_str]; exact cmpStr_eq_iff a b

/-! the documented type order `null < false < true < string < number < object < array` -/
theorem null_lt_bool (b : Bool) : JV.cmp .null (.bool b) = .lt := rank_order (by simp [JV.rank])
theorem false_lt_true : JV.cmp (.bool false) (.bool true) = .lt := by decide
theorem bool_lt_str (b : Bool) (s : Str) : JV.cmp (.bool b) (.str s) = .lt := rank_order (by simp [JV.rank])
theorem str_lt_num (s : Str) (n : Num) : JV.cmp (.str s) (.num n) = .lt := rank_order (by simp [JV.rank])
theorem num_lt_obj (n : Num) (o : List (Str × JV)) : JV.cmp (.num n) (.obj o) = .lt :=
  rank_order (by simp [JV.rank])
theorem obj_lt_arr (o : List (Str × JV)) (a : List JV) : JV.cmp (.obj o) (.arr a) = .lt :=
  rank_order (by simp [JV.rank])
/-- … and by transitivity any earlier type is below any later type, e.g.: -/
theorem null_lt_arr (a : List JV) : JV.cmp .null (.arr a) = .lt := rank_order (by simp [JV.rank])
theorem bool_lt_num (b : Bool) (n : Num) : JV.cmp (.bool b) (.num n) = .lt := rank_order (by simp [JV.rank])
theorem str_lt_obj (s : Str) (o : List (Str × JV)) : JV.cmp (.str s) (.obj o) = .lt :=
  rank_order (by simp [JV.rank])

/-- objects: fewer members first, then by sorted key list, then by display string -/
theorem cmp_obj_length_lt {a b : List (Str × JV)} (h : a.length < b.length) :
    JV.cmp (.obj a) (.obj b) = .lt := by
  rw [cmp_obj, objCmp, Nat.compare_eq_lt.mpr h]; rfl

/-! ### Non-vacuity: concrete evaluations -/

example : JV.cmp (.num (.pos 2)) (.num (.pos 10)) = .lt := by decide
example : JV.cmp (.num (.neg (-3))) (.num (.pos 0)) = .lt := by decide
example : JV.cmp (.str "10".toList) (.str "2".toList) = .lt := by decide
example : JV.cmp (.str "b".toList) (.str "ab".toList) = .gt := by decide
example : JV.cmp (.bool true) (.bool false) = .gt := by decide
example : JV.cmp (.arr [.null, .bool true]) (.arr [.null, .bool true, .null]) = .lt := by decide
example : JV.cmp (.arr [.str "a".toList]) (.arr [.bool true, .bool true]) = .gt := by decide
example : JV.cmp (.obj [("a".toList, .null)]) (.obj []) = .gt := by decide
example : JV.cmp (.obj [("a".toList, .null)]) (.obj [("b".toList, .null)]) = .lt := by decide
example : JV.cmp (.obj [("a".toList, .bool true)]) (.obj [("a".toList, .bool false)]) = .gt := by
  decide
example : JV.cmp (.arr [.obj []]) (.arr [.arr []]) = .lt := by decide
/-- `cmp_le_trans` on a concrete chain with all hypotheses satisfied -/
example : JV.cmp .null (.arr []) ≠ .gt :=
  cmp_le_trans .null (.str []) (.arr []) (by decide) (by decide)

end Order
end Jawk

-- #print axioms Jawk.Order.cmp_total_preorder
-- #print axioms Jawk.Order.cmpList_total_preorder
-- #print axioms Jawk.Order.cmpStr_total_preorder
-- #print axioms Jawk.Order.cmpStrList_total_preorder
-- #print axioms Jawk.Order.numCmp_total_preorder
-- #print axioms Jawk.Order.rank_order
