/-
  Basic rewriting lemmas for the parser monads `PM` / `EM` and the reader primitives.
-/
import Jawk.Model.Expr
namespace Jawk
open Reader

@[simp] theorem PM.pure_apply {α} (a : α) (r : Reader) : (pure a : PM α) r = (.ok a, r) := rfl

@[simp] theorem PM.bind_apply {α β} (m : PM α) (f : α → PM β) (r : Reader) :
    (m >>= f) r = match m r with
      | (.ok a, r') => f a r'
      | (.error e, r') => (.error e, r') := rfl

@[simp] theorem PM.fail_apply {α} (e : PErr) (r : Reader) : (PM.fail e : PM α) r = (.error e, r) := rfl

@[simp] theorem locErr_apply {α} (mk : Loc → PErr) (r : Reader) : (locErr mk : PM α) r = (.error (mk r.loc), r) := rfl

@[simp] theorem EM.pure_apply {α} (a : α) (r : Reader) : (pure a : EM α) r = (.ok a, r) := rfl

@[simp] theorem EM.bind_apply {α β} (m : EM α) (f : α → EM β) (r : Reader) :
    (m >>= f) r = match m r with
      | (.ok a, r') => f a r'
      | (.error e, r') => (.error e, r') := rfl

/-- `peek` with a current byte returns it and leaves the reader alone -/
theorem peek_of_cur (r : Reader) (b : Byte) (h : r.cur = some b) : Reader.peek r = (.ok (some b), r) := by
  simp [Reader.peek, h]

/-- `peek` without a current byte is `next` -/
theorem peek_of_no_cur (r : Reader) (h : r.cur = none) : Reader.peek r = Reader.next r := by
  simp [Reader.peek, h]

/-- `eat_whitespace` stops at once on a byte that is not white space -/
theorem eatWhitespace_of_nonws (fuel : Nat) (r r1 : Reader) (b : Byte)
    (hp : Reader.peek r = (.ok (some b), r1)) (hws : isWs b = false) :
    eatWhitespace (fuel + 1) r = (.ok (), r1) := by
  simp [eatWhitespace, hp, hws]

end Jawk
