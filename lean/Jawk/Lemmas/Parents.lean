/-
  The chain of enclosing inputs (`Context::parent_inputs`, `Context::parent_input(count)`, `with_inupt`):
  what `^`, `^^`, … read at every nesting depth, and that a caret count beyond the chain falls back to the
  current input instead of failing.
-/
import Jawk.Model.Eval
namespace Jawk.Parents
open Jawk

/-- no caret: the input itself -/
theorem parentInput_zero (c : Ctx) : c.parentInput 0 = c.input := by
  simp [Ctx.parentInput]

/-- `k` carets inside the chain: the `k`-th enclosing input, innermost first -/
theorem parentInput_inside (c : Ctx) (k : Nat) (h : k < c.parents.length) :
    c.parentInput (k + 1) = c.parents[k] := by
  simp [Ctx.parentInput, h]

/-- MORE carets than enclosing inputs: the current input (total: no count makes the look-up fail) -/
theorem parentInput_excess (c : Ctx) (count : Nat) (h : c.parents.length < count) :
    c.parentInput count = c.input := by
  unfold Ctx.parentInput
  have h0 : count ≠ 0 := by omega
  have h1 : c.parents.length ≤ count - 1 := by omega
  simp [h0, List.getElem?_eq_none h1]

/-- hence every count reads the input or one of the enclosing inputs -/
theorem parentInput_mem (c : Ctx) (count : Nat) :
    c.parentInput count = c.input ∨ c.parentInput count ∈ c.parents := by
  unfold Ctx.parentInput
  by_cases h0 : count = 0
  · simp [h0]
  · simp only [h0, if_false]
    cases h : c.parents[count - 1]? with
    | none => left; rfl
    | some v => right; simpa using List.mem_of_getElem? h

/-- entering a nested evaluation (`map`, `filter`, a pipe stage, …): one caret is the input that was current, … -/
theorem withInput_one (c : Ctx) (v : JV) : (c.withInput v).parentInput 1 = c.input := by
  simp [Ctx.parentInput, Ctx.withInput]

/-- … and `k + 1` carets inside are what `k` carets were outside, as long as the chain is that long -/
theorem withInput_succ (c : Ctx) (v : JV) (k : Nat) (h : k ≤ c.parents.length) (hk : 0 < k) :
    (c.withInput v).parentInput (k + 1) = c.parentInput k := by
  cases k with
  | zero => omega
  | succ j =>
    have hj : j < c.parents.length := by omega
    simp [Ctx.parentInput, Ctx.withInput, hj]

/-- beyond the chain the fall-back is the NEW current input (not the old one) -/
theorem withInput_excess (c : Ctx) (v : JV) (count : Nat) (h : c.parents.length + 1 < count) :
    (c.withInput v).parentInput count = v := by
  have := parentInput_excess (c.withInput v) count (by simpa [Ctx.withInput] using h)
  simpa [Ctx.withInput] using this

variable (orc : Oracles)

/-- the evaluator on `^…^.path`: never an abort, whatever the number of carets -/
theorem eval_extract (fuel : Nat) (parents : Nat) (steps : List Step) (ctx : Ctx) :
    eval orc (fuel + 1) (.extract parents steps) ctx = .ok (extractSteps steps (ctx.parentInput parents)) := by
  simp [eval]

theorem eval_extract_excess (fuel : Nat) (parents : Nat) (steps : List Step) (ctx : Ctx)
    (h : ctx.parents.length < parents) :
    eval orc (fuel + 1) (.extract parents steps) ctx = .ok (extractSteps steps ctx.input) := by
  rw [eval_extract, parentInput_excess ctx parents h]

/-- three levels deep: `^` `^^` `^^^` are the three enclosing inputs, `^^^^` and beyond the innermost input again -/
example (c : Ctx) (hc : c.parents = []) (a b d : JV) :
    let n := ((c.withInput a).withInput b).withInput d
    n.parentInput 0 = d ∧ n.parentInput 1 = b ∧ n.parentInput 2 = a ∧ n.parentInput 3 = c.input ∧
    n.parentInput 4 = d ∧ n.parentInput 9 = d := by
  simp [Ctx.parentInput, Ctx.withInput, hc]

end Jawk.Parents
